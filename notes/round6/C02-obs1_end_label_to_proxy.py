"""
Observation on the UNCHANGED tree (property C02).

An end-of-block label of a block that is NOT deleted turns into a reference to
an external proxy block when (a) code is inserted at the end of that block,
(b) the following block is deleted with retarget_to_proxy, and (c) the module
has no function information for the blocks (RewritingContext(m, [])), so
are_joinable() refuses to join the split-off empty tail ("blocks are not in
the same function") and remove_block() slides the end label onto the next
block, which is then retargeted to a proxy.
"""
import sys
import gtirb
import gtirb_rewriting
from gtirb_test_helpers import (
    add_code_block, add_edge, add_symbol, add_text_section, create_test_module,
)
from helpers import literal_patch

ir, m = create_test_module(gtirb.Module.FileFormat.ELF, gtirb.Module.ISA.X64)
_, bi = add_text_section(m, address=0x1000)
b = add_code_block(bi, b"\x90")
n = add_code_block(bi, b"\xfc")
add_edge(ir.cfg, b, n, gtirb.EdgeType.Fallthrough)
b_end = add_symbol(m, "b_end", b)
b_end.at_end = True
add_symbol(m, "n", n)

ctx = gtirb_rewriting.RewritingContext(m, [])
ctx.insert_at(b, b.size, literal_patch("stc"))
ctx.delete_at(n, 0, n.size, retarget_to_proxy=True)
ctx.apply()

print("contents:", bi.contents.hex())
r = b_end.referent
print("b_end ->", type(r).__name__, "at_end" if b_end.at_end else "")
if not isinstance(r, gtirb.ByteBlock):
    print("VIOLATION: end label of the surviving block b became a proxy reference")
    sys.exit(1)
addr = r.address + (r.size if b_end.at_end else 0)
if addr != 0x1002:
    print("VIOLATION: b_end at", hex(addr), "expected 0x1002")
    sys.exit(1)
