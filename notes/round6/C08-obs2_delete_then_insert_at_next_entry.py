import sys
from copy import copy

import gtirb
from gtirb_capstone.instructions import GtirbInstructionDecoder
from gtirb_test_helpers import (
    add_code_block,
    add_edge,
    add_proxy_block,
    add_text_section,
    create_test_module,
    set_all_blocks_alignment,
)
from helpers import add_function_object, literal_patch

from gtirb_rewriting import RewritingContext
from gtirb_rewriting._auxdata import NULL_UUID
from gtirb_rewriting.dwarf.cfi_eval import (
    CFIStateError,
    evaluate_cfi_directives,
)

# --------------------------------------------------------------------------
# Property oracle: the unwind state in effect at every instruction, computed
# with the library's own CFI evaluator over all code blocks of the module.
# --------------------------------------------------------------------------


def D(name, *args):
    return (name, list(args), NULL_UUID)


def _row(row):
    return (row.cfa, tuple(sorted(row.registers.items())))


def _ptr(p):
    return None if p is None else (int(p.encoding), p.symbol.name)


def _norm(state):
    """A comparable value for a ProcedureState (None: outside a procedure)."""
    if state is None:
        return None
    return {
        "return_column": state.return_column,
        "personality": _ptr(state.personality),
        "lsda": _ptr(state.lsda),
        "current": _row(state.current),
        "initial": _row(state.initial),
        "save_stack": tuple(_row(r) for r in state.save_stack),
    }


def unwind_table(m):
    """
    Evaluates the module's CFI directives and returns
      ({instruction bytes: [state, ...]}, number of procedures).
    Raises CFIStateError if the directives do not evaluate cleanly or a
    procedure is not closed.
    """
    blocks = sorted(m.code_blocks, key=lambda b: (b.address, b.size))
    events = []
    state = None
    for block, off, state in evaluate_cfi_directives(m, blocks):
        events.append((block.address + off, _norm(state)))
    if state is not None:
        raise CFIStateError("a CFI procedure is never closed")

    table = m.aux_data["cfiDirectives"].data
    live = set(blocks)
    starts = ends = 0
    for offset, directives in table.items():
        if offset.element_id in live:
            starts += sum(1 for d in directives if d[0] == ".cfi_startproc")
            ends += sum(1 for d in directives if d[0] == ".cfi_endproc")
    if starts != ends:
        raise CFIStateError(f"{starts} .cfi_startproc vs {ends} .cfi_endproc")

    decoder = GtirbInstructionDecoder(m.isa)
    result = {}
    for block in blocks:
        for insn in decoder.get_instructions(block):
            st = None
            for addr, s in events:
                if addr > insn.address:
                    break
                st = s
            result.setdefault(bytes(insn.bytes), []).append(st)
    return result, starts


def state_of(table, insn_bytes):
    states = table.get(insn_bytes)
    assert states is not None, f"instruction {insn_bytes.hex()} not found"
    assert len(states) == 1, f"instruction {insn_bytes.hex()} is not unique"
    return states[0]


def show(m):
    table = m.aux_data["cfiDirectives"].data
    for b in sorted(m.code_blocks, key=lambda b: (b.address, b.size)):
        ds = {
            k.displacement: [(d[0], d[1]) for d in v]
            for k, v in table.items()
            if k.element_id is b
        }
        print(f"    {b.address:#x} {b.contents.hex():<24} {ds}")


# Observation 2 (UNCHANGED tree): delete the last block of procedure fa and,
# in the same rewrite, insert a patch at the entry (offset 0) of the next
# function fc. The .cfi_endproc of fa is re-homed to offset 0 of fc's block,
# and the later split at offset 0 moves "[endproc, startproc, ...]" behind
# the patch: the inserted code (now fc's entry point) is covered by fa's
# procedure with fa's state (CFA rsp+16) instead of by fc's procedure with
# fc's entry state (CFA rsp+8).
ir, m = create_test_module(gtirb.Module.FileFormat.ELF, gtirb.Module.ISA.X64)
_, bi = add_text_section(m, address=0x1000)
a1 = add_code_block(bi, b"\x55")  # push rbp
a2 = add_code_block(bi, b"\x5d\xc3")  # pop rbp; ret
c1 = add_code_block(bi, b"\x53\x5b\xc2\x08\x00")  # push rbx; pop rbx; ret 8
add_edge(ir.cfg, a1, a2, gtirb.Edge.Type.Fallthrough)
add_edge(ir.cfg, a2, add_proxy_block(m), gtirb.Edge.Type.Return)
add_edge(ir.cfg, c1, add_proxy_block(m), gtirb.Edge.Type.Return)
fa = add_function_object(m, "fa", a1, {a2})
fc = add_function_object(m, "fc", c1)
set_all_blocks_alignment(m, 1)
m.aux_data["cfiDirectives"].data = {
    gtirb.Offset(a1, 0): [D(".cfi_startproc"), D(".cfi_def_cfa", 7, 8)],
    gtirb.Offset(a1, 1): [D(".cfi_def_cfa_offset", 16)],
    gtirb.Offset(a2, 1): [D(".cfi_def_cfa_offset", 8)],
    gtirb.Offset(a2, 2): [D(".cfi_endproc")],
    gtirb.Offset(c1, 0): [D(".cfi_startproc"), D(".cfi_def_cfa", 7, 8)],
    gtirb.Offset(c1, 1): [D(".cfi_def_cfa_offset", 16)],
    gtirb.Offset(c1, 2): [D(".cfi_def_cfa_offset", 8)],
    gtirb.Offset(c1, 5): [D(".cfi_endproc")],
}
before, _ = unwind_table(m)
ctx = RewritingContext(m, [fa, fc])
ctx.delete_at(a2, 0, a2.size)
ctx.insert_at(c1, 0, literal_patch("nop"))
ctx.apply()
after, _ = unwind_table(m)
show(m)
entry = state_of(before, b"\x53")  # state at fc's entry before
nop = state_of(after, b"\x90")
print("state at fc entry before:", entry["current"][0])
print("state at inserted nop   :", nop["current"][0])
sys.exit(0 if nop["current"] == entry["current"] else 1)
