"""
Reproduces two things the UNCHANGED tree does that do not match C17.
Run: cd /tmp/seed6/C17 && PYTHONPATH=/tmp/seed6/C17/src:/tmp/seed6/C17/tests /venv/bin/python /tmp/seed6/out/C17/obs_repro.py
"""
import capstone
import gtirb
import gtirb_rewriting
from gtirb_rewriting.assembler import Assembler
from gtirb_rewriting.assembly import X86Syntax
from gtirb_rewriting.patches import CallPatch
from gtirb_test_helpers import (
    add_code_block, add_proxy_block, add_symbol, add_text_section,
    create_test_module,
)

MODES = {
    gtirb.Module.ISA.X64: capstone.CS_MODE_64,
    gtirb.Module.ISA.IA32: capstone.CS_MODE_32,
}

for isa, ff in (
    (gtirb.Module.ISA.X64, gtirb.Module.FileFormat.ELF),
    (gtirb.Module.ISA.X64, gtirb.Module.FileFormat.PE),
    (gtirb.Module.ISA.IA32, gtirb.Module.FileFormat.PE),
):
    _, m = create_test_module(ff, isa)
    _, bi = add_text_section(m, 0x1000)
    block = add_code_block(bi, b"\x90")
    callee = add_symbol(m, "callee", add_proxy_block(m))
    data = add_symbol(m, "data", add_proxy_block(m))
    ctx = gtirb_rewriting.InsertionContext(m, None, block, 0)
    nregs = len(gtirb_rewriting.abi.ABI.get(m).calling_convention().registers)

    # 1. symbol arguments: one in a register (if any), one on the stack
    asm = CallPatch(callee, [data] * (nregs + 1)).get_asm(ctx)
    a = Assembler(m)
    a.assemble(asm, X86Syntax.INTEL)
    code = a.finalize().text_section.data
    print(f"== {isa.name}/{ff.name}: symbol arguments")
    for insn in capstone.Cs(capstone.CS_ARCH_X86, MODES[isa]).disasm(code, 0):
        print("   ", insn.mnemonic, insn.op_str)
    print("   -> 'qword/dword ptr [...]' operands: the callee receives the"
          " 8/4 bytes stored AT the symbol, not the symbol's address")

    # 2. 64-bit integer that has to go on the stack
    if isa == gtirb.Module.ISA.X64:
        asm = CallPatch(callee, [0] * nregs + [0x123456789]).get_asm(ctx)
        try:
            a = Assembler(m)
            a.assemble(asm, X86Syntax.INTEL)
            print("assembled?!")
        except Exception as e:
            print(f"== {isa.name}/{ff.name}: stack argument 0x123456789 ->",
                  type(e).__name__, e)
