"""
Reproduces, on the UNCHANGED tree, three situations in which the code around a
patch is not transparent.  Run with
  cd /tmp/seed6/C16 && PYTHONPATH=/tmp/seed6/C16/src:/tmp/seed6/C16/tests /venv/bin/python /tmp/seed6/out/C16/observations_repro.py
"""
import sys
import types

if "gtirb_rewriting.version" not in sys.modules:
    _v = types.ModuleType("gtirb_rewriting.version")
    _v.__version__ = _v.version = "0"
    sys.modules["gtirb_rewriting.version"] = _v

import gtirb
import gtirb_functions
from gtirb_test_helpers import (
    add_code_block,
    add_edge,
    add_proxy_block,
    add_symbol,
    add_text_section,
    create_test_module,
    set_all_blocks_alignment,
)
from helpers import add_function_object

import gtirb_rewriting
from gtirb_rewriting import Constraints

RZ_SKIP = b"\x48\x8d\x64\x24\x80"  # lea -0x80(%rsp),%rsp


def patch(asm, **kw):
    return gtirb_rewriting.Patch.from_function(lambda c: asm, Constraints(**kw))


def obs1():
    # align_stack without clobbers_flags: the align snippet's
    # 'andq $-0x10,%rsp' changes the flags and nothing restores them.
    abi = gtirb_rewriting.abi._X86_64_ELF()
    c = Constraints(align_stack=True)
    pro, epi, _ = abi._create_prologue_and_epilogue(
        c, abi._allocate_patch_registers(c), True
    )
    text = "\n".join(s.code for s in pro)
    print("obs1: prologue for Constraints(align_stack=True):")
    print(text)
    print(
        "obs1: contains andq (writes flags):", "andq" in text,
        "; saves flags:", "pushf" in text,
    )


def obs2():
    # A block that belongs to a leaf and to a non-leaf function: which one
    # decides depends on the order of the functions list.
    for leaf_first in (True, False):
        ir, m = create_test_module(
            gtirb.Module.FileFormat.ELF, gtirb.Module.ISA.X64
        )
        _, bi = add_text_section(m, address=0x1000)
        callee = add_symbol(m, "callee", add_proxy_block(m))
        e1 = add_code_block(bi, b"\xEB\x05")  # jmp shared
        e2 = add_code_block(bi, b"\xE8\x00\x00\x00\x00")
        shared = add_code_block(bi, b"\xC3")
        add_edge(ir.cfg, e1, shared, gtirb.Edge.Type.Branch)
        add_edge(ir.cfg, e2, callee.referent, gtirb.Edge.Type.Call)
        add_edge(ir.cfg, e2, shared, gtirb.Edge.Type.Fallthrough)
        leaf = add_function_object(m, "leaf", e1, {shared})
        nonleaf = add_function_object(m, "nonleaf", e2, {shared})
        set_all_blocks_alignment(m, 1)
        funcs = [leaf, nonleaf] if leaf_first else [nonleaf, leaf]
        ctx = gtirb_rewriting.RewritingContext(m, funcs)
        ctx.insert_at(shared, 0, patch("ud2", clobbers_registers={"rax"}))
        ctx.apply()
        code = bytes(bi.contents)
        print(
            f"obs2: functions={[f.get_name() for f in funcs]}: {code.hex()} ->",
            "red zone skipped" if RZ_SKIP in code
            else "push into the red zone of 'leaf'",
        )


def obs3():
    # leafFunctions only learns about functions that are passed to a
    # RewritingContext.  A leaf function first *seen* after an earlier pass
    # (run without function information) inserted a call into it is recorded
    # as non-leaf, although its original code may use the red zone.
    ir, m = create_test_module(
        gtirb.Module.FileFormat.ELF, gtirb.Module.ISA.X64
    )
    _, bi = add_text_section(m, address=0x1000)
    add_symbol(m, "foo", add_proxy_block(m))
    b1 = add_code_block(bi, b"\xC3")
    add_function_object(m, "leaf_func", b1)
    set_all_blocks_alignment(m, 1)
    ctx = gtirb_rewriting.RewritingContext(m, [])
    ctx.insert_at(b1, 0, patch("call foo", clobbers_registers={"rax"}))
    ctx.apply()
    set_all_blocks_alignment(m, 1)
    funcs = gtirb_functions.Function.build_functions(m)
    ctx = gtirb_rewriting.RewritingContext(m, funcs)
    entry = next(iter(funcs[0].get_entry_blocks()))
    ctx.insert_at(entry, 0, patch("ud2", clobbers_registers={"rbx"}))
    ctx.apply()
    code = bytes(bi.contents)
    print(
        "obs3: second pass starts with", code[:4].hex(),
        "(push rbx; ud2; pop rbx) ->",
        "red zone skipped" if code.startswith(RZ_SKIP)
        else "push into the red zone of the original leaf",
        "; leafFunctions =", list(m.aux_data["leafFunctions"].data.values()),
    )


obs1()
obs2()
obs3()
