import io
from gtirb_rewriting.dwarf.cfi import Instruction, parse_cfi_instructions
from gtirb_rewriting.dwarf.expr import Operation

# 1. nested block whose operation overruns the declared block length
data = bytes.fromhex("1001020304050607")  # DW_CFA_expression r1, block len 2, DW_OP_addr ...
obj, n = Instruction.decode(io.BytesIO(data), "little", 4)
print(obj, n, bytes(obj.encode("little", 4)).hex(), "input", data[:n].hex())

# 2. truncated input is not rejected
print(Operation.decode(io.BytesIO(b"\x0e\x01"), "little", 8))   # OpConst8U(1), 9 "consumed" of 2
print(Instruction.decode(io.BytesIO(b""), "little", 8))          # InstNop, 1 "consumed" of 0
try:
    list(parse_cfi_instructions(b"\x0e", "little", 8))
except EOFError as exc:
    print("EOFError (not ValueError) for truncated LEB128 operand")
