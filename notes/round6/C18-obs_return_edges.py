"""
Observation (unchanged tree): return edges do not follow a retargeted call.

main:  call A ; (next) ret        A: ret  (returns to `next`)     B: ret (returns to a proxy)
After retargeting A -> B the call edge leads to B, but A's return block still
has its return edge to `next` and B's return block does not return to `next`.
Exits 1 when the statement's return-edge clause is violated.
"""
import sys
import uuid

import gtirb
from gtirb_test_helpers import (
    add_code_block, add_edge, add_proxy_block,
    add_symbol, add_text_section, create_test_module,
)

from helpers import add_function_object

from gtirb_rewriting import RewritingContext

ir, m = create_test_module(gtirb.Module.FileFormat.ELF, gtirb.Module.ISA.X64)
_, bi = add_text_section(m, address=0x1000)
sym_a = add_symbol(m, "A")
sym_b = add_symbol(m, "B")
sym_main = add_symbol(m, "main")
caller = add_code_block(
    bi, b"\xe8\x00\x00\x00\x00", {(1, 4): gtirb.SymAddrConst(0, sym_a)}
)
nxt = add_code_block(bi, b"\xc3")
blk_a = add_code_block(bi, b"\xc3")
blk_b = add_code_block(bi, b"\xc3")
sym_main.referent = caller
sym_a.referent = blk_a
sym_b.referent = blk_b
add_function_object(m, sym_main, caller, {nxt})
add_function_object(m, sym_a, blk_a)
add_function_object(m, sym_b, blk_b)
add_edge(ir.cfg, caller, blk_a, gtirb.EdgeType.Call)
add_edge(ir.cfg, caller, nxt, gtirb.EdgeType.Fallthrough)
add_edge(ir.cfg, nxt, add_proxy_block(m), gtirb.EdgeType.Return)
add_edge(ir.cfg, blk_a, nxt, gtirb.EdgeType.Return)
add_edge(ir.cfg, blk_b, add_proxy_block(m), gtirb.EdgeType.Return)

ctx = RewritingContext(m, [])
ctx.retarget_symbol_uses(sym_a, sym_b)
ctx.apply()

bad = []
if any(e.target is nxt and e.label.type == gtirb.EdgeType.Return
       for e in blk_a.outgoing_edges):
    bad.append("A's function still returns to the call site after the call was retargeted to B")
if not any(e.target is nxt and e.label.type == gtirb.EdgeType.Return
           for e in blk_b.outgoing_edges):
    bad.append("B's function does not return to the call site that now calls it")
for b in bad:
    print(b)
sys.exit(1 if bad else 0)
