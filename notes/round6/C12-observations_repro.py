"""
Reproduces, on the UNCHANGED tree, the behaviours listed in observations.md.
Run with PYTHONPATH=<worktree>/src:<worktree>/tests.
"""
import gtirb
from gtirb_test_helpers import add_proxy_block, add_symbol, create_test_module

import gtirb_rewriting
from gtirb_rewriting import Assembler, X86Syntax

X64 = gtirb.Module.ISA.X64
IA32 = gtirb.Module.ISA.IA32
MIPS = gtirb.Module.ISA.MIPS32


def mk(isa=X64):
    _, m = create_test_module(
        gtirb.Module.FileFormat.ELF, isa, binary_type=["DYN"]
    )
    add_symbol(m, "ext", add_proxy_block(m))
    return m


def run(title, fn):
    try:
        print(f"{title}: {fn()}")
    except BaseException as e:  # AssertionError included
        print(f"{title}: {type(e).__name__}: {e}")


def two_calls(text):
    a = Assembler(mk())
    a.assemble(text)
    a.assemble(text)
    return "ok, %d blocks" % len(a.finalize().text_section.blocks)


def one(text, isa=X64):
    a = Assembler(mk(isa))
    a.assemble(text)
    r = a.finalize()
    s = r.text_section
    return {
        "blocks": [(type(b).__name__, b.offset, b.size) for b in s.blocks],
        "exprs": {
            o: (getattr(e, "symbol", None) and e.symbol.name,
                getattr(e, "offset", None), sorted(a.name for a in e.attributes))
            for o, e in s.symbolic_expressions.items()
        },
    }


run("1a. 'jmp .' in two assemble() calls", lambda: two_calls("jmp .\n"))
run("1b. '1: jmp 1b' in two assemble() calls", lambda: two_calls("1:\njmp 1b\n"))
run("2.  section with no flags", lambda: one('.section .cmt,"",@progbits\n.byte 1\n'))
run("3a. IA32 'callw *%ax'", lambda: one("callw *%ax\n", IA32))
run("3b. MIPS 'jalr.hb $t9'", lambda: one("jalr.hb $t9\nnop\n", MIPS))
run("4a. '.quad foo-4'", lambda: one("ret\nfoo:\n.quad foo-4\n"))
run("4b. 'lea foo-8(%rip), %rax'", lambda: one("lea foo-8(%rip), %rax\nfoo:\n"))
run("4c. (control) '.quad foo+4'", lambda: one("ret\nfoo:\n.quad foo+4\n"))
run("5.  memory-indirect 'call *ext(%rip)' / 'jmp *ext(%rip)' attrs",
    lambda: one("call *ext(%rip)\njmp *ext(%rip)\n")["exprs"])
run("6.  MIPS delay slot of 'jr $ra'",
    lambda: one(".set noreorder\njr $ra\naddiu $sp, $sp, 8\n", MIPS)["blocks"])
