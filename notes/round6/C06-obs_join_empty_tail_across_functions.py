import gtirb, gtirb_rewriting
from gtirb_rewriting._modify import *
from gtirb_test_helpers import *
from helpers import add_function_object, literal_patch
import sys
sys.path.insert(0, "/tmp/seed6/out/C06")
from exp1util import dump

ir, m = create_test_module(gtirb.Module.FileFormat.ELF, gtirb.Module.ISA.X64)
_, bi = add_text_section(m, address=0x1000)
b1 = add_code_block(bi, b"\x50\xC3")
foo = add_function_object(m, "foo", b1)
add_edge(ir.cfg, b1, add_proxy_block(m), gtirb.Edge.Type.Return)
b2 = add_code_block(bi, b"\x51\xC3")
bar = add_function_object(m, "bar", b2)   # note: symbol bar refers to b2
add_edge(ir.cfg, b2, add_proxy_block(m), gtirb.Edge.Type.Return)
with make_modify_cache(m, [foo, bar]) as cache:
    _, tail, _ = split_block(cache, b1, b1.size)
    print(are_joinable(cache, tail, b2))
    try:
        join_blocks(cache, tail, b2)
    except Exception as e: print(repr(e))
dump(m)
