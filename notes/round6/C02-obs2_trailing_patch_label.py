"""
Observation on the UNCHANGED tree (property C02, clause "labels defined by a
patch designate their position inside the spliced patch").

Two patches are inserted at the same position (the end of block b).  The first
one ends in a label:   stc ; pl:     The second one is:   clc
The listing is  nop ; stc ; pl: ; clc  so pl should resolve to 0x1002 (right
behind stc).  The library puts pl behind the second patch (0x1003): the label
at the end of the first patch lands on the split-off tail / the end of the
block, and the second insertion at "end of block" goes in front of it.
Arguably ambiguous (an end label "follows anything inserted at its end"), so
it is only recorded here.
"""
import sys
import gtirb
import gtirb_rewriting
from gtirb_test_helpers import (
    add_code_block, add_symbol, add_text_section, create_test_module,
)
from helpers import add_function_object, literal_patch

ir, m = create_test_module(gtirb.Module.FileFormat.ELF, gtirb.Module.ISA.X64)
_, bi = add_text_section(m, address=0x1000)
b = add_code_block(bi, b"\x90")
func = add_function_object(m, "f", b)
ctx = gtirb_rewriting.RewritingContext(m, [func])
ctx.insert_at(b, b.size, literal_patch("stc\npl:"))
ctx.insert_at(b, b.size, literal_patch("clc"))
ctx.apply()
pl = next(s for s in m.symbols if s.name.startswith("pl"))
r = pl.referent
addr = r.address + (r.size if pl.at_end else 0)
print("contents", bi.contents.hex(), "pl at", hex(addr))
if addr != 0x1002:
    print("pl does not follow 'stc' (expected 0x1002)")
    sys.exit(1)
