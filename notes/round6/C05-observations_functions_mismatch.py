"""
Unchanged tree: RewritingContext is given functions=[] although the module's
functionBlocks/functionEntries tables describe a function; deleting one of
that function's blocks leaves the removed block in functionBlocks.
"""
import sys
import gtirb
import gtirb_rewriting
from gtirb_test_helpers import (add_code_block, add_symbol, add_text_section, create_test_module, add_edge, add_function)

ir, m = create_test_module(gtirb.Module.FileFormat.ELF, gtirb.Module.ISA.X64)
_, bi = add_text_section(m, address=0x1000)
b1 = add_code_block(bi, b"\x90")
b2 = add_code_block(bi, b"\xC3")
add_edge(ir.cfg, b1, b2, gtirb.EdgeType.Fallthrough)
sym = add_symbol(m, "f", b1)
fid = add_function(m, sym, b1, {b2})

ctx = gtirb_rewriting.RewritingContext(m, [])   # no Function objects passed
ctx.delete_at(b2, 0, b2.size)
ctx.apply()
live = set(m.byte_blocks)
dangling = [b for b in m.aux_data["functionBlocks"].data[fid] if b not in live]
print("functionBlocks:", m.aux_data["functionBlocks"].data[fid])
print("dangling:", dangling)
sys.exit(1 if dangling else 0)
