import sys
from collections import Counter
import gtirb
from gtirb_test_helpers import (add_code_block, add_edge, add_proxy_block,
    add_text_section, create_test_module, set_all_blocks_alignment)
from helpers import add_function_object, literal_patch
import gtirb_rewriting

ir, m = create_test_module(gtirb.Module.FileFormat.ELF, gtirb.Module.ISA.X64)
_, bi = add_text_section(m, address=0x1000)
b = add_code_block(bi, b"\x50\x51\xC3")
func = add_function_object(m, "func", b)
add_edge(ir.cfg, b, add_proxy_block(m), gtirb.Edge.Type.Return)
set_all_blocks_alignment(m, 1)

for rnd in range(2):
    ctx = gtirb_rewriting.RewritingContext(m, [func])
    blk = next(iter(sorted(m.code_blocks, key=lambda x: x.address)))
    ctx.insert_at(blk, 1, literal_patch("jne .Lskip; nop; .Lskip: nop"))
    ctx.apply()

names = Counter(s.name for s in m.symbols)
dups = {n: c for n, c in names.items() if c > 1}
print("symbols:", sorted(names.items()))
for off, e in sorted(bi.symbolic_expressions.items()):
    print(off, [ (s.name, id(s)) for s in e.symbols])
if dups:
    print("DUPLICATE SYMBOL NAMES:", dups)
    sys.exit(1)
