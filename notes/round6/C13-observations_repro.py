"""Reproduces, on the UNCHANGED tree, inputs on which C13 (as stated) does not hold."""
import gtirb
import gtirb_rewriting
from gtirb_test_helpers import add_code_block, add_text_section, create_test_module
from helpers import add_function_object


def mk(nblocks=3):
    ir, m = create_test_module(
        gtirb.Module.FileFormat.ELF, gtirb.Module.ISA.X64, binary_type=["DYN"]
    )
    _, bi = add_text_section(m, address=0x1000)
    blocks = [add_code_block(bi, b"\x90\xc3") for _ in range(nblocks)]
    func = add_function_object(m, "main", blocks[0], set(blocks[1:]))
    return m, bi, blocks, func


def summary(res):
    return {
        name: (
            s.data,
            [(type(b).__name__, b.offset, b.size) for b in s.blocks],
            {k: [x.name for x in v.symbols] for k, v in s.symbolic_expressions.items()},
        )
        for name, s in res.sections.items()
    }


def run(chunks):
    m, *_ = mk()
    a = gtirb_rewriting.Assembler(m)
    for c in chunks:
        a.assemble(c)
    return summary(a.finalize())


print("O1 chunk ending in .data; next chunk restarts in .text")
print("   chunked:", run([".data\n.byte 1\n", ".byte 2\n"]))
print("   whole  :", run([".data\n.byte 1\n.byte 2\n"]))

print("O2 constant defined in an earlier chunk is not folded in a later one")
print("   chunked:", run(["foo = 5\n", "movl $foo, %eax\n"]))
print("   whole  :", run(["foo = 5\nmovl $foo, %eax\n"]))

print("O3 labels .Lretry/.Lretry_2, third copy of the patch is rejected")
ASM = ".Lretry:\ndecq %rax\njnz .Lretry\n.Lretry_2:\ndecq %rcx\njnz .Lretry_2\n"


@gtirb_rewriting.patch_constraints()
def patch(ctx):
    return ASM


m, bi, blocks, func = mk(3)
ctx = gtirb_rewriting.RewritingContext(m, [func])
for b in blocks:
    ctx.insert_at(b, 0, gtirb_rewriting.Patch.from_function(patch))
try:
    ctx.apply()
    print("   applied fine")
except gtirb_rewriting.MultipleDefinitionsError as exc:
    print("   MultipleDefinitionsError:", exc)

print("O4 two RewritingContexts (e.g. two passes) on one module restart the suffix")


@gtirb_rewriting.patch_constraints()
def patch2(ctx):
    return ".Lskip:\nnop\n"


m, bi, blocks, func = mk(2)
for b in blocks:
    ctx = gtirb_rewriting.RewritingContext(m, [func])
    ctx.insert_at(b, 0, gtirb_rewriting.Patch.from_function(patch2))
    ctx.apply()
print("   symbol names:", sorted(s.name for s in m.symbols))
