"""
Observation on the UNCHANGED tree (not one of the three mutations).

Which of two same-named symbols a patch refers to is decided by the address
of the referent *at the time the patch is assembled*.  In the middle of a
batch every original block sits in its own byte interval whose address is
fixed, so a block created by an earlier patch has an address that already
overlaps the following intervals; after a one-at-a-time application the module
has been laid out again and the order of the addresses is the real one.
Batch and sequential application therefore pick different symbols.
"""
import re
import sys

import gtirb
import gtirb_functions
from gtirb_test_helpers import (
    add_code_block,
    add_data_block,
    add_data_section,
    add_edge,
    add_function,
    add_proxy_block,
    add_symbol,
    add_text_section,
    create_test_module,
    set_all_blocks_alignment,
)

import gtirb_rewriting


def literal_patch(asm):
    @gtirb_rewriting.patch_constraints()
    def patch(ctx):
        return asm

    return gtirb_rewriting.Patch.from_function(patch)


def norm_name(name):
    # temporary labels get a per-patch numeric suffix; ignore it
    return re.sub(r"_\d+$", "", name) if name.startswith(".L") else name


def canonical(m):
    """
    A dump of the module that does not mention UUIDs: blocks are named by
    (section, address, size, kind), proxies by the symbols that refer to them.
    """
    sym_names = {}
    for s in m.symbols:
        if s.referent is not None:
            sym_names.setdefault(s.referent, []).append(norm_name(s.name))

    def loc(node):
        if node is None:
            return None
        if isinstance(node, gtirb.ProxyBlock):
            return ("proxy", tuple(sorted(sym_names.get(node, []))))
        if node.byte_interval is None or node.module is not m:
            return ("NOT-IN-MODULE", type(node).__name__, node.size)
        return (node.section.name, node.address - base[node.section],
                node.size, type(node).__name__)

    # addresses are reported relative to the start of the section
    base = {
        sect: min((bi.address for bi in sect.byte_intervals), default=0)
        for sect in m.sections
    }

    out = {}
    for sect in m.sections:
        data = b""
        blocks = []
        exprs = []
        for bi in sorted(sect.byte_intervals,
                         key=lambda b: (b.address, b.size)):
            data += bytes(bi.contents)
            for b in bi.blocks:
                blocks.append((b.address - base[sect], b.size,
                               type(b).__name__))
            for off, e in bi.symbolic_expressions.items():
                exprs.append((bi.address + off - base[sect],
                              type(e).__name__,
                              tuple(norm_name(s.name) for s in e.symbols),
                              getattr(e, "offset", None),
                              tuple(sorted(str(a) for a in e.attributes))))
        out["section " + sect.name] = {
            "bytes": data.hex(),
            "blocks": sorted(blocks),
            "symbolic expressions": sorted(exprs),
        }
    out["symbols"] = sorted(
        (norm_name(s.name), loc(s.referent),
         s.at_end if s.referent is not None else None)
        for s in m.symbols
    )
    out["cfg"] = sorted(
        (loc(e.source), loc(e.target),
         (e.label.type.name, e.label.conditional, e.label.direct)
         if e.label else None)
        for e in m.ir.cfg
    )
    names = (m.aux_data["functionNames"].data
             if "functionNames" in m.aux_data else {})
    for table in ("functionEntries", "functionBlocks"):
        if table in m.aux_data:
            out[table] = sorted(
                (norm_name(names[u].name) if u in names else "?",
                 sorted(loc(b) for b in blocks))
                for u, blocks in m.aux_data[table].data.items()
            )
    out["entry point"] = loc(m.entry_point)
    return out


def run_batch(build):
    """All modifications in one RewritingContext / one apply()."""
    m, mods = build()
    ctx = gtirb_rewriting.RewritingContext(
        m, gtirb_functions.Function.build_functions(m))
    for mod in mods:
        mod(ctx)
    ctx.apply()
    return canonical(m)


def run_sequential(build):
    """One modification per RewritingContext, in address order."""
    m, mods = build()
    for mod in mods:
        ctx = gtirb_rewriting.RewritingContext(
            m, gtirb_functions.Function.build_functions(m))
        mod(ctx)
        ctx.apply()
    return canonical(m)


def diff(a, b, path=""):
    res = []
    if isinstance(a, dict) and isinstance(b, dict):
        for k in sorted(set(a) | set(b), key=str):
            res += diff(a.get(k), b.get(k), f"{path}/{k}")
    elif a != b:
        if isinstance(a, list) and isinstance(b, list):
            res.append(f"{path}:\n    only in batch:      "
                       f"{[x for x in a if x not in b]}\n"
                       f"    only in sequential: "
                       f"{[x for x in b if x not in a]}")
        else:
            res.append(f"{path}:\n    batch:      {a}\n"
                       f"    sequential: {b}")
    return res


def compare(build, what):
    problems = []
    results = {}
    for name, runner in (("batch", run_batch),
                         ("sequential", run_sequential)):
        try:
            results[name] = runner(build)
        except Exception as exc:  # noqa: B902
            import traceback
            where = traceback.extract_tb(exc.__traceback__)[-1]
            results[name] = {"raised": f"{type(exc).__name__}: {exc}"}
            problems.append(
                f"{name} application raised {type(exc).__name__}: {exc} "
                f"(at {where.name}: {where.line})")
    if not problems:
        problems += diff(results["batch"], results["sequential"])
    for name, res in results.items():
        for sym in res.get("symbols", []):
            if sym[1] is not None and sym[1][0] == "NOT-IN-MODULE":
                problems.append(
                    f"{name}: symbol {sym[0]} refers to a block that is "
                    f"no longer in the module")
    if problems:
        print(f"FAIL ({what}): batch application differs from "
              f"one-at-a-time application")
        for p in problems:
            print("  " + p)
        return False
    print(f"ok ({what}): batch == sequential")
    return True


def build():
    """
    .text:
      a:        push rax ; push rcx      "dup" (at_end) refers to the end of a
      (b):      push rdx
      dup:      push rbx ; ret           a second symbol called "dup"
      e:        push rax ; ret           (another function)

    Two symbols share the name "dup" (legal in GTIRB, e.g. local symbols of
    different translation units).  The assembler picks, among symbols of one
    name, the one whose referent has the lowest address.

    Modifications (address order):
      1. insert 16 nops and "jmp a" after the first instruction of a.  The
         end label "dup" now sits on a block created by this patch, at
         a.offset + 19 inside a's byte interval;
      2. insert "jmp dup" into e.
    """
    ir, m = create_test_module(
        gtirb.Module.FileFormat.ELF, gtirb.Module.ISA.X64
    )
    _, bi = add_text_section(m, address=0x1000)
    a = add_code_block(bi, b"\x50\x51")
    b = add_code_block(bi, b"\x52")
    c = add_code_block(bi, b"\x53\xc3")
    e = add_code_block(bi, b"\x50\xc3")
    a_sym = add_symbol(m, "a", a)
    e_sym = add_symbol(m, "e", e)
    dup1 = add_symbol(m, "dup", a)
    dup1.at_end = True
    add_symbol(m, "dup", c)
    add_edge(ir.cfg, a, b, gtirb.Edge.Type.Fallthrough)
    add_edge(ir.cfg, b, c, gtirb.Edge.Type.Fallthrough)
    add_edge(ir.cfg, c, add_proxy_block(m), gtirb.Edge.Type.Return)
    add_edge(ir.cfg, e, add_proxy_block(m), gtirb.Edge.Type.Return)
    add_function(m, a_sym, a, {b, c})
    add_function(m, e_sym, e)
    set_all_blocks_alignment(m, 1)
    mods = [
        lambda ctx: ctx.insert_at(a, 1, literal_patch("nop\n" * 16 + "jmp a")),
        lambda ctx: ctx.insert_at(e, 1, literal_patch("jmp dup")),
    ]
    return m, mods


if __name__ == "__main__":
    ok = compare(build, "two symbols of one name, one of them moved by an "
                        "earlier patch")
    sys.exit(0 if ok else 1)
