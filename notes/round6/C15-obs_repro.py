"""Reproduces two behaviours of the UNCHANGED tree that look like C15 violations."""
import gtirb
from gtirb_test_helpers import add_code_block, add_text_section, create_test_module
from gtirb_rewriting._auxdata import NULL_UUID
from gtirb_rewriting.dwarf.cfi_eval import evaluate_cfi_directives


def mod(isa, fmt=gtirb.Module.FileFormat.ELF):
    _, m = create_test_module(fmt, isa)
    _, bi = add_text_section(m, address=0x1000)
    b = add_code_block(bi, b"\x90" * 4)
    return m, b


# 1. "for every ABI": the PE ABIs (IA32, X64) have no default_dwarf_eh_return_column, so a plain
#    .cfi_startproc raises NotImplementedError (neither a state nor
#    CFIStateError/ValueError).
for isa in (gtirb.Module.ISA.IA32, gtirb.Module.ISA.X64):
    m, b = mod(isa, gtirb.Module.FileFormat.PE)
    m.aux_data["cfiDirectives"].data[gtirb.Offset(b, 0)] = [
        (".cfi_startproc", [], NULL_UUID)
    ]
    try:
        list(evaluate_cfi_directives(m, [b]))
        print("1:", isa, "PE ok")
    except Exception as e:
        print("1:", isa, "PE .cfi_startproc ->", type(e).__name__, e)

# 2. Ill-formed escape: DW_CFA_def_cfa_expression declares a 1-byte block but
#    the DW_OP_const1u inside needs 2 bytes; the operation runs past the
#    declared block end and is silently accepted (CFA = const1u 42).
m, b = mod(gtirb.Module.ISA.X64)
m.aux_data["cfiDirectives"].data[gtirb.Offset(b, 0)] = [
    (".cfi_startproc", [], NULL_UUID),
    (".cfi_escape", [0x0F, 0x01, 0x08, 0x2A], NULL_UUID),
]
try:
    out = list(evaluate_cfi_directives(m, [b]))
    print("2: accepted, CFA =", out[0][2].current.cfa)
except Exception as e:
    print("2:", type(e).__name__, e)

# 3. Truncated escape: DW_CFA_def_cfa_expression whose block is cut short.
m, b = mod(gtirb.Module.ISA.X64)
m.aux_data["cfiDirectives"].data[gtirb.Offset(b, 0)] = [
    (".cfi_startproc", [], NULL_UUID),
    (".cfi_escape", [0x0F, 0x02, 0x08], NULL_UUID),
]
try:
    out = list(evaluate_cfi_directives(m, [b]))
    print("3: accepted, CFA =", out[0][2].current.cfa)
except Exception as e:
    print("3:", type(e).__name__, e)
