"""
Observation on the UNCHANGED tree (property C02).

A symbol with an integral value that points into the middle of a block
(0x1002, inside the 4-byte block b at 0x1000) is turned by
gtirb_layout.assign_integral_symbols (called from prepare_for_rewriting) into
a zero-sized block nested inside b.  edit_byte_interval() then shifts that
nested block by the full size of a deletion that spans / precedes it:

 * delete_at(b, 1, 2): 'mid' should precede the first surviving byte behind
   it (f8, now at 0x1001) but resolves to 0x1000;
 * delete_at(b, 0, 4): the nested block gets offset -2; 'mid' and the
   function label 'f' (which slid onto the nested block, the "next" block)
   resolve to 0xffe, in front of the section.
"""
import sys
import gtirb
import gtirb_rewriting
from gtirb_test_helpers import (
    add_code_block, add_edge, add_symbol, add_text_section, create_test_module,
)
from helpers import add_function_object

bad = 0
for what in ("span", "whole"):
    ir, m = create_test_module(gtirb.Module.FileFormat.ELF, gtirb.Module.ISA.X64)
    _, bi = add_text_section(m, address=0x1000)
    b = add_code_block(bi, b"\x90\xfc\xfd\xf8")
    n = add_code_block(bi, b"\xf9\xc3")
    add_edge(ir.cfg, b, n, gtirb.EdgeType.Fallthrough)
    f = add_function_object(m, "f", b, {n})
    mid = gtirb.Symbol("mid", payload=0x1002, module=m)
    ctx = gtirb_rewriting.RewritingContext(m, [f])
    if what == "span":
        ctx.delete_at(b, 1, 2)
        expected = {"mid": 0x1001, "f": 0x1000}
    else:
        ctx.delete_at(b, 0, 4)
        expected = {"mid": 0x1000, "f": 0x1000}
    ctx.apply()
    for s in m.symbols:
        if s.name in expected:
            r = s.referent
            addr = r.address + (r.size if s.at_end else 0)
            ok = addr == expected[s.name]
            print(what, bi.contents.hex(), s.name, hex(addr), "ok" if ok else f"VIOLATION (expected {hex(expected[s.name])})")
            bad += not ok
sys.exit(1 if bad else 0)
