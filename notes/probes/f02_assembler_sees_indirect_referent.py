# Finding 2 (C09): in one batch, a later patch that branches to a label whose block an earlier
# modification deleted fails, because the assembler reads Symbol.referent (None while the
# ReferenceCache holds the reference indirectly). Applied one at a time it succeeds.
import sys, gtirb
sys.path.insert(0, "/repo/tests")
from gtirb_test_helpers import *
from helpers import literal_patch, add_function_object
import gtirb_rewriting
ir, m = create_test_module(gtirb.Module.FileFormat.ELF, gtirb.Module.ISA.X64)
_, bi = add_text_section(m, address=0x1000)
b1 = add_code_block(bi, b"\x90")
b2 = add_code_block(bi, b"\x90\x90")
b3 = add_code_block(bi, b"\x90\xc3")
add_edge(ir.cfg, b1, b2, gtirb.Edge.Type.Fallthrough)
add_edge(ir.cfg, b2, b3, gtirb.Edge.Type.Fallthrough)
add_edge(ir.cfg, b3, add_proxy_block(m), gtirb.Edge.Type.Return)
lbl = add_symbol(m, "lbl", b2)
f = add_function_object(m, "f", b1, {b2, b3})
ctx = gtirb_rewriting.RewritingContext(m, [f])
ctx.delete_at(b2, 0, 2)
ctx.insert_at(b3, 0, literal_patch("jmp lbl"))
try:
    ctx.apply()
    print("ok")
except Exception as e:  # observed: UnsupportedAssemblyError
    print(type(e).__name__, e)
