# Candidate finding 17 (C18): `_sym_expr_access_type` does `assert block.address`, which fails for a
# block at address 0 -- and layout_module (run whenever an insertion makes intervals overlap)
# lays the first section out at address 0. Retarget + any size-changing edit in one context aborts.
import sys, gtirb
sys.path.insert(0, "/repo/tests")
from gtirb_test_helpers import *
from helpers import literal_patch
import gtirb_rewriting
pad = [bytearray(48) for _ in range(int(sys.argv[1]) if len(sys.argv) > 1 else 0)]
for with_insert in (False, True):
    ir, m = create_test_module(gtirb.Module.FileFormat.ELF, gtirb.Module.ISA.X64)
    _, bi = add_text_section(m, address=0x1000)
    _, dbi = add_data_section(m, address=0x1006)
    add_data_block(dbi, b"\x01")
    A = add_symbol(m, "A", add_proxy_block(m)); B = add_symbol(m, "B", add_proxy_block(m))
    b1 = add_code_block(bi, b"\xe8\x00\x00\x00\x00", {1: gtirb.SymAddrConst(0, A)})
    b2 = add_code_block(bi, b"\xc3")
    add_edge(ir.cfg, b1, A.referent, gtirb.Edge.Type.Call); add_edge(ir.cfg, b1, b2, gtirb.Edge.Type.Fallthrough)
    add_edge(ir.cfg, b2, add_proxy_block(m), gtirb.Edge.Type.Return)
    ctx = gtirb_rewriting.RewritingContext(m, [])
    ctx.retarget_symbol_uses(A, B)
    if with_insert:
        ctx.insert_at(b2, 0, literal_patch("nop"))
    try:
        ctx.apply()
        print("with_insert =", with_insert, "ok:", bi.symbolic_expressions[1].symbol.name, "bi.address =", bi.address)
    except AssertionError as e:
        print("with_insert =", with_insert, "AssertionError; bi.address =", bi.address)
