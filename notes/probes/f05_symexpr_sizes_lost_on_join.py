# Finding 5 (C04): symbolicExpressionSizes of a patch inserted into a non-first block of an interval is lost at join time.
import sys, gtirb; sys.path.insert(0, "/repo/tests")
import gtirb_rewriting
from gtirb_test_helpers import *
from helpers import literal_patch
for target in ("b1", "b2"):
    ir, m = create_test_module(gtirb.Module.FileFormat.ELF, gtirb.Module.ISA.X64)
    _, bi = add_text_section(m, address=0x1000)
    b1 = add_code_block(bi, b"\x90\x90"); b2 = add_code_block(bi, b"\xc3")
    add_edge(ir.cfg, b1, b2, gtirb.Edge.Type.Fallthrough)
    add_edge(ir.cfg, b2, add_proxy_block(m), gtirb.Edge.Type.Return)
    foo = add_symbol(m, "foo", add_proxy_block(m))
    ctx = gtirb_rewriting.RewritingContext(m, [])
    ctx.insert_at(b1 if target == "b1" else b2, 0, literal_patch("call foo"))
    ctx.apply()
    ses = m.aux_data["symbolicExpressionSizes"].data
    print(target, "symexprs:", {k: v.symbol.name for k, v in bi.symbolic_expressions.items()}, "sizes:", {(k.element_id is bi, k.displacement): v for k, v in ses.items()})
