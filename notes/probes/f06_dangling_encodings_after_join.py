# Finding 6 (C05): encodings entry keyed by a block that join_blocks removed from the module.
import sys, gtirb; sys.path.insert(0, "/repo/tests")
import gtirb_rewriting
from gtirb_test_helpers import *
from helpers import literal_patch
ir, m = create_test_module(gtirb.Module.FileFormat.ELF, gtirb.Module.ISA.X64)
_, bi = add_text_section(m, address=0x1000)
_, dbi = add_data_section(m, address=0x2000)
b1 = add_code_block(bi, b"\xc3")
add_edge(ir.cfg, b1, add_proxy_block(m), gtirb.Edge.Type.Return)
d1 = add_data_block(dbi, b"\x01\x02\x03\x04")
ctx = gtirb_rewriting.RewritingContext(m, [])
ctx.insert_at(d1, 2, literal_patch('.string "hi"'))
ctx.apply()
print(dbi.contents, sorted((b.offset, b.size, type(b).__name__) for b in dbi.blocks))
enc = m.aux_data.get("encodings")
print("encodings:", {(k.module is m, k.byte_interval is not None): v for k, v in enc.data.items()} if enc else None)
