# Finding 10 (C17): ARM64 immediates in [-0xFFFF, -1] are formatted as "#0x-5".
import sys, gtirb; sys.path.insert(0, "/repo/tests")
import gtirb_rewriting, capstone
from gtirb_rewriting.assembler import Assembler
from gtirb_rewriting.patches import CallPatch
from gtirb_test_helpers import *
import unittest.mock
_, m = create_test_module(gtirb.Module.FileFormat.ELF, gtirb.Module.ISA.ARM64)
sym = add_symbol(m, "foo", add_proxy_block(m))
ctx = unittest.mock.MagicMock(spec=gtirb_rewriting.InsertionContext, module=m, stack_adjustment=None)
cs = capstone.Cs(capstone.CS_ARCH_ARM64, capstone.CS_MODE_ARM)
for args in [(-5,), (-0x10000,), (0xFFFF,), (0x10000,), (-1,), (2**64-1,), (-2**63,)]:
    asm = CallPatch(sym, args=args).get_asm(ctx)
    a = Assembler(m)
    try:
        a.assemble(asm); r = a.finalize()
        print(args, "|", asm.replace("\n", "; "), "|", [(i.mnemonic, i.op_str) for i in cs.disasm(r.text_section.data, 0)])
    except Exception as e:
        print(args, "|", asm.replace("\n", "; "), "| ERR", type(e).__name__, e)
