# Candidate finding 14 (C08): a patch inserted at the very end of a CFI procedure lands before
# .cfi_endproc (so it is covered by the procedure) but _CFIProcedureTracker says "not in a
# procedure" (half-open interval), so the patch's own CFI directives are dropped.
import sys, gtirb
sys.path.insert(0, "/repo/tests")
from gtirb_test_helpers import *
from helpers import literal_patch
import gtirb_rewriting
from gtirb_rewriting._auxdata import NULL_UUID
for where in ("middle", "end"):
    ir, m = create_test_module(gtirb.Module.FileFormat.ELF, gtirb.Module.ISA.X64)
    _, bi = add_text_section(m, address=0x1000)
    b1 = add_code_block(bi, b"\x90\x90")
    cfi = m.aux_data["cfiDirectives"].data
    cfi[gtirb.Offset(b1, 0)] = [(".cfi_startproc", [], NULL_UUID), (".cfi_def_cfa", [7, 8], NULL_UUID)]
    cfi[gtirb.Offset(b1, 2)] = [(".cfi_endproc", [], NULL_UUID)]
    ctx = gtirb_rewriting.RewritingContext(m, [])
    ctx.insert_at(b1, 1 if where == "middle" else 2,
                  literal_patch("pushq %rax\n.cfi_adjust_cfa_offset 8\npopq %rax\n.cfi_adjust_cfa_offset -8\n"))
    ctx.apply()
    print(where, bytes(bi.contents).hex())
    print("    blocks:", sorted((b.offset, b.size) for b in bi.blocks))
    for v in sorted(((o.element_id.offset + o.displacement, o.element_id.offset, o.displacement, d)
                        for o, d in m.aux_data["cfiDirectives"].data.items()), key=lambda t: t[:3]):
        print("    interval offset", v[0], "(block@%d+%d)" % (v[1], v[2]), [(n, a) for n, a, _ in v[-1]])
