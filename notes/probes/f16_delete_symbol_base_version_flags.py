# Candidate finding 16 (C19): the base version definition is recognised by `flags == 1`, so a base
# definition that also carries VER_FLG_WEAK (flags == 3) is garbage-collected when unused.
import sys, gtirb
sys.path.insert(0, "/repo/tests")
from gtirb_test_helpers import *
from helpers import _get_or_insert_elf_symbol_versions
import gtirb_rewriting
ir, m = create_test_module(gtirb.Module.FileFormat.ELF, gtirb.Module.ISA.X64)
_, bi = add_text_section(m, address=0x1000)
b = add_code_block(bi, b"\xc3")
s = add_symbol(m, "foo", b)
defs, reqs, entries = _get_or_insert_elf_symbol_versions(m)
defs[1] = (["libfoo.so"], 3)      # VER_FLG_BASE | VER_FLG_WEAK
defs[2] = (["FOO_1.0"], 0)
entries[s] = (2, False)
ctx = gtirb_rewriting.RewritingContext(m, [])
ctx.delete_symbol(s)
ctx.apply()
print("defs after:", m.aux_data["elfSymbolVersions"].data[0])
