# Finding 12 (C18): return edges do not follow a retargeted call.
import sys, gtirb; sys.path.insert(0, "/repo/tests")
import gtirb_rewriting
from gtirb_test_helpers import *
from helpers import literal_patch, add_function_object
ir, m = create_test_module(gtirb.Module.FileFormat.ELF, gtirb.Module.ISA.X64)
_, bi = add_text_section(m, address=0x1000)
fa = add_code_block(bi, b"\xc3"); A = add_symbol(m, "A", fa)
fb = add_code_block(bi, b"\xc3"); B = add_symbol(m, "B", fb)
c1 = add_code_block(bi, b"\xe8\x00\x00\x00\x00", {1: gtirb.SymAddrConst(0, A)})
c2 = add_code_block(bi, b"\xc3")
FA = add_function_object(m, A, fa); FB = add_function_object(m, B, fb); FC = add_function_object(m, "C", c1, {c2})
add_edge(ir.cfg, c1, fa, gtirb.Edge.Type.Call); add_edge(ir.cfg, c1, c2, gtirb.Edge.Type.Fallthrough)
add_edge(ir.cfg, fa, c2, gtirb.Edge.Type.Return)
add_edge(ir.cfg, fb, add_proxy_block(m), gtirb.Edge.Type.Return)
add_edge(ir.cfg, c2, add_proxy_block(m), gtirb.Edge.Type.Return)
names = {fa: "fa", fb: "fb", c1: "c1", c2: "c2"}
ctx = gtirb_rewriting.RewritingContext(m, [FA, FB, FC])
ctx.retarget_symbol_uses(A, B)
ctx.apply()
for e in ir.cfg:
    print(names.get(e.source, "?"), "->", names.get(e.target, "proxy"), e.label.type.name)
