# Candidate finding 18 (C15): the MIPS32 ELF target is big-endian (LLVM triple "mips"), but
# ABI.byteorder() is not overridden and reports "little"; evaluate_cfi_directives uses it to parse
# .cfi_escape bytes, so multi-byte fixed-width operands inside escaped expressions are misread.
import gtirb
from gtirb_test_helpers import add_code_block, add_text_section, create_test_module
from gtirb_rewriting._auxdata import NULL_UUID
from gtirb_rewriting.abi import ABI
from gtirb_rewriting.assembler import Assembler
from gtirb_rewriting.dwarf.cfi import InstDefCFAExpression
from gtirb_rewriting.dwarf.cfi_eval import evaluate_cfi_directives
from gtirb_rewriting.dwarf.expr import OpConst2U
_, m = create_test_module(gtirb.Module.FileFormat.ELF, gtirb.Module.ISA.MIPS32)
a = Assembler(m); a.assemble(".long 0x01020304\n"); r = a.finalize()
print("assembler emits .long 0x01020304 as", bytes(next(iter(r.sections.values())).data).hex(),
      "| ABI.byteorder() =", ABI.get(m).byteorder())
_, bi = add_text_section(m, address=0)
b = add_code_block(bi, b"\x00\x00\x00\x00")
esc = InstDefCFAExpression([OpConst2U(0x0102)]).gtirb_encoding("big", 4)   # what a big-endian producer writes
m.aux_data["cfiDirectives"].data[gtirb.Offset(b, 0)] = [(".cfi_startproc", [], NULL_UUID), esc]
for _, _, st in evaluate_cfi_directives(m, [b]):
    print("evaluated CFA expression:", st.current.cfa)   # observed: OpConst2U(value=513) i.e. 0x0201
