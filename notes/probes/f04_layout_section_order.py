# Finding 4 (C11): final section addresses depend on the allocation pattern (layout iterates a set of id-hashed nodes).
import sys, gtirb
sys.path.insert(0, "/repo/tests")
junk = [bytearray(64) for _ in range(int(sys.argv[1]))]
from gtirb_test_helpers import *
from helpers import literal_patch
import gtirb_rewriting
ir, m = create_test_module(gtirb.Module.FileFormat.ELF, gtirb.Module.ISA.X64)
pad = [bytearray(48) for _ in range(int(sys.argv[2]))]
_, bi = add_text_section(m, address=0x1000)
pad2 = [bytearray(48) for _ in range(int(sys.argv[2]))]
_, dbi = add_data_section(m, address=0x1002)
b1 = add_code_block(bi, b"\x90\xc3")
d1 = add_data_block(dbi, b"\x01\x02")
add_edge(ir.cfg, b1, add_proxy_block(m), gtirb.Edge.Type.Return)
ctx = gtirb_rewriting.RewritingContext(m, [])
ctx.insert_at(b1, 0, literal_patch("nop"))
ctx.apply()
print(sorted((s.name, s.address) for s in m.sections), [s.name for s in m.sections])
