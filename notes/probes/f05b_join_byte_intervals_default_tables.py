# Finding 5 (C04/C10): join_byte_intervals with default tables drops entries when the destination interval has none.
import gtirb, gtirb_rewriting
b1 = gtirb.CodeBlock(offset=0, size=2); b2 = gtirb.CodeBlock(offset=0, size=2)
bi1 = gtirb.ByteInterval(blocks=[b1], contents=b"\x00\x01")
bi2 = gtirb.ByteInterval(blocks=[b2], contents=b"\x02\x03")
s = gtirb.Section(name=".test", byte_intervals=[bi1, bi2])
m = gtirb.Module(name="test", sections=[s], isa=gtirb.Module.ISA.X64, file_format=gtirb.Module.FileFormat.ELF)
m.aux_data["comments"] = gtirb.AuxData(type_name="mapping<Offset,string>", data={gtirb.Offset(element_id=bi2, displacement=1): "y"})
bi = gtirb_rewriting.join_byte_intervals([bi1, bi2])
print("comments after join:", dict(m.aux_data["comments"].data))
# and through a full no-op rewrite
import sys; sys.path.insert(0, "/repo/tests")
from gtirb_test_helpers import *
ir, m = create_test_module(gtirb.Module.FileFormat.ELF, gtirb.Module.ISA.X64)
_, bi = add_text_section(m, address=0x1000)
b1 = add_code_block(bi, b"\x90\x90"); b2 = add_code_block(bi, b"\xc3")
add_edge(ir.cfg, b1, b2, gtirb.Edge.Type.Fallthrough)
m.aux_data["comments"] = gtirb.AuxData(type_name="mapping<Offset,string>", data={gtirb.Offset(bi, 2): "at ret"})
m.aux_data["symbolicExpressionSizes"] = gtirb.AuxData(type_name="mapping<Offset,uint64_t>", data={gtirb.Offset(bi, 2): 1})
ctx = gtirb_rewriting.RewritingContext(m, [])
ctx.apply()
print("after empty apply:", dict(m.aux_data["comments"].data), dict(m.aux_data["symbolicExpressionSizes"].data), [ (x.address, x.size) for x in m.byte_intervals])
