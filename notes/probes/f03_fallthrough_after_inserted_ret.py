# Finding 3 (C03): a Fallthrough edge is left on a block that now ends in an inserted `ret`.
import sys, gtirb
sys.path.insert(0, "/repo/tests")
from gtirb_test_helpers import *
from helpers import literal_patch, add_function_object
import gtirb_rewriting
def show(ir, m):
    for b in sorted(m.code_blocks, key=lambda b: b.address):
        print("  block", hex(b.address), b.size, b.contents.hex(), [ (e.label.type.name, (hex(e.target.address) if isinstance(e.target, gtirb.CodeBlock) else "proxy")) for e in b.outgoing_edges])
for where in ("end", "mid"):
    ir, m = create_test_module(gtirb.Module.FileFormat.ELF, gtirb.Module.ISA.X64)
    _, bi = add_text_section(m, address=0x1000)
    b1 = add_code_block(bi, b"\x90\x90")
    b2 = add_code_block(bi, b"\xc3")
    add_edge(ir.cfg, b1, b2, gtirb.Edge.Type.Fallthrough)
    add_edge(ir.cfg, b2, add_proxy_block(m), gtirb.Edge.Type.Return)
    f = add_function_object(m, "f", b1, {b2})
    ctx = gtirb_rewriting.RewritingContext(m, [f])
    ctx.insert_at(b1, 2 if where == "end" else 1, literal_patch("ret"))
    ctx.apply()
    print(where); show(ir, m)
