# Finding 9 (C17): on x86 a symbol argument is passed as the *contents* at the symbol.
# Finding 11 (C17): x64 stack-passed integers outside simm32 are refused by the assembler.
import gtirb, capstone
from gtirb_test_helpers import add_proxy_block, add_symbol, create_test_module
from gtirb_rewriting.assembler import Assembler
import gtirb_rewriting
_, m = create_test_module(gtirb.Module.FileFormat.ELF, gtirb.Module.ISA.X64)
add_symbol(m, "foo", add_proxy_block(m))
cs = capstone.Cs(capstone.CS_ARCH_X86, capstone.CS_MODE_64)
for txt in ["mov RDI, foo[rip]", "push foo[rip]", "push 2147483647", "push 2147483648", "push 4294967296",
            "mov rdi, 18446744073709551615"]:
    a = Assembler(m)
    try:
        a.assemble(txt + "\n", gtirb_rewriting.X86Syntax.INTEL)
        r = a.finalize()
        print(txt, "->", [(i.mnemonic, i.op_str) for i in cs.disasm(r.text_section.data, 0)])
    except Exception as e:
        print(txt, "-> ERR", type(e).__name__, e)
