# Candidate finding 13 (C07): AllBlocksScope on a module that contains a zero-sized code block
# (a documented leftover of an earlier deletion) aborts the whole rewrite with AssertionError.
import sys, gtirb
sys.path.insert(0, "/repo/tests")
from gtirb_test_helpers import *
from helpers import literal_patch
import gtirb_rewriting
from gtirb_rewriting import AllBlocksScope, BlockPosition
ir, m = create_test_module(gtirb.Module.FileFormat.ELF, gtirb.Module.ISA.X64)
_, bi = add_text_section(m, address=0x1000)
b1 = add_code_block(bi, b"\x90")
_, dbi = add_data_section(m, address=0x2000)
d1 = add_data_block(dbi, b"\x01")
lbl = add_symbol(m, "lbl", b1)
# pass 1: delete the only code block; it has a symbol and the next block is data -> kept zero-sized?
ctx = gtirb_rewriting.RewritingContext(m, [])
ctx.delete_at(b1, 0, 1)
ctx.apply()
print("after pass 1:", [(type(b).__name__, b.size) for b in m.byte_blocks])
# pass 2: instrument every block
ctx = gtirb_rewriting.RewritingContext(m, [])
ctx.register_insert(AllBlocksScope(BlockPosition.ENTRY), literal_patch("nop"))
try:
    ctx.apply()
    print("pass 2 ok:", [(type(b).__name__, b.size, bytes(b.contents)) for b in m.byte_blocks])
except AssertionError as e:
    print("pass 2 AssertionError", e)
