# Finding 1 (C15): .cfi_restore on a register with neither a current nor an initial rule raises KeyError.
import sys, gtirb
from gtirb_test_helpers import add_code_block, add_text_section, create_test_module
from gtirb_rewriting._auxdata import NULL_UUID
from gtirb_rewriting.dwarf.cfi_eval import evaluate_cfi_directives
_, m = create_test_module(gtirb.Module.FileFormat.ELF, gtirb.Module.ISA.X64)
_, bi = add_text_section(m, address=0)
b = add_code_block(bi, b"\x90")
m.aux_data["cfiDirectives"].data[gtirb.Offset(b, 0)] = [
    (".cfi_startproc", [], NULL_UUID),
    (".cfi_restore", [3], NULL_UUID),
]
try:
    print(list(evaluate_cfi_directives(m, [b])))
except Exception as e:  # observed: KeyError 3
    print(type(e).__name__, e)
