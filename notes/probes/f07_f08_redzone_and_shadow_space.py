# Findings 7, 8 (C16, C17): align_stack alone in a leaf function pushes into the red zone; shadow space not counted for alignment.
import sys, gtirb; sys.path.insert(0, "/repo/tests")
import gtirb_rewriting, unittest.mock
from gtirb_rewriting.abi import _X86_64_ELF, CallingConventionDesc
from gtirb_rewriting.patches import CallPatch
from gtirb_test_helpers import *
abi = _X86_64_ELF()
c = gtirb_rewriting.Constraints(align_stack=True)
regs = abi._allocate_patch_registers(c)
pro, epi, adj = abi._create_prologue_and_epilogue(c, regs, True)   # leaf
print("x64 ELF leaf, align_stack only: prologue =", [" ".join(s.code.split()) for s in pro], "adj", adj)
# reads+clobbers same register
try:
    abi._allocate_patch_registers(gtirb_rewriting.Constraints(clobbers_registers={"rax"}, reads_registers={"rax"}))
    print("reads+clobbers ok")
except Exception as e:
    print("reads+clobbers same reg:", type(e).__name__, e)
_, m = create_test_module(gtirb.Module.FileFormat.ELF, gtirb.Module.ISA.X64)
sym = add_symbol(m, "foo", add_proxy_block(m))
ctx = unittest.mock.MagicMock(spec=gtirb_rewriting.InsertionContext, module=m, stack_adjustment=None)
conv = CallingConventionDesc(registers=("RDI",), stack_alignment=16, caller_cleanup=True, shadow_space=8)
print("custom conv shadow=8:", CallPatch(sym, args=(1, 2), conv=conv).get_asm(ctx).replace("\n", "; "))
