# Candidate finding 15 (C13): chunked assembly differs from assembling the concatenation when a
# chunk ends in another section: every assemble() call starts again in .text.
import gtirb
from gtirb_test_helpers import create_test_module
from gtirb_rewriting.assembler import Assembler
def summary(r):
    return {name: bytes(s.data).hex() for name, s in r.sections.items()}
_, m = create_test_module(gtirb.Module.FileFormat.ELF, gtirb.Module.ISA.X64)
chunks = ["nop\n.data\n.byte 1\n", ".byte 2\n"]
a = Assembler(m)
for c in chunks:
    a.assemble(c)
print("chunked:", summary(a.finalize()))
a = Assembler(m)
a.assemble("".join(chunks))
print("whole  :", summary(a.finalize()))
