import Driver.Util
import GtirbVerif.Spec.AdtSpec

/-! Line-protocol handlers for the containers (C20). One request = one whole history. -/
namespace Driver.Adt
open Lean Driver GtirbVerif.Adt

def errName : AdtErr → String
  | .keyError => "KeyError"
  | .valueError => "ValueError"
  | .cfgModified => "CFGModifiedError"
  | .assertion => "AssertionError"
  | .bodyRaised => "BodyRaised"
  | .fuel => "MODEL-FUEL"

def optNatJ : Option Nat → Json
  | none => Json.null
  | some n => jnat n

def optNatOf (j : Json) : Except String (Option Nat) :=
  match j with
  | .null => .ok none
  | _ => do let n ← j.getNat?; .ok (some n)

def arrAt (a : Array Json) (i : Nat) : Except String Json :=
  match a[i]? with
  | some v => .ok v
  | none => .error s!"missing component {i}"

def natAt (a : Array Json) (i : Nat) : Except String Nat := do (← arrAt a i).getNat?
def boolAt (a : Array Json) (i : Nat) : Except String Bool := do (← arrAt a i).getBool?
def strAt (a : Array Json) (i : Nat) : Except String String := do (← arrAt a i).getStr?
def natListOf (j : Json) : Except String (List Nat) := do (← j.getArr?).toList.mapM (·.getNat?)

/-! ### reference cache -/

def rootOf (c : RC) : Nat → Nat → Option (Nat × Nat)
  | 0, _ => none
  | f + 1, n => match c.parent n with
    | .block b => some (n, b)
    | .node p => rootOf c f p
    | .dead => none

/-- abstraction: what assigning directly would have produced -/
def absRef (c : RC) (s : Nat) : Option Nat × Bool :=
  match c.referents s with
  | none => (c.direct s, c.atEnd s)
  | some n => match rootOf c (c.next + 1) n with
    | none => (none, false)
    | some (r, b) => (some b, match c.refs b with | some (_, e) => r == e | none => false)

def absJ (c : RC) : Json :=
  Json.arr ((List.range c.nSyms).map (fun s =>
    let (r, e) := absRef c s
    Json.arr #[optNatJ r, Json.bool e, Json.bool (c.referents s).isNone])).toArray

def specJ (s : RSpec) (n : Nat) : Json :=
  Json.arr ((List.range n).map (fun x => Json.arr #[optNatJ (s.ref x), Json.bool (s.atEnd x)])).toArray

def rcOpOf (j : Json) : Except String RcOp := do
  let a ← j.getArr?
  match ← strAt a 0 with
  | "retarget" => .ok (.retarget (← natAt a 1) (← optNatOf (← arrAt a 2)) (← boolAt a 3))
  | "set" => .ok (.setReferent (← natAt a 1) (← optNatOf (← arrAt a 2)) (← boolAt a 3))
  | "getref" => .ok (.getReferent (← natAt a 1))
  | "getrefs" => .ok (.getReferences (← natAt a 1) (← natAt a 2))
  | "apply" => .ok .apply
  | o => .error s!"unknown rc op {o}"

def runRc (c : RC) (sp : RSpec) : List RcOp → List Json → List Json
  | [], acc => acc.reverse
  | op :: ops, acc =>
    let specRes := sp.step c.nSyms op
    let (mres, c') : Json × Option RC :=
      match op with
      | .retarget b t e => match c.retarget b t e with
        | .ok c' => (Json.str "ok", some c')
        | .error er => (Json.str (errName er), none)
      | .setReferent s r e => (Json.str "ok", some (c.setReferent s r e))
      | .getReferent s => match c.getReferent s with
        | .ok (r, c') => (optNatJ r, some c')
        | .error er => (Json.str (errName er), none)
      | .getReferences b k =>
        match c.getReferences b k with
        | some (c', ys) => (natList ys, some c')
        | none => (Json.str "MODEL-FUEL", none)
      | .apply =>
        match c.apply with
        | some c' => (Json.str "ok", some c')
        | none => (Json.str "MODEL-FUEL", none)
    let sobs : Json := match op, specRes with
      | _, .error er => Json.str (errName er)
      | .getReferent s, .ok sp' => optNatJ (sp'.ref s)
      | .getReferences b _, .ok sp' => natList (sp'.references c.nSyms b)
      | _, .ok _ => Json.str "ok"
    match c', specRes with
    | some c', .ok sp' =>
      let row := Json.mkObj [("m", mres), ("s", sobs), ("abs", absJ c'), ("spec", specJ sp' c.nSyms)]
      runRc c' sp' ops (row :: acc)
    | _, _ =>
      (Json.mkObj [("m", mres), ("s", sobs), ("stop", Json.bool true)] :: acc).reverse

/-! ### edges -/

def nodeOf (j : Json) : Except String CfgNode := do
  let a ← j.getArr?
  let n ← natAt a 1
  match ← strAt a 0 with
  | "b" => .ok (.block n)
  | _ => .ok (.proxy n)

def nodeJ : CfgNode → Json
  | .block n => Json.arr #["b", jnat n]
  | .proxy n => Json.arr #["p", jnat n]

def edgeOf (j : Json) : Except String Edge := do
  let a ← j.getArr?
  let s ← nodeOf (← arrAt a 0)
  let d ← nodeOf (← arrAt a 1)
  let l ← match ← arrAt a 2 with
    | .null => pure none
    | lj => do
      let la ← lj.getArr?
      pure (some { type := ← natAt la 0, conditional := ← boolAt la 1, direct := ← boolAt la 2 : Label })
  .ok { src := s, dst := d, label := l }

def edgeJ (e : Edge) : Json :=
  Json.arr #[nodeJ e.src, nodeJ e.dst,
    match e.label with
    | none => Json.null
    | some l => Json.arr #[jnat l.type, Json.bool l.conditional, Json.bool l.direct]]

def edgesJ (es : List Edge) : Json := Json.arr (es.map edgeJ).toArray

def retOpOf (j : Json) : Except String RetOp := do
  let a ← j.getArr?
  match ← strAt a 0 with
  | "add" => .ok (.add (← edgeOf (← arrAt a 1)))
  | "discard" => .ok (.discard (← edgeOf (← arrAt a 1)))
  | "clear" => .ok .clear
  | "update" => do
    let es ← (← (← arrAt a 1).getArr?).toList.mapM edgeOf
    .ok (.update es)
  | o => .error s!"unknown cfg op {o}"

def retObs (c : RetCache) (nodes : List CfgNode) : Json :=
  Json.mkObj [
    ("edges", edgesJ c.edges),
    ("q", Json.arr (nodes.map (fun n => Json.mkObj [
      ("any", Json.bool (c.anyReturn n)), ("ret", edgesJ (c.blockReturn n)),
      ("pret", edgesJ (c.blockProxyReturn n)),
      ("sret", edgesJ (specBlockReturn c.edges n)), ("spret", edgesJ (specBlockProxyReturn c.edges n))])).toArray)]

/-! ### offset mapping -/

def subJ (s : SubDict) : Json := Json.arr (s.map (fun (d, v) => Json.arr #[jnat d, jnat v])).toArray

def runOMap (m : OMap) : List Json → List Json → Except String (List Json)
  | [], acc => .ok acc.reverse
  | j :: js, acc => do
    let a ← j.getArr?
    let op ← strAt a 0
    let ex {α} (r : Except AdtErr α) (f : α → Json × OMap) : Json × OMap :=
      match r with
      | .ok v => f v
      | .error e => (Json.str (errName e), m)
    let (obs, m') ← match op with
      | "setO" => pure (Json.str "ok", m.setO (← natAt a 1) (← natAt a 2) (← natAt a 3))
      | "getO" => pure (ex (m.getO (← natAt a 1) (← natAt a 2)) (fun v => (jnat v, m)))
      | "getE" => pure (ex (m.getE (← natAt a 1)) (fun v => (subJ v, m)))
      | "setE" => do
        let sub ← (← (← arrAt a 2).getArr?).toList.mapM (fun p => do
          let pa ← p.getArr?
          pure ((← natAt pa 0), (← natAt pa 1)))
        -- a Python dict literal: later duplicates overwrite
        let sub' := sub.foldl (fun acc (d, v) => dictSet d v acc) []
        pure (Json.str "ok", m.setE (← natAt a 1) sub')
      | "delO" => pure (ex (m.delO (← natAt a 1) (← natAt a 2)) (fun m' => (Json.str "ok", m')))
      | "delE" => pure (ex (m.delE (← natAt a 1)) (fun m' => (Json.str "ok", m')))
      | "containsO" => pure (Json.bool (m.containsO (← natAt a 1) (← natAt a 2)), m)
      | "containsE" => pure (Json.bool (m.containsE (← natAt a 1)), m)
      | "len" => pure (jnat m.len, m)
      | "bool" => pure (Json.bool m.bool, m)
      | "keys" => pure (Json.arr (m.keys.map (fun (e, d) => Json.arr #[jnat e, jnat d])).toArray, m)
      | "nodeKeys" => pure (natList m.nodeKeys, m)
      | "subSet" => pure (ex (m.subSet (← natAt a 1) (← natAt a 2) (← natAt a 3)) (fun m' => (Json.str "ok", m')))
      | "popO" => pure (ex (m.popO (← natAt a 1) (← natAt a 2)) (fun (v, m') => (jnat v, m')))
      | "setdefaultO" =>
        let (v, m') := m.setdefaultO (← natAt a 1) (← natAt a 2) (← natAt a 3)
        pure (jnat v, m')
      | o => throw s!"unknown omap op {o}"
    runOMap m' js (obs :: acc)

/-! ### block ordering -/

def runBOrd (o : BOrd) (cs : Chains) (n : Nat) : List Json → List Json → Except String (List Json)
  | [], acc => .ok acc.reverse
  | j :: js, acc => do
    let a ← j.getArr?
    let op ← strAt a 0
    let dump (o : BOrd) (cs : Chains) : Json := Json.mkObj [
      ("adj", Json.arr ((List.range n).map (fun b => match o.adjacent b with
        | .ok (p, q) => Json.arr #[optNatJ p, optNatJ q]
        | .error _ => Json.str "KeyError")).toArray),
      ("sadj", Json.arr ((List.range n).map (fun b => match cs.adjacent b with
        | some (p, q) => Json.arr #[optNatJ p, optNatJ q]
        | none => Json.str "KeyError")).toArray)]
    let (obs, o', cs') ← match op with
      | "addDetached" => do
        let bs ← natListOf (← arrAt a 1)
        match o.primitiveInsert none bs with
        | .ok o' => pure (Json.str "ok", o', cs.addDetached bs)
        | .error e => pure (Json.str (errName e), o, cs)
      | "insertAfter" => do
        let af ← natAt a 1
        let bs ← natListOf (← arrAt a 2)
        match o.primitiveInsert (some af) bs with
        | .ok o' => pure (Json.str "ok", o', cs.insertAfter af bs)
        | .error e => pure (Json.str (errName e), o, cs)
      | "remove" => do
        let b ← natAt a 1
        match o.remove b with
        | .ok o' => pure (Json.str "ok", o', cs.remove b)
        | .error e => pure (Json.str (errName e), o, cs)
      | o' => throw s!"unknown bord op {o'}"
    runBOrd o' cs' n js (Json.mkObj [("r", obs), ("st", dump o' cs')] :: acc)

def handle (op : String) (j : Json) : Option (Except String Json) :=
  match op with
  | "adt_refcache" => some do
    let n ← getNat j "nsyms"
    let init ← getArr j "init"
    let ops ← (← getArr j "ops").toList.mapM rcOpOf
    let mut c : RC := { nSyms := n }
    let mut sp : RSpec := {}
    let mut i := 0
    for e in init do
      let a ← e.getArr?
      let r ← optNatOf (← arrAt a 0)
      let ae ← boolAt a 1
      c := c.setReferent i r ae
      sp := sp.setReferent i r ae
      i := i + 1
    .ok (Json.mkObj [("rows", Json.arr (runRc c sp ops []).toArray)])
  | "adt_idset" => some do
    let ops ← getArr j "ops"
    let mut s : IdSet := {}
    let mut out : Array Json := #[]
    for o in ops do
      let a ← o.getArr?
      let x ← natAt a 1
      s := match ← strAt a 0 with
        | "add" => s.add x
        | _ => s.discard x
      out := out.push (Json.mkObj [("ids", natList s.ids), ("len", jnat s.len)])
    .ok (Json.mkObj [("rows", Json.arr out)])
  | "adt_omap" => some do
    let ops ← getArr j "ops"
    let rows ← runOMap {} ops.toList []
    .ok (Json.mkObj [("rows", Json.arr rows.toArray)])
  | "adt_bord" => some do
    let n ← getNat j "n"
    let ops ← getArr j "ops"
    let rows ← runBOrd {} [] n ops.toList []
    .ok (Json.mkObj [("rows", Json.arr rows.toArray)])
  | "adt_retcache" => some do
    let nodes ← (← getArr j "nodes").toList.mapM nodeOf
    let ops ← (← getArr j "ops").toList.mapM retOpOf
    let init ← (← getArr j "init").toList.mapM edgeOf
    let mut c : RetCache := ({} : RetCache).update init
    let mut out : Array Json := #[retObs c nodes]
    for o in ops do
      c := c.step o
      out := out.push (retObs c nodes)
    .ok (Json.mkObj [("rows", Json.arr out)])
  | "adt_retctx" => some do
    let e0 ← (← getArr j "e0").toList.mapM edgeOf
    let raises ← getBool j "raises"
    let hs ← (← getArr j "hashes").toList.mapM (fun p => do
      let a ← p.getArr?
      pure ((← edgeOf (← arrAt a 0)), (← natAt a 1)))
    let h : Edge → Nat := fun e => match hs.find? (fun p => p.1 == e) with
      | some p => p.2
      | none => 0
    let ops ← (← getArr j "ops").toList.mapM (fun o => do
      let a ← o.getArr?
      match ← strAt a 0 with
      | "cache" => pure (BodyOp.cache (← retOpOf (← arrAt a 1)))
      | "old" => pure (BodyOp.old (← retOpOf (← arrAt a 1)))
      | "replace" => pure BodyOp.replaceIrCfg
      | _ => pure BodyOp.restoreIrCfg)
    let r := runReturnCtx h e0 ops raises
    .ok (Json.mkObj [("irCfgIsOld", Json.bool r.irCfgIsOld), ("oldEdges", edgesJ r.oldEdges),
      ("raised", match r.raised with | none => Json.null | some e => Json.str (errName e))])
  | _ => none

end Driver.Adt
