import Driver.Util
import GtirbVerif.Model.Abi.Prologue
import GtirbVerif.Gen.AbiFull

/-! Line-protocol handlers for the ABI engine (C16, C17). -/
namespace Driver.Abi
open Lean Driver GtirbVerif GtirbVerif.Abi

def abiOf (n : String) : Except String AbiDesc :=
  match Gen.abiAll.find? (fun a => a.name == n) with
  | some a => .ok a
  | none => .error s!"unknown ABI {n}"

def strList (j : Json) (k : String) : Except String (List String) := do
  (← getArr j k).toList.mapM (·.getStr?)

def constraintsOf (j : Json) : Except String Constraints := do
  .ok { clobbersFlags := ← getBool j "flags", clobbers := ← strList j "clobbers",
        scratch := ← getNat j "scratch", reads := ← strList j "reads",
        alignStack := ← getBool j "align", preserveCallerSaved := ← getBool j "preserve" }

def strsJ (l : List String) : Json := Json.arr (l.map Json.str).toArray

def instrJ : Instr → Json
  | .push r => Json.arr #["push", r]
  | .pop r => Json.arr #["pop", r]
  | .pushf => Json.arr #["pushf"]
  | .popf => Json.arr #["popf"]
  | .lea d => Json.arr #["lea", jint d]
  | .movSpTo r => Json.arr #["movSpTo", r]
  | .movToSp r => Json.arr #["movToSp", r]
  | .andSp m => Json.arr #["andSp", jint m]
  | .stp a b => Json.arr #["stp", a, b]
  | .ldp a b => Json.arr #["ldp", a, b]
  | .strPre r => Json.arr #["strPre", r]
  | .ldrPost r => Json.arr #["ldrPost", r]
  | .mrs r => Json.arr #["mrs", r]
  | .msr r => Json.arr #["msr", r]
  | .addiuSp d => Json.arr #["addiuSp", jint d]
  | .sw r o => Json.arr #["sw", r, jint o]
  | .lw r o => Json.arr #["lw", r, jint o]

def instrOf (j : Json) : Except String Instr := do
  let a ← j.getArr?
  let s (i : Nat) : Except String String := match a[i]? with
    | some v => v.getStr?
    | none => .error "missing operand"
  let n (i : Nat) : Except String Int := match a[i]? with
    | some v => v.getInt?
    | none => .error "missing operand"
  match ← s 0 with
  | "push" => .ok (.push (← s 1))
  | "pop" => .ok (.pop (← s 1))
  | "pushf" => .ok .pushf
  | "popf" => .ok .popf
  | "lea" => .ok (.lea (← n 1))
  | "movSpTo" => .ok (.movSpTo (← s 1))
  | "movToSp" => .ok (.movToSp (← s 1))
  | "andSp" => .ok (.andSp (← n 1))
  | "stp" => .ok (.stp (← s 1) (← s 2))
  | "ldp" => .ok (.ldp (← s 1) (← s 2))
  | "strPre" => .ok (.strPre (← s 1))
  | "ldrPost" => .ok (.ldrPost (← s 1))
  | "mrs" => .ok (.mrs (← s 1))
  | "msr" => .ok (.msr (← s 1))
  | "addiuSp" => .ok (.addiuSp (← n 1))
  | "sw" => .ok (.sw (← s 1) (← n 2))
  | "lw" => .ok (.lw (← s 1) (← n 2))
  | o => .error s!"unknown instruction {o}"

def genErrName : GenErr → String
  | .keyError => "KeyError"
  | .valueError => "ValueError"
  | .indexError => "IndexError"
  | .notImplemented => "NotImplementedError"

def hashStr (s : String) : Int := s.foldl (fun a c => (a * 31 + c.toNat) % 1000003) 7

/-- SPEC: run `pre; hostile body; post` from several initial states and report
every clause of the property that fails -/
def checkWrapper (W : Int) (isX64 : Bool) (pre post : List Instr) (restore : List String)
    (flags : Bool) (guard : Int) (adj : Option Int) (align : Bool) (sp0 : Int) (trial : Nat) :
    List String :=
  let σ0 : M := { reg := fun r => hashStr r * 3 + trial, flags := 4242 + trial, sp := sp0,
                  mem := fun _ => none, wr := [] }
  match run W pre σ0 with
  | none => ["prologue reads a slot it did not write"]
  | some σ1 =>
    let f1 := match adj with
      | some d => if σ1.sp = sp0 - d then [] else
          [s!"reported stack_adjustment {d} but real displacement {sp0 - σ1.sp}"]
      | none => []
    let f2 := if align && isX64 && σ1.sp % 16 != 0 then
      [s!"align_stack: body entry sp {σ1.sp} is not 16-byte aligned"] else []
    -- a hostile body: trashes every register, the flags and everything below its sp
    let σ2 : M := { σ1 with reg := fun r => -1 - hashStr r, flags := -7,
                            mem := fun x => if x < σ1.sp then some (-99) else σ1.mem x }
    match run W post σ2 with
    | none => f1 ++ f2 ++ ["epilogue reads a slot the prologue did not write"]
    | some σ3 =>
      let f3 := if σ3.sp = sp0 then [] else [s!"stack pointer not restored: {σ3.sp - sp0}"]
      let f4 := restore.filterMap (fun r =>
        if σ3.reg r = σ0.reg r then none else some s!"register {r} not restored")
      let f5 := if flags && σ3.flags != σ0.flags then ["flags not restored"] else []
      let f6 := σ3.wr.filterMap (fun a =>
        if a + W ≤ sp0 - guard then none
        else some s!"write at sp0{a - sp0} (width {W}) reaches the protected zone above sp0-{guard}")
      f1 ++ f2 ++ f3 ++ f4 ++ f5 ++ f6

def handle (op : String) (j : Json) : Option (Except String Json) :=
  match op with
  | "abi_gen" => some do
    let abi ← abiOf (← getStr j "abi")
    let c ← constraintsOf (← j.getObjVal? "constraints")
    let leaf ← getBool j "leaf"
    match allocate abi c with
    | .error e => .ok (Json.mkObj [("alloc_err", Json.str (genErrName e))])
    | .ok a =>
      let allocJ := Json.mkObj [("clobbered", strsJ a.clobbered), ("scratch", strsJ a.scratch),
        ("available", strsJ a.available)]
      match prologueEpilogue abi c a leaf with
      | .error e => .ok (Json.mkObj [("alloc", allocJ), ("gen_err", Json.str (genErrName e))])
      | .ok (pre, post, adj) =>
        .ok (Json.mkObj [("alloc", allocJ),
          ("pre", Json.arr (pre.map instrJ).toArray), ("post", Json.arr (post.map instrJ).toArray),
          ("adj", match adj with | some d => jnat d | none => Json.null)])
  | "abi_check" => some do
    let abi ← abiOf (← getStr j "abi")
    let pre ← (← getArr j "pre").toList.mapM instrOf
    let post ← (← getArr j "post").toList.mapM instrOf
    let restore ← strList j "restore"
    let flags ← getBool j "flags"
    let guard ← getInt j "guard"
    let align ← getBool j "align"
    let adj ← match ← j.getObjVal? "adj" with
      | .null => pure none
      | v => do pure (some (← v.getInt?))
    let sps ← getIntList j "sps"
    let fails := sps.flatMap (fun sp0 =>
      (List.range 2).flatMap (fun t =>
        checkWrapper abi.cell (abi.family == .x64) pre post restore flags guard adj align sp0 t))
    .ok (Json.mkObj [("fails", strsJ fails.eraseDups)])
  | _ => none

end Driver.Abi
