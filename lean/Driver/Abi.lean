import Driver.Util
import GtirbVerif.Model.Abi.Prologue
import GtirbVerif.Model.Abi.Call
import GtirbVerif.Gen.AbiFull

/-! Line-protocol handlers for the ABI engine (C16, C17). -/
namespace Driver.Abi
open Lean Driver GtirbVerif GtirbVerif.Abi

def abiOf (n : String) : Except String AbiDesc :=
  match Gen.abiAll.find? (fun a => a.name == n) with
  | some a => .ok a
  | none => .error s!"unknown ABI {n}"

def strList (j : Json) (k : String) : Except String (List String) := do
  (← getArr j k).toList.mapM (·.getStr?)

def constraintsOf (j : Json) : Except String Constraints := do
  .ok { clobbersFlags := ← getBool j "flags", clobbers := ← strList j "clobbers",
        scratch := ← getNat j "scratch", reads := ← strList j "reads",
        alignStack := ← getBool j "align", preserveCallerSaved := ← getBool j "preserve" }

def strsJ (l : List String) : Json := Json.arr (l.map Json.str).toArray

def instrJ : Instr → Json
  | .push r => Json.arr #["push", r]
  | .pop r => Json.arr #["pop", r]
  | .pushf => Json.arr #["pushf"]
  | .popf => Json.arr #["popf"]
  | .lea d => Json.arr #["lea", jint d]
  | .movSpTo r => Json.arr #["movSpTo", r]
  | .movToSp r => Json.arr #["movToSp", r]
  | .andSp m => Json.arr #["andSp", jint m]
  | .stp a b => Json.arr #["stp", a, b]
  | .ldp a b => Json.arr #["ldp", a, b]
  | .strPre r => Json.arr #["strPre", r]
  | .ldrPost r => Json.arr #["ldrPost", r]
  | .mrs r => Json.arr #["mrs", r]
  | .msr r => Json.arr #["msr", r]
  | .addiuSp d => Json.arr #["addiuSp", jint d]
  | .sw r o => Json.arr #["sw", r, jint o]
  | .lw r o => Json.arr #["lw", r, jint o]

def instrOf (j : Json) : Except String Instr := do
  let a ← j.getArr?
  let s (i : Nat) : Except String String := match a[i]? with
    | some v => v.getStr?
    | none => .error "missing operand"
  let n (i : Nat) : Except String Int := match a[i]? with
    | some v => v.getInt?
    | none => .error "missing operand"
  match ← s 0 with
  | "push" => .ok (.push (← s 1))
  | "pop" => .ok (.pop (← s 1))
  | "pushf" => .ok .pushf
  | "popf" => .ok .popf
  | "lea" => .ok (.lea (← n 1))
  | "movSpTo" => .ok (.movSpTo (← s 1))
  | "movToSp" => .ok (.movToSp (← s 1))
  | "andSp" => .ok (.andSp (← n 1))
  | "stp" => .ok (.stp (← s 1) (← s 2))
  | "ldp" => .ok (.ldp (← s 1) (← s 2))
  | "strPre" => .ok (.strPre (← s 1))
  | "ldrPost" => .ok (.ldrPost (← s 1))
  | "mrs" => .ok (.mrs (← s 1))
  | "msr" => .ok (.msr (← s 1))
  | "addiuSp" => .ok (.addiuSp (← n 1))
  | "sw" => .ok (.sw (← s 1) (← n 2))
  | "lw" => .ok (.lw (← s 1) (← n 2))
  | o => .error s!"unknown instruction {o}"

def genErrName : GenErr → String
  | .keyError => "KeyError"
  | .valueError => "ValueError"
  | .indexError => "IndexError"
  | .notImplemented => "NotImplementedError"

def hashStr (s : String) : Int := s.foldl (fun a c => (a * 31 + c.toNat) % 1000003) 7

/-- SPEC: run `pre; hostile body; post` from several initial states and report
every clause of the property that fails -/
def checkWrapper (W : Int) (isX64 : Bool) (pre post : List Instr) (restore : List String)
    (flags : Bool) (guard : Int) (adj : Option Int) (align : Bool) (sp0 : Int) (trial : Nat) :
    List String :=
  let σ0 : M := { reg := fun r => hashStr r * 3 + trial, flags := 4242 + trial, sp := sp0,
                  mem := fun _ => none, wr := [] }
  match run W pre σ0 with
  | none => ["prologue reads a slot it did not write"]
  | some σ1 =>
    let f1 := match adj with
      | some d => if σ1.sp = sp0 - d then [] else
          [s!"reported stack_adjustment {d} but real displacement {sp0 - σ1.sp}"]
      | none => []
    let f2 := if align && isX64 && σ1.sp % 16 != 0 then
      [s!"align_stack: body entry sp {σ1.sp} is not 16-byte aligned"] else []
    -- a hostile body: trashes every register, the flags and everything below its sp
    let σ2 : M := { σ1 with reg := fun r => -1 - hashStr r, flags := -7,
                            mem := fun x => if x < σ1.sp then some (-99) else σ1.mem x }
    match run W post σ2 with
    | none => f1 ++ f2 ++ ["epilogue reads a slot the prologue did not write"]
    | some σ3 =>
      let f3 := if σ3.sp = sp0 then [] else [s!"stack pointer not restored: {σ3.sp - sp0}"]
      let f4 := restore.filterMap (fun r =>
        if σ3.reg r = σ0.reg r then none else some s!"register {r} not restored")
      let f5 := if flags && σ3.flags != σ0.flags then ["flags not restored"] else []
      let f6 := σ3.wr.filterMap (fun a =>
        if a + W ≤ sp0 - guard then none
        else some s!"write at sp0{a - sp0} (width {W}) reaches the protected zone above sp0-{guard}")
      f1 ++ f2 ++ f3 ++ f4 ++ f5 ++ f6

def handle (op : String) (j : Json) : Option (Except String Json) :=
  match op with
  | "abi_gen" => some do
    let abi ← abiOf (← getStr j "abi")
    let c ← constraintsOf (← j.getObjVal? "constraints")
    let leaf ← getBool j "leaf"
    match allocate abi c with
    | .error e => .ok (Json.mkObj [("alloc_err", Json.str (genErrName e))])
    | .ok a =>
      let allocJ := Json.mkObj [("clobbered", strsJ a.clobbered), ("scratch", strsJ a.scratch),
        ("available", strsJ a.available)]
      match prologueEpilogue abi c a leaf with
      | .error e => .ok (Json.mkObj [("alloc", allocJ), ("gen_err", Json.str (genErrName e))])
      | .ok (pre, post, adj) =>
        .ok (Json.mkObj [("alloc", allocJ),
          ("pre", Json.arr (pre.map instrJ).toArray), ("post", Json.arr (post.map instrJ).toArray),
          ("adj", match adj with | some d => jnat d | none => Json.null)])
  | "abi_check" => some do
    let abi ← abiOf (← getStr j "abi")
    let pre ← (← getArr j "pre").toList.mapM instrOf
    let post ← (← getArr j "post").toList.mapM instrOf
    let restore ← strList j "restore"
    let flags ← getBool j "flags"
    let guard ← getInt j "guard"
    let align ← getBool j "align"
    let adj ← match ← j.getObjVal? "adj" with
      | .null => pure none
      | v => do pure (some (← v.getInt?))
    let sps ← getIntList j "sps"
    let fails := sps.flatMap (fun sp0 =>
      (List.range 2).flatMap (fun t =>
        checkWrapper abi.cell (abi.family == .x64) pre post restore flags guard adj align sp0 t))
    .ok (Json.mkObj [("fails", strsJ fails.eraseDups)])
  | _ => none

end Driver.Abi

namespace Driver.Abi
open Lean Driver GtirbVerif GtirbVerif.Abi

def argValOf (j : Json) : Except String ArgVal :=
  match j.getInt? with
  | .ok v => .ok (.int v)
  | .error _ => do let s ← getStr j "sym"; .ok (.sym s)

def convOf (j : Json) : Except String Conv := do
  .ok { regs := ← strList j "regs", align := ← getNat j "align",
        callerCleanup := ← getBool j "caller_cleanup", shadow := ← getNat j "shadow" }

def cinstrJ : CInstr → Json
  | .subSp n => Json.arr #["subSp", jnat n]
  | .addSp n => Json.arr #["addSp", jnat n]
  | .movImm r v => Json.arr #["movImm", r, jint v]
  | .movSym r s => Json.arr #["movSym", r, s]
  | .pushImm v => Json.arr #["pushImm", jint v]
  | .pushSym s => Json.arr #["pushSym", s]
  | .call f => Json.arr #["call", f]
  | .movSmall r v => Json.arr #["movSmall", r, jint v]
  | .movz r c => Json.arr #["movz", r, jnat c]
  | .movk r c s => Json.arr #["movk", r, jnat c, jnat s]
  | .movn r c => Json.arr #["movn", r, jnat c]
  | .adrp r s => Json.arr #["adrp", r, s]
  | .addLo12 r s => Json.arr #["addLo12", r, s]
  | .strSlot r s => Json.arr #["strSlot", r, jnat s]
  | .bl f => Json.arr #["bl", f]

def cinstrOf (j : Json) : Except String CInstr := do
  let a ← j.getArr?
  let s (i : Nat) : Except String String := match a[i]? with
    | some v => v.getStr?
    | none => .error "missing operand"
  let n (i : Nat) : Except String Nat := match a[i]? with
    | some v => v.getNat?
    | none => .error "missing operand"
  let z (i : Nat) : Except String Int := match a[i]? with
    | some v => v.getInt?
    | none => .error "missing operand"
  match ← s 0 with
  | "subSp" => .ok (.subSp (← n 1))
  | "addSp" => .ok (.addSp (← n 1))
  | "movImm" => .ok (.movImm (← s 1) (← z 2))
  | "movSym" => .ok (.movSym (← s 1) (← s 2))
  | "pushImm" => .ok (.pushImm (← z 1))
  | "pushSym" => .ok (.pushSym (← s 1))
  | "call" => .ok (.call (← s 1))
  | "movSmall" => .ok (.movSmall (← s 1) (← z 2))
  | "movz" => .ok (.movz (← s 1) (← n 2))
  | "movk" => .ok (.movk (← s 1) (← n 2) (← n 3))
  | "movn" => .ok (.movn (← s 1) (← n 2))
  | "adrp" => .ok (.adrp (← s 1) (← s 2))
  | "addLo12" => .ok (.addLo12 (← s 1) (← s 2))
  | "strSlot" => .ok (.strSlot (← s 1) (← n 2))
  | "bl" => .ok (.bl (← s 1))
  | o => .error s!"unknown call instruction {o}"

def symAddr (s : String) : Int := 0x400000 + hashStr s % 4000 * 16 + 8
def symContents (s : String) : Int := 0x1234567 + hashStr s

/-- SPEC: what must hold at the call and after the sequence -/
def checkCall (isa : String) (W : Int) (conv : Conv) (f : String) (args : List ArgVal)
    (adj : Option Nat) (instrs : List CInstr) (sp0 : Int) : List String :=
  let env : SymEnv := { addr := symAddr, contents := symContents }
  let entry : Int := sp0 - (adj.getD 0 : Nat)
  let nStack := args.length - conv.regs.length
  let calleePops : Int := if conv.callerCleanup then 0 else W * nStack
  let (lo, hi) : Int × Int := if isa == "X64" then (-(2 ^ 31), 2 ^ 31) else (-(2 ^ 31), 2 ^ 32)
  let σ : CM := { reg := fun r => hashStr r, sp := entry, mem := fun _ => none }
  -- register names are case-insensitive in the assembly text
  let lower (g : String → Int) : String → Int := g
  match crun env W lo hi calleePops instrs σ with
  | .error (.immRange w) => [s!"the assembler rejects an operand of `{w}` (value outside the encodable range)"]
  | .error .other => ["machine error"]
  | .ok σ' =>
    match σ'.snap with
    | none => ["no call instruction was executed"]
    | some (callee, regs, spc, mem) =>
      let modv (v : Int) : Int := v % (2 ^ (8 * W.toNat) : Int)
      let expect : ArgVal → Int
        | .int v => modv v
        | .sym s => symAddr s
      let idx := List.range args.length
      let f1 := idx.filterMap (fun i =>
        match args[i]?, conv.regs[i]? with
        | some a, some r =>
          if modv (lower regs r) = expect a then none
          else some s!"argument {i}: register {r} holds {modv (regs r)}, expected {expect a} ({if (match a with | .sym _ => true | _ => false) then "the symbol's address" else "the integer"})"
        | some a, none =>
          let j := i - conv.regs.length
          match mem (spc + conv.shadow + W * j) with
          | some v => if modv v = expect a then none
                      else some s!"argument {i}: stack slot {j} holds {modv v}, expected {expect a} ({if (match a with | .sym _ => true | _ => false) then "the symbol's address" else "the integer"})"
          | none => some s!"argument {i}: stack slot {j} above the shadow space was not written"
        | none, _ => none)
      let f2 := if conv.align != 0 && spc % (conv.align : Int) != 0 then
        [s!"stack pointer at the call is {spc % (conv.align : Int)} mod {conv.align}"] else []
      let f3 := if σ'.sp = entry then [] else [s!"stack pointer not restored: off by {σ'.sp - entry}"]
      let f4 := if callee == f then [] else [s!"calls {callee} instead of {f}"]
      f1 ++ f2 ++ f3 ++ f4

def handleCall (op : String) (j : Json) : Option (Except String Json) :=
  match op with
  | "call_gen" => some do
    let isa ← getStr j "isa"
    let conv ← convOf (← j.getObjVal? "conv")
    let f ← getStr j "f"
    let args ← (← getArr j "args").toList.mapM argValOf
    let adj ← match ← j.getObjVal? "adj" with
      | .null => pure none
      | v => do pure (some (← v.getNat?))
    let W ← getNat j "W"
    let is := if isa == "ARM64" then arm64Call conv f args else x86Call W conv f args adj
    .ok (Json.mkObj [("instrs", Json.arr (is.map cinstrJ).toArray)])
  | "call_check" => some do
    let isa ← getStr j "isa"
    let conv ← convOf (← j.getObjVal? "conv")
    let f ← getStr j "f"
    let args ← (← getArr j "args").toList.mapM argValOf
    let adj ← match ← j.getObjVal? "adj" with
      | .null => pure none
      | v => do pure (some (← v.getNat?))
    let W ← getNat j "W"
    let instrs ← (← getArr j "instrs").toList.mapM cinstrOf
    let sps ← getIntList j "sps"
    let fails := sps.flatMap (fun sp0 => checkCall isa W conv f args adj instrs sp0)
    .ok (Json.mkObj [("fails", strsJ fails.eraseDups)])
  | _ => none

end Driver.Abi
