import Driver.Util
import GtirbVerif.Model.Dwarf.Encodable
import GtirbVerif.Model.Dwarf.Const
import GtirbVerif.Gen.DwarfTables
import GtirbVerif.Spec.DwarfStd

/-! Line-protocol handlers for the DWARF engine (C14). -/
namespace Driver.Dwarf
open Lean Driver GtirbVerif GtirbVerif.Dwarf

def boOf (s : String) : ByteOrder := if s == "big" then .big else .little

def errName : Err → String
  | .valueError => "ValueError"
  | .eof => "EOFError"
  | .typeError => "TypeError"
  | .fuel => "MODEL-FUEL"

def findCls (t : Table) (n : String) : Except String ClassDesc :=
  match t.find? (·.name == n) with
  | some c => .ok c
  | none => .error s!"unknown class {n}"

def opOfJson (j : Json) : Except String OpObj := do
  let c ← findCls Gen.exprTable (← getStr j "cls")
  let args ← getIntList j "args"
  .ok { cls := c, args := args }

def opToJson (o : OpObj) : Json :=
  Json.mkObj [("cls", Json.str o.cls.name), ("args", intList o.args)]

def argOfJson (j : Json) : Except String Arg :=
  match j.getInt? with
  | .ok v => .ok (.int v)
  | .error _ => do
    let a ← getArr j "expr"
    let ops ← a.toList.mapM opOfJson
    .ok (.expr ops)

def argToJson : Arg → Json
  | .int v => jint v
  | .expr ops => Json.mkObj [("expr", Json.arr (ops.map opToJson).toArray)]

def instOfJson (j : Json) : Except String InstObj := do
  let c ← findCls Gen.cfiTable (← getStr j "cls")
  let a ← getArr j "args"
  let args ← a.toList.mapM argOfJson
  .ok { cls := c, args := args }

def instToJson (i : InstObj) : Json :=
  Json.mkObj [("cls", Json.str i.cls.name), ("args", Json.arr (i.args.map argToJson).toArray)]

def kindName (k : ConstKind) : String :=
  match Gen.exprTable.find? (fun c => c.opcode == k.opcode) with
  | some c => c.name
  | none => "?"

def handle (op : String) (j : Json) : Option (Except String Json) :=
  match op with
  | "uleb_enc" => some do
    let v ← getNat j "v"
    .ok (Json.mkObj [("bytes", natList (ulebEnc v))])
  | "sleb_enc" => some do
    let v ← getInt j "v"
    .ok (Json.mkObj [("bytes", natList (slebEnc v))])
  | "uleb_dec" => some do
    let bs ← getNatList j "bytes"
    match ulebDec bs with
    | none => .ok (errJ "EOFError")
    | some (v, k, _) => .ok (Json.mkObj [("v", jnat v), ("k", jnat k)])
  | "sleb_dec" => some do
    let bs ← getNatList j "bytes"
    match slebDec bs with
    | none => .ok (errJ "EOFError")
    | some (v, k, _) => .ok (Json.mkObj [("v", jint v), ("k", jnat k)])
  | "int_enc" => some do
    let n ← getNat j "n"; let s ← getBool j "signed"; let bo ← getStr j "bo"; let v ← getInt j "v"
    match intEnc n s (boOf bo) v with
    | none => .ok (errJ "OverflowError")
    | some l => .ok (Json.mkObj [("bytes", natList l)])
  | "int_dec" => some do
    let n ← getNat j "n"; let s ← getBool j "signed"; let bo ← getStr j "bo"
    let bs ← getNatList j "bytes"
    let (v, k, _) := intDec n s (boOf bo) bs
    .ok (Json.mkObj [("v", jint v), ("k", jnat k)])
  | "validate" => some do
    -- construction-time validation (ptr_size = None)
    let fam ← getStr j "fam"
    if fam == "expr" then
      let o ← opOfJson (← j.getObjVal? "obj")
      match validateOpArgs none o.cls.encs o.args with
      | .ok _ => .ok (Json.mkObj [("ok", Json.bool true)])
      | .error e => .ok (errJ (errName e))
    else
      let i ← instOfJson (← j.getObjVal? "obj")
      match validateInstArgs none i.cls.encs i.args with
      | .ok _ => .ok (Json.mkObj [("ok", Json.bool true)])
      | .error e => .ok (errJ (errName e))
  | "enc" => some do
    let fam ← getStr j "fam"; let bo ← getStr j "bo"; let ptr ← getNat j "ptr"
    let r ← if fam == "expr" then do
        let o ← opOfJson (← j.getObjVal? "obj")
        pure (encodeOp (boOf bo) ptr o)
      else do
        let i ← instOfJson (← j.getObjVal? "obj")
        pure (encodeInst (boOf bo) ptr i)
    match r with
    | .ok bs => .ok (Json.mkObj [("bytes", natList bs)])
    | .error e => .ok (errJ (errName e))
  | "dec" => some do
    let fam ← getStr j "fam"; let bo ← getStr j "bo"; let ptr ← getNat j "ptr"
    let bs ← getNatList j "bytes"
    if fam == "expr" then
      match decodeOp Gen.exprTable (boOf bo) ptr bs with
      | .ok (o, k, _) => .ok (Json.mkObj [("obj", opToJson o), ("k", jnat k)])
      | .error e => .ok (errJ (errName e))
    else
      match decodeInst Gen.exprTable Gen.cfiTable (boOf bo) ptr bs with
      | .ok (i, k, _) => .ok (Json.mkObj [("obj", instToJson i), ("k", jnat k)])
      | .error e => .ok (errJ (errName e))
  | "parse" => some do
    let bo ← getStr j "bo"; let ptr ← getNat j "ptr"
    let bs ← getNatList j "bytes"
    match parseInsts Gen.exprTable Gen.cfiTable (boOf bo) ptr bs with
    | .ok is => .ok (Json.mkObj [("objs", Json.arr (is.map instToJson).toArray)])
    | .error e => .ok (errJ (errName e))
  | "operands" => some do
    let bo ← getStr j "bo"; let ptr ← getNat j "ptr"
    let i ← instOfJson (← j.getObjVal? "obj")
    match instOperands (boOf bo) ptr i with
    | .ok l => .ok (Json.mkObj [("directive", Json.str i.cls.directive), ("operands", intList l)])
    | .error e => .ok (errJ (errName e))
  | "gas_enc" => some do
    -- SPEC: bytes GNU as emits for (directive, operands)
    let bo ← getStr j "bo"; let ptr ← getNat j "ptr"
    let d ← getStr j "directive"; let ops ← getIntList j "operands"
    if d == ".cfi_escape" then .ok (Json.mkObj [("bytes", intList ops)]) else
    match Std.gasEncode (boOf bo) ptr d ops with
    | .ok bs => .ok (Json.mkObj [("bytes", natList bs)])
    | .error e => .ok (errJ (errName e))
  | "std_enc" => some do
    -- SPEC: encoding per the hand-written DWARF v4 tables, class named by API name
    let fam ← getStr j "fam"; let bo ← getStr j "bo"; let ptr ← getNat j "ptr"
    let o ← j.getObjVal? "obj"
    let name ← getStr o "cls"
    let a ← getArr o "args"
    let args ← a.toList.mapM argOfJson
    let (names, tbl) := if fam == "expr" then (Std.opClassOpcode, Std.dwarf4Expr)
                        else (Std.cfaClassOpcode, Std.dwarf4Cfi)
    match names.lookup name with
    | none => .ok (errJ "NOT-IN-STANDARD-TABLE")
    | some opc =>
      match tbl.lookup opc with
      | none => .ok (errJ "NOT-IN-STANDARD-TABLE")
      | some encs =>
        match Std.stdEncode (boOf bo) ptr opc encs args with
        | .ok bs => .ok (Json.mkObj [("bytes", natList bs)])
        | .error e => .ok (errJ (errName e))
  | "make_const" => some do
    let v ← getInt j "v"
    match makeConst v with
    | none => .ok (errJ "ValueError")
    | some k => .ok (Json.mkObj [("cls", Json.str (kindName k)), ("size", jnat (k.size v))])
  | _ => none

end Driver.Dwarf
