import Driver.IRJson
import GtirbVerif.Model.Asm.Streamer
import GtirbVerif.Spec.AsmCheck

/-! JSON driver for the assembler streamer model (C12, C13) and the result specification. -/
namespace Driver.Asm
open Lean Driver Driver.IRJson GtirbVerif.Asm GtirbVerif.AsmCheck

def kindOf (s : String) : IKind :=
  if s == "ret" then .ret else if s == "call" then .call else if s == "jmp" then .jmp else if s == "jcc" then .jcc else .other

def fixOf (v : Json) : Except String Fixup := do
  let a ← v.getArr?
  pure { off := ← (← at' a 0).getNat?, size := ← (← at' a 1).getNat?, sym := ← (← at' a 2).getStr?, addend := ← (← at' a 3).getInt?,
         sym2 := match a[4]? with | some (Json.str x) => x | _ => "" }

def eventOf (v : Json) : Except String Event := do
  let a ← v.getArr?
  let k ← (← at' a 0).getStr?
  match k with
  | "section" => pure (.section (← (← at' a 1).getStr?) (← (← at' a 2).getBool?))
  | "label" => pure (.label (← (← at' a 1).getStr?))
  | "insn" =>
    pure (.insn (← (← at' a 1).getNat?) (kindOf (← (← at' a 2).getStr?)) (← (← at' a 3).getBool?)
      (← (← (← at' a 4).getArr?).toList.mapM fixOf))
  | "value" => pure (.value (← (← at' a 1).getNat?) (← fixOf (← at' a 2)))
  | "raw" => pure (.rawBytes (← (← at' a 1).getNat?))
  | "str" => pure (.strBytes (← (← at' a 1).getNat?) (← (← at' a 2).getBool?))
  | "fill" => pure (.fill (← (← at' a 1).getNat?))
  | "align" => pure (.align (← (← at' a 1).getNat?))
  | "leb" => pure (.leb (← (← at' a 1).getBool?) (← fixOf (← at' a 2)))
  | "cfi" => pure .cfi
  | _ => .error s!"unknown event {k}"

def targetOf (j : Json) : Except String Target := do
  let syms ← (← arr j "syms").mapM (fun p => do
    let a ← p.getArr?
    pure ((← (← at' a 0).getStr?), (← (← at' a 1).getBool?)))
  pure { moduleSyms := syms, allowUndef := ← getBool j "allowUndef", trivUnreach := ← getBool j "triv" }

def etypeJ : EType → Json
  | .branch => "branch" | .call => "call" | .fall => "fall" | .ret => "ret"

def etypeOf (s : String) : EType :=
  if s == "branch" then .branch else if s == "call" then .call else if s == "fall" then .fall else .ret

def dtypeJ : DType → Json
  | .uleb => "uleb128" | .sleb => "sleb128" | .ascii => "ascii" | .string => "string"

/-- (section index, block index) of a block id in the final state -/
def locate (st : AState) (b : Nat) : Option (Nat × Nat) :=
  ((List.range st.sects.length).zip st.sects).findSome? (fun (si, s) => (s.blocks.findIdx? (·.id == b)).map (fun bi => (si, bi)))

def nodeJ (st : AState) : Node → Json
  | .block b => match locate st b with
    | some (si, bi) => Json.arr #["b", jnat si, jnat bi]
    | none => Json.arr #["dangling", jnat b]
  | .proxy p => match st.undefs.find? (·.2 == p) with
    | some (n, _) => Json.arr #["undef", Json.str n]
    | none => Json.arr #["anon"]
  | .ext n => Json.arr #["ext", Json.str n]

def dedupExprs (l : List (Nat × Fixup)) : List (Nat × Fixup) :=
  l.foldl (fun acc (o, f) => (acc.filter (·.1 != o)) ++ [(o, f)]) []

def sectJ (st : AState) (s : ASect) : Json :=
  let idx (b : Nat) : Nat := (s.blocks.findIdx? (·.id == b)).getD 999999
  Json.mkObj [("name", Json.str s.name), ("dataLen", jnat s.dataLen),
    ("blocks", Json.arr (s.blocks.map (fun b => Json.arr #[jnat b.off, jnat b.size, Json.bool (st.dataBlocks.contains b.id)])).toArray),
    ("align", Json.arr (s.alignment.map (fun (b, a) => Json.arr #[jnat (idx b), jnat a])).toArray),
    ("types", Json.arr ((st.blockTypes.filter (fun (b, _) => st.dataBlocks.contains b && s.blocks.any (·.id == b))).map
        (fun (b, ty) => Json.arr #[jnat (idx b), dtypeJ ty])).toArray),
    ("exprs", Json.arr ((dedupExprs s.exprs).map (fun (o, f) => Json.arr #[jnat o, Json.str (if f.sym2 == "" then f.sym else f.sym ++ "-" ++ f.sym2), jint f.addend, jnat f.size])).toArray)]

def stateJ (st : AState) : Json :=
  Json.mkObj [("sects", Json.arr (st.sects.map (sectJ st)).toArray),
    ("edges", Json.arr (st.cfg.map (fun e =>
        let src := match locate st e.src with
          | some (si, bi) => Json.arr #[jnat si, jnat bi]
          | none => Json.arr #["dangling", jnat e.src]
        Json.arr #[src, nodeJ st e.dst, etypeJ e.type, Json.bool e.cond, Json.bool e.direct])).toArray),
    ("syms", Json.arr ((st.locals.map (fun (n, b) => Json.arr #[Json.str n, nodeJ st (.block b), Json.bool (st.atEnd.contains n)])) ++
                       (st.undefs.map (fun (n, p) => Json.arr #[Json.str n, nodeJ st (.proxy p), Json.bool false]))).toArray)]

def errStr : AErr → String
  | .multipleDefinitions n => "MultipleDefinitionsError: " ++ n
  | .undefSymbol n => "UndefSymbolError: " ++ n
  | .unsupported w => "UnsupportedAssemblyError: " ++ w
  | .internal w => "AssertionError: " ++ w

/-! ### the specification side -/

def rnodeOf (v : Json) : Except String RNode := do
  let a ← v.getArr?
  let k ← (← at' a 0).getStr?
  match k with
  | "b" => pure (.block (← (← at' a 1).getNat?) (← (← at' a 2).getNat?))
  | "p" => pure (.proxy (← (← at' a 1).getNat?))
  | "ext" => pure (.ext (← (← at' a 1).getStr?))
  | _ => .error s!"unknown node {k}"

def itemOf (v : Json) : Except String Item := do
  let a ← v.getArr?
  let k ← (← at' a 0).getStr?
  match k with
  | "label" => pure (.label (← (← at' a 1).getStr?))
  | "insn" =>
    let tgt : Option String ← match (← at' a 4) with
      | Json.null => pure none
      | t => pure (some (← t.getStr?))
    pure (.insn (← (← at' a 1).getNat?) (kindOf (← (← at' a 2).getStr?)) (← (← at' a 3).getBool?) tgt)
  | "data" => pure (.data (← (← at' a 1).getNat?) (← (← at' a 2).getBool?))
  | "align" => pure (.align (← (← at' a 1).getNat?))
  | "cfi" => pure .cfi
  | _ => .error s!"unknown item {k}"

def rresultOf (j : Json) : Except String RResult := do
  let sects ← (← arr j "sects").mapM (fun s => do
    let blocks ← (← arr s "blocks").mapM (fun b => do
      let a ← b.getArr?
      pure ({ off := ← (← at' a 0).getNat?, size := ← (← at' a 1).getNat?, isData := ← (← at' a 2).getBool? } : RBlock))
    pure ({ name := ← getStr s "name", exec := ← getBool s "exec", dataLen := ← getNat s "dataLen", blocks := blocks,
            items := ← (← arr s "items").mapM itemOf } : RSect))
  let edges ← (← arr j "edges").mapM (fun e => do
    let a ← e.getArr?
    let src ← (← at' a 0).getArr?
    pure ({ src := ((← (← at' src 0).getNat?), (← (← at' src 1).getNat?)), dst := ← rnodeOf (← at' a 1),
            type := etypeOf (← (← at' a 2).getStr?), cond := ← (← at' a 3).getBool?, direct := ← (← at' a 4).getBool? } : REdge))
  let syms ← (← arr j "syms").mapM (fun e => do
    let a ← e.getArr?
    pure ({ name := ← (← at' a 0).getStr?, node := ← rnodeOf (← at' a 1), atEnd := ← (← at' a 2).getBool? } : RSym))
  pure { sects := sects, edges := edges, syms := syms, trivUnreach := ← getBool j "triv" }

def handle (op : String) (j : Json) : Option (Except String Json) :=
  match op with
  | "assemble" => some do
    let t ← targetOf (← j.getObjVal? "target")
    let chunks ← (← arr j "chunks").mapM (fun c => do (← c.getArr?).toList.mapM eventOf)
    match GtirbVerif.Asm.assemble t chunks with
    | .ok st => .ok (stateJ st)
    | .error e => .ok (Json.mkObj [("err", Json.str (errStr e))])
  | "asm_check" => some do
    let r ← rresultOf j
    .ok (Json.mkObj [("issues", Json.arr ((check r).map (fun i => Json.arr #[Json.str i.rule, jnat i.sect, jnat i.pos])).toArray)])
  | _ => none

end Driver.Asm
