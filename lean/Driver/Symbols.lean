import Driver.IRJson
import GtirbVerif.Model.Symbols.Delete
import GtirbVerif.Model.Symbols.Retarget

/-! JSON driver for the delete_symbols model (C19). -/
namespace Driver.Symbols
open Lean Driver Driver.IRJson GtirbVerif.Symbols

def pairsOf (j : Json) (k : String) : Except String (List (Nat × Nat)) := natNatList j k

def modOf (j : Json) : Except String Mod := do
  let exprs ← (← arr j "exprs").mapM (fun p => do
    let a ← p.getArr?
    pure ({ interval := ← (← at' a 0).getNat?, off := ← (← at' a 1).getNat?,
            syms := ← (← (← at' a 2).getArr?).toList.mapM (·.getNat?) } : Expr))
  let cfi ← (← arr j "cfi").mapM (fun p => do
    let a ← p.getArr?
    let sym : Option Nat ← match (← at' a 3) with
      | Json.null => pure none
      | v => pure (some (← v.getNat?))
    pure ({ loc := ← (← at' a 0).getNat?, name := ← (← at' a 1).getStr?,
            args := ← (← (← at' a 2).getArr?).toList.mapM (·.getInt?), sym := sym } : Cfi))
  let reqs ← (← arr j "verReqs").mapM (fun p => do
    let a ← p.getArr?
    pure ((← (← at' a 0).getStr?), (← (← (← at' a 1).getArr?).toList.mapM (·.getNat?))))
  .ok { syms := ← getNatList j "syms", exprs := exprs, elfSymInfo := ← getNatList j "elfSymInfo",
        elfTabIdx := ← getNatList j "elfTabIdx", verDefs := ← pairsOf j "verDefs", verReqs := reqs,
        verEntries := ← pairsOf j "verEntries", funcNames := ← pairsOf j "funcNames",
        peImports := ← getNatList j "peImports", peExports := ← getNatList j "peExports",
        forwarding := ← pairsOf j "forwarding", cfi := cfi }

def pairsJ (l : List (Nat × Nat)) : Json := Json.arr (l.map (fun (a, b) => Json.arr #[toJson a, toJson b])).toArray

def modJ (m : Mod) : Json :=
  Json.mkObj [("syms", toJson m.syms),
    ("exprs", Json.arr (m.exprs.map (fun e => Json.arr #[toJson e.interval, toJson e.off, toJson e.syms])).toArray),
    ("elfSymInfo", toJson m.elfSymInfo), ("elfTabIdx", toJson m.elfTabIdx), ("verDefs", pairsJ m.verDefs),
    ("verReqs", Json.arr (m.verReqs.map (fun (l, ids) => Json.arr #[Json.str l, toJson ids])).toArray),
    ("verEntries", pairsJ m.verEntries), ("funcNames", pairsJ m.funcNames), ("peImports", toJson m.peImports),
    ("peExports", toJson m.peExports), ("forwarding", pairsJ m.forwarding),
    ("cfi", Json.arr (m.cfi.map (fun d => Json.arr #[toJson d.loc, Json.str d.name, toJson d.args,
      match d.sym with | some s => toJson s | none => Json.null])).toArray)]

namespace R
open GtirbVerif.Retarget

def accOf : Nat → Access
  | 0 => .controlFlow | 1 => .codeRef | _ => .data

def accJ : Access → Nat
  | .controlFlow => 0 | .codeRef => 1 | .data => 2

def refOf (v : Json) : Except String Referent := do
  match v with
  | Json.null => pure .none
  | _ =>
    let a ← v.getArr?
    let k ← (← at' a 0).getStr?
    let n ← (← at' a 1).getNat?
    pure (if k == "c" then .code n else if k == "d" then .dataBlock n else .proxy n)

def modOf (j : Json) : Except String GtirbVerif.Retarget.Mod := do
  let refs ← (← arr j "refs").mapM (fun p => do
    let a ← p.getArr?
    pure ((← (← at' a 0).getNat?), (← refOf (← at' a 1))))
  let exprs ← (← arr j "exprs").mapM (fun p => do
    let cb : Option Nat ← match p.getObjVal? "cfg_block" with
      | .ok Json.null => pure none
      | .ok v => pure (some (← v.getNat?))
      | .error _ => pure none
    pure ({ interval := ← getNat p "interval", off := ← getNat p "off", isAddrAddr := ← getBool p "addraddr",
            syms := ← getNatList p "syms", addend := ← (← p.getObjVal? "addend").getInt?, attrs := ← getNatList p "attrs",
            access := accOf (← getNat p "access"), blocks := ← getNat p "blocks", cfgBlock := cb } : GtirbVerif.Retarget.Expr))
  let cfi ← (← arr j "cfi").mapM (fun p => do
    let a ← p.getArr?
    let s : Option Nat ← match (← at' a 1) with
      | Json.null => pure none
      | v => pure (some (← v.getNat?))
    pure ((← (← at' a 0).getNat?), s))
  let cfg ← (← arr j "cfg").mapM (fun p => do
    let a ← p.getArr?
    pure ({ src := ← (← at' a 0).getNat?, dstProxy := ← (← at' a 1).getBool?, dst := ← (← at' a 2).getNat?,
            type := ← (← at' a 3).getNat?, flags := ← (← at' a 4).getNat? } : GtirbVerif.Retarget.Edge))
  .ok { refs := refs, exprs := exprs, cfi := cfi, forwarding := ← natNatList j "forwarding", cfg := cfg }

def modJ (m : GtirbVerif.Retarget.Mod) : Json :=
  Json.mkObj [
    ("exprs", Json.arr (m.exprs.map (fun e => Json.mkObj [("interval", toJson e.interval), ("off", toJson e.off),
      ("addraddr", Json.bool e.isAddrAddr), ("syms", toJson e.syms), ("addend", toJson e.addend), ("attrs", toJson e.attrs)])).toArray),
    ("cfi", Json.arr (m.cfi.map (fun (i, s) => Json.arr #[toJson i, match s with | some y => toJson y | none => Json.null])).toArray),
    ("forwarding", pairsJ m.forwarding),
    ("cfg", Json.arr (m.cfg.map (fun e => Json.arr #[toJson e.src, Json.bool e.dstProxy, toJson e.dst, toJson e.type, toJson e.flags])).toArray)]

def rulesOf (j : Json) : Except String (List Rule) := do
  (← arr j "rules").mapM (fun p => do
    pure ({ internal := ← getNatList p "internal", external := ← getNatList p "external",
            access := (← getNatList p "access").map accOf } : Rule))

end R

def handle (op : String) (j : Json) : Option (Except String Json) :=
  match op with
  | "retarget" => some do
    let m ← R.modOf (← j.getObjVal? "mod")
    let rules ← R.rulesOf j
    let map ← natNatList j "map"
    match GtirbVerif.Retarget.retarget rules map m with
    | .ok m' => .ok (Json.mkObj [("mod", R.modJ m')])
    | .error (.ambiguous w) => .ok (Json.mkObj [("err", Json.str ("AmbiguousIRError: " ++ w))])
    | .error .notImplemented => .ok (Json.mkObj [("err", Json.str "NotImplementedError")])
    | .error .multipleRules => .ok (Json.mkObj [("err", Json.str "ValueError: multiple rules matched")])
    | .error (.assertion w) => .ok (Json.mkObj [("err", Json.str ("AssertionError: " ++ w))])
  | "delete_symbols" => some do
    let m ← modOf (← j.getObjVal? "mod")
    let req ← (← arr j "req").mapM (fun p => do
      let a ← p.getArr?
      pure ((← (← at' a 0).getNat?), (← (← at' a 1).getBool?)))
    match deleteSymbols req m with
    | .ok m' => .ok (Json.mkObj [("mod", modJ m')])
    | .error (.usesRemaining s) => .ok (Json.mkObj [("err", Json.str "SymbolUsesRemainingError"), ("sym", toJson s)])
  | _ => none

end Driver.Symbols
