import Driver.IRJson
import GtirbVerif.Model.Symbols.Delete

/-! JSON driver for the delete_symbols model (C19). -/
namespace Driver.Symbols
open Lean Driver Driver.IRJson GtirbVerif.Symbols

def pairsOf (j : Json) (k : String) : Except String (List (Nat × Nat)) := natNatList j k

def modOf (j : Json) : Except String Mod := do
  let exprs ← (← arr j "exprs").mapM (fun p => do
    let a ← p.getArr?
    pure ({ interval := ← (← at' a 0).getNat?, off := ← (← at' a 1).getNat?,
            syms := ← (← (← at' a 2).getArr?).toList.mapM (·.getNat?) } : Expr))
  let cfi ← (← arr j "cfi").mapM (fun p => do
    let a ← p.getArr?
    let sym : Option Nat ← match (← at' a 3) with
      | Json.null => pure none
      | v => pure (some (← v.getNat?))
    pure ({ loc := ← (← at' a 0).getNat?, name := ← (← at' a 1).getStr?,
            args := ← (← (← at' a 2).getArr?).toList.mapM (·.getInt?), sym := sym } : Cfi))
  let reqs ← (← arr j "verReqs").mapM (fun p => do
    let a ← p.getArr?
    pure ((← (← at' a 0).getStr?), (← (← (← at' a 1).getArr?).toList.mapM (·.getNat?))))
  .ok { syms := ← getNatList j "syms", exprs := exprs, elfSymInfo := ← getNatList j "elfSymInfo",
        elfTabIdx := ← getNatList j "elfTabIdx", verDefs := ← pairsOf j "verDefs", verReqs := reqs,
        verEntries := ← pairsOf j "verEntries", funcNames := ← pairsOf j "funcNames",
        peImports := ← getNatList j "peImports", peExports := ← getNatList j "peExports",
        forwarding := ← pairsOf j "forwarding", cfi := cfi }

def pairsJ (l : List (Nat × Nat)) : Json := Json.arr (l.map (fun (a, b) => Json.arr #[toJson a, toJson b])).toArray

def modJ (m : Mod) : Json :=
  Json.mkObj [("syms", toJson m.syms),
    ("exprs", Json.arr (m.exprs.map (fun e => Json.arr #[toJson e.interval, toJson e.off, toJson e.syms])).toArray),
    ("elfSymInfo", toJson m.elfSymInfo), ("elfTabIdx", toJson m.elfTabIdx), ("verDefs", pairsJ m.verDefs),
    ("verReqs", Json.arr (m.verReqs.map (fun (l, ids) => Json.arr #[Json.str l, toJson ids])).toArray),
    ("verEntries", pairsJ m.verEntries), ("funcNames", pairsJ m.funcNames), ("peImports", toJson m.peImports),
    ("peExports", toJson m.peExports), ("forwarding", pairsJ m.forwarding),
    ("cfi", Json.arr (m.cfi.map (fun d => Json.arr #[toJson d.loc, Json.str d.name, toJson d.args,
      match d.sym with | some s => toJson s | none => Json.null])).toArray)]

def handle (op : String) (j : Json) : Option (Except String Json) :=
  match op with
  | "delete_symbols" => some do
    let m ← modOf (← j.getObjVal? "mod")
    let req ← (← arr j "req").mapM (fun p => do
      let a ← p.getArr?
      pure ((← (← at' a 0).getNat?), (← (← at' a 1).getBool?)))
    match deleteSymbols req m with
    | .ok m' => .ok (Json.mkObj [("mod", modJ m')])
    | .error (.usesRemaining s) => .ok (Json.mkObj [("err", Json.str "SymbolUsesRemainingError"), ("sym", toJson s)])
  | _ => none

end Driver.Symbols
