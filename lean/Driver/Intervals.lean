import Driver.IRJson
import GtirbVerif.Model.Intervals.SplitJoin

/-! JSON driver for the byte-interval model (C10). -/
namespace Driver.Intervals
open Lean Driver Driver.IRJson GtirbVerif.Intervals

def ivOf (j : Json) : Except String Iv := do
  let addr : Option Nat ← match j.getObjVal? "addr" with
    | .ok Json.null => pure none
    | .ok v => pure (some (← v.getNat?))
    | .error _ => pure none
  let blocks ← (← arr j "blocks").mapM (fun p => do
    let a ← p.getArr?
    pure ({ id := ← (← at' a 0).getNat?, off := ← (← at' a 1).getNat?, size := ← (← at' a 2).getNat?,
            isCode := ← (← at' a 3).getBool? } : Blk))
  let anns ← (← arr j "anns").mapM (fun p => do
    let a ← p.getArr?
    pure ({ table := ← (← at' a 0).getNat?, off := ← (← at' a 1).getNat?, val := ← (← at' a 2).getNat? } : Ann))
  .ok { addr := addr, size := ← getNat j "size", contents := ← getNatList j "contents", blocks := blocks, anns := anns }

def ivJ (iv : Iv) : Json :=
  Json.mkObj [("addr", match iv.addr with | some a => toJson a | none => Json.null), ("size", toJson iv.size),
    ("contents", toJson iv.contents),
    ("blocks", Json.arr (iv.blocks.map (fun b => Json.arr #[toJson b.id, toJson b.off, toJson b.size, Json.bool b.isCode])).toArray),
    ("anns", Json.arr (iv.anns.map (fun a => Json.arr #[toJson a.table, toJson a.off, toJson a.val])).toArray)]

def handle (op : String) (j : Json) : Option (Except String Json) :=
  match op with
  | "iv_split" => some do
    let iv ← ivOf (← j.getObjVal? "iv")
    .ok (Json.mkObj [("ivs", Json.arr ((split iv).map ivJ).toArray)])
  | "iv_join" => some do
    let ivs ← (← arr j "ivs").mapM (fun p => do
      let a ← p.getArr?
      let iv ← ivOf (← at' a 0)
      let al : Option Nat ← match (← at' a 1) with
        | Json.null => pure none
        | v => pure (some (← v.getNat?))
      pure (iv, al))
    let nop ← getNatList j "nop"
    let ab ← natNatList j "align_blocks"
    match join nop (fun b => (ab.find? (·.1 == b)).map (·.2)) ivs (← getNat j "next_id") with
    | .ok iv => .ok (Json.mkObj [("iv", ivJ iv)])
    | .error (.padding w) => .ok (Json.mkObj [("err", Json.str ("PaddingError: " ++ w))])
  | _ => none

end Driver.Intervals
