import Lean.Data.Json

/-! JSON helpers shared by the driver's per-engine handlers. -/
namespace Driver
open Lean

def getNat (j : Json) (k : String) : Except String Nat := do
  let v ← j.getObjVal? k
  v.getNat?

def getInt (j : Json) (k : String) : Except String Int := do
  let v ← j.getObjVal? k
  v.getInt?

def getStr (j : Json) (k : String) : Except String String := do
  let v ← j.getObjVal? k
  v.getStr?

def getBool (j : Json) (k : String) : Except String Bool := do
  let v ← j.getObjVal? k
  v.getBool?

def getArr (j : Json) (k : String) : Except String (Array Json) := do
  let v ← j.getObjVal? k
  v.getArr?

def getNatList (j : Json) (k : String) : Except String (List Nat) := do
  let a ← getArr j k
  a.toList.mapM (·.getNat?)

def getIntList (j : Json) (k : String) : Except String (List Int) := do
  let a ← getArr j k
  a.toList.mapM (·.getInt?)

def natList (l : List Nat) : Json := Json.arr (l.map (fun n => Json.num (JsonNumber.fromNat n))).toArray
def intList (l : List Int) : Json := Json.arr (l.map (fun n => Json.num (JsonNumber.fromInt n))).toArray
def jint (i : Int) : Json := Json.num (JsonNumber.fromInt i)
def jnat (n : Nat) : Json := Json.num (JsonNumber.fromNat n)
def errJ (s : String) : Json := Json.mkObj [("err", Json.str s)]

end Driver
