import Driver.Util
import Driver.Adt
import GtirbVerif.Model.IR.Modify
import GtirbVerif.Spec.ListingCheck
import GtirbVerif.Model.IR.Batch
import GtirbVerif.Spec.FlatCfg
import GtirbVerif.Spec.FuncCheck
import GtirbVerif.Spec.WellFormed
import GtirbVerif.Spec.CfiCheck
import GtirbVerif.Spec.Scopes

/-! JSON <-> abstract IR (the canonical dump produced by harness/irdump.py). -/
namespace Driver.IRJson
open Lean Driver GtirbVerif GtirbVerif.IR
open GtirbVerif.Adt (CfgNode Label Edge)

def optNat (j : Json) : Except String (Option Nat) :=
  match j with
  | .null => .ok none
  | _ => do pure (some (← j.getNat?))

def arr (j : Json) (k : String) : Except String (List Json) := do pure (← getArr j k).toList

def at' (a : Array Json) (i : Nat) : Except String Json :=
  match a[i]? with
  | some v => .ok v
  | none => .error s!"missing component {i}"

def symExprOf (j : Json) : Except String SymExpr := do
  .ok { kind := ← getNat j "kind", offset := ← getInt j "offset", scale := ← getInt j "scale",
        sym1 := ← getNat j "sym1", sym2 := ← getNat j "sym2", attrs := ← getNatList j "attrs" }

def symExprJ (e : SymExpr) : Json :=
  Json.mkObj [("kind", jnat e.kind), ("offset", jint e.offset), ("scale", jint e.scale),
    ("sym1", jnat e.sym1), ("sym2", jnat e.sym2), ("attrs", natList e.attrs)]

def kvSymExprs (j : Json) (k : String) : Except String (List (Nat × SymExpr)) := do
  (← arr j k).mapM (fun p => do
    let a ← p.getArr?
    pure ((← (← at' a 0).getNat?), (← symExprOf (← at' a 1))))

def intervalOf (j : Json) : Except String Interval := do
  .ok { id := ← getNat j "id", sect := ← getNat j "sect", addr := ← optNat (← j.getObjVal? "addr"),
        size := ← getNat j "size", bytes := ← getNatList j "bytes", symExprs := ← kvSymExprs j "symexprs" }

def intervalJ (i : Interval) : Json :=
  Json.mkObj [("id", jnat i.id), ("sect", jnat i.sect),
    ("addr", match i.addr with | some a => jnat a | none => Json.null), ("size", jnat i.size),
    ("bytes", natList i.bytes),
    ("symexprs", Json.arr (i.symExprs.map (fun (k, e) => Json.arr #[jnat k, symExprJ e])).toArray)]

def blockOf (j : Json) : Except String Block := do
  .ok { id := ← getNat j "id", isCode := ← getBool j "code", bi := ← optNat (← j.getObjVal? "bi"),
        off := ← getNat j "off", size := ← getNat j "size" }

def blockJ (b : Block) : Json :=
  Json.mkObj [("id", jnat b.id), ("code", Json.bool b.isCode),
    ("bi", match b.bi with | some i => jnat i | none => Json.null), ("off", jnat b.off), ("size", jnat b.size)]

def refOf (j : Json) : Except String Referent :=
  match j with
  | .null => .ok .none
  | _ => do
    let a ← j.getArr?
    let n ← (← at' a 1).getNat?
    match ← (← at' a 0).getStr? with
    | "b" => .ok (.block n)
    | _ => .ok (.proxy n)

def refJ : Referent → Json
  | .none => Json.null
  | .block b => Json.arr #["b", jnat b]
  | .proxy p => Json.arr #["p", jnat p]

def symOf (j : Json) : Except String Sym := do
  .ok { id := ← getNat j "id", name := ← getStr j "name", ref := ← refOf (← j.getObjVal? "ref"),
        atEnd := ← getBool j "at_end" }

def symJ (s : Sym) : Json :=
  Json.mkObj [("id", jnat s.id), ("name", Json.str s.name), ("ref", refJ s.ref), ("at_end", Json.bool s.atEnd)]

def cfiDirOf (j : Json) : Except String CfiDir := do
  let a ← j.getArr?
  .ok { name := ← (← at' a 0).getStr?, args := ← (← (← at' a 1).getArr?).toList.mapM (·.getInt?),
        sym := ← optNat (← at' a 2) }

def cfiDirJ (d : CfiDir) : Json :=
  Json.arr #[Json.str d.name, intList d.args, match d.sym with | some s => jnat s | none => Json.null]

def cfiOf (j : Json) (k : String) : Except String (List (Nat × Nat × List CfiDir)) := do
  (← arr j k).mapM (fun p => do
    let a ← p.getArr?
    pure ((← (← at' a 0).getNat?), (← (← at' a 1).getNat?),
      (← (← (← at' a 2).getArr?).toList.mapM cfiDirOf)))

def cfiJ (c : List (Nat × Nat × List CfiDir)) : Json :=
  Json.arr (c.map (fun (b, k, ds) => Json.arr #[jnat b, jnat k, Json.arr (ds.map cfiDirJ).toArray])).toArray

def elemOf (j : Json) : Except String Elem := do
  let a ← j.getArr?
  let n ← (← at' a 1).getNat?
  match ← (← at' a 0).getStr? with
  | "b" => .ok (.block n)
  | _ => .ok (.interval n)

def elemJ : Elem → Json
  | .block b => Json.arr #["b", jnat b]
  | .interval i => Json.arr #["i", jnat i]

def natStrList (j : Json) (k : String) : Except String (List (Nat × String)) := do
  (← arr j k).mapM (fun p => do
    let a ← p.getArr?
    pure ((← (← at' a 0).getNat?), (← (← at' a 1).getStr?)))

def natStrJ (l : List (Nat × String)) : Json :=
  Json.arr (l.map (fun (k, v) => Json.arr #[jnat k, Json.str v])).toArray

def natNatList (j : Json) (k : String) : Except String (List (Nat × Nat)) := do
  (← arr j k).mapM (fun p => do
    let a ← p.getArr?
    pure ((← (← at' a 0).getNat?), (← (← at' a 1).getNat?)))

def natNatJ (l : List (Nat × Nat)) : Json :=
  Json.arr (l.map (fun (k, v) => Json.arr #[jnat k, jnat v])).toArray

def natSetList (j : Json) (k : String) : Except String (List (Nat × List Nat)) := do
  (← arr j k).mapM (fun p => do
    let a ← p.getArr?
    pure ((← (← at' a 0).getNat?), (← (← (← at' a 1).getArr?).toList.mapM (·.getNat?))))

def natSetJ (l : List (Nat × List Nat)) : Json :=
  Json.arr (l.map (fun (k, v) => Json.arr #[jnat k, natList v])).toArray

def auxOf (j : Json) : Except String Aux := do
  let om ← (← arr j "omaps").mapM (fun p => do
    let a ← p.getArr?
    let name ← (← at' a 0).getStr?
    let es ← (← (← at' a 1).getArr?).toList.mapM (fun e => do
      let ea ← e.getArr?
      pure ((← elemOf (← at' ea 0)), (← (← at' ea 1).getNat?), (← (← at' ea 2).getStr?)))
    pure (name, es))
  .ok { alignment := ← natNatList j "alignment", omaps := om, cfi := ← cfiOf j "cfi",
        funcBlocks := ← natSetList j "funcBlocks", funcEntries := ← natSetList j "funcEntries",
        funcNames := ← natNatList j "funcNames", encodings := ← natStrList j "encodings",
        types := ← natStrList j "types", profile := ← natStrList j "profile", sccs := ← natStrList j "sccs",
        peSafeSeh := ← getNatList j "peSafeSeh", elfInit := ← optNat (← j.getObjVal? "elfInit"),
        elfFini := ← optNat (← j.getObjVal? "elfFini"), elfSymInfo := ← natStrList j "elfSymInfo" }

def auxJ (a : Aux) : Json :=
  Json.mkObj [("alignment", natNatJ a.alignment),
    ("omaps", Json.arr (a.omaps.map (fun (n, es) => Json.arr #[Json.str n,
      Json.arr (es.map (fun (el, k, v) => Json.arr #[elemJ el, jnat k, Json.str v])).toArray])).toArray),
    ("cfi", cfiJ a.cfi), ("funcBlocks", natSetJ a.funcBlocks), ("funcEntries", natSetJ a.funcEntries),
    ("funcNames", natNatJ a.funcNames), ("encodings", natStrJ a.encodings), ("types", natStrJ a.types),
    ("profile", natStrJ a.profile), ("sccs", natStrJ a.sccs), ("peSafeSeh", natList a.peSafeSeh),
    ("elfInit", match a.elfInit with | some b => jnat b | none => Json.null),
    ("elfFini", match a.elfFini with | some b => jnat b | none => Json.null),
    ("elfSymInfo", natStrJ a.elfSymInfo)]

def irOf (j : Json) : Except String IR := do
  .ok { sections := ← natStrList j "sections",
        intervals := ← (← arr j "intervals").mapM intervalOf,
        blocks := ← (← arr j "blocks").mapM blockOf,
        proxies := ← getNatList j "proxies",
        syms := ← (← arr j "syms").mapM symOf,
        cfg := ← (← arr j "cfg").mapM Driver.Adt.edgeOf,
        entry := ← optNat (← j.getObjVal? "entry"),
        aux := ← auxOf (← j.getObjVal? "aux"),
        fbb := ← natNatList j "fbb",
        order := ← (← arr j "order").mapM (fun p => do
          let a ← p.getArr?
          let chains ← (← (← at' a 1).getArr?).toList.mapM (fun c => do
            pure (← (← c.getArr?).toList.mapM (·.getNat?)))
          pure ((← (← at' a 0).getNat?), chains)),
        next := ← getNat j "next" }

def irJ (ir : IR) : Json :=
  Json.mkObj [("sections", natStrJ ir.sections),
    ("intervals", Json.arr (ir.intervals.map intervalJ).toArray),
    ("blocks", Json.arr (ir.blocks.map blockJ).toArray),
    ("proxies", natList ir.proxies),
    ("syms", Json.arr (ir.syms.map symJ).toArray),
    ("cfg", Driver.Adt.edgesJ ir.cfg),
    ("entry", match ir.entry with | some b => jnat b | none => Json.null),
    ("aux", auxJ ir.aux), ("fbb", natNatJ ir.fbb),
    ("order", Json.arr (ir.order.map (fun (k, chains) =>
      Json.arr #[jnat k, Json.arr (chains.map natList).toArray])).toArray),
    ("next", jnat ir.next)]

def patchSectOf (j : Json) : Except String PatchSect := do
  .ok { name := ← getStr j "name", data := ← getNatList j "data",
        blocks := ← (← arr j "blocks").mapM blockOf, symExprs := ← kvSymExprs j "symexprs",
        symExprSizes := ← natNatList j "symexpr_sizes", alignment := ← natNatList j "alignment",
        blockTypes := ← natStrList j "block_types" }

def patchOf (j : Json) : Except String Patch := do
  let others ← (← arr j "others").mapM (fun o => do
    let s ← patchSectOf (← o.getObjVal? "sect")
    pure (s, (← getNat o "sect_id"), (← getNat o "bi_id")))
  .ok { text := ← patchSectOf (← j.getObjVal? "text"), others := others,
        newSections := ← natStrList j "new_sections",
        cfg := ← (← arr j "cfg").mapM Driver.Adt.edgeOf,
        syms := ← (← arr j "syms").mapM symOf, proxies := ← getNatList j "proxies",
        cfi := ← cfiOf j "cfi", elfSymInfo := ← natStrList j "elfSymInfo",
        hasFuncSym := ← getBool j "has_func_sym" }

def errJson : Err → Json
  | .assertion w => Json.mkObj [("err", Json.str "AssertionError"), ("what", Json.str w)]
  | .keyError => Json.mkObj [("err", Json.str "KeyError")]
  | .unjoinable w => Json.mkObj [("err", Json.str "UnjoinableBlocksError"), ("what", Json.str w)]
  | .unsupported => Json.mkObj [("err", Json.str "Unsupported")]

def handle (op : String) (j : Json) : Option (Except String Json) :=
  match op with
  | "ir_op" => some do
    let ir ← irOf (← j.getObjVal? "ir")
    let o ← j.getObjVal? "do"
    let kind ← getStr o "kind"
    match kind with
    | "insert" =>
      let p ← patchOf (← o.getObjVal? "patch")
      match ir.insert (← getNat o "block") (← getNat o "offset") (← getNat o "repl") p with
      | .ok (ir', last) => .ok (Json.mkObj [("ir", irJ ir'), ("ret", jnat last)])
      | .error e => .ok (errJson e)
    | "delete" =>
      match ir.delete (← getNat o "block") (← getNat o "offset") (← getNat o "length") (← getBool o "proxy") with
      | .ok (ir', last) => .ok (Json.mkObj [("ir", irJ ir'),
          ("ret", match last with | some l => jnat l | none => Json.null)])
      | .error e => .ok (errJson e)
    | "split" =>
      match ir.splitBlock (← getNat o "block") (← getNat o "offset") with
      | .ok (ir', nb, added) => .ok (Json.mkObj [("ir", irJ ir'), ("ret", jnat nb), ("added", Json.bool added)])
      | .error e => .ok (errJson e)
    | "join" =>
      match ir.joinBlocks (← getNat o "block1") (← getNat o "block2") with
      | .ok ir' => .ok (Json.mkObj [("ir", irJ ir')])
      | .error e => .ok (errJson e)
    | "remove" =>
      match ir.removeBlock (← getNat o "block") (← getBool o "proxy") with
      | .ok (ir', r) => .ok (Json.mkObj [("ir", irJ ir'), ("ret", Json.bool r)])
      | .error e => .ok (errJson e)
    | "edit_interval" =>
      let ir' := ir.editInterval (← getNat o "bi") (← getNat o "offset") (← getNat o "length")
        (← getNatList o "content") (← getNatList o "static")
      .ok (Json.mkObj [("ir", irJ ir')])
    | k => .error s!"unknown ir op {k}"
  | "loop_step" => some do
    -- one iteration of the loop of `_apply_modifications` (`IR.applyMods` on a one-element list),
    -- with the premises of `Props.C01.loop_is_listing` evaluated on this state
    let ir ← irOf (← j.getObjVal? "ir")
    let origOff ← getNat j "orig_off"
    let actual ← getNat j "actual"
    let total ← (← j.getObjVal? "total").getInt?
    let o ← j.getObjVal? "do"
    let kind ← getStr o "kind"
    let off ← getNat o "off"
    let m : Mod ← match kind with
      | "insert" => do pure (Mod.ins off (← getNat o "repl") (← patchOf (← o.getObjVal? "patch")))
      | "delete" => do pure (Mod.del off (← getNat o "length") (← getBool o "proxy"))
      | k => .error s!"unknown loop op {k}"
    let ao : Json := match ir.block? actual with
      | some ab => toJson (actualOffset origOff ab total off)
      | none => Json.null
    let idsBelow := ir.ids.all (fun k => decide (k < ir.next))
    let newBlocks := match m with
      | .ins _ _ p => p.text.blocks.all (fun b => (ir.block? b.id).isNone && decide (b.id < ir.next)) &&
          decide ((p.text.blocks.map (·.id)).Nodup)
      | .del _ _ _ => true
    -- premise of the function-table theorems (Props.C06 / C09): cache and table in step, cache keys are blocks
    let minv := ir.fbb.all (fun (b, f) => ((alookup f ir.aux.funcBlocks).getD []).contains b && (ir.block? b).isSome) &&
      ir.aux.funcBlocks.all (fun (f, bs) => bs.all (fun b => alookup b ir.fbb == some f)) &&
      -- … and of `Props.C06.entries_are_blocks_after_apply`: entries are blocks of their function
      ir.aux.funcEntries.all (fun (f, es) => es.all (fun b => ((alookup f ir.aux.funcBlocks).getD []).contains b))
    let func : Option Nat := match j.getObjVal? "func" with
      | .ok v => v.getNat?.toOption
      | .error _ => none
    let res : Json := match IR.applyMods origOff func ir (some actual) total [m] with
      | .ok ir' => Json.mkObj [("ir", irJ ir')]
      | .error e => errJson e
    -- premises of the symbol-closure theorems (Props.C02 `no_symbol_is_left_on_a_block_that_left_the_module`)
    let sinv := ir.symsOkB && ir.ordOkB
    let patchOk := match m with
      | .ins _ _ p => ir.patchOkB p
      | .del _ _ _ => true
    -- premises of `Props.C05.expression_symbols_are_part_of_the_module`
    let exprOk := ir.exprOkB
    let patchExprOk := match m with
      | .ins _ _ p => ir.patchExprOkB p
      | .del _ _ _ => true
    let sinvAfter : Json := match IR.applyMods origOff func ir (some actual) total [m] with
      | .ok ir' => Json.bool (ir'.symsOkB && ir'.ordOkB)
      | .error _ => Json.null
    .ok (Json.mkObj [("ao", ao), ("ids_below", Json.bool idsBelow), ("new_blocks", Json.bool newBlocks), ("minv", Json.bool minv),
      ("sinv", Json.bool sinv), ("patch_ok", Json.bool patchOk), ("sinv_after", sinvAfter),
      ("expr_ok", Json.bool exprOk), ("patch_expr_ok", Json.bool patchExprOk), ("res", res)])
  | _ => none

end Driver.IRJson

namespace Driver.IRJson
open Lean Driver GtirbVerif GtirbVerif.IR GtirbVerif.Listing

def leditOf (j : Json) : Except String LEdit := do
  let labels ← (← arr j "labels").mapM (fun p => do
    let a ← p.getArr?
    pure ((← (← at' a 0).getStr?), (← (← at' a 1).getNat?)))
  let exprs ← (← arr j "exprs").mapM (fun p => do
    let a ← p.getArr?
    pure ((← (← at' a 0).getNat?), (← (← at' a 1).getStr?), (← (← at' a 2).getInt?),
      (← (← (← at' a 3).getArr?).toList.mapM (·.getNat?))))
  let cfi : List (Nat × String) ← match j.getObjVal? "cfi" with
    | .ok (Json.arr a) => a.toList.mapM (fun p => do
        let q ← p.getArr?
        pure ((← (← at' q 0).getNat?), (← (← at' q 1).getStr?)))
    | _ => pure []
  .ok { block := ← getNat j "block", off := ← getNat j "off", del := ← getNat j "del", cfi := cfi,
        ins := ← getNatList j "ins", labels := labels, aligns := ← natNatList j "aligns",
        proxy := ← getBool j "proxy", order := ← getNat j "order", tailCode := ← getBool j "tail_code",
        exprs := exprs, exprSizes := ← natNatList j "expr_sizes" }

def issuesJ (l : List GtirbVerif.Listing.Issue) : Json :=
  Json.arr (l.map (fun i => Json.mkObj [("kind", Json.str i.kind), ("name", Json.str i.name),
    ("want", toJson i.want), ("got", toJson i.got), ("msg", Json.str i.msg)])).toArray

def handleListing (op : String) (j : Json) : Option (Except String Json) :=
  match op with
  | "listing_check" => some do
    let before ← irOf (← j.getObjVal? "before")
    let after ← irOf (← j.getObjVal? "after")
    let edits ← (← arr j "edits").mapM leditOf
    let nop ← getNatList j "nop"
    .ok (Json.mkObj [
      ("C01", issuesJ (checkBytes before after edits nop)),
      ("C02", issuesJ (checkLabels before after edits nop)),
      ("C04", issuesJ (checkAnnotations before after edits nop ++ checkNoDuplicateSymbols before after)),
      ("C06", issuesJ (checkFunctions before after edits nop))])
  | "seq_positions" => some do
    -- the offset bookkeeping of `_apply_modifications` for the edits of one block
    let edits ← (← arr j "edits").mapM leditOf
    let block ← getNat j "block"
    let base ← getNat j "base"
    let bytes ← getNatList j "bytes"
    let es := GtirbVerif.Listing.editsOf edits block
    .ok (Json.mkObj [
      ("positions", toJson (GtirbVerif.Batch.positions base 0 es)),
      ("order", toJson (es.map (·.order))),
      ("seq", toJson (GtirbVerif.Batch.seqSplice 0 bytes 0 es)),
      ("spec", toJson (GtirbVerif.Listing.spliceSpec bytes 0 es))])
  | "cfg_check" => some do
    let ir ← irOf (← j.getObjVal? "ir")
    let insns ← (← arr j "insns").mapM (fun p => do
      let a ← p.getArr?
      let b ← (a[0]!).getNat?
      let l ← (← (a[1]!).getArr?).toList.mapM (fun q => do
        let t ← q.getArr?
        pure ({ off := ← (t[0]!).getNat?, size := ← (t[1]!).getNat?,
                kind := GtirbVerif.FlatCfg.Kind.fromCode (← (t[2]!).getNat?) } : GtirbVerif.FlatCfg.Insn))
      pure (b, l))
    let nop ← getNatList j "nop"
    let oldProxies ← getNatList j "old_proxies"
    let pd ← getBool j "proxy_deletion"
    .ok (Json.mkObj [("C03", issuesJ (GtirbVerif.FlatCfg.checkCfg ir nop (fun p => pd && !oldProxies.contains p) insns))])
  | "wf_check" => some do
    let before ← irOf (← j.getObjVal? "before")
    let after ← irOf (← j.getObjVal? "after")
    let emptied ← getNatList j "emptied"
    let needAddr ← getBool j "need_addr"
    let closureOnly ← getBool j "closure_only"
    .ok (Json.mkObj [("C05", issuesJ (checkWellFormed before after (fun b => emptied.contains b) needAddr closureOnly))])
  | "cfi_check" => some do
    let before ← irOf (← j.getObjVal? "before")
    let after ← irOf (← j.getObjVal? "after")
    let edits ← (← arr j "edits").mapM leditOf
    let nop ← getNatList j "nop"
    let rowsOf (key : String) : Except String (List CfiRow) := do
      (← arr j key).mapM (fun p => do
        let a ← p.getArr?
        pure ({ sect := ← (← at' a 0).getStr?, pos := ← (← at' a 1).getNat?, proc := ← (← at' a 2).getInt?,
                state := ← (← at' a 3).getStr?, block := ← (← at' a 4).getNat?, disp := ← (← at' a 5).getNat?,
                hasEndproc := ← (← at' a 6).getBool?, hasStartproc := (match a[7]? with | some (Json.bool b) => b | _ => false) } : CfiRow))
    let insns ← (← arr j "insns").mapM (fun p => do
      let a ← p.getArr?
      let b ← (a[0]!).getNat?
      let l ← (← (a[1]!).getArr?).toList.mapM (fun q => do
        let t ← q.getArr?
        pure ({ off := ← (t[0]!).getNat?, size := ← (t[1]!).getNat?,
                kind := GtirbVerif.FlatCfg.Kind.fromCode (← (t[2]!).getNat?) } : GtirbVerif.FlatCfg.Insn))
      pure (b, l))
    .ok (Json.mkObj [("C08", issuesJ (checkCfi before after edits nop (← rowsOf "rows_before") (← rowsOf "rows_after") insns))])
  | "scope_check" => some do
    let ir ← irOf (← j.getObjVal? "ir")
    let funcs ← (← arr j "funcs").mapM (fun p => do
      let a ← p.getArr?
      pure ({ id := ← (← at' a 0).getNat?, name := ← (← at' a 1).getStr? } : GtirbVerif.Scopes.Func))
    let insns ← (← arr j "insns").mapM (fun p => do
      let a ← p.getArr?
      pure ((← (← at' a 0).getNat?), (← (← (← at' a 1).getArr?).toList.mapM (·.getNat?))))
    let posOf (s : String) : GtirbVerif.Scopes.Pos := if s == "entry" then .entry else if s == "exit" then .exit else .anywhere
    let patsOf (v : Json) : Except String (Option (List GtirbVerif.Scopes.Pat)) :=
      match v with
      | Json.null => pure none
      | Json.arr a => do
        let l ← a.toList.mapM (fun q => do
          match q.getObjVal? "lit", q.getObjVal? "prefix", q.getObjVal? "main", q.getObjVal? "entrypoint" with
          | .ok (Json.str n), _, _, _ => pure (GtirbVerif.Scopes.Pat.lit n)
          | _, .ok (Json.str n), _, _ => pure (GtirbVerif.Scopes.Pat.prefix n)
          | _, _, .ok _, _ => pure GtirbVerif.Scopes.Pat.main
          | _, _, _, .ok _ => pure GtirbVerif.Scopes.Pat.entrypoint
          | _, _, _, _ => throw "bad pattern")
        pure (some l)
      | _ => throw "bad pattern list"
    let regs ← (← arr j "regs").mapM (fun r => do
      let kind ← getStr r "kind"
      match kind with
      | "all_blocks" => pure (GtirbVerif.Scopes.Scope.allBlocks (posOf (← getStr r "pos")) (← patsOf ((r.getObjVal? "exclude").toOption.getD Json.null)))
      | "single" => pure (GtirbVerif.Scopes.Scope.single (← getNat r "block") (posOf (← getStr r "pos")))
      | "all_functions" => pure (GtirbVerif.Scopes.Scope.allFunctions ((← getStr r "fpos") == "entry") (posOf (← getStr r "pos"))
          (← patsOf ((r.getObjVal? "functions").toOption.getD Json.null)))
      | "at" => pure (GtirbVerif.Scopes.Scope.atOffset (← getNat r "block") (← getNat r "off"))
      | k => throw s!"unknown scope kind {k}")
    let inv := GtirbVerif.Scopes.expectedInvocations ir funcs insns regs
    .ok (Json.mkObj [("invocations", Json.arr (inv.map (fun v => Json.arr #[toJson v.reg, toJson v.block, toJson v.off,
      match v.func with | some f => toJson f | none => Json.null])).toArray)])
  | _ => none

end Driver.IRJson
