import Driver.Dwarf
import GtirbVerif.Model.Dwarf.CfiEval
import GtirbVerif.Gen.AbiBasic
import GtirbVerif.Spec.Platform

/-! Line-protocol handler for `evaluate_cfi_directives` (C15). -/
namespace Driver.Cfi
open Lean Driver GtirbVerif GtirbVerif.Dwarf GtirbVerif.CfiEval

def opsJ (ops : List OpObj) : Json := Json.arr (ops.map Driver.Dwarf.opToJson).toArray

def ruleJ : Rule → Json
  | .undefined => Json.arr #["undefined"]
  | .sameValue => Json.arr #["same"]
  | .offset n => Json.arr #["offset", jint n]
  | .valOffset n => Json.arr #["valoffset", jint n]
  | .inReg r => Json.arr #["inreg", jint r]
  | .atExpr e => Json.arr #["at", opsJ e]
  | .isExpr e => Json.arr #["is", opsJ e]

def cfaJ : Option Cfa → Json
  | none => Json.null
  | some (.regOff r o) => Json.arr #["regoff", jint r, jint o]
  | some (.expr e) => Json.arr #["expr", opsJ e]

def rowJ (r : Row) : Json :=
  Json.mkObj [("regs", Json.arr (r.regs.map (fun (k, v) => Json.arr #[jint k, ruleJ v])).toArray),
              ("cfa", cfaJ r.cfa)]

def ptrJ : Option (Int × Nat) → Json
  | none => Json.null
  | some (e, s) => Json.arr #[jint e, jnat s]

def procJ : Option Proc → Json
  | none => Json.null
  | some p => Json.mkObj [("retcol", jint p.retcol), ("personality", ptrJ p.personality),
      ("lsda", ptrJ p.lsda), ("current", rowJ p.current), ("initial", rowJ p.initial),
      ("stack", Json.arr (p.stack.map rowJ).toArray)]

def errName : EvalErr → String
  | .cfiState => "CFIStateError"
  | .valueError => "ValueError"
  | .notImplemented => "NotImplementedError"
  | .eof => "EOFError"

def symOf (j : Json) : Except String SymRef :=
  match j with
  | .str "null" => .ok .nullUuid
  | .str "other" => .ok .otherUuid
  | _ => do let n ← getNat j "sym"; .ok (.sym n)

def dirOf (j : Json) : Except String Directive := do
  let a ← j.getArr?
  if h : a.size = 3 then
    let name ← a[0].getStr?
    let args ← (← a[1].getArr?).toList.mapM (·.getInt?)
    let sym ← symOf a[2]
    .ok { name := name, args := args, sym := sym }
  else .error "directive must have 3 components"

def blockOf (j : Json) : Except String BlockIn := do
  let idx ← getNat j "idx"
  let addr ← getNat j "address"
  let d ← j.getObjVal? "dirs"
  match d with
  | .null => .ok { idx := idx, address := addr, dirs := none }
  | _ => do
    let a ← d.getArr?
    let m ← a.toList.mapM (fun e => do
      let p ← e.getArr?
      if h : p.size = 2 then
        let off ← p[0].getNat?
        let ds ← (← p[1].getArr?).toList.mapM dirOf
        pure (off, ds)
      else throw "offset entry must have 2 components")
    .ok { idx := idx, address := addr, dirs := some m }

def handle (op : String) (j : Json) : Option (Except String Json) :=
  match op with
  | "cfi_eval" => some do
    let abiName ← getStr j "abi"
    -- return column from the regenerated ABI table; byte order / pointer size
    -- from the hand-written platform table (SPEC), so that a wrong
    -- `ABI.byteorder()` shows as a wrong state
    let abi ← match Gen.abiBasic.find? (fun e => e.1 == abiName) with
      | some e =>
        match Std.platform.lookup e.2.1 with
        | some (bo, ptr) => pure { e.2.2.2 with bo := bo, ptr := ptr }
        | none => pure e.2.2.2
      | none => throw s!"unknown ABI {abiName}"
    let bl ← (← getArr j "blocks").toList.mapM blockOf
    let (rows, err) := evaluate Gen.exprTable Gen.cfiTable abi bl
    .ok (Json.mkObj [
      ("rows", Json.arr (rows.map (fun (l, st) =>
        Json.mkObj [("block", jnat l.block), ("offset", jnat l.offset), ("state", procJ st)])).toArray),
      ("err", match err with | none => Json.null | some e => Json.str (errName e))])
  | _ => none

end Driver.Cfi
