import Driver.Util
import GtirbVerif.Model.Rewrite.Store

/-! JSON driver for the `_ModificationStore` / scopes model (C07): op `store_resolve`. -/
namespace Driver.Store
open Lean Driver GtirbVerif.Store

def posOf (s : String) : Except String Pos :=
  if s == "entry" then .ok .entry else if s == "exit" then .ok .exit
  else if s == "anywhere" then .ok .anywhere else .error s!"bad position {s}"

def patOf (j : Json) : Except String Pat :=
  match j.getObjVal? "lit" with
  | .ok v => do pure (.lit (← v.getStr?))
  | .error _ =>
    match j.getObjVal? "prefix" with
    | .ok v => do pure (.prefix (← v.getStr?))
    | .error _ =>
      match j.getObjVal? "main" with
      | .ok _ => .ok .main
      | .error _ => .ok .entrypoint

def patsOf (j : Json) (k : String) : Except String (Option (List Pat)) :=
  match j.getObjVal? k with
  | .error _ => .ok none
  | .ok Json.null => .ok none
  | .ok v => do
    let a ← v.getArr?
    pure (some (← a.toList.mapM patOf))

def scopeOf (j : Json) : Except String Scope := do
  let k ← getStr j "kind"
  if k == "all_blocks" then
    pure (.allBlocks (← posOf (← getStr j "pos")) (← patsOf j "exclude"))
  else if k == "single" then
    pure (.single (← getNat j "block") (← posOf (← getStr j "pos")))
  else if k == "all_functions" then
    pure (.allFunctions ((← getStr j "fpos") == "entry") (← posOf (← getStr j "pos")) (← patsOf j "functions"))
  else if k == "specific" then
    pure (.specific (← getNat j "block") (← getNat j "off") (← getNat j "repl"))
  else throw s!"bad scope kind {k}"

def envOf (j : Json) : Except String BlockEnv := do
  let func : Option FuncInfo ← match j.getObjVal? "func" with
    | .error _ => pure none
    | .ok Json.null => pure none
    | .ok f => pure (some { name := ← getStr f "name", hasEntryPoint := ← getBool f "has_entry",
                            isEntry := ← getBool f "is_entry", isExit := ← getBool f "is_exit" })
  pure { id := ← getNat j "id", isCode := ← getBool j "code", func := func,
         nonterm := ← getNatList j "nonterm", partialDis := ← getBool j "partial" }

def answer (s : GtirbVerif.Store.Store) (env : BlockEnv) : Json :=
  let mods := s.modificationsFor env
  let ids := natList (mods.map (·.id))
  match resolveOffsets env mods with
  | .ok r => Json.mkObj [("mods", ids), ("resolved", Json.arr (r.map (fun x => natList [x.1.id, x.2])).toArray)]
  | .error (.assertion w) => Json.mkObj [("mods", ids), ("error", Json.str w)]

def handle (op : String) (j : Json) : Option (Except String Json) :=
  if op == "store_resolve" then some (do
    let regs ← (← getArr j "regs").toList.mapM (fun r => do
      pure ({ id := ← getNat r "id", scope := ← scopeOf (← r.getObjVal? "scope") } : Mod))
    let envs ← (← getArr j "envs").toList.mapM envOf
    let s := build regs
    pure (Json.mkObj [("blocks", Json.arr (envs.map (answer s)).toArray)]))
  else none

end Driver.Store
