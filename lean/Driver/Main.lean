import Driver.Dwarf
import Driver.Cfi
import Driver.Adt
import Driver.Abi
import Driver.IRJson
import Driver.Intervals
import Driver.Symbols
import Driver.Asm
import Driver.Store

/-! One JSON request per input line, one JSON answer per output line. -/
open Lean Driver

def handlers : List (String → Json → Option (Except String Json)) :=
  [Driver.Dwarf.handle, Driver.Cfi.handle, Driver.Adt.handle, Driver.Abi.handle, Driver.Abi.handleCall, Driver.IRJson.handle, Driver.IRJson.handleListing, Driver.Intervals.handle, Driver.Symbols.handle, Driver.Asm.handle, Driver.Store.handle]

def dispatch (line : String) : Json :=
  match Json.parse line with
  | .error e => errJ s!"PROTOCOL: {e}"
  | .ok j =>
    match getStr j "op" with
    | .error e => errJ s!"PROTOCOL: {e}"
    | .ok op =>
      match handlers.findSome? (fun h => h op j) with
      | none => errJ s!"PROTOCOL: unknown op {op}"
      | some (.ok r) => r
      | some (.error e) => errJ s!"PROTOCOL: {e}"

partial def loop (hin hout : IO.FS.Stream) : IO Unit := do
  let line ← hin.getLine
  if line.isEmpty then return ()
  let t := line.trimAscii.toString
  if t.isEmpty then
    loop hin hout
  else
    hout.putStrLn (dispatch t).compress
    loop hin hout

def main : IO Unit := do
  let hin ← IO.getStdin
  let hout ← IO.getStdout
  loop hin hout
  hout.flush
