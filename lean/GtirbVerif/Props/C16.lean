import GtirbVerif.Lemmas.AbiGen
import GtirbVerif.Lemmas.AbiAlloc
import GtirbVerif.Gen.AbiFull
import GtirbVerif.Spec.Platform

/-!
# C16 — patch prologue/epilogue make the patch transparent

For every ABI table regenerated from `abi._ABIS`, every `Constraints` value,
every allocation, every initial machine state (any stack-pointer alignment) and
every patch body that leaves `sp` where it found it and does not touch cells at
or above its entry `sp`.
-/
namespace GtirbVerif.Props.C16
open GtirbVerif GtirbVerif.Abi

/-- which flags claim the family makes (MIPS32 has no condition flags) -/
def flagsClaim (abi : AbiDesc) (c : Constraints) : Bool :=
  match abi.family with
  | .mips32 => false
  | _ => c.clobbersFlags

/-- how far below the entry `sp` every write stays (the red zone of a possible leaf) -/
def guard (abi : AbiDesc) (c : Constraints) (a : Alloc) (leaf : Bool) : Int :=
  match abi.family with
  | .x64 | .ia32 =>
    if (!a.clobbered.isEmpty || c.clobbersFlags || c.alignStack) && abi.redZone != 0 && leaf
    then (abi.redZone : Int) else 0
  | _ => 0

/-- **Transparency.** `prologue; body; reversed epilogue` terminates reading only
slots it wrote itself, restores `sp`, every register of the allocation
(declared clobbers, scratch registers, caller-saved registers on request), the
flags when declared clobbered; it never writes at or above the original `sp`,
and — when the function may be a leaf and the ABI has a red zone — never inside
the red zone. -/
theorem transparent (abi : AbiDesc) (c : Constraints) (a : Alloc) (leaf : Bool)
    {pre post : List Instr} {adj : Option Nat}
    (hgen : prologueEpilogue abi c a leaf = .ok (pre, post, adj))
    {body : M → Option M} (hb : BodyOK abi.cell body) :
    Good abi.cell (wrap abi.cell pre post body) a.clobbered (flagsClaim abi c) (guard abi c a leaf) := by
  unfold prologueEpilogue at hgen
  cases hf : abi.family with
  | x64 =>
    simp only [hf, Except.ok.injEq] at hgen
    have := x86_good (W := 8) (Or.inr rfl) "rax" abi.redZone c a leaf (body := body)
      (by simpa [AbiDesc.cell, hf] using hb)
    rw [hgen] at this
    simpa [AbiDesc.cell, hf, flagsClaim, guard] using this
  | ia32 =>
    simp only [hf, Except.ok.injEq] at hgen
    have := x86_good (W := 4) (Or.inl rfl) "eax" abi.redZone c a leaf (body := body)
      (by simpa [AbiDesc.cell, hf] using hb)
    rw [hgen] at this
    simpa [AbiDesc.cell, hf, flagsClaim, guard] using this
  | arm64 =>
    simp only [hf] at hgen
    have := arm64_good c a hgen (body := body) (by simpa [AbiDesc.cell, hf] using hb)
    simpa [AbiDesc.cell, hf, flagsClaim, guard] using this
  | mips32 =>
    simp only [hf] at hgen
    have := mips32_good c a hgen (body := body) (by simpa [AbiDesc.cell, hf] using hb)
    simpa [AbiDesc.cell, hf, flagsClaim, guard] using this

/-- the reported `stack_adjustment` is the real displacement at the body's entry
whenever it is not `None`; with `align_stack` the body starts on a 16-byte
boundary on x86-64 (4-byte on IA32); on ARM64 a 16-byte aligned `sp` stays so -/
theorem entry_state (abi : AbiDesc) (c : Constraints) (a : Alloc) (leaf : Bool)
    {pre post : List Instr} {adj : Option Nat}
    (hgen : prologueEpilogue abi c a leaf = .ok (pre, post, adj)) (σ : M) :
    ∃ σ1, run abi.cell pre σ = some σ1 ∧ (∀ d, adj = some d → σ1.sp = σ.sp - d) ∧
      (abi.family = .x64 → c.alignStack = true → σ1.sp % 16 = 0) ∧
      (abi.family = .ia32 → c.alignStack = true → σ1.sp % 4 = 0) ∧
      (abi.family = .arm64 → σ.sp % 16 = 0 → σ1.sp % 16 = 0) := by
  unfold prologueEpilogue at hgen
  cases hf : abi.family with
  | x64 =>
    simp only [hf, Except.ok.injEq] at hgen
    obtain ⟨σ1, h1, h2, h3, _⟩ := x86_entry (W := 8) "rax" abi.redZone c a leaf σ
    rw [hgen] at h1 h2
    exact ⟨σ1, by simpa [AbiDesc.cell, hf] using h1, h2, fun _ hal => h3 hal rfl, by simp, by simp⟩
  | ia32 =>
    simp only [hf, Except.ok.injEq] at hgen
    obtain ⟨σ1, h1, h2, _, h4⟩ := x86_entry (W := 4) "eax" abi.redZone c a leaf σ
    rw [hgen] at h1 h2
    exact ⟨σ1, by simpa [AbiDesc.cell, hf] using h1, h2, by simp, fun _ hal => h4 hal rfl, by simp⟩
  | arm64 =>
    simp only [hf] at hgen
    obtain ⟨σ1, d, h1, h2, h3, h4⟩ := arm64_entry c a hgen σ
    refine ⟨σ1, by simpa [AbiDesc.cell, hf] using h1, ?_, by simp, by simp, fun _ h => h4 h⟩
    intro d' hd'; rw [h2] at hd'; cases hd'; exact h3
  | mips32 =>
    simp only [hf] at hgen
    obtain ⟨σ1, d, h1, h2, h3⟩ := mips32_entry c a hgen σ
    refine ⟨σ1, by simpa [AbiDesc.cell, hf] using h1, ?_, by simp, by simp, by simp⟩
    intro d' hd'; rw [h2] at hd'; cases hd'; exact h3

/-- the regenerated ABI tables are sane: scratch registers are distinct
general-purpose registers, never the stack pointer, never a register the
platform reserves; the red zone is the psABI's -/
theorem tables_ok :
    Gen.abiAll.all (fun abi =>
      decide abi.scratchRegs.Nodup && decide abi.allRegs.Nodup &&
      abi.scratchRegs.all (fun r => abi.allRegs.contains r) &&
      !abi.scratchRegs.contains abi.stackReg && !abi.callerSaved.contains abi.stackReg &&
      abi.scratchRegs.all (fun r => !(Std.reservedRegs abi.isa).contains r) &&
      (Std.redZone.lookup (abi.isa, abi.ff) == some abi.redZone) &&
      abi.aliases.all (fun p => abi.allRegs.contains p.2)) = true := by
  decide +kernel

theorem lookup_mem : ∀ (l : List (String × String)) (k v : String), l.lookup k = some v → (k, v) ∈ l
  | [], _, _, h => by simp [List.lookup] at h
  | (k', v') :: ps, k, v, h => by
    simp only [List.lookup] at h
    cases hk : (k == k') with
    | true =>
      rw [hk] at h
      simp only [Option.some.injEq] at h
      have : k = k' := by simpa using hk
      subst this; subst h; exact List.mem_cons_self
    | false =>
      rw [hk] at h
      exact List.mem_cons_of_mem _ (lookup_mem ps k v h)

/-- **scratch registers**: as many as requested, distinct, from the scratch
list, never read or clobbered by the patch, all saved; declared clobbers and
(on request) the caller-saved registers are saved -/
theorem scratch_and_clobbers (abi : AbiDesc) (habi : abi ∈ Gen.abiAll) (c : Constraints) (a : Alloc)
    (h : allocate abi c = .ok a) :
    ∃ clob reads, resolveAll abi c.clobbers = .ok clob ∧ resolveAll abi c.reads = .ok reads ∧
      a.scratch.length = c.scratch ∧ a.scratch.Nodup ∧
      (∀ r ∈ a.scratch, r ∈ abi.scratchRegs ∧ r ∉ clob ∧ r ∉ reads ∧ r ∈ a.clobbered ∧
        r ≠ abi.stackReg ∧ r ∉ Std.reservedRegs abi.isa) ∧
      (∀ r ∈ clob, r ∈ a.clobbered) ∧
      (c.preserveCallerSaved = true → ∀ r ∈ abi.callerSaved, r ∈ abi.allRegs → r ∈ a.clobbered) := by
  have ht := tables_ok
  simp only [List.all_eq_true, Bool.and_eq_true, decide_eq_true_eq, Bool.not_eq_true',
    List.contains_eq_mem, decide_eq_false_iff_not] at ht
  obtain ⟨⟨⟨⟨⟨⟨⟨t1, t2⟩, t3⟩, t4⟩, t5⟩, t6⟩, t7⟩, t8⟩ := ht abi habi
  obtain ⟨clob, reads, q1, q2, q3, q4, q5, q6, q7, _, _⟩ :=
    allocate_ok abi c a t1 (fun r hr => by simpa using t3 r hr) h
  refine ⟨clob, reads, q1, q2, q3, q4, ?_, ?_, q7⟩
  · intro r hr
    obtain ⟨p1, p2, p3, p4⟩ := q5 r hr
    refine ⟨p1, p2, p3, p4, ?_, ?_⟩
    · rintro rfl; exact t4 p1
    · have := t6 r p1; simpa using this
  · intro r hr
    apply q6 r hr
    -- a resolved name is one of the ABI's registers
    have : ∀ (ns : List String) (rs : List String), resolveAll abi ns = .ok rs → ∀ x ∈ rs, x ∈ abi.allRegs := by
      intro ns
      induction ns with
      | nil => intro rs h x hx; simp only [resolveAll, Except.ok.injEq] at h; subst h; cases hx
      | cons n ns ih =>
        intro rs h x hx
        simp only [resolveAll, bind, Except.bind] at h
        cases hg : abi.getRegister n with
        | error e => simp [hg] at h
        | ok r0 =>
          simp only [hg] at h
          cases hrs : resolveAll abi ns with
          | error e => simp [hrs] at h
          | ok rs0 =>
            simp only [hrs, Except.ok.injEq] at h
            subst h
            rcases List.mem_cons.mp hx with rfl | hx
            · unfold AbiDesc.getRegister at hg
              cases hl : abi.aliases.lookup n.toLower with
              | none => simp [hl] at hg
              | some r1 =>
                simp only [hl, Except.ok.injEq] at hg
                subst hg
                have hmem : (n.toLower, r1) ∈ abi.aliases := lookup_mem _ _ _ hl
                have := t8 _ hmem
                simpa using this
            · exact ih rs0 hrs x hx
    exact this _ _ q1 r hr

/-- the only refusals are KeyError (unknown register name) and ValueError (not
enough scratch registers / an unavailable read register) -/
theorem allocation_refusals (abi : AbiDesc) (c : Constraints) (e : GenErr)
    (h : allocate abi c = .error e) : e = .keyError ∨ e = .valueError :=
  allocate_err abi c e h

/-! ## non-vacuity -/

/-- a body satisfying `BodyOK`: it trashes a register and the flags -/
example : BodyOK 8 (fun σ => some { σ with reg := setReg σ.reg "rbx" 7, flags := 99 }) := by
  intro σ
  exact ⟨_, rfl, rfl, fun _ _ => rfl, by simp, by simp, [], rfl, by simp⟩

example : (prologueEpilogue Gen.abi_X86_64_ELF { clobbersFlags := true, alignStack := true }
    { clobbered := ["rbx"], scratch := [], available := [] } true).toOption.isSome = true := by
  decide +kernel

end GtirbVerif.Props.C16
