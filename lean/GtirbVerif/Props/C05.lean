import GtirbVerif.Lemmas.IRPurge
import GtirbVerif.Lemmas.IRSymClosed
import GtirbVerif.Lemmas.IRExprs
import GtirbVerif.Props.C20
import GtirbVerif.Spec.WellFormed

/-!
# C05 — the output IR is closed, well-formed and serializable, even on failure

* **specification** — `Listing.checkWellFormed` (Spec/WellFormed.lean): a whole-IR validator —
  blocks inside their intervals, new blocks never overlapping, every CFG endpoint, symbol
  referent, expression / CFI symbol and every key or member of every aux table part of the
  module, zero-sized blocks only where every byte was deleted, every block with an address.
  The driver evaluates it on the real module after `apply()` returns and — closure part — on
  what is left when the k-th patch callback raises, for every k; gtirb's own protobuf writer and
  reader judge serializability.
* **theorems** (this file): the two places where a block leaves the module purge it from the
  tables keyed by whole blocks (`remove_block`, `join_blocks` — the latter only since the repair
  recorded in known_findings.json); offset-keyed entries of a removed block disappear; a removed
  block is in no function table and no symbol stays on it (C02, C06); on failure the two context
  managers leave `ir.cfg` = the caller's object with the live edges and every symbol with its
  referent materialised (proved in C20 for every body and every history, restated here); over
  whole rewrites - `apply()`'s loop over all blocks, patches with any number of extra sections -
  every symbol referent that is a block is a block attached to a byte interval of the module
  (`symbol_referents_are_part_of_the_module`, from Lemmas/IRSymClosed.lean) and every symbolic
  expression names symbols of the module (`expression_symbols_are_part_of_the_module`, from
  Lemmas/IRExprs.lean).
-/
namespace GtirbVerif.Props.C05
open GtirbVerif GtirbVerif.IR GtirbVerif.Adt

/-- `remove_block` (block leaves the module): no alignment entry, no entry in the whole-block
tables of its kind -/
theorem removed_block_leaves_no_table_key {ir ir' : IR} {b : Nat} {px : Bool} {blk : Block}
    (h : ir.removeBlock b px = .ok (ir', true)) (hb : ir.block? b = some blk) :
    alookup b ir'.aux.alignment = none ∧
    (if blk.isCode then alookup b ir'.aux.profile = none ∧ alookup b ir'.aux.sccs = none
     else alookup b ir'.aux.types = none ∧ alookup b ir'.aux.encodings = none) :=
  removeBlock_purges h hb

/-- … and no entry in any offset-keyed table -/
theorem removed_block_leaves_no_offset_entry {ir ir' : IR} {b : Nat} {px r : Bool} {blk : Block}
    (h : ir.removeBlock b px = .ok (ir', r)) (hb : ir.block? b = some blk) :
    ∀ name entries, (name, entries) ∈ ir'.aux.omaps → ∀ el k v, (el, k, v) ∈ entries → el ≠ Elem.block b := by
  intro name entries hm el k v he
  rw [removeBlock_omaps h hb] at hm
  obtain ⟨⟨n0, es0⟩, _, heq⟩ := List.mem_map.mp hm
  simp only [Prod.mk.injEq] at heq
  obtain ⟨_, rfl⟩ := heq
  have := (List.mem_filter.mp he).2
  simpa using this

/-- `join_blocks`: the absorbed block has no alignment entry and no entry in the whole-block
tables of its kind -/
theorem absorbed_block_leaves_no_table_key {ir ir' : IR} {id1 id2 : Nat} {b1 b2 : Block}
    (h : ir.joinBlocks id1 id2 = .ok ir') (h1 : ir.block? id1 = some b1) (h2 : ir.block? id2 = some b2)
    (hne : id2 ≠ id1) :
    alookup id2 ir'.aux.alignment = none ∧
    (if b2.isCode then alookup id2 ir'.aux.profile = none ∧ alookup id2 ir'.aux.sccs = none
     else alookup id2 ir'.aux.types = none ∧ alookup id2 ir'.aux.encodings = none) :=
  joinBlocks_purges h h1 h2 hne

/-- **failure path, CFG**: however the body of the return-cache context ends — raising
included — `ir.cfg` is the caller's CFG object again and holds exactly the live edges -/
theorem failure_leaves_callers_cfg (hsh : Edge → Nat) (e0 : List Edge) (ops : List BodyOp) :
    let r := runReturnCtx hsh e0 ops true
    r.irCfgIsOld = true ∧ r.oldEdges = (ops.foldl CtxState.body (CtxState.init e0)).cache.edges :=
  let h := C20.return_cache_context hsh e0 ops true
  ⟨h.1, h.2.1⟩

/-- **failure path, symbols**: leaving the reference-cache context materialises every pending
retarget: nothing stays indirect, every symbol carries the referent the history assigned -/
theorem failure_strands_no_symbol {c c' : RC} {sp : RSpec} (hi : Inv c) (ha : Abs c sp) (h : c.apply = some c') :
    (∀ s, c'.referents s = none) ∧ (∀ s, c'.direct s = sp.ref s ∧ c'.atEnd s = sp.atEnd s) :=
  C20.refcache_apply_direct hi ha h

/-- **symbol referents, over a whole `apply()`**: when the loop over all blocks is through, every
symbol that refers to a block refers to a block that is attached to a byte interval of a section of
the module (premises: the objects of every patch are new when it is inserted; the invariant holds
of the input - both are evaluated on the recorded states of every run) -/
theorem symbol_referents_are_part_of_the_module (rs : List BlockMods) (ir ir' : IR)
    (h : ir.applyAll rs = .ok ir') (hI : IdsBelow ir) (hok : ∀ r ∈ rs, ReqOk ir r) (hnd : (rs.map (ivOf ir)).Nodup)
    (hnew : NewPatchesAll ir rs) (hinv : SInv ir) :
    ∀ y ∈ ir'.syms, ∀ b, y.ref = .block b → ∃ blk s, ir'.block? b = some blk ∧ blk.bi ≠ none ∧ ir'.sectionOf blk = some s := by
  obtain ⟨s1, _⟩ := applyAll_sinv rs ir ir' h hI hok hnd hnew hinv.1 hinv.2
  intro y hy b hb
  rcases s1 y hy b hb with ⟨s, blk, hblk, hs⟩ | hp
  · exact ⟨blk, s, hblk, sectionOf_some_bi hs, hs⟩
  · cases hp

/-- **symbolic-expression symbols, over a whole `apply()`**: when the loop over all blocks is
through, every symbolic expression of every byte interval names symbols of the module - no step of
a rewrite removes a symbol, `edit_byte_interval` only drops or moves expressions, a patch adds
expressions that name module symbols or its own (premise `PatchExprsAll`, evaluated on the recorded
states of every run) -/
theorem expression_symbols_are_part_of_the_module (rs : List BlockMods) (ir ir' : IR)
    (h : ir.applyAll rs = .ok ir') (hnew : PatchExprsAll ir rs) (he : ExprOk [] ir) :
    ∀ iv ∈ ir'.intervals, ∀ ke ∈ iv.symExprs,
      ke.2.sym1 ∈ ir'.syms.map (·.id) ∧ (ke.2.kind = 1 → ke.2.sym2 ∈ ir'.syms.map (·.id)) := by
  have e1 := applyAll_exprok rs ir ir' h hnew he
  intro iv hiv ke hke
  have := e1 iv hiv ke hke
  simpa [exprIn, symIds] using this

end GtirbVerif.Props.C05
