import GtirbVerif.Lemmas.IRCfg
import GtirbVerif.Spec.Listing
import GtirbVerif.Lemmas.SortOn

/-!
# C11 — rewriting is deterministic

* **oracle** — the real code rewrites the same cases in several fresh interpreter processes
  (different PYTHONHASHSEED, allocation pattern and hence set iteration order of gtirb nodes,
  fresh UUIDs): the canonical dumps must be identical; so must the result when requests for
  different locations are registered in another order; byte intervals with blocks tying on
  their offset are split in every process.
* **theorems** (this file): the places where the code iterates over a *set* do not depend on
  the iteration order — the result of a bulk `update_edge` and of a bulk discard over a snapshot
  has the same members for every ordering of the snapshot; and the processing order of the
  requests of a block is determined by (offset, insertion-before-replacement, registration
  index) alone: two registration orders that give every request the same key produce the same
  processing order (sorting by distinct keys is permutation invariant).
-/
namespace GtirbVerif.Props.C11
open GtirbVerif GtirbVerif.IR GtirbVerif.Listing
open GtirbVerif.Adt (CfgNode Label Edge)

/-- **bulk `update_edge` does not depend on the order of the snapshot** -/
theorem bulk_update_is_order_independent (f : Edge → Edge) (l l' : List Edge) (hp : l.Perm l')
    (hf : ∀ e ∈ l, f e ∉ l) (cfg : List Edge) (e' : Edge) :
    e' ∈ moveEdges f cfg l ↔ e' ∈ moveEdges f cfg l' := by
  have hf' : ∀ e ∈ l', f e ∉ l' := by
    intro e he h
    exact hf e (hp.mem_iff.mpr he) (hp.mem_iff.mpr h)
  rw [mem_moveEdges f l hf, mem_moveEdges f l' hf']
  constructor
  · rintro (⟨h1, h2⟩ | ⟨e, he, rfl⟩)
    · exact Or.inl ⟨h1, fun h => h2 (hp.mem_iff.mpr h)⟩
    · exact Or.inr ⟨e, hp.mem_iff.mp he, rfl⟩
  · rintro (⟨h1, h2⟩ | ⟨e, he, rfl⟩)
    · exact Or.inl ⟨h1, fun h => h2 (hp.mem_iff.mp h)⟩
    · exact Or.inr ⟨e, hp.mem_iff.mpr he, rfl⟩

/-- a bulk discard over a snapshot: membership afterwards -/
theorem mem_discardAll (l : List Edge) (cfg : List Edge) (e' : Edge) :
    e' ∈ l.foldl cfgDiscard cfg ↔ e' ∈ cfg ∧ e' ∉ l := by
  induction l generalizing cfg with
  | nil => simp
  | cons e l ih =>
    simp only [List.foldl_cons, ih, mem_cfgDiscard, List.mem_cons, not_or]
    constructor
    · rintro ⟨⟨h1, h2⟩, h3⟩; exact ⟨h1, h2, h3⟩
    · rintro ⟨h1, h2, h3⟩; exact ⟨⟨h1, h2⟩, h3⟩

/-- **… and does not depend on the order of the snapshot either** -/
theorem bulk_discard_is_order_independent (l l' : List Edge) (hp : l.Perm l') (cfg : List Edge) (e' : Edge) :
    e' ∈ l.foldl cfgDiscard cfg ↔ e' ∈ l'.foldl cfgDiscard cfg := by
  rw [mem_discardAll, mem_discardAll]
  constructor
  · rintro ⟨h1, h2⟩; exact ⟨h1, fun h => h2 (hp.mem_iff.mpr h)⟩
  · rintro ⟨h1, h2⟩; exact ⟨h1, fun h => h2 (hp.mem_iff.mp h)⟩

/-! ### the processing order of the requests of one block -/

/-- **Registration order matters only through the keys' order**: if two keyings order the
requests the same way and never tie, they are processed in the same order.  (Re-registering
the requests of different offsets in another order changes only the registration indices, not
how two requests at one offset compare.) -/
theorem processing_order_depends_on_key_order_only {α} (k k' : α → Nat × Nat) (l : List α)
    (hiso : ∀ a ∈ l, ∀ b ∈ l, leBy k a b ↔ leBy k' a b)
    (hanti : ∀ a ∈ l, ∀ b ∈ l, leBy k a b → leBy k b a → a = b) :
    sortOn k l = sortOn k' l := by
  have p1 := sortOn_perm k l
  have p2 := sortOn_perm k' l
  apply List.Perm.eq_of_pairwise (le := leBy k)
  · intro a b ha hb h1 h2
    exact hanti a (p1.mem_iff.mp ha) b (p2.mem_iff.mp hb) h1 h2
  · exact sortOn_sorted k l
  · refine List.Pairwise.imp_of_mem ?_ (sortOn_sorted k' l)
    intro a b ha hb h
    exact (hiso a (p2.mem_iff.mp ha) b (p2.mem_iff.mp hb)).mpr h
  · exact p1.trans p2.symm

/-- every registered request of the block is processed exactly once -/
theorem every_request_is_processed_once (edits : List LEdit) (b : Nat) :
    (editsOf edits b).Perm (edits.filter (·.block == b)) :=
  sortOn_perm _ _

end GtirbVerif.Props.C11
