import GtirbVerif.Lemmas.IRCfg
import GtirbVerif.Spec.Listing

/-!
# C11 — rewriting is deterministic

* **oracle** — the real code rewrites the same cases in several fresh interpreter processes
  (different PYTHONHASHSEED, allocation pattern and hence set iteration order of gtirb nodes,
  fresh UUIDs): the canonical dumps must be identical; so must the result when requests for
  different locations are registered in another order; byte intervals with blocks tying on
  their offset are split in every process.
* **theorems** (this file): the places where the code iterates over a *set* do not depend on
  the iteration order — the result of a bulk `update_edge` and of a bulk discard over a snapshot
  has the same members for every ordering of the snapshot; and the processing order of the
  requests of a block is determined by (offset, insertion-before-replacement, registration
  index) alone: two registration orders that give every request the same key produce the same
  processing order (sorting by distinct keys is permutation invariant).
-/
namespace GtirbVerif.Props.C11
open GtirbVerif GtirbVerif.IR GtirbVerif.Listing
open GtirbVerif.Adt (CfgNode Label Edge)

/-- **bulk `update_edge` does not depend on the order of the snapshot** -/
theorem bulk_update_is_order_independent (f : Edge → Edge) (l l' : List Edge) (hp : l.Perm l')
    (hf : ∀ e ∈ l, f e ∉ l) (cfg : List Edge) (e' : Edge) :
    e' ∈ moveEdges f cfg l ↔ e' ∈ moveEdges f cfg l' := by
  have hf' : ∀ e ∈ l', f e ∉ l' := by
    intro e he h
    exact hf e (hp.mem_iff.mpr he) (hp.mem_iff.mpr h)
  rw [mem_moveEdges f l hf, mem_moveEdges f l' hf']
  constructor
  · rintro (⟨h1, h2⟩ | ⟨e, he, rfl⟩)
    · exact Or.inl ⟨h1, fun h => h2 (hp.mem_iff.mpr h)⟩
    · exact Or.inr ⟨e, hp.mem_iff.mp he, rfl⟩
  · rintro (⟨h1, h2⟩ | ⟨e, he, rfl⟩)
    · exact Or.inl ⟨h1, fun h => h2 (hp.mem_iff.mp h)⟩
    · exact Or.inr ⟨e, hp.mem_iff.mpr he, rfl⟩

/-- a bulk discard over a snapshot: membership afterwards -/
theorem mem_discardAll (l : List Edge) (cfg : List Edge) (e' : Edge) :
    e' ∈ l.foldl cfgDiscard cfg ↔ e' ∈ cfg ∧ e' ∉ l := by
  induction l generalizing cfg with
  | nil => simp
  | cons e l ih =>
    simp only [List.foldl_cons, ih, mem_cfgDiscard, List.mem_cons, not_or]
    constructor
    · rintro ⟨⟨h1, h2⟩, h3⟩; exact ⟨h1, h2, h3⟩
    · rintro ⟨h1, h2, h3⟩; exact ⟨⟨h1, h2⟩, h3⟩

/-- **… and does not depend on the order of the snapshot either** -/
theorem bulk_discard_is_order_independent (l l' : List Edge) (hp : l.Perm l') (cfg : List Edge) (e' : Edge) :
    e' ∈ l.foldl cfgDiscard cfg ↔ e' ∈ l'.foldl cfgDiscard cfg := by
  rw [mem_discardAll, mem_discardAll]
  constructor
  · rintro ⟨h1, h2⟩; exact ⟨h1, fun h => h2 (hp.mem_iff.mpr h)⟩
  · rintro ⟨h1, h2⟩; exact ⟨h1, fun h => h2 (hp.mem_iff.mp h)⟩

/-! ### the processing order of the requests of one block -/

def keyLe (a b : Nat × Nat) : Prop := a.1 < b.1 ∨ (a.1 = b.1 ∧ a.2 ≤ b.2)

theorem insertSorted_perm {α} (key : α → Nat × Nat) (x : α) (l : List α) : (insertSorted key x l).Perm (x :: l) := by
  induction l with
  | nil => exact List.Perm.refl _
  | cons y ys ih =>
    unfold insertSorted
    simp only []
    split
    · exact List.Perm.refl _
    · exact (List.Perm.cons y ih).trans (List.Perm.swap x y ys)

theorem sortOn_perm {α} (key : α → Nat × Nat) (l : List α) : (sortOn key l).Perm l := by
  unfold sortOn
  induction l with
  | nil => exact List.Perm.refl _
  | cons x xs ih =>
    simp only [List.foldr_cons]
    exact (insertSorted_perm key x _).trans (List.Perm.cons x ih)

def leBy {α} (key : α → Nat × Nat) (a b : α) : Prop :=
  (key a).1 < (key b).1 ∨ ((key a).1 = (key b).1 ∧ (key a).2 ≤ (key b).2)

theorem leBy_total {α} (key : α → Nat × Nat) (a b : α) : leBy key a b ∨ leBy key b a := by
  unfold leBy; omega

theorem leBy_trans {α} (key : α → Nat × Nat) {a b c : α} (h1 : leBy key a b) (h2 : leBy key b c) : leBy key a c := by
  unfold leBy at *; omega

theorem insertSorted_sorted {α} (key : α → Nat × Nat) (x : α) (l : List α) (h : l.Pairwise (leBy key)) :
    (insertSorted key x l).Pairwise (leBy key) := by
  induction l with
  | nil => simp [insertSorted]
  | cons y ys ih =>
    unfold insertSorted
    simp only []
    have hy := List.pairwise_cons.mp h
    split
    · rename_i hle
      have hxy : leBy key x y := by
        unfold leBy
        simp only [Bool.or_eq_true, decide_eq_true_eq, Bool.and_eq_true, beq_iff_eq] at hle
        omega
      exact List.pairwise_cons.mpr ⟨fun z hz => by
        rcases List.mem_cons.mp hz with rfl | hz
        · exact hxy
        · exact leBy_trans key hxy (hy.1 z hz), h⟩
    · rename_i hle
      have hyx : leBy key y x := by
        rcases leBy_total key x y with h1 | h1
        · exfalso; apply hle
          unfold leBy at h1
          simp only [Bool.or_eq_true, decide_eq_true_eq, Bool.and_eq_true, beq_iff_eq]
          omega
        · exact h1
      refine List.pairwise_cons.mpr ⟨fun z hz => ?_, ih hy.2⟩
      have := (insertSorted_perm key x ys).mem_iff.mp hz
      rcases List.mem_cons.mp this with rfl | hz'
      · exact hyx
      · exact hy.1 z hz'

theorem sortOn_sorted {α} (key : α → Nat × Nat) (l : List α) : (sortOn key l).Pairwise (leBy key) := by
  unfold sortOn
  induction l with
  | nil => simp
  | cons x xs ih => simp only [List.foldr_cons]; exact insertSorted_sorted key x _ ih

/-- **Registration order matters only through the keys' order**: if two keyings order the
requests the same way and never tie, they are processed in the same order.  (Re-registering
the requests of different offsets in another order changes only the registration indices, not
how two requests at one offset compare.) -/
theorem processing_order_depends_on_key_order_only {α} (k k' : α → Nat × Nat) (l : List α)
    (hiso : ∀ a ∈ l, ∀ b ∈ l, leBy k a b ↔ leBy k' a b)
    (hanti : ∀ a ∈ l, ∀ b ∈ l, leBy k a b → leBy k b a → a = b) :
    sortOn k l = sortOn k' l := by
  have p1 := sortOn_perm k l
  have p2 := sortOn_perm k' l
  apply List.Perm.eq_of_pairwise (le := leBy k)
  · intro a b ha hb h1 h2
    exact hanti a (p1.mem_iff.mp ha) b (p2.mem_iff.mp hb) h1 h2
  · exact sortOn_sorted k l
  · refine List.Pairwise.imp_of_mem ?_ (sortOn_sorted k' l)
    intro a b ha hb h
    exact (hiso a (p2.mem_iff.mp ha) b (p2.mem_iff.mp hb)).mpr h
  · exact p1.trans p2.symm

/-- every registered request of the block is processed exactly once -/
theorem every_request_is_processed_once (edits : List LEdit) (b : Nat) :
    (editsOf edits b).Perm (edits.filter (·.block == b)) :=
  sortOn_perm _ _

end GtirbVerif.Props.C11
