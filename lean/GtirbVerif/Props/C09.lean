import GtirbVerif.Lemmas.Splice
import GtirbVerif.Lemmas.IRFunc
import GtirbVerif.Lemmas.IRMirror
import GtirbVerif.Lemmas.IRSymClosed
import GtirbVerif.Props.C20

/-!
# C09 — rewrite caches are transparent: batch equals one-at-a-time

* **oracle / correspondence** — the real module after one `apply()` is compared with the module
  obtained by applying the same requests one at a time, each in a fresh `RewritingContext`, in
  `apply()`'s own order; after every recorded operation of the batch run the caches' answers
  (neighbouring blocks, function of a block, return edges, referents) are compared with the IR.
* **theorems** (this file): each cache is a refinement of the plain IR view, for every history —
  the reference cache of "assign `Symbol.referent` directly", the return-edge cache of a scan of
  the edge set, the block ordering of the list of blocks, `functions_by_block` of
  `functionBlocks` (restated from C20 / C06); and the only state `_apply_modifications` carries
  from one modification of a block to the next is the running offset: processing a request
  list in one go equals processing a prefix and then the rest; at every step of a batch the
  function cache mirrors the table, the block ordering names only blocks that are part of the
  module - attached, in the section the chain belongs to, each once per chain - and every symbol
  referent is a block of the module (`caches_name_module_blocks_at_every_step`).
-/
namespace GtirbVerif.Props.C09
open GtirbVerif GtirbVerif.IR GtirbVerif.Batch GtirbVerif.Listing GtirbVerif.Adt

/-- the running offset after a list of edits -/
def totalAfter (total : Int) (es : List LEdit) : Int := es.foldl (fun t e => t + e.ins.length - e.del) total

/-- **one batch = a prefix, then the rest**: nothing but the bytes and the running offset is
carried from one modification to the next -/
theorem batch_splits (base : Nat) (bs : List Nat) (total : Int) (a b : List LEdit) :
    seqSplice base bs total (a ++ b) = seqSplice base (seqSplice base bs total a) (totalAfter total a) b := by
  induction a generalizing bs total with
  | nil => rfl
  | cons e a ih =>
    simp only [List.cons_append, seqSplice, totalAfter, List.foldl_cons]
    exact ih _ _

/-- … and so do the positions at which the code edits -/
theorem positions_split (base : Nat) (total : Int) (a b : List LEdit) :
    positions base total (a ++ b) = positions base total a ++ positions base (totalAfter total a) b := by
  induction a generalizing total with
  | nil => rfl
  | cons e a ih =>
    simp only [List.cons_append, positions, totalAfter, List.foldl_cons]
    rw [ih]
    rfl

/-- the reference cache answers like direct assignment, after every history (C20) -/
theorem referents_are_transparent (ops : List RcOp) (c : RC) (sp : RSpec) (hi : Inv c) (ha : Abs c sp)
    (hr : ∀ op ∈ ops, C20.opInRange c.nSyms op) (c' : RC) (obs : List C20.Obs)
    (h : C20.runRC c ops = some (.ok (c', obs))) :
    Inv c' ∧ (∃ sp', Abs c' sp') ∧ C20.AllObs c.nSyms sp ops obs :=
  C20.refcache_refines ops c sp hi ha hr c' obs h

/-- the return-edge cache answers like a scan of the edge set (C20) -/
theorem return_edges_are_transparent {c : RetCache} (h : RetInv c) (b : CfgNode) :
    (∀ e, e ∈ c.blockReturn b ↔ e ∈ specBlockReturn c.edges b) ∧
    (∀ e, e ∈ c.blockProxyReturn b ↔ e ∈ specBlockProxyReturn c.edges b) ∧
    (c.anyReturn b = true ↔ specBlockReturn c.edges b ≠ []) :=
  C20.retcache_queries h b

/-- `adjacent_blocks` answers like the neighbours in the plain list of blocks (C20) -/
theorem neighbours_are_transparent {o : BOrd} {cs : Chains} (h : Repr o cs) (b : Nat) :
    (b ∉ cs.flatten → o.adjacent b = .error .keyError) ∧
    (∀ pre post, (pre ++ b :: post) ∈ cs → o.adjacent b = .ok (pre.getLast?, post.head?)) :=
  C20.ordering_adjacent h b

/-- `functions_by_block` answers like `functionBlocks` (C06) -/
theorem function_of_block_is_transparent (ir : IR) (b : Nat) (h : Mirror ir) :
    Mirror (ir.removeFunctionBlock b) ∧ ∀ f, alookup b ir.fbb = none → Mirror (ir.addFunctionBlock b f) :=
  ⟨removeFunctionBlock_mirror ir b h, fun f hn => addFunctionBlock_mirror ir b f h hn⟩

/-- **at every intermediate step of a batch the function cache agrees with the IR**: whatever
prefix of the requests of a block has been carried out (`ms₁`), and whatever comes after, the
state in between satisfies the mirror relation -/
theorem function_cache_agrees_at_every_step (origOff i : Nat) (func : Option Nat) (ms : List Mod) (ir ir' : IR)
    (actual : Option Nat) (total : Int)
    (h : IR.applyMods origOff func ir actual total ms = .ok ir')
    (hact : ∀ a, actual = some a → In i ir a) (hI : IdsBelow ir) (hnew : NewBlocks origOff func ir actual total ms)
    (hm : MInv ir) : Mirror ir' :=
  (applyMods_minv origOff i func ms ir ir' actual total h hact hI hnew hm).1

/-- **at every intermediate step of a batch the block ordering and the referents speak of the
module**: after any prefix of the requests of a block, every entry of the ordering `adjacent_blocks`
answers from is a block attached to a byte interval of the chain's section (once per chain), and
every symbol that refers to a block refers to an attached one -/
theorem caches_name_module_blocks_at_every_step (origOff i : Nat) (func : Option Nat) (ms : List Mod) (ir ir' : IR)
    (actual : Option Nat) (total : Int)
    (h : IR.applyMods origOff func ir actual total ms = .ok ir')
    (hact : ∀ a, actual = some a → In i ir a) (hI : IdsBelow ir) (hnew : NewPatches origOff func ir actual total ms)
    (hinv : SInv ir) : SInv ir' :=
  applyMods_sinv origOff i func ms ir ir' actual total h hact hI hnew hinv.1 hinv.2

end GtirbVerif.Props.C09
