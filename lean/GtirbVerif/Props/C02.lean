import GtirbVerif.Lemmas.IRSyms
import GtirbVerif.Lemmas.IRSymClosed

/-!
# C02 — symbols keep designating the same place in the edited listing

* **specification** — `Listing.checkLabels` (Spec/ListingCheck.lean): every original symbol and
  every label defined by a patch has a position in the edited listing; the driver evaluates it
  on the real before/after modules (oracle).
* **model** — `IR.splitBlock`, `IR.joinBlocks`, `IR.removeBlock` with the reference cache
  replaced by what C20 proves it equivalent to (direct referents); compared with the real code
  on every run (correspondence, whole-IR after every `insert` / `delete`).
* **theorems** (this file, for every IR): the two operations whose interplay the property
  worries about — `split_block` moving `at_end` symbols to the tail and `join_blocks`
  retargeting block2's references with a single flag — move no symbol; `remove_block` sends the
  symbols exactly where the documentation says and leaves none behind on a removed block.
  The place of a symbol is `IR.symPos` = (byte interval, offset), end of the block for `at_end`.

* **over whole rewrites** (Lemmas/IRSymClosed.lean): *no symbol is ever left referring to a block
  that is no longer part of the module* — for `insert` (patches with any number of extra
  sections), `delete`, the loop of `_apply_modifications` over the requests of a block and
  `apply()`'s loop over all blocks.  The invariant `SInv` has two halves: every symbol that
  refers to a block refers to one attached to a byte interval of the module, and the block
  ordering (which `remove_block` asks for the neighbour that inherits the symbols) lists attached
  blocks of the right section, each once per chain.  Premises: the objects of every patch are new
  when it is inserted (`PatchOk`; evaluated on the recorded states of every run, as is `SInv`).

The premise of `join_moves_no_symbol` (no end-of-block symbol on block1 when block2 has bytes)
is not checked by `are_joinable`; `split_leaves_no_end_symbol_on_head` shows that the callers in
`insert` / `delete`, which always split first, establish it.
-/
namespace GtirbVerif.Props.C02
open GtirbVerif GtirbVerif.IR

/-- `split_block` moves no symbol (end-of-block symbols follow the tail block). -/
theorem split_moves_no_symbol {ir ir' : IR} {b off nb : Nat} {added : Bool} {blk : Block}
    (h : ir.splitBlock b off = .ok (ir', nb, added)) (hb : ir.block? b = some blk)
    (hfresh : ir.block? ir.next = none) :
    ir'.syms = ir.syms.map (splitSym b nb) ∧
    ∀ y pos, ir.symPos y = some pos → ir'.symPos (splitSym b nb y) = some pos :=
  ⟨(splitBlock_core h hb).2.2.1, fun y pos hy => splitBlock_symPos h hb hfresh y pos hy⟩

/-- after `split_block` the head block carries no end-of-block symbol -/
theorem split_leaves_no_end_symbol_on_head {ir ir' : IR} {b off nb : Nat} {added : Bool} {blk : Block}
    (h : ir.splitBlock b off = .ok (ir', nb, added)) (hb : ir.block? b = some blk)
    (hfresh : ir.block? ir.next = none) :
    ∀ y ∈ ir'.syms, y.ref = .block b → y.atEnd = false :=
  splitBlock_head_has_no_end_symbols h hb hfresh

/-- `join_blocks` moves no symbol: block2's references land on block1 — on its start when
block1 is empty (keeping their flag), on its end otherwise, which is where block2 began and,
for `at_end` references, where it ended.  Labels at the end of a non-empty block1 are safe because
`are_joinable` refuses such a join (it did not before the repair recorded for C02: the hypothesis
this theorem used to need was exactly the failing input). -/
theorem join_moves_no_symbol {ir ir' : IR} {id1 id2 : Nat} {b1 b2 : Block}
    (h : ir.joinBlocks id1 id2 = .ok ir') (h1 : ir.block? id1 = some b1) (h2 : ir.block? id2 = some b2)
    (hne : id1 ≠ id2)
    (hend : b1.size = 0 → b2.size = 0 ∨ ∀ y ∈ ir.syms, y.ref = .block id1 → y.atEnd = false) :
    ir'.syms = ir.syms.map (joinSym b1 id2) ∧
    ∀ y ∈ ir.syms, ∀ pos, ir.symPos y = some pos → ir'.symPos (joinSym b1 id2 y) = some pos := by
  -- when block1 is not empty, `are_joinable` itself refuses to bury a label that stands at its end
  have hend' : b2.size = 0 ∨ ∀ y ∈ ir.syms, y.ref = .block id1 → y.atEnd = false := by
    by_cases hz : b1.size = 0
    · exact hend hz
    · have e1 : b1.id = id1 := findB_id h1
      rcases notJoinable_none_end (joinBlocks_core h h1 h2).1 with h0 | h0 | h0
      · exact absurd h0 hz
      · exact Or.inl h0
      · exact Or.inr (e1 ▸ h0)
  exact ⟨(joinBlocks_core h h1 h2).2.1, fun y hy pos hp => joinBlocks_symPos h h1 h2 hne hend' y hy pos hp⟩

/-- `remove_block`: the references of a removed block go to the fresh proxy
(`retarget_to_proxy`), else the start of the next block, else the end of the previous block;
a block that must stay keeps them. -/
theorem remove_retargets {ir ir' : IR} {b : Nat} {px r : Bool} {blk : Block}
    (h : ir.removeBlock b px = .ok (ir', r)) (hb : ir.block? b = some blk) :
    ir'.syms = if r then
        ir.syms.map (removeSym b (removeTarget (if px then some ir.next else none) (ir.adjacent blk).2 (ir.adjacent blk).1))
      else ir.syms :=
  removeBlock_syms h hb

/-- the target chosen by `remove_block` -/
theorem remove_target_rule (proxy next prev : Option Nat) :
    removeTarget proxy next prev =
      match proxy, next, prev with
      | some p, _, _ => (.proxy p, false)
      | none, some n, _ => (.block n, false)
      | none, none, some p => (.block p, true)
      | none, none, none => (.none, false) := rfl

/-- No symbol is left referring to a block that is no longer part of the module. -/
theorem remove_leaves_no_symbol_behind {ir ir' : IR} {b : Nat} {px : Bool} {blk : Block}
    (h : ir.removeBlock b px = .ok (ir', true)) (hb : ir.block? b = some blk)
    (ht : (removeTarget (if px then some ir.next else none) (ir.adjacent blk).2 (ir.adjacent blk).1).1 ≠ .block b) :
    ∀ y ∈ ir'.syms, y.ref ≠ .block b :=
  removeBlock_no_dangling h hb ht

/-- **over a whole `apply()`**: whatever requests the blocks get, when the loop over all blocks is
through every symbol that refers to a block refers to a block of the module — one that is attached
to a byte interval of one of its sections (and the invariant that makes this so still holds) -/
theorem no_symbol_is_left_on_a_block_that_left_the_module (rs : List BlockMods) (ir ir' : IR)
    (h : ir.applyAll rs = .ok ir') (hI : IdsBelow ir) (hok : ∀ r ∈ rs, ReqOk ir r) (hnd : (rs.map (ivOf ir)).Nodup)
    (hnew : NewPatchesAll ir rs) (hinv : SInv ir) :
    SInv ir' ∧ ∀ y ∈ ir'.syms, ∀ b, y.ref = .block b →
      ∃ blk s, ir'.block? b = some blk ∧ blk.bi ≠ none ∧ ir'.sectionOf blk = some s := by
  obtain ⟨s1, o1⟩ := applyAll_sinv rs ir ir' h hI hok hnd hnew hinv.1 hinv.2
  refine ⟨⟨s1, o1⟩, ?_⟩
  intro y hy b hb
  rcases s1 y hy b hb with ⟨s, blk, hblk, hs⟩ | hp
  · exact ⟨blk, s, hblk, sectionOf_some_bi hs, hs⟩
  · cases hp

/-- … and after each single `insert` -/
theorem insert_leaves_no_symbol_behind {ir ir' : IR} {b off repl last : Nat} {p : Patch}
    (h : ir.insert b off repl p = .ok (ir', last)) (hinv : SInv ir) (hI : IdsBelow ir) (hp : PatchOk ir p) : SInv ir' :=
  insert_sinv h hinv.1 hinv.2 hI hp

/-- … and each single `delete` -/
theorem delete_leaves_no_symbol_behind {ir ir' : IR} {b off len : Nat} {px : Bool} {r : Option Nat}
    (h : ir.delete b off len px = .ok (ir', r)) (hinv : SInv ir) (hI : IdsBelow ir) : SInv ir' :=
  delete_sinv h hinv.1 hinv.2 hI

/-! ### non-vacuity: a block with a start and an end symbol, split in the middle -/

private def demo : IR :=
  { sections := [(0, ".text")],
    intervals := [{ id := 1, sect := 0, addr := some 0, size := 4, bytes := [1, 2, 3, 4], symExprs := [] }],
    blocks := [{ id := 2, isCode := false, bi := some 1, off := 0, size := 4 }],
    syms := [{ id := 3, name := "a", ref := .block 2, atEnd := false }, { id := 4, name := "e", ref := .block 2, atEnd := true }],
    order := [(0, [[2]])], next := 10 }

example : demo.block? demo.next = none := by decide
example : (demo.syms.map demo.symPos) = [some (1, 0), some (1, 4)] := by decide
example : (match demo.splitBlock 2 1 with
    | .ok (ir', nb, _) => (ir'.syms.map ir'.symPos, nb)
    | .error _ => ([], 0)) = ([some (1, 0), some (1, 4)], 10) := by decide

-- the invariant of the whole-rewrite theorems holds of the example module (executable form)
example : demo.symsOkB = true ∧ demo.ordOkB = true := by decide
example : SInv demo := sinvB_sound (by decide) (by decide)
-- … and still after a deletion in the middle of the block
example : (match demo.delete 2 1 2 false with
    | .ok (ir', _) => ir'.symsOkB && ir'.ordOkB
    | .error _ => false) = true := by decide

end GtirbVerif.Props.C02
