import GtirbVerif.Lemmas.IRCfi
import GtirbVerif.Lemmas.IRAnn
import GtirbVerif.Spec.CfiCheck

/-!
# C08 — rewriting preserves call-frame (unwind) information

* **specification** — `Listing.checkCfi` (Spec/CfiCheck.lean) relates the evaluation of the CFI
  directives before and after the rewrite (real `evaluate_cfi_directives`, whose agreement with
  DWARF is C15) through the listing's byte map: evaluation still succeeds, every surviving
  instruction is inside a procedure iff it was, without deletions its unwind state is unchanged,
  procedures correspond one to one and in order, inserted code inside a procedure (its very end
  included) is covered, starts with the state of the insertion point and keeps its own directives.
* **model** — `splitCfi` / `splitAtEndproc`, `joinCfi`, `IR.requiredCfi`, `IR.removeCfi`, the patch's
  directives in `IR.addPatchAux`; compared with the real code after every recorded operation.
* **theorems** (this file): whatever `_required_cfi_directives` keeps of a removed block, the kept
  stream opens and closes CFI procedures exactly as the block's whole stream did, from either
  state (so no startproc/endproc is lost, duplicated or unbalanced by a deletion); at a split
  point the directives divide, in order, right before the first `.cfi_endproc` (code inserted at
  the very end of a procedure lands inside it); split and join re-key CFI entries to exactly
  `splitCfi` / `joinCfi` of the old table.
-/
namespace GtirbVerif.Props.C08
open GtirbVerif GtirbVerif.IR

/-- **deleting code never unbalances CFI procedures**: if the removed block's directives take the
evaluator's procedure bookkeeping from `s` to `t`, so do the directives that are kept -/
theorem kept_directives_preserve_procedures (gs : List (List CfiDir)) (s t : Bool)
    (h : procRun (some s) gs.flatten = some t) : procRun (some s) (requiredGroups gs) = some t :=
  requiredGroups_brackets gs s t h

/-- **an empty block gives up none of its directives** when it is removed (they describe the
code that follows it - e.g. the closing directives of a patch that ends in a jump): what
`_required_cfi_directives` keeps of a zero-sized code block is its whole stream, in order -/
theorem empty_block_keeps_all (ir : IR) (blk : Block) (hc : blk.isCode = true) (hz : blk.size = 0) :
    ir.requiredCfi blk = ((sortGroups (cfiGet ir.aux.cfi blk.id)).map (·.2)).flatten := by
  unfold IR.requiredCfi
  simp [hc, hz]

/-- the split point: keep ++ move is the original list; nothing that stays in front is an
endproc; what moves behind the inserted code starts with the endproc -/
theorem split_point_rule (ds : List CfiDir) :
    (splitAtEndproc ds).1 ++ (splitAtEndproc ds).2 = ds ∧
    (∀ d ∈ (splitAtEndproc ds).1, d.name ≠ ".cfi_endproc") ∧
    ((splitAtEndproc ds).2 = [] ∨ ∃ d tl, (splitAtEndproc ds).2 = d :: tl ∧ d.name = ".cfi_endproc") :=
  splitAtEndproc_spec ds

/-- `split_block` and `join_blocks` change the CFI table to exactly `splitCfi` / `joinCfi` of it -/
theorem split_rekeys_cfi {ir ir' : IR} {b off nb : Nat} {added : Bool} {blk : Block}
    (h : ir.splitBlock b off = .ok (ir', nb, added)) (hb : ir.block? b = some blk) :
    ir'.aux.cfi = splitCfi ir.aux.cfi b nb off :=
  (splitBlock_omaps h hb).2

theorem join_rekeys_cfi {ir ir' : IR} {id1 id2 : Nat} {b1 b2 : Block}
    (h : ir.joinBlocks id1 id2 = .ok ir') (h1 : ir.block? id1 = some b1) (h2 : ir.block? id2 = some b2) :
    ir'.aux.cfi = joinCfi ir.aux.cfi b1.id b1.size id2 :=
  (joinBlocks_omaps h h1 h2).2

/-! ### non-vacuity: a block holding a whole procedure plus the start of the next one -/
private def d (n : String) : CfiDir := { name := n, args := [], sym := none }
example : procRun (some false) [[d ".cfi_startproc", d ".cfi_def_cfa"], [d ".cfi_adjust_cfa_offset"], [d ".cfi_endproc", d ".cfi_startproc", d ".cfi_def_cfa"], [d ".cfi_offset"]].flatten = some true := by decide
example : requiredGroups [[d ".cfi_startproc", d ".cfi_def_cfa"], [d ".cfi_adjust_cfa_offset"], [d ".cfi_endproc", d ".cfi_startproc", d ".cfi_def_cfa"], [d ".cfi_offset"]]
    = [d ".cfi_startproc", d ".cfi_def_cfa"] := by decide

end GtirbVerif.Props.C08
