import GtirbVerif.Spec.AdtSpec

/-!
# C20 — internal containers behave like their simple abstract models
-/
namespace GtirbVerif.Props.C20
open GtirbVerif.Adt

/-! ## IdentitySet = a set of identities -/

/-- the specification: membership after a history -/
def idSpec (f : Nat → Bool) : IdOp → Nat → Bool
  | .add x => fun y => if y = x then true else f y
  | .discard x => fun y => if y = x then false else f y

theorem idset_step (s : IdSet) (f : Nat → Bool) (h : ∀ y, s.contains y = f y) (hn : s.ids.Nodup)
    (op : IdOp) : (∀ y, (s.step op).contains y = idSpec f op y) ∧ (s.step op).ids.Nodup := by
  cases op with
  | add x =>
    simp only [IdSet.step, IdSet.add, idSpec]
    by_cases hx : x ∈ s.ids
    · simp only [hx, ↓reduceIte]
      refine ⟨fun y => ?_, hn⟩
      by_cases hy : y = x
      · subst hy; simp [IdSet.contains, hx]
      · simp [hy, h y]
    · simp only [hx, ↓reduceIte]
      refine ⟨fun y => ?_, ?_⟩
      · by_cases hy : y = x
        · subst hy; simp [IdSet.contains]
        · have := h y
          simp only [IdSet.contains] at this ⊢
          simp [hy, ← this]
      · rw [List.nodup_append]
        refine ⟨hn, by simp, ?_⟩
        intro a ha b hb
        simp only [List.mem_singleton] at hb
        subst hb
        intro hab; subst hab; exact hx ha
  | discard x =>
    simp only [IdSet.step, IdSet.discard, idSpec]
    refine ⟨fun y => ?_, hn.filter _⟩
    by_cases hy : y = x
    · subst hy; simp [IdSet.contains]
    · have := h y
      simp only [IdSet.contains] at this ⊢
      simp [hy, ← this]

/-- **for every history** the identity set is the set of identities the history
denotes, and its length is the number of members (no duplicates) -/
theorem identityset_refines (ops : List IdOp) :
    (∀ y, (ops.foldl IdSet.step {}).contains y = (ops.foldl idSpec (fun _ => false)) y) ∧
    (ops.foldl IdSet.step {}).ids.Nodup := by
  suffices H : ∀ (s : IdSet) (f : Nat → Bool), (∀ y, s.contains y = f y) → s.ids.Nodup →
      (∀ y, (ops.foldl IdSet.step s).contains y = (ops.foldl idSpec f) y) ∧
      (ops.foldl IdSet.step s).ids.Nodup from
    H {} (fun _ => false) (by intro y; simp [IdSet.contains]) (by simp)
  induction ops with
  | nil => intro s f h hn; exact ⟨h, hn⟩
  | cons op ops ih =>
    intro s f h hn
    have := idset_step s f h hn op
    exact ih _ _ this.1 this.2

end GtirbVerif.Props.C20
