import GtirbVerif.Lemmas.RefCache
import GtirbVerif.Lemmas.RetCache
import GtirbVerif.Lemmas.OMap
import GtirbVerif.Lemmas.BOrd

/-!
# C20 — internal containers behave like their simple abstract models
-/
namespace GtirbVerif.Props.C20
open GtirbVerif.Adt

/-! ## IdentitySet = a set of identities -/

/-- the specification: membership after a history -/
def idSpec (f : Nat → Bool) : IdOp → Nat → Bool
  | .add x => fun y => if y = x then true else f y
  | .discard x => fun y => if y = x then false else f y

theorem idset_step (s : IdSet) (f : Nat → Bool) (h : ∀ y, s.contains y = f y) (hn : s.ids.Nodup)
    (op : IdOp) : (∀ y, (s.step op).contains y = idSpec f op y) ∧ (s.step op).ids.Nodup := by
  cases op with
  | add x =>
    simp only [IdSet.step, IdSet.add, idSpec]
    by_cases hx : x ∈ s.ids
    · simp only [hx, ↓reduceIte]
      refine ⟨fun y => ?_, hn⟩
      by_cases hy : y = x
      · subst hy; simp [IdSet.contains, hx]
      · simp [hy, h y]
    · simp only [hx, ↓reduceIte]
      refine ⟨fun y => ?_, ?_⟩
      · by_cases hy : y = x
        · subst hy; simp [IdSet.contains]
        · have := h y
          simp only [IdSet.contains] at this ⊢
          simp [hy, ← this]
      · rw [List.nodup_append]
        refine ⟨hn, by simp, ?_⟩
        intro a ha b hb
        simp only [List.mem_singleton] at hb
        subst hb
        intro hab; subst hab; exact hx ha
  | discard x =>
    simp only [IdSet.step, IdSet.discard, idSpec]
    refine ⟨fun y => ?_, hn.filter _⟩
    by_cases hy : y = x
    · subst hy; simp [IdSet.contains]
    · have := h y
      simp only [IdSet.contains] at this ⊢
      simp [hy, ← this]

/-- **for every history** the identity set is the set of identities the history
denotes, and its length is the number of members (no duplicates) -/
theorem identityset_refines (ops : List IdOp) :
    (∀ y, (ops.foldl IdSet.step {}).contains y = (ops.foldl idSpec (fun _ => false)) y) ∧
    (ops.foldl IdSet.step {}).ids.Nodup := by
  suffices H : ∀ (s : IdSet) (f : Nat → Bool), (∀ y, s.contains y = f y) → s.ids.Nodup →
      (∀ y, (ops.foldl IdSet.step s).contains y = (ops.foldl idSpec f) y) ∧
      (ops.foldl IdSet.step s).ids.Nodup from
    H {} (fun _ => false) (by intro y; simp [IdSet.contains]) (by simp)
  induction ops with
  | nil => intro s f h hn; exact ⟨h, hn⟩
  | cons op ops ih =>
    intro s f h hn
    have := idset_step s f h hn op
    exact ih _ _ this.1 this.2

/-! ## ReferenceCache = assigning `Symbol.referent` directly -/

/-- what an operation lets the caller observe -/
inductive Obs
  | done
  | referent (r : Option Nat)
  | symbols (ys : List Nat)

/-- the model's transition; `none` = model fuel exhausted (never observed;
the termination bound of the two loops is not proved) -/
def stepRC (c : RC) : RcOp → Option (Except AdtErr (RC × Obs))
  | .retarget b t e => some ((c.retarget b t e).map (fun c' => (c', Obs.done)))
  | .setReferent s r e => some (.ok (c.setReferent s r e, .done))
  | .getReferent s => some ((c.getReferent s).map (fun p => (p.2, Obs.referent p.1)))
  | .getReferences b k => (c.getReferences b k).map (fun p => .ok (p.1, .symbols p.2))
  | .apply => c.apply.map (fun c' => .ok (c', .done))

def opInRange (n : Nat) : RcOp → Prop
  | .setReferent s _ _ => s < n
  | .getReferent s => s < n
  | _ => True

/-- the observation is what "assign directly" prescribes -/
def ObsOK (sp : RSpec) : RcOp → Obs → Prop
  | .getReferent s, .referent r => r = sp.ref s
  | .getReferences b k, .symbols ys =>
      ys.Nodup ∧ (∀ y ∈ ys, sp.ref y = some b) ∧ ys.length ≤ k ∧
      (ys.length < k → ∀ s, sp.ref s = some b → s ∈ ys)
  | .retarget _ _ _, .done => True
  | .setReferent _ _ _, .done => True
  | .apply, .done => True
  | _, _ => False

/-- **one operation**: the concrete forest keeps standing for the abstract
assignment, results agree, and the only refusal is the specified one -/
theorem refcache_step {c : RC} {sp : RSpec} (hi : Inv c) (ha : Abs c sp) (op : RcOp)
    (hr : opInRange c.nSyms op) :
    (∀ c' obs, stepRC c op = some (.ok (c', obs)) →
      ∃ sp', sp.step c.nSyms op = .ok sp' ∧ Inv c' ∧ Abs c' sp' ∧ c'.nSyms = c.nSyms ∧
        ObsOK sp' op obs) ∧
    (stepRC c op = some (.error .assertion) → sp.step c.nSyms op = .error .assertion) := by
  cases op with
  | retarget b t e =>
    obtain ⟨h1, h2⟩ := retarget_refines hi ha b t e
    constructor
    · intro c' obs h
      simp only [stepRC, Option.some.injEq] at h
      cases hrt : c.retarget b t e with
      | error er => simp [hrt, Except.map] at h
      | ok c1 =>
        simp only [hrt, Except.map, Except.ok.injEq, Prod.mk.injEq] at h
        obtain ⟨rfl, rfl⟩ := h
        obtain ⟨sp', q1, q2, q3, q4⟩ := h1 c1 hrt
        exact ⟨sp', q1, q2, q3, q4, trivial⟩
    · intro h
      simp only [stepRC, Option.some.injEq] at h
      cases hrt : c.retarget b t e with
      | error er =>
        simp only [hrt, Except.map, Except.error.injEq] at h
        subst h
        exact h2 hrt
      | ok c1 => simp [hrt, Except.map] at h
  | setReferent s r e =>
    constructor
    · intro c' obs h
      simp only [stepRC, Option.some.injEq, Except.ok.injEq, Prod.mk.injEq] at h
      obtain ⟨rfl, rfl⟩ := h
      obtain ⟨q1, q2⟩ := setReferent_ok hi ha s hr r e
      exact ⟨_, rfl, q1, q2, rfl, trivial⟩
    · intro h; simp [stepRC] at h
  | getReferent s =>
    constructor
    · intro c' obs h
      simp only [stepRC, Option.some.injEq] at h
      cases hg : c.getReferent s with
      | error er => simp [hg, Except.map] at h
      | ok p =>
        obtain ⟨res, c1⟩ := p
        simp only [hg, Except.map, Except.ok.injEq, Prod.mk.injEq] at h
        obtain ⟨rfl, rfl⟩ := h
        obtain ⟨q1, q2, q3, _, q5⟩ := getReferent_ok hi ha hr hg
        exact ⟨sp, rfl, q2, q3, q5, q1⟩
    · intro h
      -- `get_referent` has no refusal: the model's only errors are fuel errors
      simp only [stepRC, Option.some.injEq] at h
      cases hg : c.getReferent s with
      | ok p => simp [hg, Except.map] at h
      | error er =>
        exfalso
        simp only [hg, Except.map, Except.error.injEq] at h
        subst h
        unfold RC.getReferent at hg
        cases hrf : c.referents s with
        | none => simp [hrf] at hg
        | some n =>
          simp only [hrf] at hg
          cases hcl : RC.climb (c.setReferent s none (c.atEnd s)) (c.next + 1) n
              (c.setReferent s none (c.atEnd s)).parent with
          | none => simp [hcl] at hg
          | some q =>
            obtain ⟨root, b, par⟩ := q
            simp only [hcl] at hg
            cases hrb : (c.setReferent s none (c.atEnd s)).refs b with
            | none => simp [hrb] at hg
            | some p => simp [hrb] at hg
  | getReferences b k =>
    constructor
    · intro c' obs h
      simp only [stepRC] at h
      cases hg : c.getReferences b k with
      | none => simp [hg] at h
      | some p =>
        obtain ⟨c1, ys⟩ := p
        simp only [hg, Option.map_some, Option.some.injEq, Except.ok.injEq, Prod.mk.injEq] at h
        obtain ⟨rfl, rfl⟩ := h
        obtain ⟨g1, g2, g3, g4, g5, g6, _, g8, _⟩ := getReferences_ok hi ha hg
        exact ⟨sp, rfl, g1, g2, g8, g3, g4, g5, g6⟩
    · intro h
      simp only [stepRC] at h
      cases hg : c.getReferences b k <;> simp [hg] at h
  | apply =>
    constructor
    · intro c' obs h
      simp only [stepRC] at h
      cases hg : c.apply with
      | none => simp [hg] at h
      | some c1 =>
        simp only [hg, Option.map_some, Option.some.injEq, Except.ok.injEq, Prod.mk.injEq] at h
        obtain ⟨rfl, rfl⟩ := h
        obtain ⟨g1, g2, _, _, g5⟩ := apply_ok hi ha hg
        exact ⟨sp, rfl, g1, g2, g5, trivial⟩
    · intro h
      simp only [stepRC] at h
      cases hg : c.apply <;> simp [hg] at h

/-- a whole history on the model -/
def runRC : RC → List RcOp → Option (Except AdtErr (RC × List Obs))
  | c, [] => some (.ok (c, []))
  | c, op :: ops =>
    match stepRC c op with
    | none => none
    | some (.error e) => some (.error e)
    | some (.ok (c', o)) =>
      match runRC c' ops with
      | none => none
      | some (.error e) => some (.error e)
      | some (.ok (c'', os)) => some (.ok (c'', o :: os))

/-- the same history on the specification, with the observations it allows -/
def AllObs (n : Nat) : RSpec → List RcOp → List Obs → Prop
  | _, [], [] => True
  | sp, op :: ops, o :: os =>
    match sp.step n op with
    | .ok sp' => ObsOK sp' op o ∧ AllObs n sp' ops os
    | .error _ => False
  | _, _, _ => False

/-- **for every finite sequence of operations** (retarget cycles, self-retargets,
repeated and no-op operations, `get_references` consumed to any prefix and
abandoned, `apply` anywhere): whenever the cache completes the history, every
result it gave is the result of assigning `Symbol.referent` directly, and the
forest still stands for that assignment -/
theorem refcache_refines : ∀ (ops : List RcOp) (c : RC) (sp : RSpec), Inv c → Abs c sp →
    (∀ op ∈ ops, opInRange c.nSyms op) → ∀ c' obs, runRC c ops = some (.ok (c', obs)) →
    Inv c' ∧ (∃ sp', Abs c' sp') ∧ AllObs c.nSyms sp ops obs
  | [], c, sp, hi, ha, _, c', obs, h => by
    simp only [runRC, Option.some.injEq, Except.ok.injEq, Prod.mk.injEq] at h
    obtain ⟨rfl, rfl⟩ := h
    exact ⟨hi, ⟨sp, ha⟩, trivial⟩
  | op :: ops, c, sp, hi, ha, hr, c', obs, h => by
    simp only [runRC] at h
    cases hs : stepRC c op with
    | none => simp [hs] at h
    | some r =>
      cases r with
      | error e => simp [hs] at h
      | ok p =>
        obtain ⟨c1, o⟩ := p
        simp only [hs] at h
        obtain ⟨sp1, q1, q2, q3, q4, q5⟩ :=
          (refcache_step hi ha op (hr op List.mem_cons_self)).1 c1 o hs
        cases hrun : runRC c1 ops with
        | none => simp [hrun] at h
        | some r2 =>
          cases r2 with
          | error e => simp [hrun] at h
          | ok p2 =>
            obtain ⟨c2, os⟩ := p2
            simp only [hrun, Option.some.injEq, Except.ok.injEq, Prod.mk.injEq] at h
            obtain ⟨rfl, rfl⟩ := h
            obtain ⟨r1, r2, r3⟩ := refcache_refines ops c1 sp1 q2 q3
              (by intro op' h'; rw [q4]; exact hr op' (List.mem_cons_of_mem _ h')) c2 os hrun
            refine ⟨r1, r2, ?_⟩
            simp only [AllObs, q1]
            rw [q4] at r3
            exact ⟨q5, r3⟩

/-- the cache refuses (`assert to_block`) only when assigning directly is
impossible too: some symbol refers to the block and there is no target -/
theorem refcache_refusal {c : RC} {sp : RSpec} (hi : Inv c) (ha : Abs c sp) (op : RcOp)
    (hr : opInRange c.nSyms op) (h : stepRC c op = some (.error .assertion)) :
    sp.step c.nSyms op = .error .assertion :=
  (refcache_step hi ha op hr).2 h

/-- the empty cache over symbols that all have direct referents is a valid start -/
theorem refcache_init (n : Nat) : Inv { nSyms := n } ∧ Abs { nSyms := n } {} :=
  ⟨inv_init n, abs_init n⟩

/-- after `apply()` nothing is indirect and every symbol's own fields hold the
abstract assignment: no symbol is stranded without its referent -/
theorem refcache_apply_direct {c c' : RC} {sp : RSpec} (hi : Inv c) (ha : Abs c sp)
    (h : c.apply = some c') :
    (∀ s, c'.referents s = none) ∧ (∀ s, c'.direct s = sp.ref s ∧ c'.atEnd s = sp.atEnd s) := by
  obtain ⟨_, _, h3, h4, _⟩ := apply_ok hi ha h
  exact ⟨h3, h4⟩

/-! ## ReturnEdgeCache = a scan of the CFG -/

/-- **for every history** both indices are exactly the scans of the edge set
(membership, key presence = non-emptiness, no duplicates) and the edge set
itself evolves as a plain set of edges -/
theorem retcache_refines (ops : List RetOp) :
    RetInv (ops.foldl RetCache.step {}) ∧
    (ops.foldl RetCache.step {}).edges = ops.foldl cfgStep [] := by
  suffices H : ∀ (c : RetCache) (s : List Edge), RetInv c → c.edges = s →
      RetInv (ops.foldl RetCache.step c) ∧ (ops.foldl RetCache.step c).edges = ops.foldl cfgStep s from
    H {} [] retInv_empty rfl
  induction ops with
  | nil => intro c s h1 h2; exact ⟨h1, h2⟩
  | cons op ops ih =>
    intro c s h1 h2
    exact ih _ _ (retInv_step h1 op) (by rw [edges_step, h2])

/-- the three queries, read off the invariant -/
theorem retcache_queries {c : RetCache} (h : RetInv c) (b : CfgNode) :
    (∀ e, e ∈ c.blockReturn b ↔ e ∈ specBlockReturn c.edges b) ∧
    (∀ e, e ∈ c.blockProxyReturn b ↔ e ∈ specBlockProxyReturn c.edges b) ∧
    (c.anyReturn b = true ↔ specBlockReturn c.edges b ≠ []) := by
  refine ⟨fun e => ?_, fun e => ?_, ?_⟩
  · rw [RetCache.blockReturn, (h.ret b).1 e]
    simp [specBlockReturn, and_assoc]
  · rw [RetCache.blockProxyReturn, (h.pret b).1 e]
    simp [specBlockProxyReturn, and_assoc]
  · rw [RetCache.anyReturn, (h.ret b).2.1]
    constructor
    · rintro ⟨e, h1, h2, h3⟩ hnil
      have : e ∈ specBlockReturn c.edges b := by simp [specBlockReturn, h1, h2, h3]
      rw [hnil] at this; cases this
    · intro hne
      cases hl : specBlockReturn c.edges b with
      | nil => exact absurd hl hne
      | cons e _ =>
        have : e ∈ specBlockReturn c.edges b := by rw [hl]; simp
        simp only [specBlockReturn, List.mem_filter, Bool.and_eq_true, beq_iff_eq] at this
        exact ⟨e, this.1, this.2.1, this.2.2⟩

/-! ## make_return_cache -/

theorem cfg_update_nodup : ∀ (l acc : List Edge), (acc ++ l).Nodup →
    l.foldl (fun s e => if e ∈ s then s else s ++ [e]) acc = acc ++ l
  | [], acc, _ => by simp
  | e :: l, acc, h => by
    have he : e ∉ acc := by
      intro hin
      exact (List.nodup_append.mp h).2.2 e hin e List.mem_cons_self rfl
    simp only [List.foldl_cons, he, ↓reduceIte]
    rw [cfg_update_nodup l (acc ++ [e]) (by simpa using h)]
    simp

/-- **leaving the return-cache context**: whatever the body did (through the
cache, through a stale reference to the original CFG object, by re-assigning
`ir.cfg`, raising or not) `ir.cfg` is the caller's object again and holds
exactly the cache's final edges, i.e. the edges a plain CFG would hold after
the body's cache operations; CFGModifiedError is raised iff the body finished
normally and (the xor-hash of the original object changed or `ir.cfg` was not
the cache at exit). The hash is weak: a modification that leaves the xor
unchanged is *not* detected — stated here, not hidden. -/
theorem return_cache_context (hsh : Edge → Nat) (e0 : List Edge) (ops : List BodyOp) (raises : Bool) :
    let r := runReturnCtx hsh e0 ops raises
    let s := ops.foldl CtxState.body (CtxState.init e0)
    r.irCfgIsOld = true ∧ r.oldEdges = s.cache.edges ∧
    (r.raised = if raises then some .bodyRaised
      else if weakHash hsh s.old != weakHash hsh (CtxState.init e0).old || !s.irIsCache
      then some .cfgModified else none) := by
  simp only [runReturnCtx]
  refine ⟨by first | rfl | trivial, ?_, ?_⟩
  · -- the cache's edge list has no duplicates, so copying it into the cleared CFG is the identity
    have hinv : ∀ (ops : List BodyOp) (s : CtxState), RetInv s.cache →
        RetInv (ops.foldl CtxState.body s).cache := by
      intro ops
      induction ops with
      | nil => intro s h; exact h
      | cons op ops ih =>
        intro s h
        apply ih
        cases op <;> simp only [CtxState.body] <;> first | exact retInv_step h _ | exact h
    have h0 : RetInv (CtxState.init e0).cache := retInv_update retInv_empty _
    have := (hinv ops (CtxState.init e0) h0).nodup
    simp only [cfgStep]
    rw [cfg_update_nodup _ [] (by simpa using this)]
    simp
  · by_cases hr : raises = true
    · simp [hr]
    · simp only [hr, Bool.false_eq_true, ↓reduceIte, Bool.or_eq_true]
      split
      · simp_all
      · split <;> simp_all

/-! ## BlockOrdering = a plain list of disjoint chains -/

theorem ordering_empty : Repr {} [] := repr_empty

/-- `adjacent_blocks` = the neighbours in the chain; KeyError for unknown blocks -/
theorem ordering_adjacent {o : BOrd} {cs : Chains} (h : Repr o cs) (b : Nat) :
    (b ∉ cs.flatten → o.adjacent b = .error .keyError) ∧
    (∀ pre post, (pre ++ b :: post) ∈ cs → o.adjacent b = .ok (pre.getLast?, post.head?)) :=
  adjacent_spec h b

theorem ordering_remove {o : BOrd} {cs1 cs2 : Chains} {pre post : List Nat} {b : Nat}
    (h : Repr o (cs1 ++ (pre ++ b :: post) :: cs2)) :
    ∃ o', o.remove b = .ok o' ∧
      Repr o' (cs1 ++ (if pre ++ post = [] then [] else [pre ++ post]) ++ cs2) :=
  remove_spec h

theorem ordering_insert_after {o : BOrd} {cs1 cs2 : Chains} {pre post : List Nat} {a : Nat}
    (bs : List Nat) (h : Repr o (cs1 ++ (pre ++ a :: post) :: cs2))
    (hnot : ∀ x ∈ bs, x ∉ (cs1 ++ (pre ++ a :: post) :: cs2).flatten) (hnd : bs.Nodup) :
    ∃ o', o.primitiveInsert (some a) bs = .ok o' ∧
      Repr o' (cs1 ++ (pre ++ a :: (bs ++ post)) :: cs2) :=
  insertAfter_spec bs h hnot hnd

theorem ordering_add_detached {o : BOrd} {cs : Chains} (b : Nat) (bs : List Nat) (h : Repr o cs)
    (hnot : ∀ x ∈ b :: bs, x ∉ cs.flatten) (hnd : (b :: bs).Nodup) :
    ∃ o', o.primitiveInsert none (b :: bs) = .ok o' ∧ Repr o' (cs ++ [b :: bs]) :=
  addDetached_spec b bs h hnot hnd

theorem ordering_refusals {o : BOrd} {cs : Chains} (h : Repr o cs) (after : Option Nat)
    (bs : List Nat) :
    ((∃ x ∈ bs, x ∈ cs.flatten) → o.primitiveInsert after bs = .error .valueError) ∧
    (¬ bs.Nodup → o.primitiveInsert after bs = .error .valueError) ∧
    ((∀ x ∈ bs, x ∉ cs.flatten) → bs.Nodup → ∀ a, after = some a → a ∉ cs.flatten →
      o.primitiveInsert after bs = .error .keyError) :=
  insert_refusals h after bs

theorem ordering_remove_unknown {o : BOrd} {cs : Chains} (h : Repr o cs) (b : Nat)
    (hb : b ∉ cs.flatten) : o.remove b = .error .keyError := by
  have : o.mem b = false := by
    cases hm : o.mem b with
    | false => rfl
    | true => exact absurd ((h.mem b).mp hm) hb
  simp [BOrd.remove, this]

/-! ## OffsetMapping = a dictionary keyed by (element, displacement) -/

theorem offsetmap_get (m : OMap) (e d : Nat) :
    m.getO e d = match (absOMap m).val e d with
      | some v => .ok v
      | none => .error .keyError := omap_getO m e d

theorem offsetmap_contains (m : OMap) (e d : Nat) :
    m.containsO e d = ((absOMap m).val e d).isSome ∧ m.containsE e = (absOMap m).elem e :=
  ⟨omap_containsO m e d, omap_containsE m e⟩

theorem offsetmap_set (m : OMap) (e d v : Nat) :
    (absOMap (m.setO e d v)).val = (fun e' d' => if e' = e ∧ d' = d then some v else (absOMap m).val e' d') ∧
    (absOMap (m.setO e d v)).elem = (fun e' => if e' = e then true else (absOMap m).elem e') :=
  omap_setO m e d v

theorem offsetmap_set_element (m : OMap) (e : Nat) (sub : SubDict) :
    (absOMap (m.setE e sub)).val = (fun e' d' => if e' = e then dictGet d' sub else (absOMap m).val e' d') ∧
    (absOMap (m.setE e sub)).elem = (fun e' => if e' = e then true else (absOMap m).elem e') :=
  omap_setE m e sub

theorem offsetmap_del (m : OMap) (e d : Nat) :
    match m.delO e d with
    | .error err => err = .keyError ∧ (absOMap m).val e d = none
    | .ok m' => (absOMap m).val e d ≠ none ∧
        (absOMap m').val = (fun e' d' => if e' = e ∧ d' = d then none else (absOMap m).val e' d') ∧
        (absOMap m').elem = (absOMap m).elem := omap_delO m e d

theorem offsetmap_del_element (m : OMap) (e : Nat) :
    match m.delE e with
    | .error err => err = .keyError ∧ (absOMap m).elem e = false
    | .ok m' => (absOMap m).elem e = true ∧
        (absOMap m').val = (fun e' d' => if e' = e then none else (absOMap m).val e' d') ∧
        (absOMap m').elem = (fun e' => if e' = e then false else (absOMap m).elem e') := omap_delE m e

/-! ## non-vacuity -/

/-- a cycle of retargets A→B, B→A followed by a read is a history the model
completes (the hypotheses of `refcache_refines` are met) -/
example : (match runRC (({ nSyms := 2 } : RC).setReferent 0 (some 0) false)
    [.retarget 0 (some 1) false, .retarget 1 (some 0) true, .getReferent 0, .getReferences 0 1, .apply]
    with | some (.ok _) => true | _ => false) = true := by
  decide +kernel

example : RetInv ((({} : RetCache).add ⟨.block 0, .proxy 0, some ⟨3, false, true⟩⟩).discard
    ⟨.block 0, .proxy 0, some ⟨3, false, true⟩⟩) :=
  retInv_discard (retInv_add retInv_empty _) _

end GtirbVerif.Props.C20
