import GtirbVerif.Lemmas.AsmFinalize
import GtirbVerif.Lemmas.AsmFresh
import GtirbVerif.Spec.AsmCheck

/-!
# C12 — assembler output: bytes, blocks and CFG match the assembly text

* **model** — `Asm.assemble` (Model/Asm/Streamer.lean) follows `_SymbolCreator`, `_Streamer` and
  `Assembler.finalize` event by event.  Its input is the event stream LLVM's parser delivers
  (recorded from the real run); its output is compared with the real `Assembler.Result` on every
  run (correspondence).  LLVM's parser and encoder are not modelled: the bytes are judged by
  capstone against the tokens, and the result's shape by `AsmCheck.check` (Spec/AsmCheck.lean),
  which is stated over the text and evaluated on the real result.
* **theorems** (for every target, every chunk list, every event stream):
  - `assemble_tiled`: in every section of a successful result the blocks sit end to end from
    offset 0 to the end of the data, and no block but the last is empty;
  - `transfer_ends_block`: an instruction that is a return, call or branch closes its block — the
    step ends with `_split_block`, so the next byte goes to a fresh, empty block that starts where
    the data ends;
  - `ret_edges`, `jump_edges`, `fallthrough_edges`: the edges added are exactly the ones the kind
    demands — a Return edge to a proxy allocated by this step and no fallthrough; one Branch/Call
    edge (conditional iff jcc, direct iff not indirect, to a proxy allocated by this step when
    indirect), followed by a Fallthrough edge to the fresh block exactly for calls and
    conditional jumps;
  - `label_block`: a label's block starts at the current end of the data, with a fallthrough edge
    from the current block;
  - `streaming_fresh`, `ret_proxy_fresh`, `indirect_proxy_fresh`: in every state the streamer
    reaches, every proxy is numbered below the allocation counter and every edge to a proxy and
    every undefined symbol leads to an allocated proxy; hence the proxy a return or an indirect
    transfer gets is, at that moment, the target of no edge and the referent of no symbol - it is
    fresh.
-/
namespace GtirbVerif.Props.C12
open GtirbVerif.Asm

/-- **tiling**: every section of a result is tiled and has an empty block at most at the end -/
theorem assemble_tiled {t : Target} {chunks : List (List Event)} {st : AState} (h : assemble t chunks = .ok st) :
    ∀ s ∈ st.sects, tiles 0 s.blocks = some s.dataLen ∧ ∀ b ∈ s.blocks.dropLast, b.size ≠ 0 := by
  unfold assemble at h
  split at h
  · cases h
  · rename_i st1 h1
    have hi : Inv st1 := Inv.assembleChunks Inv.empty h1
    intro s hs
    have hf := finalize_final hi h s hs
    exact ⟨hf.1, nonlast_nonempty hf.1 hf.2⟩

/-- while streaming, too: the blocks of every section tile its data after every event -/
theorem run_tiled {t : Target} {evs : List Event} {st st' : AState} (hi : Inv st) (h : run t st evs = .ok st') :
    ∀ s ∈ st'.sects, s.blocks ≠ [] ∧ tiles 0 s.blocks = some s.dataLen :=
  fun s hs => Inv.run hi h s hs

/-- the fresh block `_split_block` opens -/
def freshBlock (st : AState) (s : ASect) : ABlock := { id := 2 * st.next, off := s.curBlock.off + s.curBlock.size, size := 0 }

theorem split_blocks (st : AState) (s : ASect) (f : Bool) : (splitBlock st s f).2.blocks = s.blocks ++ [freshBlock st s] := rfl

theorem split_cfg (st : AState) (s : ASect) (f : Bool) :
    (splitBlock st s f).1.cfg = if f then st.cfg ++ [{ src := s.curBlock.id, dst := .block (2 * st.next), type := .fall, cond := false, direct := true }] else st.cfg := rfl

/-- **a control transfer ends its block**: the step's last action is `_split_block` on the section
that just received the instruction, so the block holding the instruction is closed and the next
byte lands in a fresh empty block at the end of the data -/
theorem transfer_ends_block {t : Target} {st st' : AState} {s : ASect} {size : Nat} {kind : IKind} {ind : Bool}
    {fx : List Fixup} (hk : kind ≠ .other) (h : stepInsn t st s size kind ind fx = .ok st') :
    ∃ st1, st' = (splitBlock st1 (insnSect s size fx) (kind == .call || kind == .jcc)).1.setSect
                  (splitBlock st1 (insnSect s size fx) (kind == .call || kind == .jcc)).2 := by
  unfold stepInsn at h
  split at h
  · cases h
  · split at h
    · exact absurd rfl hk
    · injection h with h
      exact ⟨_, h.symm⟩
    · simp only [] at h
      split at h
      · cases h
      · injection h with h
        exact ⟨_, h.symm⟩

/-- **return**: exactly one edge is added, a Return edge from the instruction's block to the proxy
this step allocates; no fallthrough -/
theorem ret_edges {t : Target} {st st' : AState} {s : ASect} {size : Nat} {ind : Bool} {fx : List Fixup}
    (h : stepInsn t st s size .ret ind fx = .ok st') :
    ∃ st0, resolveFixups t st fx = .ok st0 ∧
      st'.cfg = st0.cfg ++ [retEdge (insnSect s size fx).curBlock.id st0.next] ∧
      st'.proxies = st0.proxies ++ [st0.next] := by
  unfold stepInsn at h
  split at h
  · cases h
  · rename_i st0 h0
    injection h with h
    refine ⟨st0, h0, ?_, ?_⟩ <;> rw [← h] <;> simp [AState.setSect, splitBlock, markCode]

/-- **jump, conditional jump, call**: one Branch/Call edge to the resolved target, conditional
exactly for jcc, and then a Fallthrough edge to the fresh block exactly for call and jcc -/
theorem jump_edges {t : Target} {st st' : AState} {s : ASect} {size : Nat} {kind : IKind} {ind : Bool} {fx : List Fixup}
    (hk : kind = .jmp ∨ kind = .jcc ∨ kind = .call) (h : stepInsn t st s size kind ind fx = .ok st') :
    ∃ st0 st2 tgt direct, resolveFixups t st fx = .ok st0 ∧
      insnTarget t (markCode st0 (insnSect s size fx).curBlock.id) ind fx = .ok (st2, tgt, direct) ∧
      st'.cfg = st2.cfg ++ [xferEdge (insnSect s size fx).curBlock.id tgt kind direct] ++
        (if kind == .call || kind == .jcc then
          [{ src := (insnSect s size fx).curBlock.id, dst := .block (2 * st2.next), type := .fall, cond := false, direct := true }] else []) := by
  unfold stepInsn at h
  split at h
  · cases h
  · rename_i st0 h0
    split at h
    · rcases hk with hk | hk | hk <;> cases hk
    · rcases hk with hk | hk | hk <;> cases hk
    · simp only [] at h
      split at h
      · cases h
      · rename_i st2 tgt direct ht
        injection h with h
        refine ⟨st0, st2, tgt, direct, h0, ht, ?_⟩
        rw [← h]
        simp only [AState.setSect, splitBlock]
        split <;> simp

/-- an indirect transfer goes to a proxy this step allocates and is flagged indirect; a direct one
is flagged direct and goes where the symbol resolves -/
theorem target_kinds {t : Target} {st st2 : AState} {ind : Bool} {fx : List Fixup} {tgt : Node} {direct : Bool}
    (h : insnTarget t st ind fx = .ok (st2, tgt, direct)) :
    (ind = true → tgt = .proxy st.next ∧ direct = false ∧ st2.proxies = st.proxies ++ [st.next]) ∧
    (ind = false → direct = true ∧ ∃ f, fx = [f] ∧ f.addend = 0 ∧ resolveTarget t st f.sym = .ok (st2, tgt)) := by
  unfold insnTarget at h
  split at h
  · rename_i hi
    injection h with h
    injection h with h1 h2
    injection h2 with h2 h3
    refine ⟨fun _ => ⟨h2.symm, h3.symm, by rw [← h1]⟩, fun hf => by rw [hi] at hf; cases hf⟩
  · rename_i hi
    refine ⟨fun ht => absurd ht hi, fun _ => ?_⟩
    split at h
    · rename_i f
      split at h
      · cases h
      · rename_i ha
        cases hr : resolveTarget t st f.sym with
        | error e => rw [hr] at h; cases h
        | ok r =>
          obtain ⟨a, n⟩ := r
          rw [hr] at h
          simp only [Except.map] at h
          injection h with h
          injection h with h1 h2
          injection h2 with h2 h3
          refine ⟨h3.symm, f, rfl, by simpa using ha, ?_⟩
          rw [hr, h1, h2]
    · cases h

/-- **labels**: the label's block is appended at the current end of the data, with a fallthrough
edge from the current block -/
theorem label_block {st st' : AState} {s : ASect} {name : String} (h : stepLabel st s name = .ok st') :
    ∃ lb, st.locals.find? (·.1 == name) = some (name, lb) ∧
      st'.cfg = st.cfg ++ [{ src := s.curBlock.id, dst := .block lb, type := .fall, cond := false, direct := true }] ∧
      st' = ({ st with cfg := st'.cfg } : AState).setSect
        { s with blocks := s.blocks ++ [{ id := lb, off := s.curBlock.off + s.curBlock.size, size := 0 }] } := by
  unfold stepLabel at h
  split at h
  · cases h
  · rename_i n lb hf
    injection h with h
    have hn : n = name := by
      have := List.find?_some hf
      exact beq_iff_eq.mp this
    refine ⟨lb, by rw [hf, hn], ?_, ?_⟩
    · rw [← h]; simp [AState.setSect]
    · rw [← h]; simp [AState.setSect]

/-! ### fresh proxies -/

theorem precreate_fresh {t : Target} {evs : List Event} {st st' : AState} (h : Fresh st) (hr : precreate t st evs = .ok st') :
    Fresh st' := by
  induction evs generalizing st with
  | nil => simp [precreate] at hr; rw [← hr]; exact h
  | cons e es ih =>
    cases e <;> simp only [precreate] at hr
    case label n =>
      split at hr
      · cases hr
      · refine ih (st := { st with locals := st.locals ++ [(n, 2 * st.locals.length + 1)] }) ?_ hr
        exact h.congr rfl rfl rfl rfl
    all_goals exact ih h hr

/-- every state the streamer reaches, from the empty one, over any chunk list, keeps the proxy
bookkeeping consistent -/
theorem streaming_fresh {t : Target} {chunks : List (List Event)} {st st' : AState} (h : Fresh st)
    (hr : assembleChunks t st chunks = .ok st') : Fresh st' := by
  induction chunks generalizing st with
  | nil => simp [assembleChunks] at hr; rw [← hr]; exact h
  | cons c cs ih =>
    simp only [assembleChunks] at hr
    split at hr
    · cases hr
    · rename_i st1 h1
      split at hr
      · cases hr
      · rename_i st2 h2
        exact ih (run_fresh (precreate_fresh h h1) h2) hr

/-- **a return goes to a fresh proxy**: the proxy of the Return edge was not allocated before, no
earlier edge leads to it and no undefined symbol refers to it -/
theorem ret_proxy_fresh {t : Target} {st st' : AState} {s : ASect} {size : Nat} {ind : Bool} {fx : List Fixup}
    (hf : Fresh st) (h : stepInsn t st s size .ret ind fx = .ok st') :
    ∃ st0, resolveFixups t st fx = .ok st0 ∧
      st'.cfg = st0.cfg ++ [retEdge (insnSect s size fx).curBlock.id st0.next] ∧
      st0.next ∉ st0.proxies ∧ (∀ e ∈ st0.cfg, e.dst ≠ .proxy st0.next) ∧ (∀ x ∈ st0.undefs, x.2 ≠ st0.next) := by
  obtain ⟨st0, h0, hc, _⟩ := ret_edges h
  have f0 := (resolveFixups_fresh hf h0).next_unused
  exact ⟨st0, h0, hc, f0.1, f0.2.1, f0.2.2⟩

/-- **an indirect transfer goes to a fresh proxy and is flagged indirect** -/
theorem indirect_proxy_fresh {t : Target} {st st2 : AState} {fx : List Fixup} {tgt : Node} {direct : Bool}
    (hf : Fresh st) (h : insnTarget t st true fx = .ok (st2, tgt, direct)) :
    tgt = .proxy st.next ∧ direct = false ∧ st.next ∉ st.proxies ∧ (∀ e ∈ st.cfg, e.dst ≠ .proxy st.next) ∧
      (∀ x ∈ st.undefs, x.2 ≠ st.next) := by
  have a := (target_kinds h).1 rfl
  have b := hf.next_unused
  exact ⟨a.1, a.2.1, b.1, b.2.1, b.2.2⟩

/-! ### the statements are not vacuous -/

def sampleTarget : Target := { moduleSyms := [("modfn", true), ("moddata", false)], allowUndef := true, trivUnreach := false }

/-- `nop; foo: call bar; .byte 1; jne foo; ret` followed by a string in `.data` -/
def sampleChunk : List Event :=
  [.section ".text" true, .insn 1 .other false [], .label "foo",
   .insn 5 .call false [{ off := 1, size := 4, sym := "bar", addend := 0 }], .rawBytes 1,
   .insn 2 .jcc false [{ off := 1, size := 1, sym := "foo", addend := 0 }], .insn 1 .ret false [],
   .section ".data" false, .label "x", .strBytes 2 false, .strBytes 1 true]

example : (assemble sampleTarget [sampleChunk]).toOption.map (fun st => st.sects.map (fun s => s.blocks.map (fun b => (b.off, b.size)))) =
    some [[(0, 1), (1, 5), (6, 3), (9, 1)], [(0, 3)]] := by decide

example : (assemble sampleTarget [sampleChunk]).toOption.map (fun st => st.cfg.length) = some 6 := by decide

end GtirbVerif.Props.C12
