import GtirbVerif.Lemmas.CfiEval
import GtirbVerif.Gen.DwarfTables
import GtirbVerif.Gen.AbiBasic
import GtirbVerif.Spec.Platform

/-!
# C15 — CFI evaluation implements the DWARF rules and fails cleanly

The model (`Model/Dwarf/CfiEval.lean`, Python-dict semantics) refines the
specification (`Spec/CfiSpec.lean`, total rule tables written from DWARF v4
§6.4) for every directive, every state and every operand list.
-/
namespace GtirbVerif.Props.C15
open GtirbVerif GtirbVerif.Dwarf GtirbVerif.CfiEval GtirbVerif.CfiSpec

/-- **Refinement** for every directive kind, state, operand list and symbol slot. -/
theorem refines (et ct : Table) (abi : AbiParams) (s : Proc) (k : Kind)
    (args : List Int) (sym : SymRef) :
    (stepIn et ct abi s k args sym).map (Option.map absProc) =
      specIn et ct abi (absProc s) k args sym :=
  stepIn_refines et ct abi s k args sym

/-- the dictionary operations behave like a total table with default `none` -/
theorem dict_set (k k' : Int) (v : Rule) (l : Regs) :
    getKey k' (setKey k v l) = if k' = k then some v else getKey k' l := getKey_setKey k k' v l

theorem dict_erase (k k' : Int) (l : Regs) :
    getKey k' (eraseKey k l) = if k' = k then none else getKey k' l := getKey_eraseKey k k' l

/-- **restore-to-initial**: after `.cfi_restore r` column `r` has exactly the
rule (or absence of rule) of the initial row; every other column is untouched;
the directive never fails on a well-formed operand list. -/
theorem restore_to_initial (et ct : Table) (abi : AbiParams) (s : Proc) (r : Int) (sym : SymRef) :
    ∃ s', stepIn et ct abi s .restore [r] sym = .ok (some s') ∧
      getKey r s'.current.regs = getKey r s.initial.regs ∧
      (∀ k, k ≠ r → getKey k s'.current.regs = getKey k s.current.regs) ∧
      s'.current.cfa = s.current.cfa ∧ s'.initial = s.initial ∧ s'.stack = s.stack := by
  simp only [stepIn, one, bind, Except.bind]
  cases h : getKey r s.initial.regs with
  | none =>
    refine ⟨_, rfl, ?_, ?_, rfl, rfl, rfl⟩
    · simp [getKey_eraseKey]
    · intro k hk; simp [getKey_eraseKey, hk]
  | some rule =>
    refine ⟨_, rfl, ?_, ?_, rfl, rfl, rfl⟩
    · simp [getKey_setKey]
    · intro k hk; simp [getKey_setKey, hk]

/-- **remember/restore is a stack**: restoring right after remembering gives the
state back; in general restore pops what the matching remember pushed. -/
theorem remember_then_restore (et ct : Table) (abi : AbiParams) (s : Proc) (a a' : List Int)
    (sy sy' : SymRef) :
    ∃ s1, stepIn et ct abi s .rememberState a sy = .ok (some s1) ∧
      stepIn et ct abi s1 .restoreState a' sy' = .ok (some s) := by
  refine ⟨_, rfl, ?_⟩
  simp [stepIn, List.getLast?_append, List.dropLast_append_of_ne_nil]

theorem restore_pops (et ct : Table) (abi : AbiParams) (s : Proc) (top : Row) (init : List Row)
    (h : s.stack = init ++ [top]) (a : List Int) (sy : SymRef) :
    stepIn et ct abi s .restoreState a sy =
      .ok (some { s with current := top, stack := init }) := by
  simp [stepIn, h, List.dropLast_append_of_ne_nil]

theorem restore_state_empty_stack (et ct : Table) (abi : AbiParams) (s : Proc) (h : s.stack = [])
    (a : List Int) (sy : SymRef) :
    stepIn et ct abi s .restoreState a sy = .error .cfiState := by
  simp [stepIn, h]

/-! ### procedure bracketing -/

/-- `.cfi_startproc` outside a procedure creates the fresh state with the ABI's
return column; the state is reset between procedures because `.cfi_endproc`
leaves no state at all. -/
theorem startproc_fresh (et ct : Table) (abi : AbiParams) (rc : Int) (h : abi.retcol = some rc)
    (d : Directive) (hd : d.name = ".cfi_startproc") :
    step et ct abi none d = .ok (some { retcol := rc }, true) ∧
    absProc { retcol := rc } = freshProc rc := by
  constructor
  · simp [step, kindOf, hd, h]
  · rfl

theorem endproc_resets (et ct : Table) (abi : AbiParams) (s : Proc) (d : Directive)
    (hd : d.name = ".cfi_endproc") : step et ct abi (some s) d = .ok (none, false) := by
  simp [step, kindOf, hd, stepIn, bind, Except.bind]

theorem nested_startproc (et ct : Table) (abi : AbiParams) (s : Proc) (d : Directive)
    (hd : d.name = ".cfi_startproc") : step et ct abi (some s) d = .error .cfiState := by
  simp [step, kindOf, hd]

theorem outside_procedure (et ct : Table) (abi : AbiParams) (d : Directive)
    (hd : d.name ≠ ".cfi_startproc") : step et ct abi none d = .error .cfiState := by
  unfold step
  cases hk : kindOf d.name with
  | none => rfl
  | some k =>
    cases k <;> first | rfl | (exfalso; revert hk; unfold kindOf; split <;> simp_all)

/-- offset changes when the CFA is not register+offset are CFIStateError -/
theorem cfa_offset_needs_regoff (et ct : Table) (abi : AbiParams) (s : Proc) (k : Kind)
    (hk : k = .defCfaRegister ∨ k = .defCfaOffset ∨ k = .adjustCfaOffset) (v : Int) (sym : SymRef)
    (h : ∀ r o, s.current.cfa ≠ some (.regOff r o)) :
    stepIn et ct abi s k [v] sym = .error .cfiState := by
  cases hc : s.current.cfa with
  | none => rcases hk with rfl | rfl | rfl <;> simp [stepIn, one, bind, Except.bind, hc]
  | some c =>
    cases c with
    | regOff r o => exact absurd hc (h r o)
    | expr e => rcases hk with rfl | rfl | rfl <;> simp [stepIn, one, bind, Except.bind, hc]

/-- a personality/LSDA directive whose symbol slot holds a UUID (missing symbol)
and whose encoding is not DW_EH_PE_omit is a ValueError -/
theorem missing_symbol (et ct : Table) (abi : AbiParams) (s : Proc) (k : Kind)
    (hk : k = .personality ∨ k = .lsda) (enc : Int) (henc : enc ≠ 255) (sym : SymRef)
    (hs : ∀ n, sym ≠ .sym n) : stepIn et ct abi s k [enc] sym = .error .valueError := by
  rcases hk with rfl | rfl <;>
  · simp only [stepIn, encodedPointer, one, bind, Except.bind, henc, ↓reduceIte]
    cases sym with
    | sym n => exact absurd rfl (hs n)
    | nullUuid => rfl
    | otherUuid => rfl

private theorem one_err {a e} (h : one a = .error e) : e = .valueError := by
  unfold one at h; split at h <;> simp_all
private theorem two_err {a e} (h : two a = .error e) : e = .valueError := by
  unfold two at h; split at h <;> simp_all
private theorem ep_err {a s e} (h : encodedPointer a s = .error e) : e = .valueError := by
  unfold encodedPointer at h
  cases ho : one a with
  | error e' => simp [ho, bind, Except.bind] at h; subst h; exact one_err ho
  | ok v =>
    simp only [ho, bind, Except.bind] at h
    split at h
    · cases h
    · cases s <;> simp [resolveSym] at h <;> exact h.symm

private theorem stepIn_errors_typed (et ct : Table) (abi : AbiParams) (s : Proc) (k : Kind)
    (args : List Int) (sym : SymRef) (hne : k ≠ .escape) (e : EvalErr)
    (h : stepIn et ct abi s k args sym = .error e) : e = .cfiState ∨ e = .valueError := by
  cases k <;> simp only [stepIn, bind, Except.bind] at h
  case escape => exact absurd rfl hne
  case startproc => cases h; exact Or.inl rfl
  case endproc => cases h
  case personality =>
    cases hp : encodedPointer args sym with
    | error e' => simp [hp] at h; subst h; exact Or.inr (ep_err hp)
    | ok v => simp [hp] at h
  case lsda =>
    cases hp : encodedPointer args sym with
    | error e' => simp [hp] at h; subst h; exact Or.inr (ep_err hp)
    | ok v => simp [hp] at h
  case returnColumn =>
    cases hp : one args with
    | error e' => simp [hp] at h; subst h; exact Or.inr (one_err hp)
    | ok v => simp [hp] at h
  case defCfa =>
    cases hp : two args with
    | error e' => simp [hp] at h; subst h; exact Or.inr (two_err hp)
    | ok v => simp [hp] at h
  case defCfaRegister =>
    cases hp : one args with
    | error e' => simp [hp] at h; subst h; exact Or.inr (one_err hp)
    | ok v =>
      simp only [hp] at h
      cases hc : s.current.cfa with
      | none => simp [hc] at h; exact Or.inl h.symm
      | some c => cases c <;> simp [hc] at h; exact Or.inl h.symm
  case defCfaOffset =>
    cases hp : one args with
    | error e' => simp [hp] at h; subst h; exact Or.inr (one_err hp)
    | ok v =>
      simp only [hp] at h
      cases hc : s.current.cfa with
      | none => simp [hc] at h; exact Or.inl h.symm
      | some c => cases c <;> simp [hc] at h; exact Or.inl h.symm
  case adjustCfaOffset =>
    cases hp : one args with
    | error e' => simp [hp] at h; subst h; exact Or.inr (one_err hp)
    | ok v =>
      simp only [hp] at h
      cases hc : s.current.cfa with
      | none => simp [hc] at h; exact Or.inl h.symm
      | some c => cases c <;> simp [hc] at h; exact Or.inl h.symm
  case undefined =>
    cases hp : one args with
    | error e' => simp [hp] at h; subst h; exact Or.inr (one_err hp)
    | ok v => simp [hp] at h
  case sameValue =>
    cases hp : one args with
    | error e' => simp [hp] at h; subst h; exact Or.inr (one_err hp)
    | ok v => simp [hp] at h
  case register =>
    cases hp : two args with
    | error e' => simp [hp] at h; subst h; exact Or.inr (two_err hp)
    | ok v => simp [hp] at h
  case restore =>
    cases hp : one args with
    | error e' => simp [hp] at h; subst h; exact Or.inr (one_err hp)
    | ok v =>
      simp only [hp] at h
      cases hg : getKey v s.initial.regs <;> simp [hg] at h
  case valOffset =>
    cases hp : two args with
    | error e' => simp [hp] at h; subst h; exact Or.inr (two_err hp)
    | ok v => simp [hp] at h
  case offset =>
    cases hp : two args with
    | error e' => simp [hp] at h; subst h; exact Or.inr (two_err hp)
    | ok v => simp [hp] at h
  case relOffset =>
    cases hp : two args with
    | error e' => simp [hp] at h; subst h; exact Or.inr (two_err hp)
    | ok v =>
      simp only [hp] at h
      cases hg : getKey v.1 s.current.regs with
      | none => simp [hg] at h; exact Or.inl h.symm
      | some rule => cases rule <;> simp [hg] at h <;> exact Or.inl h.symm
  case rememberState => cases h
  case restoreState =>
    cases hg : s.stack.getLast? with
    | none => simp [hg] at h; exact Or.inl h.symm
    | some t => simp [hg] at h

/-- **errors are typed**: over the supported directive set (escapes aside), on
an ABI with a DWARF return column, the only errors are CFIStateError and
ValueError — for every state, operand list and symbol slot. -/
theorem errors_typed (et ct : Table) (abi : AbiParams) (st : Option Proc) (d : Directive)
    (k : Kind) (hk : kindOf d.name = some k) (hne : k ≠ .escape) (hrc : abi.retcol ≠ none)
    (e : EvalErr) (h : step et ct abi st d = .error e) : e = .cfiState ∨ e = .valueError := by
  unfold step at h
  rw [hk] at h
  cases st with
  | none =>
    by_cases hs : k = .startproc
    · subst hs
      cases hr : abi.retcol with
      | none => exact absurd hr hrc
      | some rc => simp [hr] at h
    · cases k <;> first | exact absurd rfl hs | (cases h; exact Or.inl rfl)
  | some s =>
    by_cases hs : k = .startproc
    · subst hs; cases h; exact Or.inl rfl
    · have h' : (stepIn et ct abi s k d.args d.sym >>= fun r => Except.ok (r, false)) = .error e := by
        cases k <;> first | exact absurd rfl hs | exact h
      cases hr : stepIn et ct abi s k d.args d.sym with
      | error e' =>
        simp [hr, bind, Except.bind] at h'
        subst h'
        exact stepIn_errors_typed et ct abi s k d.args d.sym hne e' hr
      | ok v => simp [hr, bind, Except.bind] at h'

/-! ### rows -/

/-- the evaluation yields one row per location carrying directives, in the
order of the (sorted) group list, up to the first error -/
theorem rows_prefix (et ct : Table) (abi : AbiParams) :
    ∀ (st : Option Proc) (gs : List (Loc × List Directive)),
      let r := evalGroups et ct abi st gs
      r.1.map (·.1) = (gs.map (·.1)).take r.1.length ∧ (r.2 = none → r.1.length = gs.length)
  | _, [] => by simp [evalGroups]
  | st, (loc, ds) :: rest => by
    simp only [evalGroups]
    cases h : stepGroup et ct abi st false ds with
    | error e => simp
    | ok r =>
      have ih := rows_prefix et ct abi (finishGroup r) rest
      simp only [List.map_cons, List.length_cons, List.take_succ_cons]
      exact ⟨by rw [ih.1], fun hn => by rw [ih.2 hn]⟩

/-- the state of each row is the fold of all earlier directives: unfolding
equation of the evaluation -/
theorem rows_state (et ct : Table) (abi : AbiParams) (st : Option Proc) (loc : Loc)
    (ds : List Directive) (rest : List (Loc × List Directive)) (r : Option Proc × Bool)
    (h : stepGroup et ct abi st false ds = .ok r) :
    evalGroups et ct abi st ((loc, ds) :: rest) =
      ((loc, finishGroup r) :: (evalGroups et ct abi (finishGroup r) rest).1,
       (evalGroups et ct abi (finishGroup r) rest).2) := by
  simp [evalGroups, h]

/-- the prologue rule: the initial row is the row in effect after the group
that contains `.cfi_startproc`, and is not touched by any other group -/
theorem initial_snapshot (s : Proc) (started : Bool) :
    finishGroup (some s, started) =
      some (if started then { s with initial := s.current } else s) := by
  cases started <;> rfl

/-- address order: blocks are visited in a stable address-sorted order and the
locations of one block in offset order -/
theorem blocks_sorted (blocks : List BlockIn) :
    (sortBy (·.address) blocks).Pairwise (fun a b => a.address ≤ b.address) ∧
    (sortBy (·.address) blocks).Perm blocks :=
  ⟨sortBy_sorted _ _, sortBy_perm _ _⟩

theorem offsets_sorted (m : List (Nat × List Directive)) :
    (sortBy (·.1) m).Pairwise (fun a b => a.1 ≤ b.1) ∧ (sortBy (·.1) m).Perm m :=
  ⟨sortBy_sorted _ _, sortBy_perm _ _⟩

/-- the ABI parameters the evaluator uses (regenerated from `abi._ABIS`) are
the platform's: byte order and pointer size of every ABI, and the psABI return
column where one is fixed -/
theorem abi_matches_platform :
    Gen.abiBasic.all (fun e =>
      Std.platform.lookup e.2.1 == some (e.2.2.2.bo, e.2.2.2.ptr) &&
      (match Std.psabiReturnColumn.find? (fun p => p.1 == e.2.1 && p.2.1 == e.2.2.1) with
       | some p => e.2.2.2.retcol == some (p.2.2 : Int)
       | none => true)) = true := by decide +kernel

/-! ### non-vacuity -/

example : (evaluate Gen.exprTable Gen.cfiTable { retcol := some 16, bo := .little, ptr := 8 }
    [{ idx := 0, address := 16, dirs := some [(0, [⟨".cfi_startproc", [], .nullUuid⟩,
        ⟨".cfi_def_cfa", [7, 8], .nullUuid⟩]), (4, [⟨".cfi_restore", [3], .nullUuid⟩,
        ⟨".cfi_endproc", [], .nullUuid⟩])] }]).2 = none := by decide +kernel

end GtirbVerif.Props.C15
