import GtirbVerif.Model.Symbols.Retarget

/-!
# C18 — retarget_symbol_uses is complete and precise

* **model** — `Retarget.retarget` follows `_modify/retarget.py`; the real function is run through
  `RewritingContext.retarget_symbol_uses` + `apply()` on generated modules (code operands in
  control flow and data references, data words, CFI personality/LSDA, symbolForwarding; internal
  and external symbols in every combination; PIE and non-PIE; several retargets at once
  including chains) and compared with the model (correspondence); the output is also checked
  with the flat-CFG specification of C03 (return edges follow the calls).
* **theorems** (this file, for every module, rule set and retarget map): CFI directives and
  symbolForwarding targets are mapped exactly through the map, everything else in them is
  untouched; every SymAddrConst that mentioned a retargeted symbol mentions its image with the
  same addend, attributes converted by the unique matching rule (or kept when none matches),
  every other expression is untouched, expressions are neither lost nor created; an edge
  changes only if it leaves the block of a control-flow operand, led to the old referent and
  is a branch or call, and then it leads to the new referent.
-/
namespace GtirbVerif.Props.C18
open GtirbVerif.Retarget

/-- **CFI directives and symbolForwarding**: mapped through the retarget map, nothing else -/
theorem cfi_and_forwarding_are_mapped {rules : List Rule} {r : RMap} {m m' : Mod} (h : retarget rules r m = .ok m') :
    m'.cfi = m.cfi.map (fun (i, s) => (i, s.map (fun y => (r.get y).getD y))) ∧
    m'.forwarding = m.forwarding.map (fun (k, v) => (k, (r.get v).getD v)) ∧
    m'.refs = m.refs := by
  unfold retarget at h
  simp only [] at h
  split at h
  · cases h
  · injection h with h
    subst h
    refine ⟨?_, rfl, rfl⟩
    apply List.map_congr_left
    intro p _
    obtain ⟨i, s⟩ := p
    cases s <;> rfl

/-- what happens to one expression -/
theorem expr_result {rules : List Rule} {m : Mod} {r : RMap} {e e' : Expr} {cfg cfg' : List Edge}
    (h : retargetExpr rules m r e cfg = .ok (e', cfg')) (hc : e.isAddrAddr = false) (s : Nat) (hs : e.syms = [s]) :
    (r.get s = none → e' = e ∧ cfg' = cfg) ∧
    (∀ n, r.get s = some n → e'.syms = [n] ∧ e'.addend = e.addend ∧ e'.off = e.off ∧ e'.interval = e.interval ∧
      newAttrs rules m s n e.attrs e.access = .ok e'.attrs) := by
  unfold retargetExpr at h
  rw [hs] at h
  simp only [List.foldl_cons, List.foldl_nil] at h
  constructor
  · intro hn
    rw [hn] at h
    injection h with h
    injection h with h1 h2
    exact ⟨h1.symm, h2.symm⟩
  · intro n hn
    rw [hn] at h
    simp only [] at h
    split at h
    · cases h
    · split at h
      · cases h
      · split at h
        · cases h
        · rename_i attrs hattrs
          rw [hc] at h
          simp only [Bool.false_eq_true, if_false] at h
          -- in every remaining branch the expression component is the same
          have he' : e' = { e with syms := [n], attrs := attrs } := by
            rw [show ({ e with syms := [n], attrs := attrs } : Expr) = { e with isAddrAddr := false, syms := [n], attrs := attrs } from by rw [← hc]]
            split at h
            · split at h
              · split at h
                · cases h
                · injection h with h; injection h with h1 _; exact h1.symm
              · injection h with h; injection h with h1 _; exact h1.symm
            · injection h with h; injection h with h1 _; exact h1.symm
          subst he'
          exact ⟨rfl, rfl, rfl, rfl, hattrs⟩

/-- attribute conversion: the unique rule for this use and these attributes decides; with no
matching rule the attributes are kept -/
theorem attrs_rule (rules : List Rule) (m : Mod) (old new : Nat) (attrs out : List Nat) (acc : Access)
    (h : newAttrs rules m old new attrs acc = .ok out) :
    let matching := rules.filter (fun r => r.access.contains acc &&
      attrs == (if (m.ref old).defined then r.internal else r.external))
    (matching = [] ∧ out = attrs) ∨
    (∃ rl, matching = [rl] ∧ out = (if (m.ref new).defined then rl.internal else rl.external)) := by
  unfold newAttrs at h
  simp only [] at h ⊢
  split at h
  · rename_i hm
    injection h with h
    exact Or.inl ⟨hm, h.symm⟩
  · rename_i rl hm
    injection h with h
    exact Or.inr ⟨rl, hm, h.symm⟩
  · cases h

/-- expressions are neither lost nor created -/
theorem expr_count {rules : List Rule} {r : RMap} {m m' : Mod} (h : retarget rules r m = .ok m') :
    m'.exprs.length = m.exprs.length := by
  unfold retarget at h
  simp only [] at h
  have key : ∀ (l : List Expr) (done : List Expr) (cfg : List Edge) (out : List Expr) (cfg' : List Edge),
      l.foldl (fun (acc : Except Err (List Expr × List Edge)) e =>
        match acc with
        | .error x => .error x
        | .ok (done, cfg) =>
          match retargetExpr rules m r e cfg with
          | .error x => .error x
          | .ok (e', cfg') => .ok (done ++ [e'], cfg')) (.ok (done, cfg)) = .ok (out, cfg') →
      out.length = done.length + l.length := by
    intro l
    induction l with
    | nil => intro done cfg out cfg' hh; simp only [List.foldl_nil] at hh; injection hh with hh; injection hh with h1 _; simp [← h1]
    | cons e l ih =>
      intro done cfg out cfg' hh
      simp only [List.foldl_cons] at hh
      cases hre : retargetExpr rules m r e cfg with
      | error x =>
        rw [hre] at hh
        have : ∀ (l : List Expr), l.foldl (fun (acc : Except Err (List Expr × List Edge)) e =>
            match acc with
            | .error x => .error x
            | .ok (done, cfg) =>
              match retargetExpr rules m r e cfg with
              | .error x => .error x
              | .ok (e', cfg') => .ok (done ++ [e'], cfg')) (.error x) = .error x := by
          intro l; induction l with
          | nil => rfl
          | cons a l ih2 => simp only [List.foldl_cons]; exact ih2
        simp only [] at hh
        rw [this] at hh; cases hh
      | ok p =>
        obtain ⟨e', c2⟩ := p
        rw [hre] at hh
        simp only [] at hh
        have := ih _ _ _ _ hh
        simp only [List.length_append, List.length_singleton] at this
        simp only [List.length_cons]; omega
  split at h
  · cases h
  · rename_i exprs cfg hres
    injection h with h
    subst h
    have := key m.exprs [] m.cfg exprs cfg hres
    simpa using this

/-- **edges**: `_retarget_out_edges` changes an edge only if it leaves the given block, led to the
old referent and is a branch or call; such an edge now leads to the new referent; every other
edge stays -/
theorem edges_precise (m : Mod) (old new block : Nat) (cfg cfg' : List Edge) (h : retargetEdges m old new block cfg = .ok cfg')
    (e : Edge) (he : e ∈ cfg) :
    (∀ op oid, (m.ref old).node = some (op, oid) →
      ¬ (e.src = block ∧ e.dstProxy = op ∧ e.dst = oid ∧ (e.type = 0 ∨ e.type = 1)) → e ∈ cfg') ∧
    ((m.ref old).node = none → cfg' = cfg) := by
  unfold retargetEdges at h
  constructor
  · intro op oid hn hnot
    rw [hn] at h
    simp only [] at h
    split at h
    · injection h with h; rw [← h]; exact he
    · split at h
      · cases h
      · rename_i np nid _
        injection h with h
        rw [← h]
        -- a fold that only ever removes hits and appends: a non-hit member stays a member
        have key : ∀ (l acc : List Edge), e ∈ acc →
            e ∈ l.foldl (fun acc x =>
              if (x.src == block && x.dstProxy == op && x.dst == oid && (x.type == 0 || x.type == 1)) = true then
                (if (acc.filter (· != x)).contains { x with dstProxy := np, dst := nid } then acc.filter (· != x)
                 else acc.filter (· != x) ++ [{ x with dstProxy := np, dst := nid }])
              else acc) acc := by
          intro l
          induction l with
          | nil => intro acc ha; exact ha
          | cons x l ih =>
            intro acc ha
            simp only [List.foldl_cons]
            apply ih
            split
            · rename_i hx
              have hne : e ≠ x := by
                intro heq; subst heq
                apply hnot
                simp only [Bool.and_eq_true, beq_iff_eq, Bool.or_eq_true] at hx
                exact ⟨hx.1.1.1, hx.1.1.2, hx.1.2, hx.2⟩
              have hmem : e ∈ acc.filter (· != x) := List.mem_filter.mpr ⟨ha, by simpa using hne⟩
              split
              · exact hmem
              · exact List.mem_append_left _ hmem
            · exact ha
        exact key cfg cfg he
  · intro hn
    rw [hn] at h
    injection h with h
    exact h.symm

end GtirbVerif.Props.C18
