import GtirbVerif.Lemmas.Inst
import GtirbVerif.Lemmas.Const
import GtirbVerif.Spec.DwarfStd
import GtirbVerif.Gen.DwarfTables

/-!
# C14 — DWARF expression/CFI encodings round-trip and match the standard

Property theorems only (helper lemmas live in `Lemmas/`).  Every theorem
mentioning `Gen.*` is about the tables regenerated from `/repo` on this run.
-/
namespace GtirbVerif.Props.C14
open GtirbVerif GtirbVerif.Dwarf

/-! ## integer codecs, every value -/

theorem uleb_roundtrip (n : Nat) (rest : List Nat) :
    ulebDec (ulebEnc n ++ rest) = some (n, (ulebEnc n).length, rest) :=
  ulebDec_ulebEnc n rest

theorem sleb_roundtrip (i : Int) (rest : List Nat) :
    slebDec (slebEnc i ++ rest) = some (i, (slebEnc i).length, rest) :=
  slebDec_slebEnc i rest

/-- LEB128 as the standard prescribes it: 7 value bits per byte, low group
first, high bit = continuation; a value below `128^k` takes at most `k` bytes -/
theorem uleb_length (n k : Nat) : (ulebEnc n).length ≤ k + 1 ↔ n < 128 ^ (k + 1) :=
  ulebEnc_length_le n k

theorem sleb_length (v : Int) (k : Nat) :
    (slebEnc v).length ≤ k + 1 ↔
      (-(64 * ((128 ^ k : Nat) : Int)) ≤ v ∧ v < 64 * ((128 ^ k : Nat) : Int)) :=
  slebEnc_length_le v k

theorem uint_roundtrip (n : Nat) (bo : ByteOrder) (v : Int) (l rest : List Nat)
    (h : intEnc n false bo v = some l) : intDec n false bo (l ++ rest) = (v, n, rest) :=
  intDec_intEnc_unsigned n bo v l rest h

theorem sint_roundtrip (n : Nat) (hn : n ≠ 0) (bo : ByteOrder) (v : Int) (l rest : List Nat)
    (h : intEnc n true bo v = some l) : intDec n true bo (l ++ rest) = (v, n, rest) :=
  intDec_intEnc_signed n hn bo v l rest h

/-- fixed-width encoding fails exactly outside the representable range:
never a silent truncation -/
theorem int_encode_fails_iff (n : Nat) (s : Bool) (bo : ByteOrder) (v : Int) :
    intEnc n s bo v = none ↔ inIntDomain n s v = false := by
  unfold intEnc; split <;> simp_all

theorem int_encode_width (n : Nat) (s : Bool) (bo : ByteOrder) (v : Int) (l : List Nat)
    (h : intEnc n s bo v = some l) : l.length = n ∧ ∀ b ∈ l, b < 256 :=
  ⟨intEnc_length h, intEnc_lt h⟩

/-! ## the regenerated tables are well formed and are the standard's -/

theorem gen_exprTable_ok : TableOK Gen.exprTable = true := by decide +kernel
theorem gen_exprTable_exprFree : ExprFree Gen.exprTable = true := by decide +kernel
theorem gen_cfiTable_ok : TableOK Gen.cfiTable = true := by decide +kernel

/-- every modelled operation class has the opcode and operand forms of DWARF
v4 Figure 24, and the class of that API name carries that opcode -/
theorem matches_standard_expr :
    Gen.exprTable.all (fun c =>
      Std.dwarf4Expr.contains (c.opcode, c.encs) &&
      Std.opClassOpcode.contains (c.name, c.opcode)) = true := by decide +kernel

theorem matches_standard_cfi :
    Gen.cfiTable.all (fun c =>
      Std.dwarf4Cfi.contains (c.opcode, c.encs) &&
      Std.cfaClassOpcode.contains (c.name, c.opcode)) = true := by decide +kernel

/-- the opcode enumerations of `dwarf2.py` carry the standard's numbers -/
theorem enum_values_standard :
    Gen.exprEnum.all (fun p => Std.opNames.contains p) = true ∧
    Gen.cfiEnum.all (fun p => Std.cfaNames.contains p) = true := by
  constructor <;> decide +kernel

/-- the registration dictionary built by `__init_subclass__` (byte -> class)
is what the model's `lookup` computes from the class table, for all 256 bytes -/
theorem registration_matches_lookup :
    (List.range 256).all (fun b =>
      (lookup Gen.exprTable b).map (·.name) == (Gen.exprRegistered.lookup b) &&
      (lookup Gen.cfiTable b).map (·.name) == (Gen.cfiRegistered.lookup b)) = true := by
  decide +kernel

/-! ## round trips of operations, expressions, instructions -/

/-- **decode ∘ encode = id for every operation object of every modelled class,
every operand value the encoder accepts, both byte orders, every pointer size;
exactly the encoded bytes are consumed.** -/
theorem op_roundtrip (bo : ByteOrder) (ptr : Nat) (o : OpObj) (ho : o.cls ∈ Gen.exprTable)
    (bs rest : List Nat) (h : encodeOp bo ptr o = .ok bs) :
    decodeOp Gen.exprTable bo ptr (bs ++ rest) = .ok (o, bs.length, rest) :=
  decodeOp_encodeOp gen_exprTable_ok gen_exprTable_exprFree bo ptr o ho bs rest h

theorem expr_roundtrip (bo : ByteOrder) (ptr : Nat) (ops : List OpObj)
    (hin : ∀ o ∈ ops, o.cls ∈ Gen.exprTable) (bs rest : List Nat)
    (h : encodeExpr bo ptr ops = .ok bs) :
    decodeExpr Gen.exprTable bo ptr (bs ++ rest) = .ok (ops, bs.length, rest) :=
  decodeExpr_encodeExpr gen_exprTable_ok gen_exprTable_exprFree bo ptr ops hin bs rest h

/-- same for CFI instructions, including nested expression operands -/
theorem inst_roundtrip (bo : ByteOrder) (ptr : Nat) (i : InstObj) (hi : i.cls ∈ Gen.cfiTable)
    (hin : ArgsIn Gen.exprTable i.args) (bs rest : List Nat)
    (h : encodeInst bo ptr i = .ok bs) :
    decodeInst Gen.exprTable Gen.cfiTable bo ptr (bs ++ rest) = .ok (i, bs.length, rest) :=
  decodeInst_encodeInst gen_exprTable_ok gen_exprTable_exprFree gen_cfiTable_ok bo ptr i hi hin
    bs rest h

/-- **`parse_cfi_instructions` inverts concatenation.** -/
theorem parse_inverts_concat (bo : ByteOrder) (ptr : Nat) (is : List InstObj)
    (hin : ∀ i ∈ is, i.cls ∈ Gen.cfiTable ∧ ArgsIn Gen.exprTable i.args) (e : List Nat)
    (h : encodeInsts bo ptr is = .ok e) :
    parseInsts Gen.exprTable Gen.cfiTable bo ptr e = .ok is :=
  parseInsts_encodeInsts gen_exprTable_ok gen_exprTable_exprFree gen_cfiTable_ok bo ptr is hin e h

/-- every encoded byte is a byte -/
theorem op_bytes_lt (bo : ByteOrder) (ptr : Nat) (o : OpObj) (ho : o.cls ∈ Gen.exprTable)
    (bs : List Nat) (h : encodeOp bo ptr o = .ok bs) : ∀ b ∈ bs.tail, b < 256 := by
  unfold encodeOp at h
  simp only [bind, Except.bind] at h
  split at h
  · cases h
  · split at h
    · cases h
    · rename_i r hr
      simp only [Except.ok.injEq] at h; subst h
      exact encOpFields_lt _ _ r hr

/-! ## rejection: out-of-range operands are a ValueError, never truncated -/

/-- if any operand is outside its encoder's range, `encode` raises ValueError -/
theorem op_encode_rejects (bo : ByteOrder) (ptr : Nat) (o : OpObj)
    (h : validateOpArgs (some ptr) o.cls.encs o.args = .error .valueError) :
    encodeOp bo ptr o = .error .valueError := by
  simp [encodeOp, h, bind, Except.bind]

theorem inst_encode_rejects (bo : ByteOrder) (ptr : Nat) (i : InstObj)
    (h : validateInstArgs (some ptr) i.cls.encs i.args = .error .valueError) :
    encodeInst bo ptr i = .error .valueError := by
  simp [encodeInst, h, bind, Except.bind]

/-- the validation predicate of every integer encoder is exactly its range -/
theorem validate_iff (e : Enc) (ptr : Nat) (v : Int) :
    validateInt e (some ptr) v = true ↔
      match e with
      | .uleb => 0 ≤ v
      | .sleb => True
      | .uint n => 0 ≤ v ∧ v < (2 ^ (8 * n) : Int)
      | .sint n => -(2 ^ (8 * n - 1) : Int) ≤ v ∧ v < (2 ^ (8 * n - 1) : Int)
      | .uintptr => 0 ≤ v ∧ v < (2 ^ (8 * ptr) : Int)
      | .addOp b => 0 ≤ v ∧ v < (b : Int)
      | .expr => True := by
  cases e <;> simp [validateInt, inIntDomain]

/-! ## make_const_op -/

/-- the classes `make_const_op` names exist in the regenerated table with the
opcode and operand form the model assumes -/
theorem const_kinds_in_table :
    ConstKind.all.all (fun k =>
      (Gen.exprTable.map (fun c => (c.opcode, c.encs))).contains (k.opcode, [k.enc])) = true := by
  decide +kernel

/-- `make_const_op v` succeeds exactly on `[-2^63, 2^64)` -/
theorem const_domain (v : Int) :
    makeConst v = none ↔ ¬ (-(2 ^ 63 : Int) ≤ v ∧ v < (2 ^ 64 : Int)) :=
  makeConst_none_iff v

/-- the chosen operation's operand range contains `v`: the object is
constructible with operand exactly `v` (hence, by `op_roundtrip`, pushes `v`) -/
theorem const_pushes_value (v : Int) (k : ConstKind) (h : makeConst v = some k) :
    validateInt k.enc none v = true :=
  makeConst_valid v k h

/-- **shortest available encoding** -/
theorem const_minimal (v : Int) (k k' : ConstKind) (h : makeConst v = some k)
    (hv' : validateInt k'.enc none v = true) : k.size v ≤ k'.size v :=
  makeConst_minimal v k k' h hv'

/-! ## the directive form handed to GTIRB re-encodes to the same bytes -/

/-- every class that is not emitted as `.cfi_escape` names a directive whose
gas encoding has this class's opcode and operand forms -/
theorem gas_table_agrees :
    Gen.cfiTable.all (fun c =>
      c.directive == ".cfi_escape" ||
      Std.gasDirect.lookup c.directive == some (c.opcode, c.encs)) = true := by decide +kernel

/-- `.cfi_escape` operands are, by definition, the encoded bytes -/
theorem escape_form_same_bytes (bo : ByteOrder) (ptr : Nat) (i : InstObj) (bs : List Nat)
    (hd : i.cls.directive = ".cfi_escape") (h : encodeInst bo ptr i = .ok bs) :
    instOperands bo ptr i = .ok (bs.map Int.ofNat) := by
  simp [instOperands, hd, h, bind, Except.bind]

/-! ## non-vacuity: concrete objects meeting the hypotheses -/

private def bregCls : ClassDesc :=
  { name := "OpBReg", opcode := 0x70, directive := "", fields := [("register", .addOp 32), ("offset", .sleb)] }
private def c2uCls : ClassDesc :=
  { name := "OpConst2U", opcode := 0x0a, directive := "", fields := [("value", .uint 2)] }
private def defCfaExprCls : ClassDesc :=
  { name := "InstDefCFAExpression", opcode := 0x0f, directive := ".cfi_escape", fields := [("expression", .expr)] }

example : (encodeOp .little 8 { cls := bregCls, args := [7, -8] }).toOption = some [0x77, 0x78] := by
  decide +kernel
example : TableOK [bregCls, c2uCls] = true ∧ ExprFree [bregCls, c2uCls] = true := by
  constructor <;> decide +kernel
example : (Gen.exprTable.map (fun c => (c.opcode, c.encs))).contains (0x70, [.addOp 32, .sleb]) = true := by
  decide +kernel
example : makeConst 300 = some .c2u ∧ makeConst (-129) = some .c2s ∧ makeConst 70000 = some .cu := by
  refine ⟨?_, ?_, ?_⟩ <;> decide +kernel
example : (encodeInst .big 4 { cls := defCfaExprCls, args := [.expr [{ cls := c2uCls, args := [0x0102] }]] }).toOption
    = some [0x0f, 3, 0x0a, 1, 2] := by decide +kernel

end GtirbVerif.Props.C14
