import GtirbVerif.Lemmas.Intervals
import GtirbVerif.Lemmas.FirstAlign
import GtirbVerif.Lemmas.JoinPad

/-!
# C10 — no-op rewrites are the identity; split/join round-trips; alignment

* **model** — `Intervals.split` / `Intervals.join` follow `split_byte_interval` and
  `join_byte_intervals` (grouping of overlapping blocks, the cut loop from the back, padding of
  uninitialized tails and for alignment with nops after code / zeros after data, padding blocks);
  the real functions are run on generated intervals and compared with the model on every run
  (correspondence), the real results are checked against the statement itself (every block keeps
  bytes, address and annotations; groups alone in their interval; alignment holds), an empty
  `apply()` is compared with the identity, alignment is checked after arbitrary rewrites.
* **theorems** (this file, for every interval): `join(split(interval))` restores a fully
  initialized interval exactly — address, size, bytes, blocks and table entries at their
  offsets (as sets) — for every nop encoding; one iteration of the cut loop is undone by
  appending; a cut keeps the bytes and the absolute address of every block it moves; the
  padding arithmetic reaches the boundary with less than one boundary of padding; the padding the
  listing specification (`Listing.layoutPieces`, the oracle for "the only bytes added are whole
  nops or zeros") puts in front of a piece is shorter than the strictest alignment requested at
  the piece's first aligned offset and satisfies *every* request made there (a block's own
  `.align` and a patch's at offset 0), alignments being powers of two.
  About the model of `join_byte_intervals` itself, with alignment demands, uninitialized tails and any
  nop encoding (Lemmas/JoinPad.lean): appending an interval adds exactly the fill of the
  uninitialized tail and the alignment padding in front of the appended bytes - whole nops behind
  code, zeros behind data, shorter than the boundary -, moves the appended blocks and table entries
  by one displacement and puts the block whose alignment is asked for on its boundary; over the
  whole loop the bytes already placed stay where they are, every placed block stays placed, and
  every appended interval sits in the result unchanged at a displacement at which its aligned block
  is aligned.
-/
namespace GtirbVerif.Props.C10
open GtirbVerif.Intervals

/-- **round trip** -/
theorem join_split_restores (iv : Iv) (h : WF iv) (nop : List Nat) (nextId : Nat) :
    ∃ r, join nop (fun _ => none) ((split iv).map (fun s => (s, (none : Option Nat)))) nextId = .ok r ∧ Same r iv :=
  join_split iv h nop nextId

/-- one iteration of the split loop (the last group `g` of the blocks is cut off) is undone by
appending -/
theorem cut_is_undone_by_append (iv : Iv) (front g : List Blk) (hb : iv.blocks = front ++ g)
    (hge : ∀ b ∈ g, beginOf g ≤ b.off) (hf : Full iv) (hc : beginOf g ≤ iv.size) :
    Same (joinPlain (cutOne iv g).1 (cutOne iv g).2) iv :=
  cut_then_join iv front g hb hge hf hc

/-- a block moved into the new interval keeps its bytes and its absolute address -/
theorem cut_keeps_block_bytes_and_address (iv : Iv) (g : List Blk) (b : Blk) (hb : b ∈ g) (hc : beginOf g ≤ b.off) :
    ({ b with off := b.off - beginOf g } : Blk) ∈ (cutOne iv g).2.blocks ∧
    (((cutOne iv g).2.contents.drop (b.off - beginOf g)).take b.size = (iv.contents.drop b.off).take b.size) ∧
    ((cutOne iv g).2.addr.map (· + (b.off - beginOf g)) = iv.addr.map (· + b.off)) := by
  unfold cutOne
  simp only []
  refine ⟨?_, ?_, ?_⟩
  · exact List.mem_map.mpr ⟨b, hb, rfl⟩
  · rw [List.drop_drop]
    congr 2
    omega
  · cases iv.addr with
    | none => rfl
    | some a => simp only [Option.map_some]; congr 1; omega

/-- grouping loses no block: the groups, in order, are the blocks -/
theorem groups_partition_the_blocks (iv : Iv) : (groups iv).flatten = iv.blocks := by
  unfold groups; rw [groupRuns_flatten]; simp

/-- padding arithmetic: the next boundary is reached with less than one boundary of padding -/
theorem padding_reaches_the_boundary (x a : Nat) (ha : 1 < a) :
    alignUp x a % a = 0 ∧ x ≤ alignUp x a ∧ alignUp x a < x + a := by
  unfold alignUp
  have h1 : ¬ a ≤ 1 := by omega
  simp only [h1, if_false]
  have hpos : 0 < a := by omega
  refine ⟨Nat.mul_mod_left _ _, ?_, ?_⟩
  · have := Nat.div_add_mod (x + a - 1) a
    have hm := Nat.mod_lt (x + a - 1) hpos
    rw [Nat.mul_comm] at this
    omega
  · have := Nat.div_mul_le_self (x + a - 1) a
    omega

/-- **alignment in the listing specification**: with the padding of `layoutPieces` in front of a
piece, every alignment requested at the piece's first aligned offset holds (`x` = address of the
piece before padding, `o` that offset), and the padding is shorter than the strictest of them -/
theorem listing_padding_satisfies_every_request_at_the_first_aligned_offset
    (as : List (Nat × Nat)) (o i x : Nat) (hi : 0 < i)
    (h : Listing.firstAlign as = some (o, 2 ^ i)) (hpow : ∀ p ∈ as, ∃ j, p.2 = 2 ^ j) :
    Listing.alignUpN (x + o) (2 ^ i) - (x + o) < 2 ^ i ∧
    ∀ p ∈ as, p.1 = o → (x + (Listing.alignUpN (x + o) (2 ^ i) - (x + o)) + o) % p.2 = 0 := by
  have ha : 1 < 2 ^ i := Nat.one_lt_two_pow (by omega)
  have hal : Listing.alignUpN (x + o) (2 ^ i) % 2 ^ i = 0 ∧ x + o ≤ Listing.alignUpN (x + o) (2 ^ i) ∧
      Listing.alignUpN (x + o) (2 ^ i) < x + o + 2 ^ i := by
    unfold Listing.alignUpN
    have h1 : ¬ 2 ^ i ≤ 1 := by omega
    simp only [h1, if_false]
    have hpos : 0 < 2 ^ i := by omega
    refine ⟨Nat.mul_mod_left _ _, ?_, ?_⟩
    · have := Nat.div_add_mod (x + o + 2 ^ i - 1) (2 ^ i)
      have hm := Nat.mod_lt (x + o + 2 ^ i - 1) hpos
      rw [Nat.mul_comm] at this
      omega
    · have := Nat.div_mul_le_self (x + o + 2 ^ i - 1) (2 ^ i)
      omega
  obtain ⟨hmod, hge, hlt⟩ := hal
  refine ⟨by omega, ?_⟩
  intro p hp hpo
  obtain ⟨_, _, hmax⟩ := Listing.firstAlign_spec as o (2 ^ i) h
  obtain ⟨j, hj⟩ := hpow p hp
  have hle : 2 ^ j ≤ 2 ^ i := by rw [← hj]; exact hmax p hp hpo
  have hji : j ≤ i := (Nat.pow_le_pow_iff_right (by omega : 1 < 2)).mp hle
  have hdvd : p.2 ∣ 2 ^ i := by rw [hj]; exact Nat.pow_dvd_pow 2 hji
  have hpos : x + (Listing.alignUpN (x + o) (2 ^ i) - (x + o)) + o = Listing.alignUpN (x + o) (2 ^ i) := by omega
  rw [hpos]
  exact Nat.mod_eq_zero_of_dvd (Nat.dvd_trans hdvd (Nat.dvd_of_mod_eq_zero hmod))

/-- **what one appended interval adds**: `fill` (the uninitialized tail of the destination made
explicit) and `pad` (the alignment padding) are the only new bytes in front of the appended ones; each
is whole nops behind code and zeros behind data; the padding is shorter than the boundary and puts the
block whose alignment is asked for on it -/
theorem join_adds_only_padding {nop : List Nat} {alignB : Nat → Option Nat} {st st' : JoinState} {iv : Iv} {alignI : Option Nat}
    (h : joinOne nop alignB st iv alignI = .ok st') (hle : st.dest.contents.length ≤ st.dest.size) (hinv : AddrInv st) :
    ∃ fill pad, PadOk st.last nop fill ∧
      (∃ l1, PadOk l1 nop pad ∧ (l1.map (·.isCode)).getD false = (st.last.map (·.isCode)).getD false) ∧
      st'.dest.contents = st.dest.contents ++ fill ++ pad ++ iv.contents ∧
      fill.length = st.dest.size - st.dest.contents.length ∧
      pad.length < max 1 (wantedAlignment alignB alignI iv).2 ∧
      (1 < (wantedAlignment alignB alignI iv).2 →
        (st.dest.addr.getD 0 + (st.dest.size + pad.length) + (wantedAlignment alignB alignI iv).1) %
          (wantedAlignment alignB alignI iv).2 = 0) := by
  obtain ⟨fill, pad, h1, h2, h3, h4, _, _, _, _, _, h10, h11, _, _⟩ := joinOne_spec h hle hinv
  exact ⟨fill, pad, h2, h3, h4, h1, h11, h10⟩

/-- **the whole of `join_byte_intervals`** (two or more intervals, any alignment demands, uninitialized
tails, any nop): the first interval's bytes are a prefix of the result and its blocks stay; every other
interval's bytes sit in the result as they were, its blocks moved by one displacement `base`, and the
block whose alignment is asked for lies at a multiple of its boundary -/
theorem join_places_every_interval_aligned (nop : List Nat) (alignB : Nat → Option Nat) (d : Iv) (ad : Option Nat)
    (p : Iv × Option Nat) (rest : List (Iv × Option Nat)) (nextId : Nat) (r : Iv)
    (h : join nop alignB ((d, ad) :: p :: rest) nextId = .ok r)
    (hd : d.contents.length ≤ d.size) (hall : ∀ q ∈ p :: rest, q.1.contents.length ≤ q.1.size) :
    r.addr = d.addr ∧ (∃ t, r.contents = d.contents ++ t) ∧ (∀ b ∈ d.blocks, b ∈ r.blocks) ∧
    r.contents.length ≤ r.size ∧
    ∀ q ∈ p :: rest, ∃ base, (∀ b ∈ q.1.blocks, ({ b with off := b.off + base } : Blk) ∈ r.blocks) ∧
      (∃ u v, r.contents = u ++ q.1.contents ++ v ∧ u.length = base) ∧
      (1 < (wantedAlignment alignB q.2 q.1).2 →
        (d.addr.getD 0 + base + (wantedAlignment alignB q.2 q.1).1) % (wantedAlignment alignB q.2 q.1).2 = 0) := by
  unfold join at h
  simp only [] at h
  split at h
  · cases h
  · rename_i st hst
    simp only [Except.ok.injEq] at h
    subst h
    obtain ⟨_, i2, i3, i4, i5, i6⟩ := joinFold_spec nop alignB (p :: rest)
      { dest := d, address := d.addr.getD 0 + d.size, last := lastBlock d.blocks, nextId := nextId } st hst hd rfl hall
    exact ⟨i3, i4, i5, i2, i6⟩

/-! ### non-vacuity -/
private def dA : Iv := { addr := some 4096, size := 3, contents := [1, 2], blocks := [⟨1, 0, 2, false⟩], anns := [] }
private def dB : Iv := { addr := none, size := 2, contents := [7, 8], blocks := [⟨2, 0, 2, false⟩], anns := [⟨0, 1, 5⟩] }
/-- an uninitialized byte behind data and an 8-aligned data block behind it: one zero of fill, five of padding
(the same with a code block and the nop 0x90 gives six nops; `repeatTo` is a well-founded recursion that `decide`
does not unfold, the driver evaluates it) -/
example : (match join [144] (fun b => if b = 2 then some 8 else none) [(dA, none), (dB, none)] 100 with
    | .ok r => (r.contents, r.size, r.blocks.map (fun (b : Blk) => (b.id, b.off, b.size)))
    | .error _ => ([], 0, [])) =
    ([1, 2, 0, 0, 0, 0, 0, 0, 7, 8], 10, [(1, 0, 2), (100, 2, 1), (101, 3, 5), (2, 8, 2)]) := by decide
example : Listing.firstAlign [(0, 4), (3, 8), (0, 16)] = some (0, 16) := by decide
private def demo : Iv :=
  { addr := some 4096, size := 6, contents := [1, 2, 3, 4, 5, 6],
    blocks := [⟨1, 0, 2, true⟩, ⟨2, 1, 2, true⟩, ⟨3, 3, 0, false⟩, ⟨4, 4, 2, false⟩],
    anns := [⟨0, 1, 7⟩, ⟨1, 4, 9⟩] }
example : WF demo := ⟨rfl, by decide, by decide⟩
example : (split demo).map (fun i => (i.addr, i.size, i.blocks.length)) = [(some 4096, 3, 2), (some 4099, 1, 1), (some 4100, 2, 1)] := by decide

end GtirbVerif.Props.C10
