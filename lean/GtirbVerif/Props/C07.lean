import GtirbVerif.Spec.Scopes
import GtirbVerif.Lemmas.SortOn
import GtirbVerif.Lemmas.Store
import GtirbVerif.Lemmas.StoreOrder
import GtirbVerif.Lemmas.StoreSpec

/-!
# C07 — each registered insertion lands exactly once, exactly where asked

* **specification** — `Scopes.expectedInvocations` (Spec/Scopes.lean): which blocks every scope
  designates, at which offset, in which order the patches are invoked; the driver evaluates it
  on the module before the rewrite; the harness compares the recorded invocations
  (registration, original block, offset, function of the `InsertionContext`) with it and checks
  the place of every marker in the output bytes with the listing specification of C01.
* **theorems** (this file) say that the specification is the property: an invocation happens
  for exactly the (registration, block) pairs where the scope designates the block, at the
  offset the position prescribes; that offset is 0 or the end of the non-terminator
  instructions — an instruction boundary not after the terminator; inside a block invocations
  are ordered by offset and, at one offset, by registration order.
* **model** — `Store.*` (Model/Rewrite/Store.lean) follows `_ModificationStore.add`,
  `modifications_for_block`, `resolve_offsets` and the scope classes of `scopes.py` statement by
  statement; the correspondence runs the real store and the model on the same registrations and
  blocks (every block of every generated module, plus request lists with replacements, deletions
  and overlaps that `apply()` would refuse) and compares the answers.
* **theorems about the model** (for every list of registrations, in any order, and every block):
  the store hands out exactly the registrations whose scope designates the block, each exactly as
  often as it was registered, whatever else was registered in between; `resolve_offsets` answers
  with a permutation of what it was given - nothing dropped, nothing doubled -, each at the first
  potential offset of its scope, in listing order (offset; insertions before the replacement or
  deletion that starts there; registration id), pairwise non-overlapping; it refuses a
  request list exactly when two requests overlap in that order; and with distinct registration
  ids neither what the store hands out (as a set) nor what `resolve_offsets` answers depends on the
  order of the registrations (`store_any_registration_order`, `resolve_offsets_any_order`); the
  offset the model resolves a position to is the one the specification prescribes, given that the
  instruction sizes it is handed are what `_nonterminator_instructions` is defined to keep
  (`store_offset_is_the_specifications`; the harness evaluates that premise on the real helper for
  every block it sees).
-/
namespace GtirbVerif.Props.C07
open GtirbVerif GtirbVerif.IR GtirbVerif.Listing GtirbVerif.Scopes

/-- the invocations of one block -/
def invocationsOf (ir : IR) (funcs : List Func) (insnSizes : List (Nat × List Nat)) (regs : List Scope) (b : Block) :
    List Invocation :=
  sortOn (fun (v : Invocation) => (v.off, v.reg))
    ((regs.zipIdx.filter (fun (sc, _) => designates ir funcs b sc)).map (fun (sc, i) =>
      ({ reg := i, block := b.id, off := offsetOf ir b ((insnSizes.lookup b.id).getD []) sc, func := FlatCfg.funcOf ir b.id } : Invocation)))

/-- **exactly the designated pairs**: `(i, b)` is invoked iff registration `i` designates `b`,
and then at the offset its position prescribes -/
theorem invoked_iff_designated (ir : IR) (funcs : List Func) (sizes : List (Nat × List Nat)) (regs : List Scope)
    (b : Block) (v : Invocation) :
    v ∈ invocationsOf ir funcs sizes regs b ↔
      ∃ sc, (sc, v.reg) ∈ regs.zipIdx ∧ designates ir funcs b sc = true ∧
        v = { reg := v.reg, block := b.id, off := offsetOf ir b ((sizes.lookup b.id).getD []) sc, func := FlatCfg.funcOf ir b.id } := by
  unfold invocationsOf
  rw [(sortOn_perm _ _).mem_iff]
  simp only [List.mem_map, List.mem_filter]
  constructor
  · rintro ⟨⟨sc, i⟩, ⟨hm, hd⟩, rfl⟩
    exact ⟨sc, hm, hd, rfl⟩
  · rintro ⟨sc, hm, hd, hv⟩
    exact ⟨(sc, v.reg), ⟨hm, hd⟩, hv.symm⟩

/-- **order inside a block**: by offset, and at one offset by registration order -/
theorem ordered_by_offset_then_registration (ir : IR) (funcs : List Func) (sizes : List (Nat × List Nat)) (regs : List Scope)
    (b : Block) :
    (invocationsOf ir funcs sizes regs b).Pairwise (fun v w => v.off < w.off ∨ (v.off = w.off ∧ v.reg ≤ w.reg)) := by
  unfold invocationsOf
  exact (sortOn_sorted (fun (v : Invocation) => (v.off, v.reg)) _).imp (fun h => h)

/-- **where**: ENTRY and ANYWHERE put the patch at offset 0, EXIT behind the last instruction that
is not the terminator; both are instruction boundaries (prefix sums of the instruction sizes) not
after the terminator -/
theorem offset_is_a_boundary_before_the_terminator (ir : IR) (b : Block) (sizes : List Nat) (sc : Scope)
    (h : ∀ blk off, sc ≠ .atOffset blk off) :
    offsetOf ir b sizes sc = 0 ∨ offsetOf ir b sizes sc = sizes.sum ∨ offsetOf ir b sizes sc = sizes.dropLast.sum := by
  have key : ∀ p : Pos, (match p with
      | .entry => 0
      | .exit => beforeTerminator ir b sizes
      | .anywhere => 0) = 0 ∨ (match p with
      | .entry => 0
      | .exit => beforeTerminator ir b sizes
      | .anywhere => 0) = sizes.sum ∨ (match p with
      | .entry => 0
      | .exit => beforeTerminator ir b sizes
      | .anywhere => 0) = sizes.dropLast.sum := by
    intro p
    cases p with
    | entry => exact Or.inl rfl
    | anywhere => exact Or.inl rfl
    | exit =>
      simp only [beforeTerminator]
      split
      · exact Or.inr (Or.inl rfl)
      · exact Or.inr (Or.inr rfl)
  cases sc with
  | atOffset blk off => exact absurd rfl (h blk off)
  | allBlocks p e => exact key p
  | single blk p => exact key p
  | allFunctions en p fs => exact key p

/-- an EXIT offset never lies behind the terminator: it is at most the end of the last
non-terminator instruction, which is at most the block's instruction bytes -/
theorem exit_offset_le_size (ir : IR) (b : Block) (sizes : List Nat) : beforeTerminator ir b sizes ≤ sizes.sum := by
  unfold beforeTerminator
  split
  · exact Nat.le_refl _
  · induction sizes with
    | nil => simp
    | cons x xs ih =>
      cases xs with
      | nil => simp
      | cons y ys => simp only [List.dropLast_cons_cons, List.sum_cons] at ih ⊢; omega

/-! ### the model of `_ModificationStore` and `scopes.py` -/
section store
open GtirbVerif.Store

/-- **each registration reaches exactly the blocks its scope designates, once**: after any sequence
of `add`s, the modifications for a block are (up to order) the registered ones whose scope matches -/
theorem store_hands_out_exactly_the_designated (ms : List Mod) (env : BlockEnv) :
    ((build ms).modificationsFor env).Perm (ms.filter (fun m => blockMatches env m.scope)) :=
  modificationsFor_build ms env

/-- ... so a registration with a unique id is handed out for a block exactly once if its scope
matches, and never otherwise -/
theorem store_count (ms : List Mod) (env : BlockEnv) (m : Mod) :
    ((build ms).modificationsFor env).count m = if blockMatches env m.scope then ms.count m else 0 := by
  rw [(modificationsFor_build ms env).count_eq]
  by_cases h : blockMatches env m.scope = true
  · simp only [h, if_true]
    exact List.count_filter (by simpa using h)
  · have hf : blockMatches env m.scope = false := by simpa using h
    simp only [hf, Bool.false_eq_true, if_false]
    apply List.count_eq_zero.mpr
    intro hm
    have := (List.mem_filter.mp hm).2
    simp [hf] at this

/-- ... and registrations that are pairwise different (they carry different ids) are never handed out twice -/
theorem store_no_duplicates (ms : List Mod) (env : BlockEnv) (h : ms.Nodup) : ((build ms).modificationsFor env).Nodup :=
  (modificationsFor_build ms env).nodup_iff.mpr (List.Pairwise.filter _ h)

/-- **nothing dropped, nothing doubled, each where its scope puts it, in listing order, disjoint** -/
theorem resolve_offsets_answer {env : BlockEnv} {mods : List Mod} {r : List (Mod × Nat)}
    (h : resolveOffsets env mods = .ok r) :
    (r.map (·.1)).Perm mods ∧
    (∀ x ∈ r, firstOffset env (haveDisFor env mods) x.1.scope = .ok x.2) ∧
    r.Pairwise Before ∧ r.Pairwise Clear :=
  resolve_ok h

/-- **a non-overlapping request list is never refused** -/
theorem resolve_offsets_accepts_non_overlapping {env : BlockEnv} {mods : List Mod} {l : List (Mod × Nat)}
    (hl : offsetsOf env (haveDisFor env mods) mods = .ok l) (hc : (sortK l).Pairwise Clear) :
    resolveOffsets env mods = .ok (sortK l) :=
  resolve_accepts hl hc

/-- **an overlapping one is refused as a whole** (the assertion; nothing is applied) -/
theorem resolve_offsets_refuses_overlap {env : BlockEnv} {mods : List Mod} {l : List (Mod × Nat)}
    (hl : offsetsOf env (haveDisFor env mods) mods = .ok l) (hc : ¬ (sortK l).Pairwise Clear) :
    resolveOffsets env mods = .error (.assertion "modifications overlap") :=
  resolve_refuses hl hc

/-- scope positions: ENTRY and ANYWHERE resolve to offset 0, EXIT to the end of the instructions that
are not the terminator -/
theorem scope_offset (env : BlockEnv) (hd : Bool) (sc : Store.Scope) (off : Nat) (h : firstOffset env hd sc = .ok off)
    (hs : ∀ b o r, sc ≠ .specific b o r) : off = 0 ∨ off = env.nonterm.sum := by
  have key : ∀ p : Store.Pos, firstInBlock env hd p = .ok off → off = 0 ∨ off = env.nonterm.sum := by
    intro p hp
    cases p with
    | entry => simp only [firstInBlock, Except.ok.injEq] at hp; exact Or.inl hp.symm
    | anywhere =>
      simp only [firstInBlock] at hp
      split at hp
      · simp only [Except.ok.injEq] at hp; exact Or.inl hp.symm
      · cases hp
    | exit =>
      simp only [firstInBlock] at hp
      split at hp
      · cases hp
      · split at hp
        · cases hp
        · simp only [Except.ok.injEq] at hp; exact Or.inr hp.symm
  cases sc with
  | specific b o r => exact absurd rfl (hs b o r)
  | allBlocks p e => simp only [firstOffset] at h; split at h; · cases h
                     · exact key p h
  | single b p => simp only [firstOffset] at h; split at h; · cases h
                  · exact key p h
  | allFunctions en p fs => simp only [firstOffset] at h; split at h; · cases h
                            · exact key p h

/-- **registered in any order** (the store): two registration sequences that are permutations of each other
hand out, for every block, permutations of one list -/
theorem store_any_registration_order {ms1 ms2 : List Mod} (hp : ms1.Perm ms2) (env : BlockEnv) :
    ((build ms1).modificationsFor env).Perm ((build ms2).modificationsFor env) :=
  (modificationsFor_build ms1 env).trans ((hp.filter _).trans (modificationsFor_build ms2 env).symm)

/-- **... in any order** (the resolution): with distinct registration ids `resolve_offsets` gives the same
answer for every permutation of the modifications it is handed -/
theorem resolve_offsets_any_order {env : BlockEnv} {m1 m2 : List Mod} {r : List (Mod × Nat)} (hp : m1.Perm m2)
    (hid : ∀ a ∈ m1, ∀ b ∈ m1, a.id = b.id → a = b) (h : resolveOffsets env m1 = .ok r) :
    resolveOffsets env m2 = .ok r :=
  resolve_perm hp hid h

/-- **the model's offsets are the specification's**: when the instruction sizes handed to the model are what
`_nonterminator_instructions` is defined to keep (every instruction if all out-edges are fallthroughs, all but
the last otherwise) and capstone decoded the whole block, the offset the model of `scopes.py` resolves a position
to is the offset `Spec/Scopes.lean` - the oracle - prescribes -/
theorem store_offset_is_the_specifications (ir : IR) (b : Block) (sizes : List Nat) (env : BlockEnv) (p : Store.Pos)
    (hp : env.partialDis = false) (hn : env.nonterm = nontermSizes ir b sizes) :
    firstInBlock env true p = .ok (Scopes.offsetOf ir b sizes (.single b.id (specPos p))) :=
  firstInBlock_eq_spec ir b sizes env p hp hn

/-! non-vacuity: two insertions and a replacement at one offset, registered replacement first -/
private def envX : BlockEnv := { id := 7, isCode := true, func := none, nonterm := [1, 2], partialDis := false }
private def regsX : List Mod :=
  [{ id := 0, scope := .specific 7 3 2 }, { id := 1, scope := .allBlocks .exit none },
   { id := 2, scope := .single 7 .entry }, { id := 3, scope := .single 8 .entry }]
example : ((build regsX).modificationsFor envX).map (·.id) = [0, 2, 1] := by decide
example : (resolveOffsets envX ((build regsX).modificationsFor envX)).toOption.map (·.map (fun x => (x.1.id, x.2))) =
    some [(2, 0), (1, 3), (0, 3)] := by decide
example : (match resolveOffsets envX [{ id := 0, scope := .specific 7 0 2 }, { id := 1, scope := .specific 7 1 0 }] with
    | .error (.assertion s) => s
    | .ok _ => "") = "modifications overlap" := by decide

end store

end GtirbVerif.Props.C07
