import GtirbVerif.Spec.Scopes
import GtirbVerif.Lemmas.SortOn

/-!
# C07 — each registered insertion lands exactly once, exactly where asked

* **specification** — `Scopes.expectedInvocations` (Spec/Scopes.lean): which blocks every scope
  designates, at which offset, in which order the patches are invoked; the driver evaluates it
  on the module before the rewrite; the harness compares the recorded invocations
  (registration, original block, offset, function of the `InsertionContext`) with it and checks
  the place of every marker in the output bytes with the listing specification of C01.
* **theorems** (this file) say that the specification is the property: an invocation happens
  for exactly the (registration, block) pairs where the scope designates the block, at the
  offset the position prescribes; that offset is 0 or the end of the non-terminator
  instructions — an instruction boundary not after the terminator; inside a block invocations
  are ordered by offset and, at one offset, by registration order.
-/
namespace GtirbVerif.Props.C07
open GtirbVerif GtirbVerif.IR GtirbVerif.Listing GtirbVerif.Scopes

/-- the invocations of one block -/
def invocationsOf (ir : IR) (funcs : List Func) (insnSizes : List (Nat × List Nat)) (regs : List Scope) (b : Block) :
    List Invocation :=
  sortOn (fun (v : Invocation) => (v.off, v.reg))
    ((regs.zipIdx.filter (fun (sc, _) => designates ir funcs b sc)).map (fun (sc, i) =>
      ({ reg := i, block := b.id, off := offsetOf ir b ((insnSizes.lookup b.id).getD []) sc, func := FlatCfg.funcOf ir b.id } : Invocation)))

/-- **exactly the designated pairs**: `(i, b)` is invoked iff registration `i` designates `b`,
and then at the offset its position prescribes -/
theorem invoked_iff_designated (ir : IR) (funcs : List Func) (sizes : List (Nat × List Nat)) (regs : List Scope)
    (b : Block) (v : Invocation) :
    v ∈ invocationsOf ir funcs sizes regs b ↔
      ∃ sc, (sc, v.reg) ∈ regs.zipIdx ∧ designates ir funcs b sc = true ∧
        v = { reg := v.reg, block := b.id, off := offsetOf ir b ((sizes.lookup b.id).getD []) sc, func := FlatCfg.funcOf ir b.id } := by
  unfold invocationsOf
  rw [(sortOn_perm _ _).mem_iff]
  simp only [List.mem_map, List.mem_filter]
  constructor
  · rintro ⟨⟨sc, i⟩, ⟨hm, hd⟩, rfl⟩
    exact ⟨sc, hm, hd, rfl⟩
  · rintro ⟨sc, hm, hd, hv⟩
    exact ⟨(sc, v.reg), ⟨hm, hd⟩, hv.symm⟩

/-- **order inside a block**: by offset, and at one offset by registration order -/
theorem ordered_by_offset_then_registration (ir : IR) (funcs : List Func) (sizes : List (Nat × List Nat)) (regs : List Scope)
    (b : Block) :
    (invocationsOf ir funcs sizes regs b).Pairwise (fun v w => v.off < w.off ∨ (v.off = w.off ∧ v.reg ≤ w.reg)) := by
  unfold invocationsOf
  exact (sortOn_sorted (fun (v : Invocation) => (v.off, v.reg)) _).imp (fun h => h)

/-- **where**: ENTRY and ANYWHERE put the patch at offset 0, EXIT behind the last instruction that
is not the terminator; both are instruction boundaries (prefix sums of the instruction sizes) not
after the terminator -/
theorem offset_is_a_boundary_before_the_terminator (ir : IR) (b : Block) (sizes : List Nat) (sc : Scope)
    (h : ∀ blk off, sc ≠ .atOffset blk off) :
    offsetOf ir b sizes sc = 0 ∨ offsetOf ir b sizes sc = sizes.sum ∨ offsetOf ir b sizes sc = sizes.dropLast.sum := by
  have key : ∀ p : Pos, (match p with
      | .entry => 0
      | .exit => beforeTerminator ir b sizes
      | .anywhere => 0) = 0 ∨ (match p with
      | .entry => 0
      | .exit => beforeTerminator ir b sizes
      | .anywhere => 0) = sizes.sum ∨ (match p with
      | .entry => 0
      | .exit => beforeTerminator ir b sizes
      | .anywhere => 0) = sizes.dropLast.sum := by
    intro p
    cases p with
    | entry => exact Or.inl rfl
    | anywhere => exact Or.inl rfl
    | exit =>
      simp only [beforeTerminator]
      split
      · exact Or.inr (Or.inl rfl)
      · exact Or.inr (Or.inr rfl)
  cases sc with
  | atOffset blk off => exact absurd rfl (h blk off)
  | allBlocks p e => exact key p
  | single blk p => exact key p
  | allFunctions en p fs => exact key p

/-- an EXIT offset never lies behind the terminator: it is at most the end of the last
non-terminator instruction, which is at most the block's instruction bytes -/
theorem exit_offset_le_size (ir : IR) (b : Block) (sizes : List Nat) : beforeTerminator ir b sizes ≤ sizes.sum := by
  unfold beforeTerminator
  split
  · exact Nat.le_refl _
  · induction sizes with
    | nil => simp
    | cons x xs ih =>
      cases xs with
      | nil => simp
      | cons y ys => simp only [List.dropLast_cons_cons, List.sum_cons] at ih ⊢; omega

end GtirbVerif.Props.C07
