import GtirbVerif.Lemmas.IRFunc
import GtirbVerif.Lemmas.IRMirror
import GtirbVerif.Lemmas.IREntries
import GtirbVerif.Lemmas.IRFuncInsert
import GtirbVerif.Spec.FuncCheck

/-!
# C06 — function tables keep describing the same code

* **specification** — `Listing.checkFunctions` (Spec/FuncCheck.lean): code found inside the piece
  of an original block of function F is in F (inserted code included), code inside function-less
  code or data is in no function; no block in two functions, entries ⊆ blocks, the three tables
  have the same functions, a deleted entry is inherited by the next block only inside the same
  function (not with `retarget_to_proxy`).  Evaluated by the driver on the real before/after
  modules (oracle).
* **model** — `IR.addFunctionBlock`, `IR.removeFunctionBlock`, `IR.inheritFunction`,
  `IR.removeFunctions`, `IR.addPatchFunctions`, the function rules of `are_joinable`; compared
  with the real code after every recorded operation (correspondence), `fbb` = the side cache
  `functions_by_block` included.
* **theorems** (this file, every IR): the cache mirrors `functionBlocks` — `Mirror` is an
  invariant of the only two writers; a block split off inherits its parent's function; a
  removed block is in no function afterwards; a function that lost its last block (and entry)
  disappears from all three tables; and the mirror relation (together with "the cache speaks of
  blocks of the table only") is an invariant of `insert`, of `delete`, of the whole loop over the
  requests of a block and of `apply()`'s loop over all blocks - for every request list; so after
  the whole loop no block is listed by two functions, and every entry of a function is still one
  of its blocks (`EntSub`, Lemmas/IREntries.lean); and code inserted into a block of function F
  belongs to F when `insert` returns (Lemmas/IRFuncInsert.lean).
-/
namespace GtirbVerif.Props.C06
open GtirbVerif GtirbVerif.IR

/-- `add_function_block_aux` keeps `functions_by_block` and `functionBlocks` in step -/
theorem add_keeps_cache_in_step (ir : IR) (b f : Nat) (h : Mirror ir) (hnew : alookup b ir.fbb = none) :
    Mirror (ir.addFunctionBlock b f) :=
  addFunctionBlock_mirror ir b f h hnew

/-- `remove_function_block_aux` keeps them in step -/
theorem remove_keeps_cache_in_step (ir : IR) (b : Nat) (h : Mirror ir) : Mirror (ir.removeFunctionBlock b) :=
  removeFunctionBlock_mirror ir b h

/-- the block split off by `split_block` belongs to the function of the block it came from
(so code inserted into a block of F, which is joined to or placed next to such halves, is
attributed to F) -/
theorem split_half_inherits_function (ir : IR) (b nb : Nat) (h : Mirror ir) (hnew : alookup nb ir.fbb = none) :
    Mirror (ir.inheritFunction b nb) ∧ alookup nb (ir.inheritFunction b nb).fbb = alookup b ir.fbb :=
  inheritFunction_mirror ir b nb h hnew

/-- a block removed from the function tables is in no function, neither by the cache nor by
the table -/
theorem removed_block_is_in_no_function (ir : IR) (b : Nat) (h : Mirror ir) :
    alookup b (ir.removeFunctionBlock b).fbb = none ∧ ∀ f, ¬ (ir.removeFunctionBlock b).inFunc b f :=
  removeFunctionBlock_gone ir b h

/-- a function that lost all its blocks disappears from functionBlocks, functionEntries and
functionNames -/
theorem emptied_function_disappears (ir : IR) (b f : Nat) (hb : alookup b ir.fbb = some f)
    (hlast : ∀ c, c ∈ (alookup f ir.aux.funcBlocks).getD [] → c = b)
    (hent : ∀ c, c ∈ (alookup f ir.aux.funcEntries).getD [] → c = b) :
    alookup f (ir.removeFunctionBlock b).aux.funcBlocks = none ∧
    alookup f (ir.removeFunctionBlock b).aux.funcEntries = none ∧
    alookup f (ir.removeFunctionBlock b).aux.funcNames = none :=
  removeFunctionBlock_last ir b f hb hlast hent

/-- `are_joinable` never joins across functions or into an entry block (code blocks with bytes) -/
theorem join_respects_function_boundaries (ir : IR) (b1 b2 : Block) (h : ir.codeJoinable b1 b2 = none) :
    ir.sameFunction b1.id b2.id = true ∧ ir.isEntryBlock b2.id = false := by
  unfold IR.codeJoinable at h
  simp only [] at h
  split at h
  · cases h
  · split at h
    · cases h
    · split at h
      · cases h
      · split at h
        · cases h
        · rename_i h3 h4
          exact ⟨by simpa using h3, by simpa using h4⟩

/-- **`functions_by_block` mirrors `functionBlocks` after every `insert`** - through the splits, the
removal of the replaced range, the patch's code joining the block's function, the clean-up -/
theorem insert_keeps_cache_in_step {i : Nat} {ir ir' : IR} {b off repl last : Nat} {p : Patch}
    (h : ir.insert b off repl p = .ok (ir', last)) (hin : In i ir b) (hm : MInv ir) (hI : IdsBelow ir)
    (hnew : ∀ c ∈ p.text.blocks.map (·.id), ir.block? c = none) (hlt : ∀ c ∈ p.text.blocks.map (·.id), c < ir.next)
    (hnd : (p.text.blocks.map (·.id)).Nodup) : Mirror ir' :=
  (insert_minv h hin hm hI hnew hlt hnd).1

/-- ... and after every `delete` -/
theorem delete_keeps_cache_in_step {ir ir' : IR} {b off len : Nat} {px : Bool} {r : Option Nat}
    (h : ir.delete b off len px = .ok (ir', r)) (hm : MInv ir) (hI : IdsBelow ir) : Mirror ir' :=
  (delete_minv h hm hI).1

/-- **... and after `apply()`'s whole loop**, for every list of request lists (premises as in
`Props.C01.all_blocks_are_listing_edits`) -/
theorem apply_keeps_cache_in_step (rs : List BlockMods) (ir ir' : IR)
    (h : ir.applyAll rs = .ok ir') (hI : IdsBelow ir) (hok : ∀ r ∈ rs, ReqOk ir r)
    (hnd : (rs.map (ivOf ir)).Nodup) (hnew : NewBlocksAll ir rs) (hm : MInv ir) : Mirror ir' :=
  (applyAll_minv rs ir ir' h hI hok hnd hnew hm).1

/-- **no block is in two functions**: when the cache mirrors the table, a block listed under two
functions would have two cache entries - there is one -/
theorem mirror_excludes_two_functions (ir : IR) (h : Mirror ir) (b f g : Nat)
    (hf : ir.inFunc b f) (hg : ir.inFunc b g) : f = g := by
  have h1 := (h b f).mpr hf
  have h2 := (h b g).mpr hg
  rw [h1] at h2
  injection h2

/-- … so after `apply()`'s whole loop, whatever the requests, no block is listed by two functions -/
theorem no_block_is_in_two_functions_after_apply (rs : List BlockMods) (ir ir' : IR)
    (h : ir.applyAll rs = .ok ir') (hI : IdsBelow ir) (hok : ∀ r ∈ rs, ReqOk ir r)
    (hnd : (rs.map (ivOf ir)).Nodup) (hnew : NewBlocksAll ir rs) (hm : MInv ir) (b f g : Nat)
    (hf : ir'.inFunc b f) (hg : ir'.inFunc b g) : f = g :=
  mirror_excludes_two_functions ir' (apply_keeps_cache_in_step rs ir ir' h hI hok hnd hnew hm) b f g hf hg

/-- **entries are a subset of blocks, after `apply()`'s whole loop**: if every block that
`functionEntries` lists for a function is listed by `functionBlocks` for it before the rewrite, the
same holds afterwards - whatever the requests (Lemmas/IREntries.lean: only
`remove_function_block_aux`, which drops a block from both tables, and the promotion of the next
block of the same function write the entry table) -/
theorem entries_are_blocks_after_apply (rs : List BlockMods) (ir ir' : IR)
    (h : ir.applyAll rs = .ok ir') (hI : IdsBelow ir) (hok : ∀ r ∈ rs, ReqOk ir r)
    (hnd : (rs.map (ivOf ir)).Nodup) (hnew : NewBlocksAll ir rs) (hm : MInv ir) (he : EntSub ir) : EntSub ir' := by
  obtain ⟨m1, e1⟩ := applyAll_entc rs ir ir' h hI hok hnd hnew hm (he.c hm.1)
  exact e1.sub m1.1

/-- **code inserted into a block of function F belongs to F**: when `insert` returns, every code
block of the patch that is still part of the module is, by the cache (which mirrors
`functionBlocks`, see above), in the function of the block it was inserted into; a patch block that
is not is one the clean-up took out of the module (joined into its neighbour, whose function it
shares, or removed as empty) -/
theorem inserted_code_belongs_to_the_function {i : Nat} {ir ir' : IR} {b off repl last f : Nat} {p : Patch} {blk : Block}
    (h : ir.insert b off repl p = .ok (ir', last)) (hb : ir.block? b = some blk) (hbi : blk.bi = some i)
    (hcode : blk.isCode = true) (hf : alookup b ir.fbb = some f) (hI : IdsBelow ir)
    (hnew : ∀ c ∈ p.text.blocks.map (·.id), ir.block? c = none) (hlt : ∀ c ∈ p.text.blocks.map (·.id), c < ir.next)
    (hnd : (p.text.blocks.map (·.id)).Nodup) :
    ∀ tbk ∈ p.text.blocks, tbk.isCode = true →
      alookup tbk.id ir'.fbb = some f ∨ ∃ x, ir'.block? tbk.id = some x ∧ x.bi = none :=
  insert_code_joins_function h hb hbi hcode hf hI hnew hlt hnd

/-- **deleting an entry block promotes the next block only if it is in the same function**: after
the function-table step of `remove_block` every entry was an entry before - except the next block,
and that one only when the removed block was an entry of the function, the next block is code and
the cache puts both into that same function -/
theorem entry_promotion_only_within_the_function (x : IR) (blk : Block) (n : Option Nat) (nc : Bool) (c g : Nat)
    (h : (x.removeFunctions blk n nc).isEntry c g) :
    x.isEntry c g ∨ (c = n.getD 0 ∧ nc = true ∧ x.isEntry blk.id g ∧ alookup blk.id x.fbb = some g ∧
      x.sameFunction blk.id (n.getD 0) = true) :=
  removeFunctions_isEntry x blk n nc c g h

/-- … and over everything `remove_block` does to the tables: with `retarget_to_proxy` (`t = true`)
no block inherits the entry; without it only the next block can, under the conditions above -/
theorem removal_promotes_only_the_next_block_of_the_function (x : IR) (blk : Block) (t c : Bool) (px p n : Option Nat)
    (k g : Nat) (h : (x.removeStages blk t c px p n).isEntry k g) :
    x.isEntry k g ∨ (t = false ∧ k = n.getD 0 ∧ x.isCodeBlockId n = true ∧ x.isEntry blk.id g ∧
      alookup blk.id x.fbb = some g ∧ x.sameFunction blk.id (n.getD 0) = true) :=
  removeStages_isEntry x blk t c px p n k g h

/-! ### non-vacuity -/
private def demo : IR := { fbb := [(1, 7), (2, 7)], aux := { funcBlocks := [(7, [1, 2])], funcEntries := [(7, [1])], funcNames := [(7, 99)] } }
example : Mirror demo := by
  intro b f
  unfold IR.inFunc demo
  simp only [alookup]
  constructor
  · intro h
    split at h
    · injection h with h; subst h; rename_i hb; subst hb; simp [alookup]
    · split at h
      · injection h with h; subst h; rename_i hb; subst hb; simp [alookup]
      · cases h
  · intro h
    by_cases hf : 7 = f
    · subst hf; simp [alookup] at h
      rcases h with h | h <;> simp [h]
    · simp [alookup, hf] at h
example : ((demo.removeFunctionBlock 1).removeFunctionBlock 2).aux.funcNames = [] := by decide

end GtirbVerif.Props.C06
