import GtirbVerif.Lemmas.AsmChunks
import GtirbVerif.Lemmas.AsmNames
import Std.Data.String.ToNat

/-!
# C13 — assembler symbol discipline and incremental assembly

* **model** — the symbol side of `Asm.assemble` (Model/Asm/Streamer.lean): `precreate`
  (`_SymbolCreator._precreate_label`), `resolveRef` / `resolveTarget` (`_symbol_lookup`,
  `_resolve_symbol`) and `assembleChunks` (one `assemble()` call per chunk, state kept until
  `finalize`).  The real assembler is run on generated texts, whole and in chunks, and compared
  with the model on every run; the real Results are also inspected directly (symbol identity,
  one symbol per name, error classes) and the same patch is inserted up to six times through
  `RewritingContext`.
* **theorems** (for every target, state and event list):
  - `module_name_binds`: a name that is neither a label nor an already created undefined symbol
    and that the module defines resolves to the module's symbol, without creating anything;
    `local_name_first`: a label of the text wins;
  - `unknown_refused` / `unknown_created_once`: an unknown name is an `UndefSymbolError` unless
    undefined symbols are allowed; then one proxy-backed symbol is created, and a second mention
    finds it and creates nothing;
  - `redefinition_refused`: the pre-pass refuses a label whose name is a label already, an
    undefined symbol created earlier, or a module symbol; `precreate_adds`: otherwise it adds
    exactly the chunk's labels, in order;
  - `suffix_separates_copies`, `suffix_keeps_labels_apart`: with the suffix `_<id>` two copies of a
    temporary label with different patch ids get different names, and two different labels of
    one copy stay different;
  - `chunks_eq_whole`: assembling `c1` and then `c2` gives the same state as assembling
    `c1 ++ c2`, for every starting state, as long as `c1` mentions no label that `c2` defines;
  - `one_name_one_symbol`: in every state reachable from the empty one over any chunk list the names
    of the labels and of the undefined symbols created so far are pairwise different and none of
    them is a name of the target module (so a Result never holds two symbols for one name and
    never redefines a module symbol).
-/
namespace GtirbVerif.Props.C13
open GtirbVerif.Asm

/-! ### lookup order -/

theorem local_name_first {t : Target} {st : AState} {n : String} {b : Nat} (h : st.locals.find? (·.1 == n) = some (n, b)) :
    resolveTarget t st n = .ok (st, .block b) := by
  unfold resolveTarget; rw [h]

theorem module_name_binds {t : Target} {st : AState} {n : String}
    (hl : st.locals.find? (·.1 == n) = none) (hu : st.undefs.find? (·.1 == n) = none)
    (hm : t.moduleSyms.find? (·.1 == n) = some (n, true)) :
    resolveTarget t st n = .ok (st, .ext n) := by
  unfold resolveTarget; rw [hl, hu, hm]; rfl

theorem module_name_no_symbol {t : Target} {st : AState} {n : String} (hm : t.moduleSyms.any (·.1 == n) = true) :
    resolveRef t st n = .ok st := by
  unfold resolveRef; simp [hm]

/-! ### unknown names -/

def known (t : Target) (st : AState) (n : String) : Bool :=
  st.locals.any (·.1 == n) || st.undefs.any (·.1 == n) || t.moduleSyms.any (·.1 == n)

theorem unknown_refused {t : Target} {st : AState} {n : String} (hk : known t st n = false) (ha : t.allowUndef = false) :
    resolveRef t st n = .error (.undefSymbol n) := by
  unfold resolveRef; unfold known at hk; simp [hk, ha]

theorem unknown_created_once {t : Target} {st : AState} {n : String} (hk : known t st n = false) (ha : t.allowUndef = true) :
    ∃ st', resolveRef t st n = .ok st' ∧ st'.undefs = st.undefs ++ [(n, st.next)] ∧ st'.proxies = st.proxies ++ [st.next] ∧
      st'.locals = st.locals ∧ resolveRef t st' n = .ok st' := by
  unfold known at hk
  refine ⟨{ st with undefs := st.undefs ++ [(n, st.next)], proxies := st.proxies ++ [st.next], next := st.next + 1 }, ?_, rfl, rfl, rfl, ?_⟩
  · unfold resolveRef; simp [hk, ha]
  · unfold resolveRef; simp

/-! ### the pre-pass -/

theorem redefinition_refused {t : Target} {st : AState} {n : String} {es : List Event} (hk : known t st n = true) :
    precreate t st (.label n :: es) = .error (.multipleDefinitions n) := by
  unfold known at hk
  simp [precreate, hk]

theorem precreate_adds {t : Target} {st st' : AState} {c : List Event} (h : precreate t st c = .ok st') :
    st' = withLocals st (newLocals st.locals.length c) ∧ namesOf (newLocals st.locals.length c) = labelsOf c :=
  ⟨(precreate_char.mp h).2, namesOf_newLocals _ _⟩

/-! ### temporary labels and the patch-id suffix -/

/-- the name a label gets: temporary labels carry the suffix -/
def symName (suffix : Option String) (temp : Bool) (name : String) : String :=
  match suffix with
  | some s => if temp then name ++ s else name
  | none => name

/-- the suffix `RewritingContext` passes for the patch with this id -/
def patchSuffix (id : Nat) : String := "_" ++ Nat.repr id

theorem suffix_separates_copies (name : String) {i j : Nat} (h : i ≠ j) :
    symName (some (patchSuffix i)) true name ≠ symName (some (patchSuffix j)) true name := by
  simp only [symName, if_true, patchSuffix]
  intro he
  rw [String.append_right_inj, String.append_right_inj] at he
  exact h (Nat.repr_injective he)

theorem suffix_keeps_labels_apart (s : Option String) (temp : Bool) {a b : String} (h : a ≠ b) :
    symName s temp a ≠ symName s temp b := by
  unfold symName
  cases s with
  | none => exact h
  | some x =>
    cases temp
    · simpa using h
    · simp only [if_true]
      intro he
      rw [String.append_left_inj] at he
      exact h he

/-! ### chunks -/

theorem length_newLocals (k : Nat) (c : List Event) : (newLocals k c).length = (labelsOf c).length := by
  rw [← namesOf_newLocals k c]; simp [namesOf]

theorem two_chunks {t : Target} {st r : AState} {c1 c2 : List Event} :
    assembleChunks t st [c1, c2] = .ok r ↔
      ∃ sp1 sa sp2, precreate t st c1 = .ok sp1 ∧ run t sp1 c1 = .ok sa ∧ precreate t sa c2 = .ok sp2 ∧ run t sp2 c2 = .ok r := by
  simp only [assembleChunks]
  constructor
  · intro h
    split at h
    · cases h
    · rename_i sp1 h1
      split at h
      · cases h
      · rename_i sa h2
        split at h
        · cases h
        · rename_i sp2 h3
          split at h
          · cases h
          · rename_i r' h4
            injection h with h
            exact ⟨sp1, sa, sp2, h1, h2, h3, by rw [h4, h]⟩
  · rintro ⟨sp1, sa, sp2, h1, h2, h3, h4⟩
    rw [h1]; simp only []; rw [h2]; simp only []; rw [h3]; simp only []; rw [h4]

theorem one_chunk {t : Target} {st r : AState} {c : List Event} :
    assembleChunks t st [c] = .ok r ↔ ∃ sp, precreate t st c = .ok sp ∧ run t sp c = .ok r := by
  simp only [assembleChunks]
  constructor
  · intro h
    split at h
    · cases h
    · rename_i sp h1
      split at h
      · cases h
      · rename_i r' h2
        injection h with h
        exact ⟨sp, h1, by rw [h2, h]⟩
  · rintro ⟨sp, h1, h2⟩
    rw [h1]; simp only []; rw [h2]

/-- **chunked = whole**: if the first chunk mentions no label the second one defines, assembling the
two chunks one after the other reaches exactly the states that assembling their concatenation
reaches (same blocks, edges, symbols, expressions - the whole state). -/
theorem chunks_eq_whole (t : Target) (st : AState) (c1 c2 : List Event)
    (hfwd : ∀ ev ∈ c1, ∀ n ∈ ev.mentions, n ∉ labelsOf c2) (r : AState) :
    assembleChunks t st [c1, c2] = .ok r ↔ assembleChunks t st [c1 ++ c2] = .ok r := by
  rw [two_chunks, one_chunk]
  have hL2 : ∀ ev ∈ c1, ∀ n ∈ ev.mentions, n ∉ namesOf (newLocals (st.locals.length + (labelsOf c1).length) c2) := by
    intro ev hev n hn; rw [namesOf_newLocals]; exact hfwd ev hev n hn
  constructor
  · rintro ⟨sp1, sa, sp2, h1, h2, h3, h4⟩
    obtain ⟨k1, e1⟩ := precreate_char.mp h1
    obtain ⟨k3, e3⟩ := precreate_char.mp h3
    obtain ⟨gl, extra, gu, gm⟩ := run_grows h2
    have hsl : sp1.locals = st.locals ++ newLocals st.locals.length c1 := by rw [e1]; rfl
    have hsu : sp1.undefs = st.undefs := by rw [e1]; rfl
    have hlen : sa.locals.length = st.locals.length + (labelsOf c1).length := by
      rw [gl, hsl, List.length_append, length_newLocals]
    refine ⟨withLocals sp1 (newLocals (st.locals.length + (labelsOf c1).length) c2), ?_, ?_⟩
    · rw [precreate_char]
      refine ⟨?_, ?_⟩
      · rw [preCheck_append, k1, Bool.true_and]
        rw [gl, gu, hsl, hsu] at k3
        simp only [namesOf, List.map_append] at k3
        have := preCheck_extra t (List.map (·.1) st.locals ++ List.map (·.1) (newLocals st.locals.length c1))
          (List.map (·.1) st.undefs) (List.map (·.1) extra) c2
          (by
            intro n hn hl
            have := gm n hn
            simp only [List.mem_flatMap] at this
            obtain ⟨ev, hev, hmn⟩ := this
            exact hfwd ev hev n hmn hl)
        rw [this] at k3
        have hnl := namesOf_newLocals st.locals.length c1
        simp only [namesOf] at hnl ⊢
        rw [← hnl]; exact k3
      · rw [newLocals_append, e1]
        simp [withLocals]
    · rw [run_append, run_frame hL2, h2]
      simp only [mapOk]
      rw [e3, hlen] at h4
      exact h4
  · rintro ⟨sp, h1, h2⟩
    obtain ⟨k, e⟩ := precreate_char.mp h1
    rw [preCheck_append, Bool.and_eq_true] at k
    rw [newLocals_append] at e
    have hsp : sp = withLocals (withLocals st (newLocals st.locals.length c1)) (newLocals (st.locals.length + (labelsOf c1).length) c2) := by
      rw [e]; simp [withLocals]
    have h1' : precreate t st c1 = .ok (withLocals st (newLocals st.locals.length c1)) := precreate_char.mpr ⟨k.1, rfl⟩
    rw [hsp, run_append, run_frame hL2] at h2
    cases hr : run t (withLocals st (newLocals st.locals.length c1)) c1 with
    | error x => rw [hr] at h2; cases h2
    | ok sa =>
      rw [hr] at h2
      simp only [mapOk] at h2
      obtain ⟨gl, extra, gu, gm⟩ := run_grows hr
      have hlen : sa.locals.length = st.locals.length + (labelsOf c1).length := by
        rw [gl]; simp [withLocals, length_newLocals]
      refine ⟨_, sa, withLocals sa (newLocals sa.locals.length c2), h1', hr, ?_, ?_⟩
      · rw [precreate_char]
        refine ⟨?_, rfl⟩
        rw [gl, gu]
        simp only [withLocals, namesOf, List.map_append]
        rw [preCheck_extra t _ _ _ c2
          (by
            intro n hn hl
            have := gm n hn
            simp only [List.mem_flatMap] at this
            obtain ⟨ev, hev, hmn⟩ := this
            exact hfwd ev hev n hmn hl)]
        have hnl := namesOf_newLocals st.locals.length c1
        simp only [namesOf] at hnl
        rw [hnl]; exact k.2
      · rw [hlen]; exact h2

/-! ### one name, one symbol -/

/-- **one name, one symbol**: whatever is assembled, in however many chunks, the symbols the
assembler holds (labels and undefined symbols) have pairwise different names, none of which the
target module defines -/
theorem one_name_one_symbol {t : Target} {chunks : List (List Event)} {st : AState}
    (h : assembleChunks t {} chunks = .ok st) :
    (namesOf st.locals ++ namesOf st.undefs).Nodup ∧
    ∀ n ∈ namesOf st.locals ++ namesOf st.undefs, t.moduleSyms.any (·.1 == n) = false :=
  assembleChunks_names (NamesOk.empty t) h

/-! ### the statements are not vacuous -/

def sampleTarget : Target := { moduleSyms := [("modfn", true)], allowUndef := true, trivUnreach := false }

def chunkA : List Event := [.section ".text" true, .label "a", .insn 5 .call false [{ off := 1, size := 4, sym := "ext", addend := 0 }]]
def chunkB : List Event := [.section ".text" true, .label "b", .insn 2 .jmp false [{ off := 1, size := 1, sym := "a", addend := 0 }]]

example : ∀ ev ∈ chunkA, ∀ n ∈ ev.mentions, n ∉ labelsOf chunkB := by decide

example : (assembleChunks sampleTarget {} [chunkA, chunkB]).toOption.map (fun st => (st.locals, st.undefs, st.cfg.length)) =
    some ([("a", 1), ("b", 3)], [("ext", 1)], 5) := by decide

example : (assembleChunks sampleTarget {} [chunkA ++ chunkB]).toOption.map (fun st => (st.locals, st.undefs, st.cfg.length)) =
    some ([("a", 1), ("b", 3)], [("ext", 1)], 5) := by decide

example : symName (some (patchSuffix 7)) true ".Lloop" = ".Lloop_7" := by decide

end GtirbVerif.Props.C13
