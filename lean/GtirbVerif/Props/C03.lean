import GtirbVerif.Lemmas.IRCfg
import GtirbVerif.Lemmas.IRCfgJoin
import GtirbVerif.Spec.FlatCfg

/-!
# C03 — the CFG equals the control flow of the edited listing, per instruction

* **specification** — `FlatCfg.checkCfg` (Spec/FlatCfg.lean): from the instructions an
  independent disassembler finds in the rewritten module's bytes and the symbolic operands, the
  rules say which fallthrough, branch, call and return edges every block must have, that no
  control transfer is buried inside a block, and that every edge endpoint is part of the
  module.  The driver evaluates it on the real output (oracle).
* **model** — the CFG steps of `split_block`, `join_blocks`, `remove_block`, `insert`
  (`IR.splitCode`, `IR.joinCode`, `IR.removeInEdges`/`removeOutEdges`, `IR.insertStitch`,
  `IR.connectEmptyTail`, return-edge maintenance), compared with the real code after every
  recorded operation (correspondence).
* **theorems** (this file, every IR): the edge set after a split in the middle is exactly the
  old one with the block's out-edges re-sourced to the tail, so the head's only successor is
  the connecting fallthrough; joining a non-empty block that does not fall through (it ends in
  a jump or return) with the dead empty block behind it adds no edge — no fallthrough after a
  terminator; the empty tail behind a terminator gets at most the one fallthrough to the code
  that physically follows.

  *No edge starts or ends at a block that left the module*, per operation: after `join_blocks`
  no edge starts or ends at the absorbed block; after `remove_block` has removed a code block no
  edge ends at it, and none starts at it when no return edge left it (Lemmas/IRCfgJoin.lean).

Partial: the composition over whole `insert`/`delete` calls and the return-edge bookkeeping are
decided by the oracle on the real output and by the correspondence, not by a theorem.  The
hypothesis of `remove_leaves_no_edge_from_the_removed_block` is needed: `_remove_outgoing_edges`
hands a block that both calls and returns for the callee's function a fresh return edge to a proxy
after its own out-edges were snapshotted, in the code as in the model (a block ends in one
terminator, so a CFG consistent with its code has no such block).
-/
namespace GtirbVerif.Props.C03
open GtirbVerif GtirbVerif.IR
open GtirbVerif.Adt (CfgNode Label Edge)

/-- bulk `update_edge` over a snapshot: everything not moved stays, every moved edge appears
as its image -/
theorem bulk_update_edges (f : Edge → Edge) (l : List Edge) (hf : ∀ e ∈ l, f e ∉ l) (cfg : List Edge) (e' : Edge) :
    e' ∈ moveEdges f cfg l ↔ (e' ∈ cfg ∧ e' ∉ l) ∨ ∃ e ∈ l, e' = f e :=
  mem_moveEdges f l hf cfg e'

/-- **split in the middle**: the out-edges of the block now leave from the tail and nothing else
changed -/
theorem split_mid_moves_out_edges_to_tail (ir : IR) (b nb : Nat) (hne : nb ≠ b) (e' : Edge) :
    e' ∈ (ir.splitEdgesMid b nb).cfg ↔
      (e' ∈ ir.cfg ∧ e'.src ≠ .block b) ∨ ∃ e ∈ ir.cfg, e.src = .block b ∧ e' = updSrc e (.block nb) :=
  splitEdgesMid_cfg ir b nb hne e'

/-- … so the head has no successor but the connecting fallthrough -/
theorem split_mid_head_only_falls_through (ir : IR) (b nb : Nat) (hne : nb ≠ b) :
    ((ir.splitEdgesMid b nb).addFall b nb).outEdges b =
      [{ src := .block b, dst := .block nb, label := fallLabel }] := by
  have h0 := splitEdgesMid_head_has_no_successor ir b nb hne
  unfold IR.addFall IR.outEdges at *
  simp only []
  unfold cfgAdd
  split
  · rename_i hin
    have : ({ src := CfgNode.block b, dst := CfgNode.block nb, label := fallLabel } : Edge) ∈
        List.filter (fun e => e.src == CfgNode.block b) (ir.splitEdgesMid b nb).cfg := by
      simp [List.mem_filter, hin]
    rw [h0] at this
    cases this
  · simp [List.filter_append, h0]

/-- **never a fallthrough after a jump or return through joining**: block1 has bytes, block2 is
empty, block1 does not fall through into block2 ⇒ joining adds no edge -/
theorem join_does_not_inherit_dead_fallthrough (ir : IR) (b1 : Block) (id2 : Nat) (h1 : b1.size ≠ 0)
    (hflow : (ir.inEdges id2).any (fun e => Edge.isFall e && e.src == .block b1.id) = false) :
    ∀ e ∈ (ir.joinCode b1 id2 0).cfg, e ∈ ir.cfg :=
  joinCode_dead_tail ir b1 id2 h1 hflow

/-- the empty tail behind a terminator gets at most one new edge: a fallthrough to the code
block that follows, and only if it had no successor -/
theorem empty_tail_falls_to_next_code (ir : IR) (t : Nat) (e' : Edge) (h : e' ∈ (ir.connectEmptyTail t).cfg) :
    e' ∈ ir.cfg ∨ (∃ n, e' = { src := .block t, dst := .block n, label := fallLabel } ∧
      (ir.outEdges t).isEmpty ∧ ir.isCodeBlockId (some n)) :=
  connectEmptyTail_cfg ir t e' h

/-! ### non-vacuity -/
private def e0 : Edge := { src := .block 1, dst := .block 2, label := fallLabel }
example : moveEdges (fun e => updSrc e (.block 9)) [e0] [e0] = [{ src := .block 9, dst := .block 2, label := fallLabel }] := by decide

/-- **join: no edge is left on the absorbed block** -/
theorem join_leaves_no_edge_on_the_absorbed_block {ir ir' : IR} {id1 id2 : Nat} {b1 b2 : Block}
    (h : ir.joinBlocks id1 id2 = .ok ir') (h1 : ir.block? id1 = some b1) (h2 : ir.block? id2 = some b2)
    (hne : id1 ≠ id2) (hcode : b2.isCode = true) :
    ∀ e ∈ ir'.cfg, e.src ≠ .block id2 ∧ e.dst ≠ .block id2 :=
  joinBlocks_no_edge_on_block2 h h1 h2 hne hcode

/-- **remove: no edge ends at the removed block** (a code block; the next block the ordering names
is another block) -/
theorem remove_leaves_no_edge_into_the_removed_block {ir ir' : IR} {b : Nat} {px : Bool} {blk : Block}
    (h : ir.removeBlock b px = .ok (ir', true)) (hb : ir.block? b = some blk) (hcode : blk.isCode = true)
    (hnext : px = false → (ir.adjacent blk).2.getD 0 ≠ b) :
    ∀ e ∈ ir'.cfg, e.dst ≠ .block b :=
  removeBlock_no_in_edge h hb hcode hnext

/-- **remove: no edge starts at the removed block** (a code block that no return edge leaves) -/
theorem remove_leaves_no_edge_from_the_removed_block {ir ir' : IR} {b : Nat} {px : Bool} {blk : Block}
    (h : ir.removeBlock b px = .ok (ir', true)) (hb : ir.block? b = some blk) (hcode : blk.isCode = true)
    (hnr : ∀ e ∈ ir.cfg, e.src = .block b → Edge.isRet e = false) :
    ∀ e ∈ ir'.cfg, e.src ≠ .block b :=
  removeBlock_no_out_edge h hb hcode hnr

end GtirbVerif.Props.C03
