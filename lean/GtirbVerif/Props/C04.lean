import GtirbVerif.Lemmas.IRAnn
import GtirbVerif.Lemmas.IRExprs

/-!
# C04 — symbolic expressions and offset-keyed aux data travel with bytes

* **specification** — `Listing.checkAnnotations` (Spec/ListingCheck.lean): the multiset of
  (table, section position, value) after the rewrite is the image of the original one under the
  listing's byte map `mapByte` (entries on deleted bytes vanish) plus the patch's own entries at
  patch position + offset; evaluated by the driver on the real before/after modules (oracle).
* **model** — `shiftKeys` / `IR.editInterval`, `splitOmaps` / `splitCfi`, `joinOmaps` / `joinCfi`,
  `IR.removeAuxEntries` follow the dict comprehensions of `_modify/*.py`; compared with the real
  code after every recorded `insert` / `delete` (correspondence).
* **theorems** (this file, every IR, every table): the `k < offset` / `k ≥ offset + length`
  boundaries of `edit_byte_interval` keep exactly the entries outside the replaced range and
  shift those behind it by the size change, nothing is left inside the range or beyond the new
  end; re-keying by `split_block` and `join_blocks` moves no entry (same byte interval, same
  offset); `remove_block` drops exactly the entries keyed by the removed block.
-/
namespace GtirbVerif.Props.C04
open GtirbVerif GtirbVerif.IR

/-- **`edit_byte_interval` on an offset table / the symbolic expressions**: an entry survives
iff it lies before the edit (same key) or at/after the end of the replaced range (key moved
by `len(content) - length`). -/
theorem edit_keeps_outside_shifts_behind {β} (off len n : Nat) (m : List (Nat × β)) (k' : Nat) (v : β) :
    (k', v) ∈ shiftKeys off len n m ↔
      ∃ k, (k, v) ∈ m ∧ ((k < off ∧ k' = k) ∨ (off + len ≤ k ∧ k' = k + n - len)) :=
  mem_shiftKeys off len n m k' v

/-- nothing is left pointing into the replaced bytes' place or outside the byte interval -/
theorem edit_leaves_nothing_dangling {β} (off len n size : Nat) (m : List (Nat × β)) (hlen : off + len ≤ size)
    (hm : ∀ k v, (k, v) ∈ m → k < size) (k' : Nat) (v : β) (h : (k', v) ∈ shiftKeys off len n m) :
    k' < size + n - len ∧ (k' < off ∨ off + n ≤ k') :=
  shiftKeys_bound off len n size m hlen hm k' v h

/-- the symbolic expressions of an edited interval are exactly `shiftKeys` of the old ones -/
theorem edit_shifts_symbolic_expressions (ir : IR) (i off len : Nat) (content st : List Nat) (iv : Interval)
    (h : ir.interval? i = some iv) :
    ((ir.editInterval i off len content st).interval? i).map (·.symExprs) =
      some (shiftKeys off len content.length iv.symExprs) :=
  editInterval_symExprs ir i off len content st iv h

/-- `split_block` re-keys the entries at displacement ≥ offset to the new block without moving
them; the tables afterwards are exactly the re-keyed ones (CFI: with the `.cfi_endproc` rule). -/
theorem split_moves_no_entry {ir ir' : IR} {b off nb : Nat} {added : Bool} {blk : Block}
    (h : ir.splitBlock b off = .ok (ir', nb, added)) (hb : ir.block? b = some blk)
    (hfresh : ir.block? ir.next = none) :
    (ir'.aux.omaps = splitOmaps ir.aux.omaps b nb off ∧ ir'.aux.cfi = splitCfi ir.aux.cfi b nb off) ∧
    ∀ el k pos, ir.entryPos el k = some pos →
      ir'.entryPos (if el == Elem.block b && decide (k ≥ off) then (Elem.block nb, k - off) else (el, k)).1
        (if el == Elem.block b && decide (k ≥ off) then (Elem.block nb, k - off) else (el, k)).2 = some pos :=
  ⟨splitBlock_omaps h hb, fun el k pos hp => splitOmaps_pos h hb hfresh el k pos hp⟩

/-- `join_blocks` re-keys block2's entries to block1 at `block1.size + displacement`, the place
they already had. -/
theorem join_moves_no_entry {ir ir' : IR} {id1 id2 : Nat} {b1 b2 : Block}
    (h : ir.joinBlocks id1 id2 = .ok ir') (h1 : ir.block? id1 = some b1) (h2 : ir.block? id2 = some b2)
    (hne : id1 ≠ id2) :
    (ir'.aux.omaps = joinOmaps ir.aux.omaps b1.id b1.size id2 ∧ ir'.aux.cfi = joinCfi ir.aux.cfi b1.id b1.size id2) ∧
    ∀ el k pos, ir.entryPos el k = some pos →
      ir'.entryPos (if el == Elem.block id2 then (Elem.block id1, b1.size + k) else (el, k)).1
        (if el == Elem.block id2 then (Elem.block id1, b1.size + k) else (el, k)).2 = some pos :=
  ⟨joinBlocks_omaps h h1 h2, fun el k pos hp => joinOmaps_pos h h1 h2 hne el k pos hp⟩

/-- annotations on removed bytes disappear: `remove_block` drops exactly the entries keyed by
the removed block from every offset table -/
theorem remove_drops_the_blocks_entries {ir ir' : IR} {b : Nat} {px r : Bool} {blk : Block}
    (h : ir.removeBlock b px = .ok (ir', r)) (hb : ir.block? b = some blk) :
    ir'.aux.omaps = ir.aux.omaps.map (fun (name, entries) =>
      (name, entries.filter (fun (el, _, _) => el != Elem.block b))) :=
  removeBlock_omaps h hb

/-- **a whole `delete` keeps every symbolic expression on its byte**: whatever `delete` does to the
blocks (two splits, a removal, joins), in the byte interval of the block the expressions in front of
the deleted range keep their offset, those behind it move down by the deleted length and those on
the deleted bytes are gone (`edit_keeps_outside_shifts_behind` says what `shiftKeys` contains);
the expressions of every other interval are untouched -/
theorem delete_keeps_expressions_on_their_bytes {ir ir' : IR} {b off len : Nat} {px : Bool} {r : Option Nat}
    {blk : Block} {i : Nat} {iv : Interval}
    (h : ir.delete b off len px = .ok (ir', r))
    (hb : ir.block? b = some blk) (hbi : blk.bi = some i) (hiv : ir.interval? i = some iv) :
    ir'.exprsOf i = some (shiftKeys (blk.off + off) len 0 iv.symExprs) ∧
    ∀ j, j ≠ i → ir'.exprsOf j = ir.exprsOf j :=
  delete_symExprs h hb hbi hiv

/-- **a whole `insert`**: the old expressions of the block's byte interval stay on their bytes
(`shiftKeys` around the replaced range), every expression of the patch appears at the patch
position plus its offset inside the patch (`aset (block.offset + offset + k) e`, the patch's
expression object as it is: symbol, addend, attributes), and no other interval the module had
changes -/
theorem insert_places_patch_expressions {ir ir' : IR} {b off repl last : Nat} {p : Patch} {blk : Block} {i : Nat}
    {iv : Interval}
    (h : ir.insert b off repl p = .ok (ir', last))
    (hb : ir.block? b = some blk) (hbi : blk.bi = some i) (hiv : ir.interval? i = some iv) :
    ir'.exprsOf i = some (p.text.symExprs.foldl (fun m (x : Nat × SymExpr) => aset (blk.off + off + x.1) x.2 m)
      (shiftKeys (blk.off + off) repl p.text.data.length iv.symExprs)) ∧
    ∀ j, j ≠ i → ir.exprsOf j ≠ none → ir'.exprsOf j = ir.exprsOf j :=
  insert_symExprs h hb hbi hiv

/-! ### non-vacuity -/
example : shiftKeys 2 3 1 [(0, "a"), (2, "b"), (4, "c"), (5, "d"), (9, "e")] = [(0, "a"), (3, "d"), (7, "e")] := by decide

end GtirbVerif.Props.C04
