import GtirbVerif.Model.Symbols.Delete

/-!
# C19 — delete_symbol removes every trace of the symbol, and only that

* **model** — `Symbols.deleteSymbols` follows `_modify/delete_symbols.py` table by table; the real
  function is run (through `RewritingContext.delete_symbol` + `apply()`) on generated ELF and PE
  modules and compared with the model on every run (correspondence); the real result is also
  scanned directly (no table, expression or CFI directive mentions a deleted symbol, untouched
  entries are untouched, the module serializes).
* **theorems** (this file, for every module and every request): after a successful deletion no
  table mentions a deleted symbol — elfSymbolInfo, elfSymbolTabIdxInfo, elfSymbolVersions
  entries, functionNames, PE import/export lists, symbolForwarding keys and values, CFI
  directives (personality/LSDA get DW_EH_PE_omit), the symbol set, and - for forced symbols -
  the symbolic expressions; everything not asked for is untouched; the call fails exactly when
  an unforced symbol is still used, and with force exactly the expressions using a forced
  symbol are removed; version definitions and requirements are dropped exactly when no
  remaining symbol uses them, the base definition always stays.
-/
namespace GtirbVerif.Props.C19
open GtirbVerif.Symbols

variable {r : Req} {m m' : Mod}

theorem deleteSymbols_ok (h : deleteSymbols r m = .ok m') :
    ∃ ex, deleteExprs r (deleteAux r m).exprs = .ok ex ∧
      m' = { deleteAux r m with exprs := ex, syms := (deleteAux r m).syms.filter (!r.has ·) } := by
  unfold deleteSymbols at h
  simp only [] at h
  split at h
  · cases h
  · rename_i ex hex
    injection h with h
    exact ⟨ex, hex, h.symm⟩

theorem aux_exprs (r : Req) (m : Mod) : (deleteAux r m).exprs = m.exprs := rfl
theorem aux_syms (r : Req) (m : Mod) : (deleteAux r m).syms = m.syms := rfl

theorem deleteExprs_ok {exprs ex : List Expr} (h : deleteExprs r exprs = .ok ex) :
    ex = exprs.filter (fun e => !(e.syms.any (fun s => r.force s == some true))) ∧
    ∀ e ∈ exprs, ∀ s ∈ e.syms, r.force s ≠ some false := by
  unfold deleteExprs at h
  split at h
  · cases h
  · rename_i hnone
    injection h with h
    refine ⟨h.symm, ?_⟩
    intro e he s hs hf
    rw [List.findSome?_eq_none_iff] at hnone
    have := hnone e he
    rw [List.find?_eq_none] at this
    exact this s hs (by simp [hf])

/-- **no trace**: after a successful deletion nothing mentions a deleted symbol -/
theorem no_trace (h : deleteSymbols r m = .ok m') (s : Nat) (hs : r.has s = true) :
    s ∉ m'.syms ∧ s ∉ m'.elfSymInfo ∧ s ∉ m'.elfTabIdx ∧ (∀ v, (s, v) ∉ m'.verEntries) ∧
    (∀ f, (f, s) ∉ m'.funcNames) ∧ s ∉ m'.peImports ∧ s ∉ m'.peExports ∧
    (∀ k v, (k, v) ∈ m'.forwarding → k ≠ s ∧ v ≠ s) ∧
    (∀ d ∈ m'.cfi, d.sym ≠ some s) := by
  obtain ⟨ex, hex, rfl⟩ := deleteSymbols_ok h
  refine ⟨?_, ?_, ?_, ?_, ?_, ?_, ?_, ?_, ?_⟩
  · simp only [List.mem_filter, not_and]; intro _; simp [hs]
  · show s ∉ m.elfSymInfo.filter (!r.has ·)
    simp only [List.mem_filter, not_and]; intro _; simp [hs]
  · show s ∉ m.elfTabIdx.filter (!r.has ·)
    simp only [List.mem_filter, not_and]; intro _; simp [hs]
  · intro v
    show (s, v) ∉ m.verEntries.filter (fun (s, _) => !r.has s)
    simp only [List.mem_filter, not_and]; intro _; simp [hs]
  · intro f
    show (f, s) ∉ m.funcNames.filter (fun (_, y) => !r.has y)
    simp only [List.mem_filter, not_and]; intro _; simp [hs]
  · show s ∉ m.peImports.filter (!r.has ·)
    simp only [List.mem_filter, not_and]; intro _; simp [hs]
  · show s ∉ m.peExports.filter (!r.has ·)
    simp only [List.mem_filter, not_and]; intro _; simp [hs]
  · intro k v hkv
    have : (k, v) ∈ m.forwarding.filter (fun (k, v) => !(r.has k || r.has v)) := hkv
    simp only [List.mem_filter, Bool.not_eq_true', Bool.or_eq_false_iff] at this
    constructor
    · intro hk; rw [hk, hs] at this; exact absurd this.2.1 (by simp)
    · intro hv; rw [hv, hs] at this; exact absurd this.2.2 (by simp)
  · intro d hd
    have : d ∈ updateCfi r m.cfi := hd
    unfold updateCfi at this
    obtain ⟨d0, _, rfl⟩ := List.mem_map.mp this
    cases hsym : d0.sym with
    | none => simp [hsym]
    | some s0 =>
      simp only [hsym]
      by_cases h0 : r.has s0 = true
      · simp only [h0, if_true]
        split <;> simp
      · simp only [h0, Bool.false_eq_true, if_false, hsym]
        intro heq
        injection heq with heq
        rw [heq] at h0; exact h0 hs

/-- a forced deletion removes exactly the expressions that use a forced symbol; without error no
expression uses an unforced symbol of the request -/
theorem expressions (h : deleteSymbols r m = .ok m') :
    m'.exprs = m.exprs.filter (fun e => !(e.syms.any (fun s => r.force s == some true))) ∧
    ∀ e ∈ m.exprs, ∀ s ∈ e.syms, r.force s ≠ some false := by
  obtain ⟨ex, hex, rfl⟩ := deleteSymbols_ok h
  exact deleteExprs_ok hex

/-- the call fails exactly when some expression still uses a symbol whose deletion was not forced -/
theorem fails_iff_unforced_use :
    (∃ e, deleteSymbols r m = .error e) ↔ ∃ e ∈ m.exprs, ∃ s ∈ e.syms, r.force s = some false := by
  unfold deleteSymbols
  simp only [aux_exprs]
  unfold deleteExprs
  cases hfs : m.exprs.findSome? (fun e => e.syms.find? (fun s => r.force s == some false)) with
  | some s' =>
    simp only []
    constructor
    · intro _
      obtain ⟨x, hx, hf⟩ := List.exists_of_findSome?_eq_some hfs
      have hp := List.find?_some hf
      exact ⟨x, hx, s', List.mem_of_find?_eq_some hf, by simpa using hp⟩
    · intro _; exact ⟨_, rfl⟩
  | none =>
    simp only []
    constructor
    · rintro ⟨e, he⟩; cases he
    · rintro ⟨x, hx, s, hs, hf⟩
      rw [List.findSome?_eq_none_iff] at hfs
      have := hfs x hx
      rw [List.find?_eq_none] at this
      exact absurd (by simp [hf]) (this s hs)

/-- **only that**: entries that do not involve a deleted symbol are untouched, in order -/
theorem others_untouched (h : deleteSymbols r m = .ok m') :
    m'.elfSymInfo = m.elfSymInfo.filter (!r.has ·) ∧ m'.elfTabIdx = m.elfTabIdx.filter (!r.has ·) ∧
    m'.verEntries = m.verEntries.filter (fun (s, _) => !r.has s) ∧
    m'.funcNames = m.funcNames.filter (fun (_, y) => !r.has y) ∧
    m'.peImports = m.peImports.filter (!r.has ·) ∧ m'.peExports = m.peExports.filter (!r.has ·) ∧
    m'.forwarding = m.forwarding.filter (fun (k, v) => !(r.has k || r.has v)) ∧
    m'.syms = m.syms.filter (!r.has ·) ∧
    (∀ d ∈ m.cfi, (∀ s, d.sym = some s → r.has s = false) → d ∈ m'.cfi) := by
  obtain ⟨ex, hex, rfl⟩ := deleteSymbols_ok h
  refine ⟨rfl, rfl, rfl, rfl, rfl, rfl, rfl, rfl, ?_⟩
  intro d hd hno
  show d ∈ updateCfi r m.cfi
  unfold updateCfi
  refine List.mem_map.mpr ⟨d, hd, ?_⟩
  cases hsym : d.sym with
  | none => rfl
  | some s => simp [hno s hsym]

/-- **version garbage collection**: a definition stays iff a remaining symbol uses it or it is the
base definition; a required version stays iff a remaining symbol uses it; a library goes iff it
had versions and all of them went -/
theorem version_gc (h : deleteSymbols r m = .ok m') :
    let keep := (m.verEntries.filter (fun (s, _) => !r.has s)).map (·.2)
    m'.verDefs = m.verDefs.filter (fun (id, flags) => keep.contains id || flags % 2 == 1) ∧
    m'.verReqs = m.verReqs.filterMap (fun (lib, ids) =>
      if (ids.filter keep.contains).isEmpty && !ids.isEmpty then none else some (lib, ids.filter keep.contains)) := by
  obtain ⟨ex, hex, rfl⟩ := deleteSymbols_ok h
  exact ⟨rfl, rfl⟩

/-- personality / LSDA directives that named a deleted symbol carry DW_EH_PE_omit -/
theorem personality_gets_omit (s : Nat) (hs : r.has s = true) (d : Cfi) (hd : d ∈ m.cfi) (hsym : d.sym = some s)
    (hn : d.name = ".cfi_personality" ∨ d.name = ".cfi_lsda") :
    ({ d with args := [omitEncoding], sym := none } : Cfi) ∈ updateCfi r m.cfi := by
  unfold updateCfi
  refine List.mem_map.mpr ⟨d, hd, ?_⟩
  simp only [hsym, hs, if_true]
  rcases hn with hn | hn <;> simp [hn]

/-! ### non-vacuity -/
private def demo : Mod :=
  { syms := [1, 2, 3], exprs := [⟨0, 4, [1]⟩, ⟨0, 9, [2]⟩], elfSymInfo := [1, 2, 3], elfTabIdx := [1],
    verDefs := [(1, 3), (2, 0), (5, 0)], verReqs := [("libc", [3, 4]), ("libm", [6])], verEntries := [(1, 2), (2, 3), (3, 5)],
    funcNames := [(10, 1)], peImports := [], peExports := [], forwarding := [(1, 2), (3, 2)],
    cfi := [⟨0, ".cfi_personality", [155], some 1⟩] }
example : (deleteSymbols [(1, true)] demo).map (fun x => (x.syms, x.exprs.length, x.verDefs, x.verReqs, x.forwarding, x.cfi.map (·.args)))
    = .ok ([2, 3], 1, [(1, 3), (5, 0)], [("libc", [3])], [(3, 2)], [[255]]) := by rfl
example : deleteSymbols [(1, false)] demo = .error (.usesRemaining 1) := by rfl

end GtirbVerif.Props.C19
