import GtirbVerif.Lemmas.AbiCall
import GtirbVerif.Gen.AbiFull
import GtirbVerif.Spec.Platform

/-!
# C17 — CallPatch follows the calling convention and is stack-neutral
-/
namespace GtirbVerif.Props.C17
open GtirbVerif GtirbVerif.Abi

/-- **argument assignment**: the i-th argument goes with the i-th convention
register; arguments beyond the register list get none (they go to the stack,
in order) — for any number of arguments and any register list -/
theorem arg_in_reg (regs : List String) (args : List ArgVal) (i : Nat) :
    (passedArgs regs args)[i]? = args[i]?.map (fun a => (a, regs[i]?)) ∧
    (passedArgs regs args).length = args.length :=
  ⟨passedArgs_get regs args i, passedArgs_length regs args⟩

/-- the default conventions handed to CallPatch (regenerated from `abi._ABIS`)
are the platform ABIs' -/
theorem conventions_standard :
    Gen.abiAll.all (fun abi =>
      Std.callConv.lookup (abi.isa, abi.ff) == some (abi.ccRegs, abi.ccAlign, abi.ccShadow)) = true := by
  decide +kernel

/-- **x86 (IA32, x86-64; System V, Microsoft, any custom convention): state at
the call and stack neutrality**, for every argument list, every convention
with distinct registers, every reported prologue adjustment -/
theorem x86_call (env : SymEnv) (W : Nat) (hW : 0 < W) (lo hi : Int) (conv : Conv) (f : String)
    (args : List ArgVal) (adj : Option Nat) (σ : CM)
    (hvalid : ∀ p ∈ passedArgs conv.regs args, x86ArgValid lo hi p) (hnd : conv.regs.Nodup) :
    let pa := passedArgs conv.regs args
    let argStack := W * stackArgCount pa
    let total := adj.getD 0 + argStack + conv.shadow
    let padding := alignUp total conv.align - total
    let calleePops : Int := if conv.callerCleanup then 0 else argStack
    ∃ σ' regs spc mem, crun env W lo hi calleePops (x86Call W conv f args adj) σ = .ok σ' ∧
      σ'.sp = σ.sp ∧ σ'.snap = some (f, regs, spc, mem) ∧
      spc = σ.sp - padding - argStack - conv.shadow ∧
      (∀ a r, (a, some r) ∈ pa → regs r = x86Val env a) ∧
      (∀ j (hj : j < (stackVals pa).length),
        mem (spc + conv.shadow + W * j) = some (x86Val env ((stackVals pa)[j]))) :=
  x86_call_at env W hW lo hi conv f args adj σ hvalid hnd

/-- **aligned at the call**: if the address `adj` above the patch's entry `sp`
is aligned to the convention (the prologue's adjustment is known), or the
entry `sp` itself is (align_stack, adjustment unknown = 0 here), the stack
pointer at the call is aligned — shadow space included -/
theorem aligned_at_call (W : Nat) (conv : Conv) (nStack : Nat) (adj : Option Nat) (sp0 : Int)
    (ha : 0 < conv.align) (h0 : sp0 % (conv.align : Int) = 0) :
    let argStack := W * nStack
    let total := adj.getD 0 + argStack + conv.shadow
    let padding := alignUp total conv.align - total
    ((sp0 - (adj.getD 0 : Nat)) - padding - argStack - conv.shadow) % (conv.align : Int) = 0 :=
  x86_call_aligned W conv nStack adj sp0 ha h0

/-- integers arrive exactly on ARM64 (mod 2^64), through `mov`, or `movz` and
the needed `movk`s — for every integer -/
theorem int_exact_arm64 (env : SymEnv) (W lo hi cp : Int) (r : String) (v : Int) (σ : CM) :
    ∃ σ', crun env W lo hi cp (loadImmediate r v) σ = .ok σ' ∧ σ'.reg r = v % 2 ^ 64 ∧
      (∀ r', r' ≠ r → σ'.reg r' = σ.reg r') ∧ σ'.sp = σ.sp ∧ σ'.mem = σ.mem ∧ σ'.snap = σ.snap :=
  loadImmediate_ok env W lo hi cp r v σ

/-- a symbol argument arrives as the symbol's address on ARM64 -/
theorem sym_is_address_arm64 (env : SymEnv) (W lo hi cp : Int) (r s : String) (σ : CM) :
    ∃ σ', crun env W lo hi cp (loadArg r (.sym s)) σ = .ok σ' ∧ σ'.reg r = env.addr s ∧
      (∀ r', r' ≠ r → σ'.reg r' = σ.reg r') ∧ σ'.sp = σ.sp ∧ σ'.mem = σ.mem :=
  loadSymbol_ok env W lo hi cp r s σ

/-- **negative witness (known finding)**: on x86 a symbol argument is passed
with `mov reg, sym[rip]` / `push sym[rip]`, a *load*: the callee receives the
word stored at the symbol, not its address. Kernel-checked on a concrete
environment where the two differ. -/
theorem symbol_argument_x86_partial :
    ∃ (env : SymEnv) (σ : CM) (σ' : CM),
      crun env 8 (-(2 ^ 31)) (2 ^ 31) 0
        (x86Call 8 { regs := ["RDI"], align := 16, callerCleanup := true, shadow := 0 } "f" [.sym "s"] (some 0)) σ
        = .ok σ' ∧
      (match σ'.snap with
       | some (_, regs, _, _) => regs "RDI" = env.contents "s" ∧ regs "RDI" ≠ env.addr "s"
       | none => False) := by
  refine ⟨{ addr := fun _ => 0x1000, contents := fun _ => 42 },
    { reg := fun _ => 0, sp := 0x8000, mem := fun _ => none }, _, rfl, ?_⟩
  decide

/-- the ARM64 stack reservation is a multiple of 16, so a 16-byte aligned `sp`
stays aligned at the `bl` -/
theorem arm64_reservation_aligned (n : Nat) : alignUp (n * 8) 16 % 16 = 0 ∧ n * 8 ≤ alignUp (n * 8) 16 := by
  have := alignUp_spec (n * 8) 16 (by omega)
  exact ⟨this.1, this.2.1⟩

/-! ## non-vacuity -/

example : x86Call 8 { regs := ["RCX", "RDX", "R8", "R9"], align := 16, callerCleanup := true, shadow := 32 }
    "f" [.int 1, .int 2, .int 3, .int 4, .int 5] (some 8) =
    [.pushImm 5, .movImm "R9" 4, .movImm "R8" 3, .movImm "RDX" 2, .movImm "RCX" 1, .subSp 32, .call "f",
      .addSp 40] := by decide +kernel

end GtirbVerif.Props.C17
