import GtirbVerif.Lemmas.IRBytes
import GtirbVerif.Lemmas.Splice
import GtirbVerif.Lemmas.IRBatch
import GtirbVerif.Lemmas.IRAll

/-!
# C01 — rewriting edits bytes exactly like editing the assembly listing

The statement quantifies over all modules and all sets of non-overlapping requests.  It is
decided in three layers (DESIGN.md §C01):

* **specification** — `Listing.spliceSpec` (Spec/Listing.lean) *is* the sentence "the original
  bytes with each patch spliced in at its offset and each replaced range removed";
  `Listing.layoutPieces` adds the alignment padding.  The driver evaluates it on the real
  before/after modules (oracle).
* **model** — `IR.insert` / `IR.delete` (Model/IR) follow `_modify/edit.py` statement by
  statement, `Batch.seqSplice` follows the offset bookkeeping of `_apply_modifications`;
  both are compared with the real code on every run (correspondence).
* **theorems** (this file, for every IR, every patch, every list of edits): an `insert` is a
  splice of the patch bytes and a `delete` a splice of nothing, *no other byte of the module
  changes* through all the splitting / joining / removing / CFG and aux-data fix-ups, and the
  running-offset loop over sorted disjoint edits computes exactly `spliceSpec`.
-/
namespace GtirbVerif.Props.C01
open GtirbVerif GtirbVerif.IR GtirbVerif.Listing GtirbVerif.Batch

/-- `edit_byte_interval` splices the target interval … -/
theorem edit_is_splice (ir : IR) (i off len : Nat) (content st : List Nat) (iv : Interval)
    (h : ir.interval? i = some iv) :
    (ir.editInterval i off len content st).bytesOf i = some (iv.bytes.take off ++ content ++ iv.bytes.drop (off + len)) :=
  editInterval_bytes_same ir i off len content st iv h

/-- … and no other one. -/
theorem edit_frame (ir : IR) (i j off len : Nat) (content st : List Nat) (hj : j ≠ i) :
    (ir.editInterval i off len content st).bytesOf j = ir.bytesOf j :=
  editInterval_bytes_other ir i j off len content st hj

/-- Splitting a block never changes a byte. -/
theorem split_keeps_bytes {ir ir' : IR} {b off nb : Nat} {added : Bool}
    (h : ir.splitBlock b off = .ok (ir', nb, added)) (j : Nat) : ir'.bytesOf j = ir.bytesOf j :=
  bytesOf_congr (splitBlock_intervals h) j

/-- Joining two blocks never changes a byte. -/
theorem join_keeps_bytes {ir ir' : IR} {a b : Nat} (h : ir.joinBlocks a b = .ok ir') (j : Nat) :
    ir'.bytesOf j = ir.bytesOf j :=
  bytesOf_congr (joinBlocks_intervals h) j

/-- Removing a block (symbols, edges, aux data) never changes a byte: `delete` removes the
bytes separately through `edit_byte_interval`. -/
theorem remove_keeps_bytes {ir ir' : IR} {b : Nat} {px r : Bool}
    (h : ir.removeBlock b px = .ok (ir', r)) (j : Nat) : ir'.bytesOf j = ir.bytesOf j :=
  bytesOf_congr (removeBlock_intervals h) j

/-- The clean-up loop over zero-sized blocks never changes a byte. -/
theorem cleanup_keeps_bytes {ir ir' : IR} {bl : List Nat} {last : Nat}
    (h : ir.cleanup bl = .ok (ir', last)) (j : Nat) : ir'.bytesOf j = ir.bytesOf j :=
  bytesOf_congr (cleanup_intervals h) j

/-- **`delete(block, offset, length)`**: the interval of the block loses exactly the bytes
`[block.offset + offset, +length)`; every other interval is unchanged. -/
theorem delete_is_splice {ir ir' : IR} {b off len : Nat} {px : Bool} {r : Option Nat} {blk : Block} {i : Nat}
    {iv : Interval} (h : ir.delete b off len px = .ok (ir', r))
    (hb : ir.block? b = some blk) (hbi : blk.bi = some i) (hiv : ir.interval? i = some iv) :
    ir'.bytesOf i = some (iv.bytes.take (blk.off + off) ++ iv.bytes.drop (blk.off + off + len)) ∧
    ∀ j, j ≠ i → ir'.bytesOf j = ir.bytesOf j := by
  have := delete_bytes h hb hbi hiv
  simpa [spliceBytes] using this

/-- **`insert(block, offset, replacement_length, patch)`**: the interval of the block gets the
patch's assembled bytes in place of `[block.offset + offset, +replacement_length)`; every
other interval the module had keeps its bytes (the patch may add intervals in other
sections). -/
theorem insert_is_splice {ir ir' : IR} {b off repl last : Nat} {p : Patch} {blk : Block} {i : Nat} {iv : Interval}
    (h : ir.insert b off repl p = .ok (ir', last))
    (hb : ir.block? b = some blk) (hbi : blk.bi = some i) (hiv : ir.interval? i = some iv) :
    ir'.bytesOf i = some (iv.bytes.take (blk.off + off) ++ p.text.data ++ iv.bytes.drop (blk.off + off + repl)) ∧
    ∀ j, j ≠ i → ir.bytesOf j ≠ none → ir'.bytesOf j = ir.bytesOf j :=
  insert_bytes h hb hbi hiv

/-- **The offset bookkeeping of `_apply_modifications`.**  For sorted, pairwise disjoint edits
of a block that sits at `|pfx|` in its interval, applying them one after the other at
`block.offset + offset + total_insert_len` turns `pfx ++ block ++ sfx` into
`pfx ++ spliceSpec block ++ sfx`: every patch exactly once at its offset, in the order of
the list, every deleted range gone, every other byte where it was relative to its
neighbours. -/
theorem sequential_is_simultaneous (block pfx sfx : List Nat) (es : List LEdit)
    (h : Disjoint block.length 0 es) :
    seqSplice pfx.length (pfx ++ block ++ sfx) 0 es = pfx ++ spliceSpec block 0 es ++ sfx :=
  seqSplice_block_in_interval block pfx sfx es h

/-- size accounting of the splice -/
theorem splice_length (block : List Nat) (es : List LEdit) (h : Disjoint block.length 0 es) :
    (spliceSpec block 0 es).length + (es.map (·.del)).sum = block.length + (es.map (·.ins.length)).sum := by
  have := spliceSpec_length block.length block rfl es 0 (Nat.zero_le _) h
  simpa using this

/-- **The loop of `_apply_modifications`, on the IR, for every list of resolved requests of a
block.**  `IR.applyMods` carries out request after request with `IR.insert` / `IR.delete` on
the block the previous request returned, at `offset + total_insert_len - block_delta`.  If it
succeeds on sorted, pairwise disjoint requests, the byte interval of the block holds what
was in front of the block, then *the listing splice of the block's bytes* - every patch
exactly once at its offset, in list order, every deleted or replaced range gone - then what
was behind it; every other interval the module had is untouched.

Hypotheses: the block lies inside the initialized bytes of its interval; block ids in use are
below the model's id counter (`IdsBelow`: true of every state the harness hands to the
model, and kept by every operation); the blocks of each patch are new objects when the
patch is inserted (`NewBlocks`); `Disjoint` is what `resolve_offsets` establishes. -/
theorem loop_is_listing {ir ir' : IR} {b i : Nat} {blk : Block} {iv : Interval} {ms : List Mod} {func : Option Nat}
    (h : ir.applyMods blk.off func (some b) 0 ms = .ok ir')
    (hb : ir.block? b = some blk) (hbi : blk.bi = some i) (hiv : ir.interval? i = some iv)
    (hfit : blk.off + blk.size ≤ iv.bytes.length)
    (hI : IdsBelow ir) (hnew : NewBlocks blk.off func ir (some b) 0 ms)
    (hd : Disjoint blk.size 0 (ms.map Mod.toLEdit)) :
    ir'.bytesOf i = some (iv.bytes.take blk.off ++
        spliceSpec ((iv.bytes.drop blk.off).take blk.size) 0 (ms.map Mod.toLEdit) ++
        iv.bytes.drop (blk.off + blk.size)) ∧
    ∀ j, j ≠ i → ir.bytesOf j ≠ none → ir'.bytesOf j = ir.bytesOf j := by
  have hcur : ir.bytesOf i = some iv.bytes := by unfold IR.bytesOf; rw [hiv]; rfl
  obtain ⟨r1, r2⟩ := applyMods_bytes blk.off i func ms ir ir' (some b) 0 iv.bytes h
    (fun a ha => by injection ha with ha; subst ha; exact ⟨blk, hb, Or.inl hbi⟩) hI hnew hcur
  refine ⟨?_, r2⟩
  rw [r1]
  have hsplit : iv.bytes = iv.bytes.take blk.off ++ (iv.bytes.drop blk.off).take blk.size ++ iv.bytes.drop (blk.off + blk.size) := by
    rw [List.append_assoc, ← List.drop_drop, List.take_append_drop, List.take_append_drop]
  have hl1 : (iv.bytes.take blk.off).length = blk.off := by rw [List.length_take]; omega
  have hl2 : ((iv.bytes.drop blk.off).take blk.size).length = blk.size := by
    rw [List.length_take, List.length_drop]; omega
  have := sequential_is_simultaneous ((iv.bytes.drop blk.off).take blk.size) (iv.bytes.take blk.off)
    (iv.bytes.drop (blk.off + blk.size)) (ms.map Mod.toLEdit) (by rw [hl2]; exact hd)
  rw [hl1, ← hsplit] at this
  rw [this]

/-- **`apply()`'s loop over all the blocks that have requests.**  `IR.applyAll` hands each block's
resolved requests to `IR.applyMods`; during a rewrite every block has a byte interval of its
own.  If it succeeds, the interval of *every* edited block holds the listing splice of that
block (`expected`), and every other interval the module had is untouched: the requests of one
block never move, resize or re-home a non-empty block of another interval (`Frame`, proved
through split, join, remove, clean-up, patch placement and the whole loop), so each later
request list finds its block and its bytes as they were.

Hypotheses, per request list: a non-empty block inside the initialized bytes of its interval,
sorted disjoint requests (`ReqOk`); the edited blocks lie in pairwise different intervals;
ids below the counter; patch blocks are new objects when inserted (`NewBlocksAll`). -/
theorem all_blocks_are_listing_edits (rs : List BlockMods) (ir ir' : IR)
    (h : ir.applyAll rs = .ok ir') (hI : IdsBelow ir) (hok : ∀ r ∈ rs, ReqOk ir r)
    (hnd : (rs.map (ivOf ir)).Nodup) (hnew : NewBlocksAll ir rs) :
    (∀ r ∈ rs, ∀ i, ivOf ir r = some i → ir'.bytesOf i = expected ir r) ∧
    (∀ j, (∀ r ∈ rs, ivOf ir r ≠ some j) → ir.bytesOf j ≠ none → ir'.bytesOf j = ir.bytesOf j) :=
  applyAll_listing rs ir ir' h hI hok hnd hnew

/-! ### the hypotheses are satisfiable (non-vacuity) -/

/-- a module with one data block of four bytes behind one filler byte -/
private def exIR : IR :=
  { sections := [(0, ".data")],
    intervals := [{ id := 7, sect := 0, addr := some 0x1000, size := 5, bytes := [0, 1, 2, 3, 4], symExprs := [] }],
    blocks := [{ id := 1, isCode := false, bi := some 7, off := 1, size := 4 }],
    order := [(0, [[1]])], next := 2 }

private def exMods : List Mod := [.del 0 1 false, .del 2 1 false]

example : exIR.block? 1 = some { id := 1, isCode := false, bi := some 7, off := 1, size := 4 } := rfl
example : IdsBelow exIR := by intro k hk; simp [IR.ids, exIR] at hk; subst hk; decide
example : Disjoint 4 0 (exMods.map Mod.toLEdit) := by simp [Disjoint, exMods, Mod.toLEdit, Mod.off, Mod.len]
example : NewBlocks 1 none exIR (some 1) 0 exMods := by
  unfold exMods NewBlocks
  intro ir' r _
  cases r with
  | none => simp [NewBlocks]
  | some a =>
    unfold NewBlocks
    split
    · trivial
    · intro _ _ _; simp [NewBlocks]
/-- two blocks, each in its own interval, each with a deletion -/
private def exIR2 : IR :=
  { sections := [(0, ".data")],
    intervals := [{ id := 7, sect := 0, addr := some 0x1000, size := 3, bytes := [1, 2, 3], symExprs := [] },
                  { id := 8, sect := 0, addr := some 0x1003, size := 2, bytes := [4, 5], symExprs := [] }],
    blocks := [{ id := 1, isCode := false, bi := some 7, off := 0, size := 3 },
               { id := 2, isCode := false, bi := some 8, off := 0, size := 2 }],
    order := [(0, [[1], [2]])], next := 3 }

private def exReqs : List BlockMods := [⟨1, none, [.del 1 1 false]⟩, ⟨2, none, [.del 0 1 false]⟩]

example : (exReqs.map (ivOf exIR2)) = [some 7, some 8] := rfl
example : ∀ r ∈ exReqs, ReqOk exIR2 r := by
  intro r hr
  simp only [exReqs, List.mem_cons, List.not_mem_nil, or_false] at hr
  rcases hr with rfl | rfl
  · exact ⟨_, 7, [1, 2, 3], rfl, rfl, by decide, rfl, by decide, by simp [Disjoint, Mod.toLEdit, Mod.off, Mod.len]⟩
  · exact ⟨_, 8, [4, 5], rfl, rfl, by decide, rfl, by decide, by simp [Disjoint, Mod.toLEdit, Mod.off, Mod.len]⟩
example : expected exIR2 ⟨1, none, [.del 1 1 false]⟩ = some [1, 3] := by decide
example : ((exIR2.applyAll exReqs).toOption.map (fun r => (r.bytesOf 7, r.bytesOf 8))) = some (some [1, 3], some [5]) := by
  decide +kernel

/-- the loop succeeds on it, and the bytes are the listing's: `1` and `3` are gone -/
example : ((exIR.applyMods 1 none (some 1) 0 exMods).toOption.bind (·.bytesOf 7)) = some [0, 2, 4] := by decide +kernel


private def e1 : LEdit := { block := 0, off := 1, del := 0, ins := [9, 9], labels := [], aligns := [], proxy := false, order := 0, tailCode := true, exprs := [], exprSizes := [] }
private def e2 : LEdit := { e1 with off := 2, del := 2, ins := [7], order := 1 }

example : Disjoint [1, 2, 3, 4, 5].length 0 [e1, e2] := by simp [Disjoint, e1, e2]
example : spliceSpec [1, 2, 3, 4, 5] 0 [e1, e2] = [1, 9, 9, 2, 7, 5] := by decide
example : seqSplice 1 ([0] ++ [1, 2, 3, 4, 5] ++ [6]) 0 [e1, e2] = [0, 1, 9, 9, 2, 7, 5, 6] := by decide

end GtirbVerif.Props.C01
