import GtirbVerif.Spec.WellFormed

/-!
# Unwind information survives a rewrite (specification side of C08)

The harness evaluates the CFI directives of the module before and after `apply()` with the
real evaluator (whose agreement with DWARF is C15) and hands over one row per directive
location: section, position, index of the procedure in effect (−1 outside) and the canonical
text of the state.  This file says how the two row lists must be related through the listing's
byte map.
-/
namespace GtirbVerif.Listing
open GtirbVerif.IR GtirbVerif.FlatCfg

structure CfiRow where
  sect : String
  pos : Nat
  proc : Int            -- index of the procedure in effect after the directives here, −1 = none
  state : String
  block : Nat := 0      -- (before rows) the block and displacement the directives are keyed by
  disp : Nat := 0
  hasEndproc : Bool := false
  hasStartproc : Bool := false
  deriving Repr, Inhabited

/-- the state in effect for an instruction at `pos` (directives located at `pos` included) -/
def stateAt (rows : List CfiRow) (sect : String) (pos : Nat) : Int × String :=
  match (rows.filter (fun r => r.sect == sect && r.pos ≤ pos)).getLast? with
  | some r => (r.proc, r.state)
  | none => (-1, "")

/-- the state in effect just before `pos` (directives located at `pos` not yet applied) -/
def stateBefore (rows : List CfiRow) (sect : String) (pos : Nat) : Int × String :=
  match (rows.filter (fun r => r.sect == sect && r.pos < pos)).getLast? with
  | some r => (r.proc, r.state)
  | none => (-1, "")

/-- The state in effect for code inserted at `(block, off)`: everything located earlier in the
listing applies; directives keyed by exactly `(block, off)` apply too, unless that group holds a
`.cfi_endproc` — inserted code goes before the end of the procedure. `rows` are in evaluation
(= listing) order. -/
def stateForInsertion (rows : List CfiRow) (blockOrder : List Nat) (b off : Nat) : Int × String :=
  let idx (x : Nat) : Nat := (blockOrder.findIdx? (· == x)).getD 1000000
  let earlier := rows.filter (fun r =>
    idx r.block < idx b || (r.block == b && (r.disp < off || (r.disp == off && !r.hasEndproc))))
  match earlier.getLast? with
  | some r => (r.proc, r.state)
  | none => (-1, "")

def cfiText (d : CfiDir) : String := s!"{d.name} {d.args}"

/-- **C08** -/
def checkCfi (before after : IR) (edits : List LEdit) (nop : List Nat) (rowsB rowsA : List CfiRow)
    (insns : List (Nat × List Insn)) : List Issue :=
  let mk (kind name msg : String) : Issue := { kind := kind, name := name, msg := msg }
  let exs := before.sections.map (fun (s, _) => expectSection before after edits nop s)
  let anyDeletion := edits.any (fun e => e.del > 0)
  -- surviving original instructions: (section, old position, new position)
  let survivors : List (String × Nat × Nat) := exs.flatMap (fun ex =>
    ex.starts.flatMap (fun (ob, start, _) =>
      match blockPos before ob with
      | none => []
      | some (_, p0) =>
        let es := editsOf edits ob.id
        ((insns.lookup ob.id).getD []).filterMap (fun i =>
          (mapByte es i.off).map (fun k' => (sectName before ex.sect, p0 + i.off, start + k')))))
  let pairs := survivors.map (fun (s, p, p') => (s, p, p', stateAt rowsB s p, stateAt rowsA s p'))
  let coverage : List Issue := pairs.filterMap (fun (s, p, p', b, a) =>
    if (b.1 ≥ 0) == (a.1 ≥ 0) then none
    else some (mk "coverage" s!"{s}+{p}" s!"the instruction at {s}+{p} (now +{p'}) was {if b.1 ≥ 0 then "inside" else "outside"} a CFI procedure and is now {if a.1 ≥ 0 then "inside" else "outside"}"))
  let states : List Issue := if anyDeletion then [] else pairs.filterMap (fun (s, p, p', b, a) =>
    if b.1 < 0 || a.1 < 0 || b.2 == a.2 then none
    else some (mk "state" s!"{s}+{p}" s!"unwind state at the instruction {s}+{p} (now +{p'}) changed: {b.2} became {a.2}"))
  -- procedures keep their identity and order
  let procPairs := (pairs.filterMap (fun (_, _, _, b, a) => if b.1 ≥ 0 && a.1 ≥ 0 then some (b.1, a.1) else none)).eraseDups
  let identity : List Issue := procPairs.flatMap (fun (b, a) =>
    (procPairs.filter (fun (b', a') => (b' == b && a' != a) || (b' != b && a' == a) || (b' < b && a' > a))).map
      (fun (b', a') => mk "procedures" s!"procedure {b}" s!"procedures are not preserved one to one and in order: before {b}->{a} but also {b'}->{a'}"))
  -- inserted code
  let inserted : List Issue := edits.flatMap (fun e =>
    if e.ins.isEmpty then [] else
    match exs.findSome? (fun ex => (ex.starts.find? (fun t => t.1.id == e.block)).map (fun t => (ex, t))) with
    | none => []
    | some (ex, ob, start, _) =>
      match blockPos before ob with
      | none => []
      | some (_, p0) =>
        let s := sectName before ex.sect
        let q := p0 + e.off
        let inside := stateForInsertion rowsB ((sectionBlocks before ex.sect).map (·.1.id)) e.block e.off
        -- an insertion exactly where a `.cfi_startproc` is keyed is not judged: the listing does not say on
        -- which side of the directive the new code goes
        let atStartproc := rowsB.any (fun r => r.block == e.block && r.disp == e.off && r.hasStartproc)
        if inside.1 < 0 || !ob.isCode || (atStartproc && e.off != 0) then [] else
          let es := editsOf edits e.block
          let base := start + editStart es e
          let first := stateAt rowsA s base
          let uncovered := (List.range e.ins.length).filter (fun j => (stateAt rowsA s (base + j)).1 < 0)
          (if uncovered.isEmpty then [] else
            [mk "patch-coverage" s!"{s}+{q}" s!"code inserted at {s}+{q}, inside a CFI procedure, is outside every procedure at its bytes {uncovered.take 4}"]) ++
          -- the patch's own directives arrive
          (e.cfi.filterMap (fun (o, text) =>
            let found := after.aux.cfi.any (fun (b, k, ds) =>
              match after.block? b with
              | some blk => (match blockPos after blk with
                | some (s', p) => sectName after s' == s && p + k == base + o && ds.any (fun d => cfiText d == text)
                | none => false)
              | none => false)
            if found then none
            else some (mk "patch-directive" s!"{s}+{q}" s!"the patch inserted at {s}+{q} (inside a CFI procedure) lost its directive `{text}` at patch offset {o}"))) ++
          (if anyDeletion || first.1 < 0 || e.cfi.any (fun (o, _) => o == 0) || first.2 == inside.2 then []
           else [mk "patch-state" s!"{s}+{q}" s!"the code inserted at {s}+{q} starts with unwind state {first.2}, the state at the insertion point is {inside.2}"]))
  coverage ++ states ++ identity ++ inserted

end GtirbVerif.Listing
