import GtirbVerif.Model.Asm.Streamer
/-!
C12, the demanded shape of an assembler result, stated over the *text* (the item list: labels,
instructions with their kind/target, data, alignment) and not over the streamer's events.
`check` returns the list of rules the result breaks; the harness evaluates it on what the real
assembler returned.
-/
namespace GtirbVerif.AsmCheck
open GtirbVerif.Asm

inductive Item
  | label (name : String)
  | insn (size : Nat) (kind : IKind) (indirect : Bool) (target : Option String)
  | data (size : Nat) (typed : Bool)   -- typed: .string/.ascii/.uleb128, which get a block of their own
  | align (a : Nat)
  | cfi
  deriving Repr, Inhabited

structure RBlock where
  off : Nat
  size : Nat
  isData : Bool
  deriving Repr, DecidableEq, Inhabited

structure RSect where
  name : String
  exec : Bool
  dataLen : Nat
  blocks : List RBlock
  items : List Item
  deriving Repr, Inhabited

inductive RNode
  | block (s : Nat) (i : Nat)
  | proxy (p : Nat)
  | ext (name : String)
  deriving Repr, DecidableEq, Inhabited

structure REdge where
  src : Nat × Nat
  dst : RNode
  type : EType
  cond : Bool
  direct : Bool
  deriving Repr, DecidableEq, Inhabited

structure RSym where
  name : String
  node : RNode
  atEnd : Bool
  deriving Repr, DecidableEq, Inhabited

structure RResult where
  sects : List RSect
  edges : List REdge
  syms : List RSym
  trivUnreach : Bool
  deriving Repr, Inhabited

structure Issue where
  rule : String
  sect : Nat
  pos : Nat
  deriving Repr, DecidableEq

/-- items with their byte position -/
def Item.size : Item → Nat
  | .insn n _ _ _ => n
  | .data n _ => n
  | _ => 0

def place : Nat → List Item → List (Nat × Item)
  | _, [] => []
  | p, it :: its => (p, it) :: place (p + it.size) its

/-! ### tiling -/

def tilesFrom : Nat → List RBlock → Bool
  | _, [] => true
  | p, b :: bs => b.off == p && tilesFrom (b.off + b.size) bs

def endOf (bs : List RBlock) : Nat := bs.foldl (fun _ b => b.off + b.size) 0

def checkTiling (si : Nat) (s : RSect) : List Issue :=
  (if tilesFrom 0 s.blocks && endOf s.blocks == s.dataLen then [] else [⟨"blocks-do-not-tile-the-data", si, 0⟩]) ++
  (if s.dataLen == (place 0 s.items).foldl (fun _ pi => pi.1 + pi.2.size) 0 then [] else [⟨"data-length-differs-from-the-text", si, s.dataLen⟩]) ++
  ((s.blocks.dropLast.filter (·.size == 0)).map (fun b => ⟨"empty-block-before-the-end", si, b.off⟩))

/-! ### control flow -/

def blockAt (s : RSect) (p : Nat) : Option Nat := s.blocks.findIdx? (·.off == p)

def blockEndingAt (s : RSect) (p : Nat) : Option Nat := s.blocks.findIdx? (fun b => b.off + b.size == p && b.size != 0)

/-- position of a label: section index and offset -/
def labelPos (r : RResult) (name : String) : Option (Nat × Nat) :=
  ((List.range r.sects.length).zip r.sects).findSome? (fun (si, s) =>
    (place 0 s.items).findSome? (fun (p, it) => match it with
      | .label n => if n == name then some (si, p) else none
      | _ => none))

/-- the node a direct transfer to `name` must reach -/
def targetNode (r : RResult) (name : String) : Option RNode :=
  match labelPos r name with
  | some (si, p) => ((r.sects[si]?).bind (fun s => blockAt s p)).map (fun bi => .block si bi)
  | none => (r.syms.find? (·.name == name)).map (·.node)

def outOf (r : RResult) (si bi : Nat) : List REdge := r.edges.filter (·.src == (si, bi))

def isProxy : RNode → Bool
  | .proxy _ => true
  | _ => false

def usesOf (r : RResult) (n : RNode) : Nat := (r.edges.filter (·.dst == n)).length

def namedProxy (r : RResult) (n : RNode) : Bool := r.syms.any (·.node == n)

/-- the last instruction of block `bi`: the control transfer that ends it, if any -/
def terminatorOf (s : RSect) (b : RBlock) : Option (IKind × Bool × Option String) :=
  (place 0 s.items).findSome? (fun (p, it) => match it with
    | .insn n k ind tgt => if p + n == b.off + b.size && n != 0 && b.size != 0 && k != .other then some (k, ind, tgt) else none
    | _ => none)

def fallEdge (si bi : Nat) : REdge := { src := (si, bi), dst := .block si (bi + 1), type := .fall, cond := false, direct := true }

/-- the edges block `bi` of section `si` must have, as a predicate on its actual out-edges -/
def checkBlockEdges (r : RResult) (si : Nat) (s : RSect) (bi : Nat) (b : RBlock) : List Issue :=
  let outs := outOf r si bi
  let hasNext := bi + 1 < s.blocks.length
  let nextIsCode := (s.blocks[bi + 1]?).map (fun n => !n.isData) == some true
  let falls := outs.filter (·.type == .fall)
  let others := outs.filter (·.type != .fall)
  let wantFall (w : Bool) : List Issue :=
    if w then (if falls == [fallEdge si bi] && hasNext then [] else [⟨"fallthrough-edge-missing-or-wrong", si, b.off⟩])
    else (if falls == [] then [] else [⟨"fallthrough-edge-where-execution-does-not-continue", si, b.off⟩])
  -- a boundary the text marks (a label or an alignment directive): execution runs across it
  let endsTyped := (place 0 s.items).any (fun (p, it) => match it with
    | .data n true => n != 0 && p + n == b.off + b.size
    | _ => false)
  let marked := !endsTyped && (place 0 s.items).any (fun (p, it) => p == b.off + b.size && (match it with | .label _ => true | .align _ => true | _ => false))
  if b.isData then (if outs == [] then [] else [⟨"data-block-has-out-edges", si, b.off⟩])
  else
    match terminatorOf s b with
    | none =>
      (if hasNext && nextIsCode && !marked then (if falls == [] || falls == [fallEdge si bi] then [] else [⟨"fallthrough-edge-missing-or-wrong", si, b.off⟩])
       else wantFall (hasNext && nextIsCode)) ++
      (if others == [] then [] else [⟨"edge-without-a-control-transfer", si, b.off⟩])
    | some (.ret, _, _) =>
      wantFall false ++
      (match others with
       | [e] => if e.type == .ret && isProxy e.dst && usesOf r e.dst == 1 && !namedProxy r e.dst then [] else [⟨"return-edge-not-to-a-fresh-proxy", si, b.off⟩]
       | _ => [⟨"return-needs-exactly-one-return-edge", si, b.off⟩])
    | some (k, indirect, tgt) =>
      wantFall (k == .call || k == .jcc) ++
      (match others with
       | [e] =>
         (if e.type == (if k == .call then EType.call else EType.branch) then [] else [⟨"edge-type-wrong", si, b.off⟩]) ++
         (if e.cond == (k == .jcc) then [] else [⟨"conditional-flag-wrong", si, b.off⟩]) ++
         (if indirect then
            (if !e.direct && isProxy e.dst && usesOf r e.dst == 1 && !namedProxy r e.dst then [] else [⟨"indirect-transfer-not-to-a-fresh-indirect-proxy", si, b.off⟩])
          else
            (if e.direct then [] else [⟨"direct-transfer-flagged-indirect", si, b.off⟩]) ++
            (match tgt.bind (targetNode r) with
             | some n => if e.dst == n then [] else [⟨"transfer-targets-the-wrong-node", si, b.off⟩]
             | none => [⟨"transfer-target-unresolvable", si, b.off⟩]))
       | _ => [⟨"transfer-needs-exactly-one-target-edge", si, b.off⟩])

/-- every control-transfer instruction is the last instruction of some block -/
def checkTerminators (si : Nat) (s : RSect) : List Issue :=
  (place 0 s.items).filterMap (fun (p, it) => match it with
    | .insn n k _ _ =>
      if k != .other && n != 0 && !(s.blocks.any (fun b => !b.isData && b.off ≤ p && b.off + b.size == p + n)) then
        some ⟨"control-transfer-does-not-end-its-block", si, p⟩ else none
    | _ => none)

/-! ### labels and data classification -/

def checkLabels (r : RResult) (si : Nat) (s : RSect) : List Issue :=
  (place 0 s.items).filterMap (fun (p, it) => match it with
    | .label n =>
      match r.syms.filter (·.name == n) with
      | [sym] =>
        let atStart := !sym.atEnd && (blockAt s p).map (fun bi => RNode.block si bi) == some sym.node
        let atEnd := sym.atEnd && p == s.dataLen && (blockAt s p).isNone && (blockEndingAt s p).map (fun bi => RNode.block si bi) == some sym.node
        if atStart || atEnd then none else some ⟨"label-symbol-not-on-the-block-at-its-position", si, p⟩
      | _ => some ⟨"label-needs-exactly-one-symbol", si, p⟩
    | _ => none)

def hasInsn (s : RSect) (b : RBlock) : Bool :=
  (place 0 s.items).any (fun (p, it) => match it with
    | .insn n _ _ _ => n != 0 && b.off ≤ p && p + n ≤ b.off + b.size
    | _ => false)

def hasCfi (s : RSect) (b : RBlock) : Bool :=
  (place 0 s.items).any (fun (p, it) => match it with
    | .cfi => b.off ≤ p && p ≤ b.off + b.size
    | _ => false)

def insnStraddles (s : RSect) (b : RBlock) : Bool :=
  (place 0 s.items).any (fun (p, it) => match it with
    | .insn n _ _ _ => (p < b.off && b.off < p + n) 
    | _ => false)

def checkKinds (r : RResult) (si : Nat) (s : RSect) : List Issue :=
  ((List.range s.blocks.length).zip s.blocks).flatMap (fun (bi, b) =>
    let reached := r.edges.any (·.dst == .block si bi)
    (if insnStraddles s b then [⟨"block-boundary-inside-an-instruction", si, b.off⟩] else []) ++
    (if b.isData && hasInsn s b then [⟨"instructions-in-a-data-block", si, b.off⟩] else []) ++
    (if b.isData && reached then [⟨"edge-into-a-data-block", si, b.off⟩] else []) ++
    -- unless the caller says the text is trivially unreachable, control enters an executable section at its first block
    (if b.isData && s.exec && bi == 0 && !r.trivUnreach then [⟨"entry-block-of-an-executable-section-became-data", si, b.off⟩] else []) ++
    (if !b.isData && b.size != 0 && !hasInsn s b && !reached && !hasCfi s b && (!s.exec || bi != 0 || r.trivUnreach) then
       [⟨"data-only-block-nothing-jumps-to-stayed-code", si, b.off⟩] else []))

def check (r : RResult) : List Issue :=
  ((List.range r.sects.length).zip r.sects).flatMap (fun (si, s) =>
    checkTiling si s ++ checkTerminators si s ++ checkLabels r si s ++ checkKinds r si s ++
    ((List.range s.blocks.length).zip s.blocks).flatMap (fun (bi, b) => checkBlockEdges r si s bi b)) ++
  (r.edges.filterMap (fun e =>
    match (r.sects[e.src.1]?).bind (fun s => s.blocks[e.src.2]?) with
    | some _ => none
    | none => some ⟨"edge-from-a-block-outside-the-result", e.src.1, e.src.2⟩))

end GtirbVerif.AsmCheck
