import GtirbVerif.Model.Dwarf.Encodable

/-!
Hand-written from the DWARF Debugging Information Format, Version 4:
§7.7.1 (Figure 24, "DWARF operation encodings") and §7.23 (Figure 40, "Call
frame instruction encodings"), and from the GNU `as` manual (CFI directives).
This file is the *specification* side; nothing here is derived from /repo.
-/
namespace GtirbVerif.Std
open GtirbVerif.Dwarf

/-- DW_OP_*: (first opcode, operand forms). `addOp 32` = the 32 consecutive
opcodes litN / regN / bregN. "1-byte constant" = `uint 1`, "signed 2-byte" =
`sint 2`, "constant address" = `uintptr`. -/
def dwarf4Expr : List (Nat × List Enc) := [
  (0x03, [.uintptr]),            -- DW_OP_addr
  (0x06, []),                    -- DW_OP_deref
  (0x08, [.uint 1]), (0x09, [.sint 1]),    -- const1u / const1s
  (0x0a, [.uint 2]), (0x0b, [.sint 2]),
  (0x0c, [.uint 4]), (0x0d, [.sint 4]),
  (0x0e, [.uint 8]), (0x0f, [.sint 8]),
  (0x10, [.uleb]), (0x11, [.sleb]),        -- constu / consts
  (0x12, []), (0x13, []), (0x14, []),      -- dup drop over
  (0x15, [.uint 1]),                       -- pick
  (0x16, []), (0x17, []), (0x18, []),      -- swap rot xderef
  (0x19, []), (0x1a, []), (0x1b, []), (0x1c, []), (0x1d, []), (0x1e, []),
  (0x1f, []), (0x20, []), (0x21, []), (0x22, []),  -- abs and div minus mod mul neg not or plus
  (0x23, [.uleb]),                         -- plus_uconst
  (0x24, []), (0x25, []), (0x26, []), (0x27, []),  -- shl shr shra xor
  (0x28, [.sint 2]),                       -- bra
  (0x29, []), (0x2a, []), (0x2b, []), (0x2c, []), (0x2d, []), (0x2e, []),  -- eq ge gt le lt ne
  (0x2f, [.sint 2]),                       -- skip
  (0x30, [.addOp 32]),                     -- lit0..lit31
  (0x50, [.addOp 32]),                     -- reg0..reg31
  (0x70, [.addOp 32, .sleb]),              -- breg0..breg31
  (0x90, [.uleb]),                         -- regx
  (0x91, [.sleb]),                         -- fbreg
  (0x92, [.uleb, .sleb]),                  -- bregx
  (0x93, [.uleb]),                         -- piece
  (0x94, [.uint 1]), (0x95, [.uint 1]),    -- deref_size xderef_size
  (0x96, []), (0x97, []),                  -- nop push_object_address
  (0x98, [.uint 2]), (0x99, [.uint 4]),    -- call2 call4
  (0x9b, []), (0x9c, []),                  -- form_tls_address call_frame_cfa
  (0x9d, [.uleb, .uleb]),                  -- bit_piece
  (0x9f, [])                               -- stack_value
]

/-- DW_CFA_*: (first opcode, operand forms); `addOp 64` = "high 2 bits opcode,
low 6 bits operand"; BLOCK = `expr`. -/
def dwarf4Cfi : List (Nat × List Enc) := [
  (0x40, [.addOp 64]),                     -- advance_loc
  (0x80, [.addOp 64, .uleb]),              -- offset
  (0xc0, [.addOp 64]),                     -- restore
  (0x00, []),                              -- nop
  (0x01, [.uintptr]),                      -- set_loc
  (0x02, [.uint 1]), (0x03, [.uint 2]), (0x04, [.uint 4]),   -- advance_loc1/2/4
  (0x05, [.uleb, .uleb]),                  -- offset_extended
  (0x06, [.uleb]),                         -- restore_extended
  (0x07, [.uleb]),                         -- undefined
  (0x08, [.uleb]),                         -- same_value
  (0x09, [.uleb, .uleb]),                  -- register
  (0x0a, []), (0x0b, []),                  -- remember_state restore_state
  (0x0c, [.uleb, .uleb]),                  -- def_cfa
  (0x0d, [.uleb]),                         -- def_cfa_register
  (0x0e, [.uleb]),                         -- def_cfa_offset
  (0x0f, [.expr]),                         -- def_cfa_expression
  (0x10, [.uleb, .expr]),                  -- expression
  (0x11, [.uleb, .sleb]),                  -- offset_extended_sf
  (0x12, [.uleb, .sleb]),                  -- def_cfa_sf
  (0x13, [.sleb]),                         -- def_cfa_offset_sf
  (0x14, [.uleb, .uleb]),                  -- val_offset
  (0x15, [.uleb, .sleb]),                  -- val_offset_sf
  (0x16, [.uleb, .expr])                   -- val_expression
]

/-- What GNU `as` emits for the operand-carrying CFI directives whose operands
are passed through unchanged (no data-alignment factoring): directive ->
(opcode, operand forms). `.cfi_restore r` emits DW_CFA_restore for `r < 64`. -/
def gasDirect : List (String × Nat × List Enc) := [
  (".cfi_def_cfa", 0x0c, [.uleb, .uleb]),
  (".cfi_def_cfa_register", 0x0d, [.uleb]),
  (".cfi_undefined", 0x07, [.uleb]),
  (".cfi_same_value", 0x08, [.uleb]),
  (".cfi_register", 0x09, [.uleb, .uleb]),
  (".cfi_remember_state", 0x0a, []),
  (".cfi_restore_state", 0x0b, []),
  (".cfi_restore", 0xc0, [.addOp 64])
]

/-- enum member name of `dwarf2.ExpressionOperations` -> DW_OP_<name> value (DWARF v4 Figure 24) -/
def opNames : List (String × Nat) := [
  ("addr", 3),
  ("deref", 6),
  ("const1u", 8),
  ("const1s", 9),
  ("const2u", 10),
  ("const2s", 11),
  ("const4u", 12),
  ("const4s", 13),
  ("const8u", 14),
  ("const8s", 15),
  ("constu", 16),
  ("consts", 17),
  ("dup", 18),
  ("drop", 19),
  ("over", 20),
  ("pick", 21),
  ("swap", 22),
  ("rot", 23),
  ("xderef", 24),
  ("abs", 25),
  ("and_", 26),
  ("div", 27),
  ("minus", 28),
  ("mod", 29),
  ("mul", 30),
  ("neg", 31),
  ("not_", 32),
  ("or_", 33),
  ("plus", 34),
  ("plus_uconst", 35),
  ("shl", 36),
  ("shr", 37),
  ("shra", 38),
  ("xor", 39),
  ("bra", 40),
  ("eq", 41),
  ("ge", 42),
  ("gt", 43),
  ("le", 44),
  ("lt", 45),
  ("ne", 46),
  ("skip", 47),
  ("lit0", 48),
  ("lit1", 49),
  ("lit2", 50),
  ("lit3", 51),
  ("lit4", 52),
  ("lit5", 53),
  ("lit6", 54),
  ("lit7", 55),
  ("lit8", 56),
  ("lit9", 57),
  ("lit10", 58),
  ("lit11", 59),
  ("lit12", 60),
  ("lit13", 61),
  ("lit14", 62),
  ("lit15", 63),
  ("lit16", 64),
  ("lit17", 65),
  ("lit18", 66),
  ("lit19", 67),
  ("lit20", 68),
  ("lit21", 69),
  ("lit22", 70),
  ("lit23", 71),
  ("lit24", 72),
  ("lit25", 73),
  ("lit26", 74),
  ("lit27", 75),
  ("lit28", 76),
  ("lit29", 77),
  ("lit30", 78),
  ("lit31", 79),
  ("reg0", 80),
  ("reg1", 81),
  ("reg2", 82),
  ("reg3", 83),
  ("reg4", 84),
  ("reg5", 85),
  ("reg6", 86),
  ("reg7", 87),
  ("reg8", 88),
  ("reg9", 89),
  ("reg10", 90),
  ("reg11", 91),
  ("reg12", 92),
  ("reg13", 93),
  ("reg14", 94),
  ("reg15", 95),
  ("reg16", 96),
  ("reg17", 97),
  ("reg18", 98),
  ("reg19", 99),
  ("reg20", 100),
  ("reg21", 101),
  ("reg22", 102),
  ("reg23", 103),
  ("reg24", 104),
  ("reg25", 105),
  ("reg26", 106),
  ("reg27", 107),
  ("reg28", 108),
  ("reg29", 109),
  ("reg30", 110),
  ("reg31", 111),
  ("breg0", 112),
  ("breg1", 113),
  ("breg2", 114),
  ("breg3", 115),
  ("breg4", 116),
  ("breg5", 117),
  ("breg6", 118),
  ("breg7", 119),
  ("breg8", 120),
  ("breg9", 121),
  ("breg10", 122),
  ("breg11", 123),
  ("breg12", 124),
  ("breg13", 125),
  ("breg14", 126),
  ("breg15", 127),
  ("breg16", 128),
  ("breg17", 129),
  ("breg18", 130),
  ("breg19", 131),
  ("breg20", 132),
  ("breg21", 133),
  ("breg22", 134),
  ("breg23", 135),
  ("breg24", 136),
  ("breg25", 137),
  ("breg26", 138),
  ("breg27", 139),
  ("breg28", 140),
  ("breg29", 141),
  ("breg30", 142),
  ("breg31", 143),
  ("regx", 144),
  ("fbreg", 145),
  ("bregx", 146),
  ("piece", 147),
  ("deref_size", 148),
  ("xderef_size", 149),
  ("nop", 150),
  ("push_object_address", 151),
  ("call2", 152),
  ("call4", 153),
  ("call_ref", 154),
  ("form_tls_address", 155),
  ("call_frame_cfa", 156),
  ("bit_piece", 157),
  ("implicit_value", 158),
  ("stack_value", 159)
]

/-- enum member name of `dwarf2.CallFrameInstructions` -> DW_CFA_<name> value (DWARF v4 Figure 40
plus the GNU / AArch64 vendor extensions) -/
def cfaNames : List (String × Nat) := [
  ("nop", 0),
  ("set_loc", 1),
  ("advance_loc1", 2),
  ("advance_loc2", 3),
  ("advance_loc4", 4),
  ("offset_extended", 5),
  ("restore_extended", 6),
  ("undefined", 7),
  ("same_value", 8),
  ("register", 9),
  ("remember_state", 10),
  ("restore_state", 11),
  ("def_cfa", 12),
  ("def_cfa_register", 13),
  ("def_cfa_offset", 14),
  ("def_cfa_expression", 15),
  ("expression", 16),
  ("offset_extended_sf", 17),
  ("def_cfa_sf", 18),
  ("def_cfa_offset_sf", 19),
  ("val_offset", 20),
  ("val_offset_sf", 21),
  ("val_expression", 22),
  ("advance_loc", 64),
  ("offset", 128),
  ("restore", 192),
  ("gnu_window_save", 45),
  ("gnu_args_size", 46),
  ("gnu_negative_offset_extended", 47),
  ("aarch64_negate_ra_state", 45)
]

/-- API class name -> first opcode it must carry (OpEq is DW_OP_eq, …) -/
def opClassOpcode : List (String × Nat) := [
  ("OpAddr", 3),
  ("OpDeref", 6),
  ("OpConst1U", 8),
  ("OpConst1S", 9),
  ("OpConst2U", 10),
  ("OpConst2S", 11),
  ("OpConst4U", 12),
  ("OpConst4S", 13),
  ("OpConst8U", 14),
  ("OpConst8S", 15),
  ("OpConstU", 16),
  ("OpConstS", 17),
  ("OpDup", 18),
  ("OpDrop", 19),
  ("OpOver", 20),
  ("OpPick", 21),
  ("OpSwap", 22),
  ("OpRot", 23),
  ("OpXDeref", 24),
  ("OpAbs", 25),
  ("OpAnd", 26),
  ("OpDiv", 27),
  ("OpMinus", 28),
  ("OpMod", 29),
  ("OpMul", 30),
  ("OpNeg", 31),
  ("OpNot", 32),
  ("OpOr", 33),
  ("OpPlus", 34),
  ("OpPlusUConst", 35),
  ("OpShl", 36),
  ("OpShr", 37),
  ("OpShrA", 38),
  ("OpXor", 39),
  ("OpBra", 40),
  ("OpEq", 41),
  ("OpGe", 42),
  ("OpGt", 43),
  ("OpLe", 44),
  ("OpLt", 45),
  ("OpNe", 46),
  ("OpSkip", 47),
  ("OpLit", 48),
  ("OpReg", 80),
  ("OpBReg", 112),
  ("OpRegX", 144),
  ("OpFBReg", 145),
  ("OpBRegX", 146),
  ("OpPiece", 147),
  ("OpDerefSize", 148),
  ("OpXDerefSize", 149),
  ("OpNop", 150),
  ("OpPushObjectAddress", 151),
  ("OpCall2", 152),
  ("OpCall4", 153),
  ("OpCallRef", 154),
  ("OpFormTLSAddress", 155),
  ("OpCallFrameCFA", 156),
  ("OpBitPiece", 157),
  ("OpImplicitValue", 158),
  ("OpStackValue", 159)
]

def cfaClassOpcode : List (String × Nat) := [
  ("InstNop", 0),
  ("InstSetLoc", 1),
  ("InstAdvanceLoc1", 2),
  ("InstAdvanceLoc2", 3),
  ("InstAdvanceLoc4", 4),
  ("InstOffsetExtended", 5),
  ("InstRestoreExtended", 6),
  ("InstUndefined", 7),
  ("InstSameValue", 8),
  ("InstRegister", 9),
  ("InstRememberState", 10),
  ("InstRestoreState", 11),
  ("InstDefCFA", 12),
  ("InstDefCFARegister", 13),
  ("InstDefCFAOffset", 14),
  ("InstDefCFAExpression", 15),
  ("InstExpression", 16),
  ("InstOffsetExtendedSF", 17),
  ("InstDefCFASF", 18),
  ("InstDefCFAOffsetSF", 19),
  ("InstValOffset", 20),
  ("InstValOffsetSF", 21),
  ("InstValExpression", 22),
  ("InstAdvanceLoc", 64),
  ("InstOffset", 128),
  ("InstRestore", 192)
]

/-- what GNU as emits for `directive operands` (operand-preserving directives) -/
def gasEncode (bo : ByteOrder) (ptr : Nat) (d : String) (ops : List Int) : Except Err (List Nat) :=
  match gasDirect.lookup d with
  | none => .error .typeError
  | some (opc, encs) =>
    encodeInst bo ptr
      { cls := { name := "", opcode := opc, directive := d, fields := encs.map (fun e => ("", e)) },
        args := ops.map Arg.int }

/-- the class the standard assigns to a first byte: index into `dwarf4Expr` /
`dwarf4Cfi` by range -/
def stdLookup (t : List (Nat × List Enc)) (b : Nat) : Option (Nat × List Enc) :=
  t.find? (fun p =>
    let w := match p.2 with | .addOp k :: _ => k | _ => 1
    decide (p.1 ≤ b ∧ b < p.1 + w))

/-- encoding of (opcode, forms, operands) straight from the standard's table -/
def stdEncode (bo : ByteOrder) (ptr : Nat) (opc : Nat) (encs : List Enc) (args : List Arg) :
    Except Err (List Nat) :=
  encodeInst bo ptr
    { cls := { name := "", opcode := opc, directive := "", fields := encs.map (fun e => ("", e)) },
      args := args }

end GtirbVerif.Std
