import GtirbVerif.Spec.FlatCfg

/-!
# Function tables describe the same code (specification side of C06)

Written over the pieces of the edited listing (`expectSection`): the code found inside the
piece of an original block of function F belongs to F (inserted code included), code inside
the piece of function-less code or of data belongs to no function, the tables agree with each
other, an entry that was deleted is inherited by the next block only inside the same function.
-/
namespace GtirbVerif.Listing
open GtirbVerif.IR GtirbVerif.FlatCfg

def funcOfB (ir : IR) (b : Nat) : List Nat :=
  (ir.aux.funcBlocks.filter (fun (_, bs) => bs.contains b)).map (·.1)

/-- **C06** -/
def checkFunctions (before after : IR) (edits : List LEdit) (nop : List Nat) : List Issue :=
  let mk (kind name msg : String) : Issue := { kind := kind, name := name, msg := msg }
  let exs := before.sections.map (fun (s, _) => expectSection before after edits nop s)
  -- table agreement
  let fb := after.aux.funcBlocks
  let keysB := fb.map (·.1)
  let keysE := after.aux.funcEntries.map (·.1)
  let keysN := after.aux.funcNames.map (·.1)
  let tableIssues : List Issue :=
    (fb.filter (fun (_, bs) => bs.isEmpty)).map (fun (f, _) => mk "empty-function" s!"function {f}" s!"function {f} has no blocks but is still in functionBlocks") ++
    (after.aux.funcEntries.flatMap (fun (f, es) =>
      let bs := (alookup f fb).getD []
      (if keysB.contains f then [] else [mk "table-keys" s!"function {f}" s!"function {f} is in functionEntries but not in functionBlocks"]) ++
      (es.filter (fun e => !bs.contains e)).map (fun e => mk "entry-not-block" s!"function {f}" s!"entry block {e} of function {f} is not one of its blocks"))) ++
    (keysB.filter (fun f => !keysE.contains f)).map (fun f => mk "table-keys" s!"function {f}" s!"function {f} is in functionBlocks but not in functionEntries") ++
    (if before.aux.funcNames.isEmpty then [] else
      (keysB.filter (fun f => !keysN.contains f)).map (fun f => mk "table-keys" s!"function {f}" s!"function {f} has blocks but no name") ++
      (keysN.filter (fun f => !keysB.contains f)).map (fun f => mk "table-keys" s!"function {f}" s!"function {f} has a name but no blocks")) ++
    (after.aux.funcNames.filterMap (fun (f, y) =>
      if after.syms.any (·.id == y) then none else some (mk "name-symbol" s!"function {f}" s!"the name symbol of function {f} is not in the module"))) ++
    ((after.blocks.filter (fun b => (funcOfB after b.id).length > 1)).map (fun b =>
      mk "two-functions" s!"block {b.id}" s!"block {b.id} is in functions {funcOfB after b.id}")) ++
    (fb.flatMap (fun (f, bs) => (bs.filter (fun b => !(match after.block? b with | some blk => blk.isCode && blk.bi.isSome | none => false))).map
      (fun b => mk "member-not-code" s!"function {f}" s!"member {b} of function {f} is not a code block of the module")))
  -- membership by piece
  let memberIssues : List Issue := exs.flatMap (fun ex =>
    ex.starts.flatMap (fun (ob, start, piece) =>
      let want : List Nat := if ob.isCode then funcOfB before ob.id else []
      let lo := start
      let hi := start + piece.bytes.length
      (after.blocks.filter (fun b => b.isCode && b.size != 0 && !isPadding after nop b &&
          (match blockPos after b with
           | some (s, p) => sectName after s == sectName before ex.sect && lo ≤ p && p + b.size ≤ hi
           | none => false))).filterMap (fun b =>
        if funcOfB after b.id == want then none
        else some (mk "membership" s!"block {b.id}"
          s!"code at {sectName before ex.sect}+{(blockPos after b).map (·.2)} lies in the piece of original block {ob.id} (functions {want}) but is in functions {funcOfB after b.id}"))))
  -- entries
  let entryIssues : List Issue := before.aux.funcEntries.flatMap (fun (f, es) =>
    -- expected entry positions of f
    let expected : List (String × Nat) := es.filterMap (fun e =>
      match exs.find? (fun ex => ex.starts.any (fun t => t.1.id == e)) with
      | none => none
      | some ex =>
        -- walk down the listing from the entry block: a block that still has bytes (or was kept
        -- as a zero-sized block) keeps / inherits the entry; a wholly deleted one passes it on to
        -- the next block if that is code of the same function and the deletion did not ask for a proxy
        let rec walk : List (Block × Nat × Piece) → Option (String × Nat)
          | [] => none
          | (ob, start, piece) :: tl =>
            if !piece.bytes.isEmpty then some (sectName before ex.sect, start)
            else if inModule after ob.id then
              (after.block? ob.id).bind (fun blk => (blockPos after blk).map (fun (s, p) => (sectName after s, p)))
            else if wholeProxy edits ob then none
            else match tl with
              | (nb, _, _) :: _ => if nb.isCode && (funcOfB before nb.id).contains f then walk tl else none
              | [] => none
        walk (ex.starts.dropWhile (fun t => t.1.id != e)))
    let actualEntries := (alookup f after.aux.funcEntries).getD []
    let actualPos : List (String × Nat) := actualEntries.filterMap (fun e =>
      match after.block? e with
      | some blk => (blockPos after blk).map (fun (s, p) => (sectName after s, p))
      | none => none)
    if (alookup f after.aux.funcBlocks).isNone then []   -- the function is gone: covered by the table rules
    else
      (expected.filter (fun p => !actualPos.contains p)).map (fun p =>
        mk "entry-missing" s!"function {f}" s!"function {f}: no entry block at {p.1}+{p.2}")
      ++ (actualPos.filter (fun p => !expected.contains p)).map (fun p =>
        mk "entry-extra" s!"function {f}" s!"function {f}: unexpected entry block at {p.1}+{p.2}"))
  tableIssues ++ memberIssues ++ entryIssues

end GtirbVerif.Listing
