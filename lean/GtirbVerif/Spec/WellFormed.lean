import GtirbVerif.Spec.FuncCheck

/-!
# A closed, well-formed module (specification side of C05)

Every reference inside the module — CFG endpoints, symbol referents, symbols of symbolic
expressions and CFI directives, the keys and members of every aux-data table — names a node
that is part of the module; blocks lie inside their byte intervals and do not overlap;
zero-sized blocks are only blocks whose bytes were all deleted; every block has an address.
-/
namespace GtirbVerif.Listing
open GtirbVerif.IR GtirbVerif.FlatCfg
open GtirbVerif.Adt (CfgNode Label Edge)

def symOk (ir : IR) (y : Nat) : Bool := ir.syms.any (·.id == y)

def blockIn (ir : IR) (b : Nat) (wantCode : Option Bool) : Bool :=
  match ir.block? b with
  | some blk => blk.bi.isSome && (match wantCode with | some c => blk.isCode == c | none => true)
  | none => false

/-- `emptied b`: the request set deleted every byte of original block `b` -/
def checkWellFormed (before after : IR) (emptied : Nat → Bool) (needAddr closureOnly : Bool) : List Issue :=
  let mk (kind name msg : String) : Issue := { kind := kind, name := name, msg := msg }
  -- blocks inside intervals, addresses
  let geometry : List Issue := after.blocks.flatMap (fun b =>
    match b.bi with
    | none => []
    | some i =>
      match after.interval? i with
      | none => [mk "block-interval" s!"block {b.id}" s!"block {b.id} is in byte interval {i}, which is not part of the module"]
      | some iv =>
        (if b.off + b.size ≤ iv.size then [] else [mk "block-bounds" s!"block {b.id}" s!"block {b.id} [{b.off}, +{b.size}) does not fit its byte interval (size {iv.size})"]) ++
        (if !needAddr || iv.addr.isSome then [] else [mk "no-address" s!"block {b.id}" s!"block {b.id} has no address"]))
  let overlaps : List Issue := after.blocks.flatMap (fun a =>
    (after.blocks.filter (fun b => a.id < b.id && a.bi.isSome && a.bi == b.bi && a.size != 0 && b.size != 0 &&
        a.off < b.off + b.size && b.off < a.off + a.size &&
        -- blocks that overlapped before may still do so
        !((before.block? a.id).isSome && (before.block? b.id).isSome))).map (fun b =>
      mk "overlap" s!"block {a.id}" s!"blocks {a.id} and {b.id} overlap"))
  let zeroSized : List Issue := (after.blocks.filter (fun b => b.bi.isSome && b.size == 0)).filterMap (fun b =>
    match before.block? b.id with
    | some ob => if ob.size == 0 || emptied b.id then none
        else some (mk "zero-sized" s!"block {b.id}" s!"block {b.id} became zero-sized although not all of its bytes were deleted")
    | none =>
      -- a patch's branch target with no code behind it (the rest of the block and of the section was deleted,
      -- or the patch was put at the end of the section) has nowhere to go but a zero-sized block: the case
      -- "incoming control flow edges but no target for them to be redirected to" of remove.py, for a new block
      let reached := after.cfg.any (fun e => e.dst == .block b.id && !(GtirbVerif.IR.Edge.isFall e))
      let codeFollows := after.blocks.any (fun c => c.bi == b.bi && c.isCode && c.size != 0 && c.off ≥ b.off)
      -- ... or the block is what a whole-block deletion of the batch left of a block created earlier in the batch
      -- (`emptied`: the recorded `delete` covered all of it and `remove_block` had to keep it)
      if (reached && !codeFollows) || emptied b.id then none
      else some (mk "zero-sized" s!"block {b.id}" s!"a new block ({b.id}) is zero-sized"))
  -- CFG
  let cfgIssues : List Issue := after.cfg.flatMap (fun e =>
    (match e.src with
     | .block s => if blockIn after s (some true) then [] else [mk "cfg-endpoint" "cfg" s!"edge source block {s} is not a code block of the module"]
     | .proxy p => [mk "cfg-endpoint" "cfg" s!"edge source is proxy {p}"]) ++
    (match e.dst with
     | .block t => if blockIn after t (some true) then [] else [mk "cfg-endpoint" "cfg" s!"edge target block {t} is not a code block of the module"]
     | .proxy p => if after.proxies.contains p then [] else [mk "cfg-endpoint" "cfg" s!"edge target proxy {p} is not in module.proxies"]))
  -- symbols
  let symIssues : List Issue := after.syms.flatMap (fun y =>
    match y.ref with
    | .block b => if blockIn after b none then [] else [mk "referent" s!"symbol {y.name}" s!"symbol {y.name} refers to block {b}, which is not part of the module"]
    | .proxy p => if after.proxies.contains p then [] else [mk "referent" s!"symbol {y.name}" s!"symbol {y.name} refers to proxy {p}, which is not in module.proxies"]
    | .none =>
      match before.syms.find? (·.id == y.id) with
      | some oy => if oy.ref == .none then [] else [mk "stranded" s!"symbol {y.name}" s!"symbol {y.name} lost its referent"]
      | none => [])
  -- symbolic expressions
  let exprIssues : List Issue := after.intervals.flatMap (fun iv => iv.symExprs.flatMap (fun (k, e) =>
    (if symOk after e.sym1 then [] else [mk "expr-symbol" s!"interval {iv.id}" s!"symbolic expression at {k} uses a symbol that is not in the module"]) ++
    (if e.kind != 1 || symOk after e.sym2 then [] else [mk "expr-symbol" s!"interval {iv.id}" s!"symbolic expression at {k} uses a second symbol that is not in the module"])))
  -- aux data
  let keyB (table : String) (want : Option Bool) (b : Nat) : List Issue :=
    if blockIn after b want then [] else [mk "aux-key" table s!"{table}: block {b} is not a block of the module (of the right kind)"]
  let auxIssues : List Issue :=
    (after.aux.alignment.flatMap (fun (b, _) => keyB "alignment" none b)) ++
    (after.aux.omaps.flatMap (fun (name, es) => es.flatMap (fun (el, _, _) =>
      match el with
      | .block b => keyB name none b
      | .interval i => if (after.interval? i).isSome then [] else [mk "aux-key" name s!"{name}: byte interval {i} is not part of the module"]))) ++
    (after.aux.cfi.flatMap (fun (b, _, ds) => keyB "cfiDirectives" (some true) b ++
      ds.flatMap (fun d => match d.sym with
        | some y => if symOk after y then [] else [mk "aux-value" "cfiDirectives" s!"cfiDirectives: directive {d.name} names a symbol that is not in the module"]
        | none => []))) ++
    (after.aux.funcBlocks.flatMap (fun (_, bs) => bs.flatMap (keyB "functionBlocks" (some true)))) ++
    (after.aux.funcEntries.flatMap (fun (_, bs) => bs.flatMap (keyB "functionEntries" (some true)))) ++
    (after.aux.funcNames.flatMap (fun (_, y) => if symOk after y then [] else [mk "aux-value" "functionNames" "functionNames: a name symbol is not in the module"])) ++
    (after.aux.encodings.flatMap (fun (b, _) => keyB "encodings" (some false) b)) ++
    (after.aux.types.flatMap (fun (b, _) => keyB "types" (some false) b)) ++
    (after.aux.profile.flatMap (fun (b, _) => keyB "profile" (some true) b)) ++
    (after.aux.sccs.flatMap (fun (b, _) => keyB "SCCs" (some true) b)) ++
    (after.aux.peSafeSeh.flatMap (keyB "peSafeExceptionHandlers" (some true))) ++
    (match after.aux.elfInit with | some b => keyB "elfDynamicInit" (some true) b | none => []) ++
    (match after.aux.elfFini with | some b => keyB "elfDynamicFini" (some true) b | none => []) ++
    (after.aux.elfSymInfo.flatMap (fun (y, _) => if symOk after y then [] else [mk "aux-key" "elfSymbolInfo" "elfSymbolInfo: a key symbol is not in the module"])) ++
    (match after.entry with | some b => keyB "entry_point" (some true) b | none => [])
  (if closureOnly then [] else geometry ++ overlaps ++ zeroSized) ++ cfgIssues ++ symIssues ++ exprIssues ++ auxIssues

end GtirbVerif.Listing
