import GtirbVerif.Spec.ListingCheck

/-!
# The control flow of a listing (specification side of C03)

Input: a module (the canonical dump) and, for every code block, the instructions an
independent disassembler found in its bytes: offset, size and kind.  The target of a direct
branch or call is the referent of the symbol in the symbolic expression that sits inside the
instruction.  The rules below say which edges the CFG must have; nothing here looks at how
`gtirb_rewriting` maintains them.
-/
namespace GtirbVerif.FlatCfg
open GtirbVerif.IR GtirbVerif.Listing
open GtirbVerif.Adt (CfgNode Label Edge)

/-- instruction kinds -/
inductive Kind
  | other | jmp | jcc | call | ret | ijmp | icall
  deriving Repr, DecidableEq, Inhabited

structure Insn where
  off : Nat
  size : Nat
  kind : Kind
  deriving Repr, Inhabited

def Kind.fromCode : Nat → Kind
  | 1 => .jmp | 2 => .jcc | 3 => .call | 4 => .ret | 5 => .ijmp | 6 => .icall | _ => .other

def Kind.fallsThrough : Kind → Bool
  | .jmp | .ret | .ijmp => false
  | _ => true

def Kind.isTransfer : Kind → Bool
  | .other => false
  | _ => true

def branchType : Nat := 0

def Edge.isBranch (e : Edge) : Bool := match e.label with | some l => l.type == branchType | none => false

/-- node designated by the operand of the instruction at `[start, start+size)` of interval `iv` -/
def operandTarget (ir : IR) (iv : Interval) (start size : Nat) : Option CfgNode :=
  match iv.symExprs.find? (fun (k, _) => start ≤ k && k < start + size) with
  | none => none
  | some (_, e) =>
    match ir.syms.find? (·.id == e.sym1) with
    | none => none
    | some y =>
      match y.ref with
      | .block b => some (.block b)
      | .proxy p => some (.proxy p)
      | .none => none

def inModule (ir : IR) (b : Nat) : Bool :=
  match ir.block? b with
  | some blk => blk.bi.isSome
  | none => false

def nodeOk (ir : IR) : CfgNode → Bool
  | .block b => inModule ir b
  | .proxy p => ir.proxies.contains p

/-- Alignment padding: a code block made of nops only that no edge and no symbol touches
(`join_byte_intervals` covers the padding it inserts with such blocks).  Like an `.align`
directive of the listing it is not part of the control flow. -/
def isPadding (ir : IR) (nop : List Nat) (b : Block) : Bool :=
  b.isCode && b.size != 0 &&
  (match b.bi with
   | some i => (match ir.interval? i with
     | some iv => (iv.bytes.drop b.off).take b.size == repeatTo nop b.size
     | none => false)
   | none => false) &&
  !(ir.cfg.any (fun e => e.src == .block b.id || e.dst == .block b.id)) &&
  (ir.refsTo b.id).isEmpty

/-- blocks that start at section position `p` -/
def startingAt (ir : IR) (s p : Nat) : List Block :=
  ir.blocks.filter (fun n => blockPos ir n == some (s, p))

/-- code blocks that start where `b` ends (same section), other than `b` itself, looking
through alignment padding -/
def followers (ir : IR) (nop : List Nat) (b : Block) : List Nat :=
  match blockPos ir b with
  | none => []
  | some (s, p) =>
    let rec go (fuel pos : Nat) : List Nat :=
      match fuel with
      | 0 => []
      | fuel + 1 =>
        let here := startingAt ir s pos
        let direct := (here.filter (fun n => n.id != b.id && n.isCode && !isPadding ir nop n)).map (·.id)
        match here.find? (isPadding ir nop) with
        | some pad => direct ++ go fuel (pos + pad.size)
        | none => direct
    go 8 (p + b.size)

def funcOf (ir : IR) (b : Nat) : Option Nat :=
  (ir.aux.funcBlocks.find? (fun (_, bs) => bs.contains b)).map (·.1)

/-- where a call in block `c` returns to: the block its fallthrough edge leads to -/
def returnSite (ir : IR) (c : Nat) : Option Nat :=
  ((ir.outEdges c).filterMap (fun e => if Edge.isFall e then (match e.dst with | .block t => some t | .proxy _ => none) else none)).head?

/-- return sites of the calls that target function `f` -/
def returnSites (ir : IR) (f : Nat) : List Nat :=
  (ir.cfg.filterMap (fun e =>
    if Edge.isCall e then
      match e.src, e.dst with
      | .block c, .block t => if funcOf ir t == some f then returnSite ir c else none
      | _, _ => none
    else none)).eraseDups

/-- proxies that stand for the return site of a call into `f` (the return site was deleted with
`retarget_to_proxy`: the call falls through to the proxy, and the function returns there) -/
def proxyReturnSites (ir : IR) (f : Nat) : List Nat :=
  (ir.cfg.filterMap (fun e =>
    if Edge.isCall e then
      match e.src, e.dst with
      | .block c, .block t =>
        if funcOf ir t == some f then
          ((ir.outEdges c).filterMap (fun x => if Edge.isFall x then (match x.dst with | .proxy p => some p | .block _ => none) else none)).head?
        else none
      | _, _ => none
    else none)).eraseDups

def sameSet (a b : List Nat) : Bool := a.all b.contains && b.all a.contains

def checkBlock (ir : IR) (nop : List Nat) (freshProxyOk : Nat → Bool) (b : Block) (ins : List Insn) : List Issue :=
  let name := s!"block {b.id}"
  let mk (kind msg : String) : Issue := { kind := kind, name := name, msg := s!"{name}: {msg}" }
  let buried := (ins.dropLast.filter (·.kind.isTransfer)).map (fun i =>
    mk "buried-transfer" s!"a control-transfer instruction at offset {i.off} is not the last instruction of its block")
  let tiles := if (ins.map (·.size)).sum == b.size then [] else
    [mk "decode" s!"its instructions cover {(ins.map (·.size)).sum} bytes of {b.size}"]
  let last := ins.getLast?
  let k : Kind := (last.map (·.kind)).getD .other
  let out := ir.outEdges b.id
  let falls := out.filter Edge.isFall
  let fol := followers ir nop b
  let fallIssues : List Issue :=
    if !k.fallsThrough then
      if falls.isEmpty then [] else [mk "fallthrough-after-no-fallthrough" s!"ends in {reprStr k} but has a fallthrough edge"]
    else if !fol.isEmpty then
      match falls with
      | [e] => (match e.dst with
        | .block t => if fol.contains t then [] else [mk "fallthrough-target" s!"falls through to block {t}, which does not follow it"]
        -- a `retarget_to_proxy` deletion redirects the control flow into the deleted block to its
        -- fresh proxy (documented), fallthroughs included
        | .proxy p => if freshProxyOk p then [] else [mk "fallthrough-target" "falls through to a proxy although code follows it"])
      | [] => [mk "fallthrough-missing" s!"ends in {reprStr k}, is followed by code, but has no fallthrough edge"]
      | _ => [mk "fallthrough-many" "has several fallthrough edges"]
    else
      (falls.filterMap (fun e => match e.dst with
        | .block t => some (mk "fallthrough-target" s!"falls through to block {t} although no code follows it")
        -- running off the end of the code: an edge to a proxy ("unknown") is an honest answer
        | .proxy _ => none))
  let branches := out.filter Edge.isBranch
  let calls := out.filter Edge.isCall
  let target : Option CfgNode := match last, b.bi with
    | some i, some bi => (match ir.interval? bi with
      | some iv => operandTarget ir iv (b.off + i.off) i.size
      | none => none)
    | _, _ => none
  let lab (e : Edge) : Label := e.label.getD { type := 99, conditional := false, direct := false }
  let transferIssues : List Issue :=
    match k with
    | .jmp | .jcc =>
      (if calls.isEmpty then [] else [mk "edge-kind" "a jump has a call edge"]) ++
      (match branches with
      | [e] =>
        (if some e.dst == target then [] else [mk "branch-target" s!"branch edge leads to {reprStr e.dst}, the operand designates {reprStr target}"]) ++
        (if (lab e).conditional == (k == .jcc) then [] else [mk "branch-flags" s!"conditional flag {(lab e).conditional} on {reprStr k}"]) ++
        (if (lab e).direct then [] else [mk "branch-flags" "direct branch marked indirect"])
      | [] => [mk "branch-missing" s!"ends in {reprStr k} but has no branch edge"]
      | _ => [mk "branch-many" "has several branch edges"])
    | .call =>
      (if branches.isEmpty then [] else [mk "edge-kind" "a call has a branch edge"]) ++
      (match calls with
      | [e] =>
        (if some e.dst == target then [] else [mk "call-target" s!"call edge leads to {reprStr e.dst}, the operand designates {reprStr target}"]) ++
        (if (lab e).direct then [] else [mk "call-flags" "direct call marked indirect"])
      | [] => [mk "call-missing" "ends in a call but has no call edge"]
      | _ => [mk "call-many" "has several call edges"])
    | .ijmp | .icall =>
      let es := if k == .ijmp then branches else calls
      (match es with
      | [e] => (match e.dst with
        | .proxy _ => if (lab e).direct then [mk "indirect-flags" "indirect transfer marked direct"] else []
        | .block t => [mk "indirect-target" s!"indirect transfer leads to block {t}"])
      | _ => [mk "indirect-edges" "an indirect transfer needs exactly one edge to a proxy"])
    | _ =>
      (if branches.isEmpty && calls.isEmpty then [] else [mk "edge-kind" s!"ends in {reprStr k} but has branch or call edges"])
  let rets := out.filter Edge.isRet
  let retIssues : List Issue :=
    if k != .ret then
      if rets.isEmpty then [] else [mk "return-edge" "has return edges but does not end in a return"]
    else
      let toBlocks := rets.filterMap (fun e => match e.dst with | .block t => some t | .proxy _ => none)
      let toProxies := rets.filter (fun e => match e.dst with | .proxy _ => true | .block _ => false)
      match funcOf ir b.id with
      | none =>
        if !toBlocks.isEmpty then [mk "return-sites" s!"function-less return leads to blocks {toBlocks}"]
        else if toProxies.isEmpty then [mk "return-missing" "a return without return edge"] else []
      | some f =>
        let sites := returnSites ir f
        if sites.isEmpty then
          if !toBlocks.isEmpty then [mk "return-sites" s!"returns to {toBlocks} but nothing calls its function"]
          else if toProxies.isEmpty then [mk "return-missing" "a return without return edge"] else []
        else
          (if sameSet toBlocks sites then [] else [mk "return-sites" s!"returns to {toBlocks}, the calls of its function return to {sites}"]) ++
          (if toProxies.all (fun e => match e.dst with | .proxy p => (proxyReturnSites ir f).contains p | .block _ => false) then []
           else [mk "return-proxy" "returns to a proxy although its function is called"])
  buried ++ tiles ++ fallIssues ++ transferIssues ++ retIssues

/-- **C03**: the CFG is the control flow of the listing -/
def checkCfg (ir : IR) (nop : List Nat) (freshProxyOk : Nat → Bool) (insns : List (Nat × List Insn)) : List Issue :=
  let perBlock := (ir.blocks.filter (fun b => b.isCode && b.bi.isSome && !isPadding ir nop b)).flatMap (fun b =>
    checkBlock ir nop freshProxyOk b ((insns.lookup b.id).getD []))
  let closed := ir.cfg.flatMap (fun e =>
    (if nodeOk ir e.src then [] else [{ kind := "edge-endpoint", name := "cfg", msg := s!"edge starts at {reprStr e.src}, which is not part of the module" : Issue }]) ++
    (if nodeOk ir e.dst then [] else [{ kind := "edge-endpoint", name := "cfg", msg := s!"edge ends at {reprStr e.dst}, which is not part of the module" : Issue }]) ++
    (match e.src with
      | .block s => if (ir.block? s).any (·.isCode) then [] else [{ kind := "edge-endpoint", name := "cfg", msg := s!"edge starts at data block {s}" : Issue }]
      | .proxy _ => [{ kind := "edge-endpoint", name := "cfg", msg := "edge starts at a proxy" : Issue }]))
  perBlock ++ closed

end GtirbVerif.FlatCfg
