import GtirbVerif.Model.Dwarf.Leb

/-! Platform facts, hand-written (not derived from /repo): byte order and
pointer size of the targets the assembler is pointed at (LLVM triples
x86_64 / i386 / arm64 / mips — the last is the big-endian MIPS32 target). -/
namespace GtirbVerif.Std
open GtirbVerif.Dwarf

/-- (ISA, byte order, pointer size in bytes) -/
def platform : List (String × ByteOrder × Nat) := [
  ("X64", .little, 8),
  ("IA32", .little, 4),
  ("ARM64", .little, 8),
  ("MIPS32", .big, 4)
]

/-- DWARF return-address column fixed by a psABI: x86-64 System V (Figure
3.36: RA = 16). The AArch64 and MIPS values are compiler conventions and are
not asserted here. -/
def psabiReturnColumn : List (String × String × Nat) := [("X64", "ELF", 16)]

/-- registers a patch must never be handed as scratch: the platform ABIs'
reserved registers (AAPCS64: x16/x17 intra-procedure-call, x18 platform, x29
frame pointer, x30 link register; MIPS o32: $t8/$t9 (call sequence), kernel,
assembler, global/stack/frame pointers, $ra, $zero and the argument / value /
callee-saved banks) -/
def reservedRegs : String → List String
  | "ARM64" => ["x16", "x17", "x18", "x29", "x30"]
  | "MIPS32" => ["t8", "t9", "k0", "k1", "at", "zero", "gp", "sp", "fp", "ra"]
  | _ => []

/-- red zone below the stack pointer a leaf function may use without adjusting
it: 128 bytes in the System V x86-64 psABI, none elsewhere -/
def redZone : List ((String × String) × Nat) := [
  (("X64", "ELF"), 128), (("X64", "PE"), 0), (("IA32", "PE"), 0), (("ARM64", "ELF"), 0),
  (("MIPS32", "ELF"), 0)
]

/-- integer argument registers, stack alignment at a call, shadow space:
System V x86-64, Microsoft x64, IA32 cdecl/stdcall, AAPCS64, MIPS o32 -/
def callConv : List ((String × String) × (List String × Nat × Nat)) := [
  (("X64", "ELF"), (["RDI", "RSI", "RDX", "RCX", "R8", "R9"], 16, 0)),
  (("X64", "PE"), (["RCX", "RDX", "R8", "R9"], 16, 32)),
  (("IA32", "PE"), ([], 4, 0)),
  (("ARM64", "ELF"), (["x0", "x1", "x2", "x3", "x4", "x5", "x6", "x7"], 16, 0)),
  (("MIPS32", "ELF"), (["a0", "a1", "a2", "a3"], 8, 0))
]

end GtirbVerif.Std
