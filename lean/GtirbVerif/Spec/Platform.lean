import GtirbVerif.Model.Dwarf.Leb

/-! Platform facts, hand-written (not derived from /repo): byte order and
pointer size of the targets the assembler is pointed at (LLVM triples
x86_64 / i386 / arm64 / mips — the last is the big-endian MIPS32 target). -/
namespace GtirbVerif.Std
open GtirbVerif.Dwarf

/-- (ISA, byte order, pointer size in bytes) -/
def platform : List (String × ByteOrder × Nat) := [
  ("X64", .little, 8),
  ("IA32", .little, 4),
  ("ARM64", .little, 8),
  ("MIPS32", .big, 4)
]

/-- DWARF return-address column fixed by a psABI: x86-64 System V (Figure
3.36: RA = 16). The AArch64 and MIPS values are compiler conventions and are
not asserted here. -/
def psabiReturnColumn : List (String × String × Nat) := [("X64", "ELF", 16)]

end GtirbVerif.Std
