import GtirbVerif.Model.Adt.RefCache

/-!
The "simple abstract models" C20 names, written without reference to the
implementation's data structures:

* reference cache  -> assigning `Symbol.referent` / `at_end` directly (`RSpec`)
* return-edge cache -> a scan of the edge set (`specBlockReturn`)
* block ordering   -> a plain list of disjoint chains (`Chains`)
* offset mapping   -> a flat dictionary keyed by (element, displacement) plus
                      the set of element keys (`FlatSpec`)
* identity set     -> a set of identities (`Nat → Bool`)
-/
namespace GtirbVerif.Adt

/-! ### reference cache -/

structure RSpec where
  ref : Nat → Option Nat := fun _ => none
  atEnd : Nat → Bool := fun _ => false

/-- retargeting = assigning every referring symbol directly -/
def RSpec.retarget (s : RSpec) (nSyms : Nat) (block : Nat) (to : Option Nat) (atEnd : Bool) :
    Except AdtErr RSpec :=
  if (List.range nSyms).all (fun x => s.ref x != some block) then .ok s
  else match to with
    | none => .error .assertion
    | some t => .ok
      { ref := fun x => if s.ref x = some block then some t else s.ref x,
        atEnd := fun x => if s.ref x = some block then atEnd else s.atEnd x }

def RSpec.setReferent (s : RSpec) (x : Nat) (r : Option Nat) (atEnd : Bool) : RSpec :=
  { ref := fset s.ref x r, atEnd := fset s.atEnd x atEnd }

def RSpec.references (s : RSpec) (nSyms : Nat) (block : Nat) : List Nat :=
  (List.range nSyms).filter (fun x => s.ref x == some block)

def RSpec.step (s : RSpec) (nSyms : Nat) : RcOp → Except AdtErr RSpec
  | .retarget b t e => s.retarget nSyms b t e
  | .setReferent x r e => .ok (s.setReferent x r e)
  | .getReferent _ => .ok s
  | .getReferences _ _ => .ok s
  | .apply => .ok s

/-! ### return-edge cache -/

def specBlockReturn (edges : List Edge) (b : CfgNode) : List Edge :=
  edges.filter (fun e => e.isReturn && e.src == b)

def specBlockProxyReturn (edges : List Edge) (b : CfgNode) : List Edge :=
  edges.filter (fun e => e.isReturn && e.toProxy && e.src == b)

/-! ### block ordering -/

abbrev Chains := List (List Nat)

def chainNeighbours (b : Nat) : List Nat → Option (Option Nat × Option Nat)
  | [] => none
  | [x] => if x = b then some (none, none) else none
  | x :: y :: r =>
    if x = b then some (none, some y)
    else match chainNeighbours b (y :: r) with
      | none => none
      | some (none, n) => if y = b then some (some x, n) else some (none, n)
      | some (some p, n) => some (some p, n)

def Chains.adjacent (cs : Chains) (b : Nat) : Option (Option Nat × Option Nat) :=
  cs.findSome? (chainNeighbours b)

def insertAfter (a : Nat) (bs : List Nat) : List Nat → List Nat
  | [] => []
  | x :: r => if x = a then x :: (bs ++ r) else x :: insertAfter a bs r

def Chains.addDetached (cs : Chains) (bs : List Nat) : Chains := if bs.isEmpty then cs else cs ++ [bs]
def Chains.insertAfter (cs : Chains) (a : Nat) (bs : List Nat) : Chains := cs.map (Adt.insertAfter a bs)
def Chains.remove (cs : Chains) (b : Nat) : Chains := (cs.map (·.filter (· != b))).filter (!·.isEmpty)
def Chains.mem (cs : Chains) (b : Nat) : Bool := cs.any (·.contains b)

/-! ### offset mapping -/

structure FlatSpec where
  val : Nat → Nat → Option Nat := fun _ _ => none    -- (element, displacement) -> value
  elem : Nat → Bool := fun _ => false                -- element keys (may have no offsets)

def absOMap (m : OMap) : FlatSpec :=
  { val := fun e d => match dictGet e m.data with
      | none => none
      | some sub => dictGet d sub,
    elem := fun e => (dictGet e m.data).isSome }

end GtirbVerif.Adt
