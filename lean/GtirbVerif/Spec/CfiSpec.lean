import GtirbVerif.Model.Dwarf.CfiEval

/-!
Specification of CFI row evaluation, written from DWARF v4 §6.4.1–6.4.3 (the
register-rule table is a *total* function from columns to rules whose default
is "no rule"/unspecified; DW_CFA_restore resets a column to what the initial
instructions gave it; DW_CFA_remember_state/restore_state are a stack) and
from the GNU as manual for the directive-only forms (`.cfi_adjust_cfa_offset`,
`.cfi_rel_offset`, `.cfi_personality`, `.cfi_lsda`, `.cfi_return_column`).
Nothing here mentions Python dictionaries.
-/
namespace GtirbVerif.CfiSpec
open GtirbVerif.Dwarf GtirbVerif.CfiEval

structure SRow where
  regs : Int → Option Rule      -- none = the default (unspecified) rule
  cfa : Option Cfa

structure SProc where
  retcol : Int
  personality : Option (Int × Nat)
  lsda : Option (Int × Nat)
  current : SRow
  initial : SRow
  stack : List SRow             -- head = most recently remembered

def upd (f : Int → Option Rule) (k : Int) (v : Option Rule) : Int → Option Rule :=
  fun k' => if k' = k then v else f k'

def applyUpdS (cur : SRow) : Upd → SRow
  | .setCfa e => { cur with cfa := some (.expr e) }
  | .setReg r rule => { cur with regs := upd cur.regs r (some rule) }

/-- one directive inside a procedure -/
def specIn (et ct : Table) (abi : AbiParams) (s : SProc) (k : Kind) (args : List Int) (sym : SymRef) :
    Except EvalErr (Option SProc) :=
  let cur := s.current
  let setCur (c : SRow) : Except EvalErr (Option SProc) := .ok (some { s with current := c })
  match k with
  | .startproc => .error .cfiState          -- nested procedure
  | .endproc => .ok none
  | .personality => do let p ← encodedPointer args sym; .ok (some { s with personality := p })
  | .lsda => do let p ← encodedPointer args sym; .ok (some { s with lsda := p })
  | .returnColumn => do let c ← one args; .ok (some { s with retcol := c })
  -- DW_CFA_def_cfa: "define the current CFA rule to use the provided register and offset"
  | .defCfa => do let (r, o) ← two args; setCur { cur with cfa := some (.regOff r o) }
  -- DW_CFA_def_cfa_register: "valid only if the current CFA rule is defined to use a register and offset"
  | .defCfaRegister => do
    let r ← one args
    match cur.cfa with
    | some (.regOff _ o) => setCur { cur with cfa := some (.regOff r o) }
    | _ => .error .cfiState
  | .defCfaOffset => do
    let o ← one args
    match cur.cfa with
    | some (.regOff r _) => setCur { cur with cfa := some (.regOff r o) }
    | _ => .error .cfiState
  -- gas: "modifies the offset by adding the operand to the current offset"
  | .adjustCfaOffset => do
    let o ← one args
    match cur.cfa with
    | some (.regOff r o') => setCur { cur with cfa := some (.regOff r (o' + o)) }
    | _ => .error .cfiState
  | .undefined => do let r ← one args; setCur { cur with regs := upd cur.regs r (some .undefined) }
  | .sameValue => do let r ← one args; setCur { cur with regs := upd cur.regs r (some .sameValue) }
  | .register => do let (r1, r2) ← two args; setCur { cur with regs := upd cur.regs r1 (some (.inReg r2)) }
  -- DW_CFA_restore: "change the rule for the indicated register to the rule assigned it by the
  -- initial_instructions in the CIE"
  | .restore => do let r ← one args; setCur { cur with regs := upd cur.regs r (s.initial.regs r) }
  | .valOffset => do let (r, o) ← two args; setCur { cur with regs := upd cur.regs r (some (.valOffset o)) }
  | .offset => do let (r, o) ← two args; setCur { cur with regs := upd cur.regs r (some (.offset o)) }
  -- gas: "previous value of register is saved at offset from the current CFA register";
  -- implemented (and specified here) as relative to the column's current offset rule
  | .relOffset => do
    let (r, o) ← two args
    match cur.regs r with
    | some (.offset o') => setCur { cur with regs := upd cur.regs r (some (.offset (o' + o))) }
    | _ => .error .cfiState
  | .rememberState => .ok (some { s with stack := cur :: s.stack })
  | .restoreState =>
    match s.stack with
    | [] => .error .cfiState
    | top :: rest => .ok (some { s with current := top, stack := rest })
  | .escape => do
    let us ← escapeUpdates et ct abi args
    setCur (us.foldl applyUpdS cur)

/-- the fresh state `.cfi_startproc` creates -/
def freshProc (rc : Int) : SProc :=
  { retcol := rc, personality := none, lsda := none,
    current := { regs := fun _ => none, cfa := none },
    initial := { regs := fun _ => none, cfa := none }, stack := [] }

def absRow (r : Row) : SRow := { regs := fun k => getKey k r.regs, cfa := r.cfa }

def absProc (s : Proc) : SProc :=
  { retcol := s.retcol, personality := s.personality, lsda := s.lsda,
    current := absRow s.current, initial := absRow s.initial,
    stack := s.stack.reverse.map absRow }

end GtirbVerif.CfiSpec
