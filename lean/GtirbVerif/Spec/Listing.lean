import GtirbVerif.Model.IR.Basic

/-!
# The listing semantics of a rewrite (specification side of C01–C04, C06, C08)

"Rewriting edits the module like editing the assembly listing."  Everything
here is written in *section coordinates of the original listing*: a position is
a byte offset from the start of the section.  An edit is `(block, offset,
deleted length, inserted bytes)`; the functions below say where every original
byte, label and annotation must be afterwards.  Nothing in this file looks at
how `gtirb_rewriting` performs the edit.
-/
namespace GtirbVerif.Listing
open GtirbVerif.IR

/-- one registered modification, as the user wrote it -/
structure LEdit where
  block : Nat                        -- original block (id in the `before` dump)
  off : Nat
  del : Nat
  ins : List Nat                     -- assembled bytes of the patch (recorded)
  labels : List (String × Nat)       -- labels the patch defines: name, offset inside `ins`
  aligns : List (Nat × Nat)          -- alignment requests of patch blocks: offset inside `ins`, alignment
  proxy : Bool                       -- retarget_to_proxy (whole-block deletion)
  order : Nat                        -- registration order
  tailCode : Bool                    -- the patch's last non-empty block is code
  exprs : List (Nat × String × Int × List Nat)   -- patch expressions: offset in `ins`, symbol name, addend, attrs
  exprSizes : List (Nat × Nat)       -- offset in `ins`, size
  cfi : List (Nat × String) := []    -- the patch's own CFI directives: offset in `ins`, directive text
  deriving Repr, Inhabited

/-- position of a block inside its section: interval base + block offset -/
def sectionBase (ir : IR) (sect : Nat) : Nat :=
  ((ir.intervals.filter (·.sect == sect)).map (fun i => i.addr.getD 0)).foldl min (1 <<< 62)

def blockPos (ir : IR) (b : Block) : Option (Nat × Nat) :=
  match b.bi with
  | none => none
  | some i => match ir.interval? i with
    | none => none
    | some iv => some (iv.sect, iv.addr.getD 0 - sectionBase ir iv.sect + b.off)

def insertSorted {α} (key : α → Nat × Nat) (x : α) : List α → List α
  | [] => [x]
  | y :: ys =>
    let kx := key x; let ky := key y
    if kx.1 < ky.1 || (kx.1 == ky.1 && kx.2 ≤ ky.2) then x :: y :: ys else y :: insertSorted key x ys

def sortOn {α} (key : α → Nat × Nat) (l : List α) : List α := l.foldr (insertSorted key) []

/-- An insertion at offset `k` goes *before* the instruction at `k`; a replacement or
deletion starting at `k` stands where that instruction was.  So among requests at one
offset the pure insertions come first (in registration order), then the one that removes
bytes there. -/
def LEdit.rank (e : LEdit) : Nat := (if e.del > 0 then 1000000 else 0) + e.order

/-- `a` is applied before `b` (same block) -/
def LEdit.before (a b : LEdit) : Bool := a.off < b.off || (a.off == b.off && a.rank < b.rank)

/-- edits of one block in listing order: by offset, insertions first, then registration order -/
def editsOf (edits : List LEdit) (b : Nat) : List LEdit :=
  sortOn (fun e => (e.off, e.rank)) (edits.filter (·.block == b))

/-- **the plain splice**: apply sorted, non-overlapping edits to a byte string -/
def spliceSpec (bytes : List Nat) : Nat → List LEdit → List Nat
  | cur, [] => bytes.drop cur
  | cur, e :: es => (bytes.drop cur).take (e.off - cur) ++ e.ins ++ spliceSpec bytes (e.off + e.del) es

/-- where original offset `k` of a block ends up inside the edited block
(`none`: the byte was deleted) -/
def mapByte (es : List LEdit) (k : Nat) : Option Nat :=
  if es.any (fun e => e.off ≤ k && k < e.off + e.del) then none
  else
    let before := es.filter (fun e => e.off ≤ k)
    some (k + (before.map (·.ins.length)).sum - (before.map (·.del)).sum)

/-- length of the edited block -/
def editedLen (size : Nat) (es : List LEdit) : Nat :=
  size + (es.map (·.ins.length)).sum - (es.map (·.del)).sum

/-- the blocks of a section in listing order -/
def sectionBlocks (ir : IR) (sect : Nat) : List (Block × Nat) :=
  sortOn (fun p => (p.2, if p.1.size == 0 then 0 else 1))
    (ir.blocks.filterMap (fun b => match blockPos ir b with
      | some (s, p) => if s == sect then some (b, p) else none
      | none => none))

def sectionBytes (ir : IR) (sect : Nat) : List Nat :=
  (sortOn (fun i => (i.addr.getD 0, 0)) (ir.intervals.filter (·.sect == sect))).flatMap (·.bytes)

def repeatTo (unit : List Nat) : Nat → List Nat
  | 0 => []
  | n + 1 => if unit.isEmpty then [] else unit ++ repeatTo unit (n + 1 - unit.length)
termination_by n => n
decreasing_by
  have : unit.length ≠ 0 := by
    intro h; simp_all [List.length_eq_zero_iff]
  omega

def alignUpN (x a : Nat) : Nat := if a ≤ 1 then x else (x + a - 1) / a * a

/-- one original block after editing: its bytes, whether its last content is
code (decides nop vs zero padding), and the alignment requests inside it -/
structure Piece where
  bytes : List Nat
  isCode : Bool
  aligns : List (Nat × Nat)      -- (offset inside the piece, alignment)
  deriving Repr, Inhabited

/-- the first aligned item of a piece: the lowest offset that carries a request, with the
strictest of the requests made there (the block's own `.align` and a patch's at offset 0 must
both hold; alignments are powers of two, so the larger one implies the other) -/
def firstAlign (as : List (Nat × Nat)) : Option (Nat × Nat) :=
  match sortOn (fun a => (a.1, 0)) as with
  | (o, a) :: rest => some (o, ((rest.filter (fun x => x.1 == o)).map (·.2)).foldl max a)
  | [] => none

/-- expected section contents: the pieces in order; before a piece whose first
aligned item demands it, whole nops (after code) or zeros (after data) -/
def layoutPieces (nop : List Nat) (base : Nat) : List Piece → Bool → Nat → List Nat
  | [], _, _ => []
  | p :: ps, prevCode, addr =>
    let pad : Nat := match firstAlign p.aligns with
      | some (o, a) => alignUpN (base + addr + o) a - (base + addr + o)
      | none => 0
    let padBytes := if pad == 0 then [] else if prevCode then repeatTo nop pad else List.replicate pad 0
    padBytes ++ p.bytes ++ layoutPieces nop base ps (if p.bytes.isEmpty then prevCode else p.isCode)
      (addr + padBytes.length + p.bytes.length)

/-! ### the expected layout of a section -/

def pieceOf (before : IR) (keptAlign : Nat → Bool) (edits : List LEdit) (b : Block) : Piece :=
  let es := editsOf edits b.id
  let bytes0 : List Nat := match b.bi with
    | some i => match before.interval? i with
      | some iv => (iv.bytes.drop b.off).take b.size
      | none => []
    | none => []
  let bytes := spliceSpec bytes0 0 es
  -- kind of the last content: a patch that ends the block decides, else the block itself
  let tailEdit := (es.filter (fun e => e.off + e.del == b.size && !e.ins.isEmpty)).getLast?
  let isCode := match tailEdit with
    | some e => e.tailCode
    | none => b.isCode
  -- alignment requests: the block's own and the patches'.  The `.align` of a block whose
  -- every byte was deleted may go with it or stay (C01 allows "padding demanded by alignment
  -- metadata"): it stays exactly when the rewritten module still records it (`keptAlign`).
  let own : List (Nat × Nat) := match alookup b.id before.aux.alignment with
    | some a => if bytes.isEmpty && !keptAlign b.id then [] else [(0, a)]
    | none => []
  let fromPatches := es.flatMap (fun e =>
    let start := e.off + ((es.filter (fun e' => e'.before e)).map
      (fun e' => e'.ins.length)).sum - ((es.filter (fun e' => e'.before e)).map
      (·.del)).sum
    e.aligns.map (fun (o, a) => (start + o, a)))
  { bytes := bytes, isCode := isCode, aligns := own ++ fromPatches }

/-- start of every piece inside the laid-out section, in order -/
def pieceStarts (nop : List Nat) (base : Nat) : List Piece → Bool → Nat → List Nat
  | [], _, _ => []
  | p :: ps, prevCode, addr =>
    let pad : Nat := match firstAlign p.aligns with
      | some (o, a) => alignUpN (base + addr + o) a - (base + addr + o)
      | none => 0
    (addr + pad) :: pieceStarts nop base ps (if p.bytes.isEmpty then prevCode else p.isCode)
      (addr + pad + p.bytes.length)

/-- start of an edit's inserted bytes inside its (edited) block -/
def editStart (es : List LEdit) (e : LEdit) : Nat :=
  let earlier := es.filter (fun e' => e'.before e)
  e.off + (earlier.map (·.ins.length)).sum - (earlier.map (·.del)).sum

end GtirbVerif.Listing
