import GtirbVerif.Spec.Listing

/-! Comparing a rewritten module with what the listing semantics demands
(executable specification, evaluated by the driver on the real before/after). -/
namespace GtirbVerif.Listing
open GtirbVerif.IR

/-- one disagreement between the rewritten module and the listing semantics -/
structure Issue where
  kind : String
  name : String
  want : Int := -1
  got : Int := -1
  msg : String
  deriving Repr, Inhabited

structure Expect where
  sect : Nat
  starts : List (Block × Nat × Piece)      -- original block, start of its piece, the piece
  bytes : List Nat
  deriving Inhabited

/-- expected layout of one original section -/
def expectSection (before after : IR) (edits : List LEdit) (nop : List Nat) (sect : Nat) : Expect :=
  let blocks := (sectionBlocks before sect).map (·.1)
  let pieces := blocks.map (pieceOf before (fun b => (alookup b after.aux.alignment).isSome) edits)
  let base := sectionBase before sect
  let starts := pieceStarts nop base pieces false 0
  { sect := sect, starts := (blocks.zip (starts.zip pieces)).map (fun (b, s, p) => (b, s, p)),
    bytes := layoutPieces nop base pieces false 0 }

def sectName (ir : IR) (s : Nat) : String := (ir.sections.lookup s).getD "?"

def sectByName (ir : IR) (n : String) : Option Nat := (ir.sections.find? (·.2 == n)).map (·.1)

/-- **C01**: section bytes = the original bytes with every patch spliced in -/
def checkBytes (before after : IR) (edits : List LEdit) (nop : List Nat) : List Issue :=
  before.sections.flatMap (fun (s, name) =>
    let ex := expectSection before after edits nop s
    match sectByName after name with
    | none => if ex.bytes.isEmpty then [] else [{ kind := "section-gone", name := name, msg := s!"section {name} disappeared" }]
    | some s' =>
      let actual := sectionBytes after s'
      if actual == ex.bytes then []
      else
        let k := (List.range (max actual.length ex.bytes.length)).find? (fun i => actual[i]? != ex.bytes[i]?)
        [{ kind := "bytes", name := name, want := ex.bytes.length, got := actual.length, msg := s!"section {name}: bytes differ at offset {k.getD 0}: expected {(ex.bytes.drop (k.getD 0)).take 8}, found {(actual.drop (k.getD 0)).take 8} (expected length {ex.bytes.length}, found {actual.length})" }])

/-- position of a symbol in a module: (section name, offset) or proxy -/
inductive Place
  | at (sect : String) (pos : Nat)
  | proxy (p : Nat)
  | nowhere
  | dangling
  deriving Repr, DecidableEq, Inhabited

def placeOf (ir : IR) (y : Sym) : Place :=
  match y.ref with
  | .none => .nowhere
  | .proxy p => .proxy p
  | .block b =>
    match ir.block? b with
    | none => .dangling
    | some blk =>
      match blockPos ir blk with
      | none => .dangling
      | some (s, p) => .at (sectName ir s) (p + if y.atEnd then blk.size else 0)

def wholeProxy (edits : List LEdit) (blk : Block) : Bool :=
  (editsOf edits blk.id).any (fun e => e.proxy && e.off == 0 && e.del == blk.size)

/-- The labels of a wholly deleted block slide to the next position.  When everything from
there up to a block deleted with `retarget_to_proxy` is deleted too, the labels sit *on*
that block when it is turned into a proxy: both outcomes (the position, or the fresh proxy)
are the listing reading of the request. -/
def proxyFollows (ex : Expect) (edits : List LEdit) (b : Nat) : Bool :=
  let rec go : List (Block × Nat × Piece) → Bool
    | [] => false
    | (blk, _, q) :: tl => if !q.bytes.isEmpty then false else if wholeProxy edits blk then true else go tl
  match ex.starts.dropWhile (fun t => t.1.id != b) with
  | [] => false
  | _ :: tl => go tl

def slidesOntoProxy (ex : Expect) (edits : List LEdit) (b : Nat) : Bool :=
  match ex.starts.find? (fun t => t.1.id == b) with
  | some (_, _, p) => p.bytes.isEmpty && proxyFollows ex edits b
  | none => false

def Place.pos : Place → Int
  | .at _ p => p
  | _ => -1

/-- A label standing exactly on the end boundary of piece `b` may be printed on either side
of the alignment padding the layout puts there: the positions it may take are the starts of
the following pieces up to the first one that has bytes. -/
def boundaryStarts (ex : Expect) (b : Nat) : List Nat :=
  let rec go : List (Block × Nat × Piece) → List Nat
    | [] => []
    | (_, s, q) :: tl => if q.bytes.isEmpty then s :: go tl else [s]
  match ex.starts.dropWhile (fun t => t.1.id != b) with
  | _ :: tl => go tl
  | [] => []

def Place.atAny (sect : String) (ps : List Nat) : Place → Bool
  | .at s p => s == sect && ps.contains p
  | _ => false

/-- **C02**: every label designates the same place of the edited listing -/
def checkLabels (before after : IR) (edits : List LEdit) (nop : List Nat) : List Issue :=
  let exs := before.sections.map (fun (s, _) => expectSection before after edits nop s)
  let expectedOld : List Issue := before.syms.flatMap (fun y =>
    match y.ref with
    | .block b =>
      match exs.findSome? (fun ex => (ex.starts.find? (fun t => t.1.id == b)).map (fun t => (ex, t))) with
      | none => []
      | some (ex, blk, start, piece) =>
        let s := ex.sect
        match after.syms.find? (·.name == y.name) with
        | none => [{ kind := "symbol-gone", name := y.name, msg := s!"symbol {y.name} disappeared" }]
        | some y' =>
          -- the request only means something when the block really leaves the listing
          if wholeProxy edits blk && piece.bytes.isEmpty then
            match placeOf after y' with
            | .proxy p =>
              if before.proxies.contains p then
                [{ kind := "proxy-reused", name := y.name, msg := s!"symbol {y.name}: retargeted to an existing proxy" }]
              else if !after.proxies.contains p then
                [{ kind := "proxy-missing", name := y.name, msg := s!"symbol {y.name}: its proxy is not in module.proxies" }]
              else []
            | pl => [{ kind := "proxy-wanted", name := y.name, got := pl.pos, msg := s!"symbol {y.name}: retarget_to_proxy requested but it designates {reprStr pl}" }]
          else
            let wantPos := start + if y.atEnd then piece.bytes.length else 0
            let want := Place.at (sectName before s) wantPos
            let got := placeOf after y'
            let freshProxy := match got with
              | .proxy p => !before.proxies.contains p && after.proxies.contains p
              | _ => false
            -- the labels of an emptied block slide to the next block, whose alignment padding
            -- may be printed before them
            let atPieceEnd := wantPos == start + piece.bytes.length
            if got == want || (atPieceEnd && got.atAny (sectName before s) (boundaryStarts ex b)) || (freshProxy && slidesOntoProxy ex edits b) ||
                -- the block's own deletion was requested with retarget_to_proxy, but inserted code keeps
                -- its place in the listing: each of its labels may stay or follow the request
                (freshProxy && wholeProxy edits blk) then []
            else [{ kind := if freshProxy && atPieceEnd && proxyFollows ex edits b then "end-label-on-proxy" else "symbol",
                    name := y.name, want := wantPos, got := got.pos, msg := s!"symbol {y.name} ({if y.atEnd then "end" else "start"} of a block): expected {reprStr want}, found {reprStr got}" }]
    | _ => [])
  let expectedNew : List Issue := edits.flatMap (fun e =>
    match exs.findSome? (fun ex => (ex.starts.find? (fun t => t.1.id == e.block)).map (fun t => (ex, t))) with
    | none => []
    | some (ex, blk, start, piece) =>
      let s := ex.sect
      let es := editsOf edits e.block
      e.labels.flatMap (fun (name, o) =>
        match after.syms.find? (·.name == name) with
        | none => [{ kind := "patch-label-gone", name := name, msg := s!"patch label {name} is not a symbol of the module" }]
        | some y' =>
          let inPiece := editStart es e + o
          let wantPos := start + inPiece
          let want := Place.at (sectName before s) wantPos
          let got := placeOf after y'
          -- a label at the very end of the piece may be printed after the alignment padding
          let freshProxy := match got with
            | .proxy p => !before.proxies.contains p && after.proxies.contains p
            | _ => false
          let atPieceEnd := inPiece == piece.bytes.length
          if got == want || (atPieceEnd && got.atAny (sectName before s) (boundaryStarts ex e.block)) || (atPieceEnd && freshProxy && (wholeProxy edits blk || proxyFollows ex edits e.block)) then []
          else [{ kind := "patch-label", name := name, want := wantPos, got := got.pos, msg := s!"patch label {name}: expected {reprStr want}, found {reprStr got}" }]))
  let dangling : List Issue := after.syms.filterMap (fun y =>
    if placeOf after y == .dangling then
      some { kind := "dangling", name := y.name, msg := s!"symbol {y.name} refers to a block that is not part of the module" }
    else match y.ref with
      | .proxy p => if after.proxies.contains p then none
          else some { kind := "proxy-missing", name := y.name, msg := s!"symbol {y.name} refers to a proxy that is not in module.proxies" }
      | _ => none)
  expectedOld ++ expectedNew ++ dangling

/-- an annotation located in a section -/
structure Ann where
  table : String
  sect : String
  pos : Nat
  value : String
  deriving Repr, DecidableEq, Inhabited

def symName (ir : IR) (id : Nat) : String := ((ir.syms.find? (·.id == id)).map (·.name)).getD s!"<missing {id}>"

def exprValue (ir : IR) (e : SymExpr) : String :=
  if e.kind == 0 then s!"{symName ir e.sym1}+{e.offset} {e.attrs}"
  else s!"({symName ir e.sym1}-{symName ir e.sym2})/{e.scale}+{e.offset} {e.attrs}"

/-- every annotation of a module, in section coordinates -/
def annotations (ir : IR) : List Ann :=
  let fromExprs := ir.intervals.flatMap (fun iv =>
    iv.symExprs.map (fun (k, e) =>
      { table := "symbolic_expressions", sect := sectName ir iv.sect,
        pos := iv.addr.getD 0 - sectionBase ir iv.sect + k, value := exprValue ir e : Ann }))
  let fromTables := ir.aux.omaps.flatMap (fun (name, es) =>
    es.filterMap (fun (el, k, v) =>
      match el with
      | .interval i => (ir.interval? i).map (fun iv =>
          { table := name, sect := sectName ir iv.sect, pos := iv.addr.getD 0 - sectionBase ir iv.sect + k, value := v })
      | .block b => match ir.block? b with
        | some blk => (blockPos ir blk).map (fun (s, p) => { table := name, sect := sectName ir s, pos := p + k, value := v })
        | none => some { table := name, sect := "<detached>", pos := k, value := v }))
  fromExprs ++ fromTables

/-- **C04**: annotations travel with the byte they annotate; those on deleted
bytes disappear; patch expressions appear at patch position + offset -/
def checkAnnotations (before after : IR) (edits : List LEdit) (nop : List Nat) : List Issue :=
  let exs := before.sections.map (fun (s, _) => expectSection before after edits nop s)
  -- where does original section position `p` go?
  let move (sect : String) (p : Nat) : Option Nat :=
    match sectByName before sect with
    | none => some p
    | some s =>
      match exs.find? (·.sect == s) with
      | none => some p
      | some ex =>
        -- the original block containing p
        let owner := (sectionBlocks before s).find? (fun (b, bp) => bp ≤ p && p < bp + b.size)
        match owner with
        | none => some p   -- outside every block: not modelled (no such bytes in generated modules)
        | some (b, bp) =>
          match ex.starts.find? (fun t => t.1.id == b.id) with
          | none => none
          | some (_, start, _) => (mapByte (editsOf edits b.id) (p - bp)).map (start + ·)
  let expectedOld := (annotations before).filterMap (fun a => (move a.sect a.pos).map (fun p => { a with pos := p }))
  let expectedNew : List Ann := edits.flatMap (fun e =>
    match exs.findSome? (fun ex => (ex.starts.find? (fun t => t.1.id == e.block)).map (fun t => (ex.sect, t))) with
    | none => []
    | some (s, _, start, _) =>
      let es := editsOf edits e.block
      let base := start + editStart es e
      e.exprs.map (fun (o, name, addend, attrs) =>
        { table := "symbolic_expressions", sect := sectName before s, pos := base + o,
          value := s!"{name}+{addend} {attrs}" : Ann }) ++
      e.exprSizes.map (fun (o, sz) =>
        { table := "symbolicExpressionSizes", sect := sectName before s, pos := base + o, value := toString sz }))
  let expected := expectedOld ++ expectedNew
  let actual := (annotations after).filter (fun a => (sectByName before a.sect).isSome || a.sect == "<detached>")
  let missing := expected.filter (fun a => !actual.contains a)
  let extra := actual.filter (fun a => !expected.contains a)
  missing.map (fun a => { kind := "missing", name := a.table, want := a.pos, msg := s!"{a.table}: entry {a.value} expected at {a.sect}+{a.pos} is missing" : Issue }) ++
  extra.map (fun a => { kind := "extra", name := a.table, got := a.pos, msg := s!"{a.table}: unexpected entry {a.value} at {a.sect}+{a.pos}" : Issue }) ++
  -- nothing points outside its element
  (after.intervals.flatMap (fun iv => iv.symExprs.filterMap (fun (k, _) =>
    if k < iv.size then none else some { kind := "outside", name := "symbolic_expressions", got := k, msg := s!"symbolic expression at offset {k} outside its byte interval (size {iv.size})" : Issue }))) ++
  (after.aux.omaps.flatMap (fun (name, es) => es.filterMap (fun (el, k, _) =>
    match el with
    | .interval i => match after.interval? i with
      | some iv => if k < iv.size then none else some { kind := "outside", name := name, got := k, msg := s!"{name}: offset {k} outside its byte interval (size {iv.size})" : Issue }
      | none => some { kind := "stale-key", name := name, msg := s!"{name}: entry keyed by an interval that is not in the module" }
    | .block b => match after.block? b with
      | some blk => if blk.bi.isSome && k < max blk.size 1 then none
                    else some { kind := "outside", name := name, got := k, msg := s!"{name}: offset {k} outside its block (size {blk.size})" : Issue }
      | none => some { kind := "stale-key", name := name, msg := s!"{name}: entry keyed by a block that is not in the module" })))

/-- no symbol name was duplicated by the rewrite -/
def checkNoDuplicateSymbols (before after : IR) : List Issue :=
  let names := after.syms.map (·.name)
  (names.eraseDups.filter (fun n => (names.filter (· == n)).length > 1 &&
    ((before.syms.map (·.name)).filter (· == n)).length ≤ 1)).map
    (fun n => { kind := "duplicate-symbol", name := n, msg := s!"symbol name {n} now names more than one symbol" })

end GtirbVerif.Listing
