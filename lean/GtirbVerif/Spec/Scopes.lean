import GtirbVerif.Spec.FlatCfg

/-!
# Where a registered (scope, patch) pair lands (specification side of C07)

From the module before the rewrite (canonical dump), the instruction sizes of every code block
and the function names, decide for every registration the blocks it designates and the offset in
each; the invocations then happen block by block in address order, inside a block by (offset,
registration order).  Nothing here looks at how `gtirb_rewriting` resolves scopes.
-/
namespace GtirbVerif.Scopes
open GtirbVerif.IR GtirbVerif.Listing GtirbVerif.FlatCfg
open GtirbVerif.Adt (CfgNode Label Edge)

inductive Pos
  | entry | exit | anywhere
  deriving Repr, DecidableEq, Inhabited

inductive Pat
  | lit (name : String)
  | main
  | entrypoint
  | prefix (p : String)      -- the regular expression `p.*`
  deriving Repr, Inhabited

inductive Scope
  | allBlocks (pos : Pos) (exclude : Option (List Pat))
  | single (block : Nat) (pos : Pos)
  | allFunctions (entry : Bool) (pos : Pos) (functions : Option (List Pat))
  | atOffset (block off : Nat)
  deriving Repr, Inhabited

structure Func where
  id : Nat
  name : String
  deriving Repr, Inhabited

def funcBlocksOf (ir : IR) (f : Nat) : List Nat := (alookup f ir.aux.funcBlocks).getD []
def funcEntriesOf (ir : IR) (f : Nat) : List Nat := (alookup f ir.aux.funcEntries).getD []

def syscallType : Nat := 4
def sysretType : Nat := 5

/-- the blocks through which control leaves the function: a return, or a non-call edge to
something outside the function -/
def exitBlocks (ir : IR) (f : Nat) : List Nat :=
  let bs := funcBlocksOf ir f
  bs.filter (fun b => (ir.outEdges b).any (fun e =>
    match e.label with
    | none => false
    | some l =>
      l.type == retType || l.type == sysretType ||
      (l.type != callType && l.type != syscallType &&
        (match e.dst with
         | .block t => !bs.contains t
         | .proxy _ => true))))

def patMatches (ir : IR) (f : Func) : Pat → Bool
  | .lit n => f.name == n
  | .main => f.name == "main"
  | .entrypoint => match ir.entry with
    | some e => (funcEntriesOf ir f.id).contains e
    | none => false
  | .prefix p => f.name.startsWith p

def funcOfBlock (ir : IR) (funcs : List Func) (b : Nat) : Option Func :=
  match funcOf ir b with
  | some fid => funcs.find? (·.id == fid)
  | none => none

/-- does the scope designate this block? -/
def designates (ir : IR) (funcs : List Func) (b : Block) : Scope → Bool
  | .allBlocks _ excl =>
    b.isCode &&
    (match funcOfBlock ir funcs b.id, excl with
     | some f, some pats => !(pats.any (patMatches ir f))
     | _, _ => true)
  | .single blk _ => blk == b.id
  | .allFunctions entry _ fs =>
    (match funcOfBlock ir funcs b.id with
     | none => false
     | some f =>
       (match fs with | none => true | some pats => pats.any (patMatches ir f)) &&
       (if entry then (funcEntriesOf ir f.id).contains b.id else (exitBlocks ir f.id).contains b.id))
  | .atOffset blk _ => blk == b.id

/-- bytes of the block before its terminator (the whole block when every out-edge is a
fallthrough, i.e. there is no terminator) -/
def beforeTerminator (ir : IR) (b : Block) (sizes : List Nat) : Nat :=
  if (ir.outEdges b.id).all Edge.isFall then sizes.sum else sizes.dropLast.sum

def offsetOf (ir : IR) (b : Block) (sizes : List Nat) : Scope → Nat
  | .allBlocks p _ | .single _ p | .allFunctions _ p _ =>
    (match p with
     | .entry => 0
     | .exit => beforeTerminator ir b sizes
     | .anywhere => 0)          -- "always insert at the first potential offset"
  | .atOffset _ off => off

structure Invocation where
  reg : Nat
  block : Nat
  off : Nat
  func : Option Nat
  deriving Repr, DecidableEq, Inhabited

/-- **C07**: the invocations, in the order they happen -/
def expectedInvocations (ir : IR) (funcs : List Func) (insnSizes : List (Nat × List Nat)) (regs : List Scope) :
    List Invocation :=
  let blocks := ir.sections.flatMap (fun (s, _) => (sectionBlocks ir s).map (·.1))
  -- blocks in address order over the whole module
  let ordered := sortOn (fun (b : Block) => ((match b.bi with
      | some i => ((ir.interval? i).bind (·.addr)).getD 0
      | none => 0) + b.off, 0)) blocks
  ordered.flatMap (fun b =>
    let sizes := (insnSizes.lookup b.id).getD []
    let mine := (regs.zipIdx.filter (fun (sc, _) => designates ir funcs b sc)).map (fun (sc, i) =>
      ({ reg := i, block := b.id, off := offsetOf ir b sizes sc, func := funcOf ir b.id } : Invocation))
    sortOn (fun (v : Invocation) => (v.off, v.reg)) mine)

end GtirbVerif.Scopes
