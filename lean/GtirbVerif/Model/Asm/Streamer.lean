/-!
Model of the assembler's streamer (`assembler/assembler.py`: `_SymbolCreator`, `_Streamer`,
`Assembler.finalize`).  LLVM's parser and encoder are outside the model: the model consumes the
*event stream* the parser delivers (label, instruction with its encoded size and kind, data,
alignment, section switch …) and produces what the streamer produces: per section the block
list tiling the data, symbolic expressions, alignment and block types; the CFG; the symbols.
-/
namespace GtirbVerif.Asm

inductive Node
  | block (b : Nat)
  | proxy (p : Nat)
  | ext (name : String)        -- referent of a symbol of the target module
  deriving Repr, DecidableEq, Inhabited

inductive EType
  | branch | call | fall | ret
  deriving Repr, DecidableEq, Inhabited

structure AEdge where
  src : Nat
  dst : Node
  type : EType
  cond : Bool
  direct : Bool
  deriving Repr, DecidableEq, Inhabited

inductive IKind
  | other | ret | call | jmp | jcc
  deriving Repr, DecidableEq, Inhabited

inductive DType
  | uleb | sleb | ascii | string
  deriving Repr, DecidableEq, Inhabited

/-- operand of a control transfer / a symbolic fixup -/
structure Fixup where
  off : Nat            -- inside the instruction / value
  size : Nat
  sym : String
  addend : Int
  sym2 : String := ""  -- second symbol of a difference `sym - sym2`; empty when absent
  deriving Repr, DecidableEq, Inhabited

inductive Event
  | section (name : String) (exec : Bool)
  | label (name : String)
  | insn (size : Nat) (kind : IKind) (indirect : Bool) (fixups : List Fixup)
  | value (size : Nat) (fix : Fixup)          -- `.quad sym`
  | rawBytes (n : Nat)                        -- `.byte`, `.quad 5`, `.long` …
  | strBytes (n : Nat) (isNul : Bool)         -- `.ascii` / `.string` contents, then the NUL
  | fill (n : Nat)                            -- `.zero n`
  | align (a : Nat)
  | leb (signed : Bool) (fix : Fixup)
  | cfi
  deriving Repr, Inhabited

structure ABlock where
  id : Nat
  off : Nat
  size : Nat
  deriving Repr, DecidableEq, Inhabited

structure ASect where
  name : String
  exec : Bool
  dataLen : Nat := 0
  blocks : List ABlock                         -- in streaming order
  alignment : List (Nat × Nat) := []           -- block id -> alignment
  exprs : List (Nat × Fixup) := []             -- section offset -> expression (off inside = 0)
  deriving Repr, Inhabited

inductive AErr
  | multipleDefinitions (name : String)
  | undefSymbol (name : String)
  | unsupported (why : String)
  | internal (why : String)
  deriving Repr, DecidableEq

structure AState where
  sects : List ASect := []
  cur : Option String := none
  cfg : List AEdge := []
  locals : List (String × Nat) := []           -- local symbol -> its block
  undefs : List (String × Nat) := []           -- symbols created for undefined names -> proxy
  proxies : List Nat := []
  withCode : List Nat := []
  blockTypes : List (Nat × DType) := []
  cfiBlocks : List Nat := []
  next : Nat := 0
  -- finalisation
  atEnd : List String := []                    -- symbols turned into at-end symbols
  dataBlocks : List Nat := []                  -- blocks converted to data blocks
  keys : List Nat := []                        -- keys of the referent index (a `defaultdict`)
  deriving Repr, Inhabited

structure Target where
  moduleSyms : List (String × Bool)            -- name -> referent is a CFG node (code block / proxy)
  allowUndef : Bool
  trivUnreach : Bool
  deriving Repr, Inhabited

/-! ### first pass: `_SymbolCreator`

Block ids: the block of the k-th label gets the odd id `2k+1`, every other block the even id
`2 * next`.  Labels therefore get the same ids whether a text is pre-scanned as a whole or
chunk by chunk. -/

def precreate (t : Target) (st : AState) : List Event → Except AErr AState
  | [] => .ok st
  | .label n :: es =>
    if st.locals.any (·.1 == n) || st.undefs.any (·.1 == n) || t.moduleSyms.any (·.1 == n) then .error (.multipleDefinitions n)
    else precreate t { st with locals := st.locals ++ [(n, 2 * st.locals.length + 1)] } es
  | _ :: es => precreate t st es

/-! ### second pass: `_Streamer` -/

def AState.sect? (st : AState) : Option ASect :=
  match st.cur with
  | none => none
  | some n => st.sects.find? (·.name == n)

def AState.setSect (st : AState) (s : ASect) : AState :=
  { st with sects := st.sects.map (fun x => if x.name == s.name then s else x) }

def ASect.curBlock (s : ASect) : ABlock := s.blocks.getLast?.getD default

def ASect.setCur (s : ASect) (b : ABlock) : ASect := { s with blocks := s.blocks.dropLast ++ [b] }

/-- `_append_data` -/
def ASect.append (s : ASect) (n : Nat) : ASect :=
  let c := s.curBlock
  { (s.setCur { c with size := c.size + n }) with dataLen := s.dataLen + n }

/-- `_split_block` -/
def splitBlock (st : AState) (s : ASect) (addFall : Bool) : AState × ASect :=
  let c := s.curBlock
  let nb : ABlock := { id := 2 * st.next, off := c.off + c.size, size := 0 }
  let cfg := if addFall then st.cfg ++ [{ src := c.id, dst := .block nb.id, type := .fall, cond := false, direct := true }] else st.cfg
  ({ st with cfg := cfg, next := st.next + 1 }, { s with blocks := s.blocks ++ [nb] })

/-- `_resolve_symbol` for a control-transfer target: local symbols first, then the module's -/
def resolveTarget (t : Target) (st : AState) (name : String) : Except AErr (AState × Node) :=
  match st.locals.find? (·.1 == name) with
  | some (_, b) => .ok (st, .block b)
  | none =>
    match st.undefs.find? (·.1 == name) with
    | some (_, p) => .ok (st, .proxy p)
    | none =>
      match t.moduleSyms.find? (·.1 == name) with
      | some (_, isCfg) =>
        if isCfg then .ok (st, .ext name)
        else .error (.unsupported "Call and branch targets cannot be data blocks or other non-CFG elements")
      | none =>
        if !t.allowUndef then .error (.undefSymbol name)
        else .ok ({ st with undefs := st.undefs ++ [(name, st.next)], proxies := st.proxies ++ [st.next], next := st.next + 1 },
                  .proxy st.next)

/-- a symbol mentioned in data or as a non-branch operand must resolve too -/
def resolveRef (t : Target) (st : AState) (name : String) : Except AErr AState :=
  if st.locals.any (·.1 == name) || st.undefs.any (·.1 == name) || t.moduleSyms.any (·.1 == name) then .ok st
  else if !t.allowUndef then .error (.undefSymbol name)
  else .ok { st with undefs := st.undefs ++ [(name, st.next)], proxies := st.proxies ++ [st.next], next := st.next + 1 }

/-- every symbol of an operand resolves -/
def resolveFix (t : Target) (st : AState) (f : Fixup) : Except AErr AState :=
  match resolveRef t st f.sym with
  | .error e => .error e
  | .ok st1 => if f.sym2 == "" then .ok st1 else resolveRef t st1 f.sym2

/-- all symbolic operands of an instruction resolve, in order -/
def resolveFixups (t : Target) (st : AState) : List Fixup → Except AErr AState
  | [] => .ok st
  | f :: fs =>
    match resolveFix t st f with
    | .error e => .error e
    | .ok st1 => resolveFixups t st1 fs

def stepSection (st : AState) (name : String) (exec : Bool) : AState :=
  if st.sects.any (·.name == name) then { st with cur := some name }
  else { st with sects := st.sects ++ [{ name := name, exec := exec, blocks := [{ id := 2 * st.next, off := 0, size := 0 }] }], cur := some name, next := st.next + 1 }

/-- `emit_label` -/
def stepLabel (st : AState) (s : ASect) (name : String) : Except AErr AState :=
  match st.locals.find? (·.1 == name) with
  | none => .error (.internal "label was not precreated")
  | some (_, lb) =>
    let c := s.curBlock
    let nb : ABlock := { id := lb, off := c.off + c.size, size := 0 }
    let st1 : AState := { st with cfg := st.cfg ++ [{ src := c.id, dst := .block lb, type := .fall, cond := false, direct := true }] }
    .ok (st1.setSect { s with blocks := s.blocks ++ [nb] })

/-- the target of a call or branch: `_resolve_instruction_target` -/
def insnTarget (t : Target) (st : AState) (indirect : Bool) (fixups : List Fixup) : Except AErr (AState × Node × Bool) :=
  if indirect then
    .ok ({ st with proxies := st.proxies ++ [st.next], next := st.next + 1 }, .proxy st.next, false)
  else
    match fixups with
    | [f] =>
      if f.addend != 0 then .error (.unsupported "Call and branch targets cannot have offsets")
      else (resolveTarget t st f.sym).map (fun (a, n) => (a, n, true))
    | _ => .error (.internal "len(fixups) == 1")

/-- the section after an instruction's bytes and expressions have been appended -/
def insnSect (s : ASect) (size : Nat) (fixups : List Fixup) : ASect :=
  ASect.append { s with exprs := s.exprs ++ fixups.map (fun (f : Fixup) => (s.dataLen + f.off, f)) } size

def markCode (st : AState) (b : Nat) : AState :=
  { st with withCode := if st.withCode.contains b then st.withCode else st.withCode ++ [b] }

def retEdge (src p : Nat) : AEdge := { src := src, dst := .proxy p, type := .ret, cond := false, direct := true }

def xferEdge (src : Nat) (tgt : Node) (kind : IKind) (direct : Bool) : AEdge :=
  { src := src, dst := tgt, type := if kind == .call then .call else .branch, cond := kind == .jcc, direct := direct }

/-- `emit_instruction` -/
def stepInsn (t : Target) (st : AState) (s : ASect) (size : Nat) (kind : IKind) (indirect : Bool) (fixups : List Fixup) : Except AErr AState :=
  match resolveFixups t st fixups with
  | .error e => .error e
  | .ok st0 =>
    let s2 := insnSect s size fixups
    let c := s2.curBlock
    let st1 := markCode st0 c.id
    match kind with
    | .other => .ok (st1.setSect s2)
    | .ret =>
      let st2 : AState := { st1 with proxies := st1.proxies ++ [st1.next], next := st1.next + 1, cfg := st1.cfg ++ [retEdge c.id st1.next] }
      let r := splitBlock st2 s2 false
      .ok (r.1.setSect r.2)
    | _ =>
      match insnTarget t st1 indirect fixups with
      | .error e => .error e
      | .ok (st2, tgt, direct) =>
        let st3 : AState := { st2 with cfg := st2.cfg ++ [xferEdge c.id tgt kind direct] }
        let r := splitBlock st3 s2 (kind == .call || kind == .jcc)
        .ok (r.1.setSect r.2)

/-- `emit_value_impl` -/
def stepValue (t : Target) (st : AState) (s : ASect) (size : Nat) (f : Fixup) : Except AErr AState :=
  match resolveFix t st f with
  | .error e => .error e
  | .ok st0 => .ok (st0.setSect (ASect.append { s with exprs := s.exprs ++ [(s.dataLen, { f with off := 0, size := size })] } size))

/-- can a NUL terminate the previous ASCII block? (`_try_terminate_previous_ascii_block`) -/
def canTerminate (st : AState) (s : ASect) (n : Nat) (isNul : Bool) : Bool :=
  isNul && n == 1 && s.curBlock.size == 0 && s.blocks.length ≥ 2 &&
    (match s.blocks.dropLast.getLast? with
     | some p => (st.blockTypes.find? (·.1 == p.id)).map (·.2) == some .ascii
     | none => false)

def terminateSect (s : ASect) : ASect :=
  let p := s.blocks.dropLast.getLast?.getD default
  let c := s.curBlock
  { s with blocks := (s.blocks.dropLast.dropLast) ++ [{ p with size := p.size + 1 }, { c with off := c.off + 1 }], dataLen := s.dataLen + 1 }

/-- a value that gets a block of its own: `_emit_value_with_encoding` -/
def encoded (st : AState) (s : ASect) (n : Nat) (ty : DType) (expr : Option Fixup) : AState × ASect :=
  let r1 := splitBlock st s false
  let s1 : ASect := match expr with
    | some f => { r1.2 with exprs := r1.2.exprs ++ [(r1.2.dataLen, { f with off := 0, size := 1 })] }
    | none => r1.2
  let s2 := s1.append n
  let st2 : AState := { r1.1 with blockTypes := r1.1.blockTypes ++ [(s2.curBlock.id, ty)] }
  splitBlock st2 s2 false

/-- `emit_bytes` outside `emit_int_value` -/
def stepStr (st : AState) (s : ASect) (n : Nat) (isNul : Bool) : AState :=
  if canTerminate st s n isNul then
    let p := s.blocks.dropLast.getLast?.getD default
    AState.setSect { st with blockTypes := st.blockTypes.map (fun (b, ty) => if b == p.id then (b, DType.string) else (b, ty)) } (terminateSect s)
  else
    let r := encoded st s n .ascii none
    r.1.setSect r.2

def stepLeb (t : Target) (st : AState) (s : ASect) (signed : Bool) (f : Fixup) : Except AErr AState :=
  match resolveFix t st f with
  | .error e => .error e
  | .ok st0 =>
    let r := encoded st0 s 1 (if signed then .sleb else .uleb) (some f)
    .ok (r.1.setSect r.2)

/-- `_emit_alignment` -/
def stepAlign (st : AState) (s : ASect) (a : Nat) : AState :=
  let r := if s.curBlock.size != 0 then splitBlock st s true else (st, s)
  let c := r.2.curBlock
  r.1.setSect { r.2 with alignment := (r.2.alignment.filter (·.1 != c.id)) ++ [(c.id, a)] }

def stepCfi (st : AState) (s : ASect) : AState :=
  let c := s.curBlock
  { st with cfiBlocks := if st.cfiBlocks.contains c.id then st.cfiBlocks else st.cfiBlocks ++ [c.id] }

def stepIn (t : Target) (st : AState) (s : ASect) : Event → Except AErr AState
  | .section _ _ => .ok st
  | .label name => stepLabel st s name
  | .insn size kind indirect fixups => stepInsn t st s size kind indirect fixups
  | .value size f => stepValue t st s size f
  | .rawBytes n => .ok (st.setSect (s.append n))
  | .fill n => .ok (st.setSect (s.append n))
  | .strBytes n isNul => .ok (stepStr st s n isNul)
  | .leb signed f => stepLeb t st s signed f
  | .align a => .ok (stepAlign st s a)
  | .cfi => .ok (stepCfi st s)

def step (t : Target) (st : AState) (ev : Event) : Except AErr AState :=
  match ev with
  | .section name exec => .ok (stepSection st name exec)
  | ev =>
    match st.sect? with
    | none => .error (.internal "not in a section yet")
    | some s => stepIn t st s ev

def run (t : Target) (st : AState) : List Event → Except AErr AState
  | [] => .ok st
  | ev :: evs =>
    match step t st ev with
    | .error e => .error e
    | .ok st1 => run t st1 evs

/-! ### `Assembler.finalize` -/

/-- `itertools.groupby(blocks, key=offset)` -/
def groupByOff : List ABlock → List (List ABlock)
  | [] => []
  | b :: bs =>
    match groupByOff bs with
    | (c :: cs) :: gs => if c.off == b.off then (b :: c :: cs) :: gs else [b] :: (c :: cs) :: gs
    | gs => [b] :: gs

def inEdges (cfg : List AEdge) (b : Nat) : List AEdge := cfg.filter (·.dst == .block b)
def outEdges (cfg : List AEdge) (b : Nat) : List AEdge := cfg.filter (·.src == b)

def addKey (ks : List Nat) (k : Nat) : List Nat := if ks.contains k then ks else ks ++ [k]

/-- `_replace_symbol_referents` -/
def replaceReferents (st : AState) (old new : Nat) (makeAtEnd : Bool) : AState :=
  let moved := (st.locals.filter (·.2 == old)).map (·.1)
  { st with locals := st.locals.map (fun (n, b) => if b == old then (n, new) else (n, b)),
            atEnd := if makeAtEnd then st.atEnd ++ moved.filter (fun n => !st.atEnd.contains n) else st.atEnd,
            keys := addKey (addKey st.keys old) new }

/-- one extra block of a group is merged into the group's main block -/
def mergeExtra (st : AState) (extras : List Nat) (main e : ABlock) : Except AErr AState :=
  if e.size != 0 then .error (.internal "assert not extra_block.size")
  else
    -- an empty typed block (`.ascii ""`) loses its type with the block
    let st : AState := { st with blockTypes := st.blockTypes.filter (·.1 != e.id) }
    let ins := inEdges st.cfg e.id
    let cfg1 := st.cfg.filter (fun x => !(x.dst == .block e.id))
    let cfg2 := cfg1 ++ (ins.filter (fun x => !extras.contains x.src)).map (fun x => { x with dst := .block main.id })
    let outs := outEdges cfg2 e.id
    if !outs.all (fun x => x.type == .fall && (match x.dst with | .block d => extras.contains d || d == main.id | _ => false)) then
      .error (.internal "assert fallthrough to an extra block or the main block")
    else
      let cfg3 := cfg2.filter (fun x => !(x.src == e.id))
      let st1 := replaceReferents { st with cfg := cfg3 } e.id main.id false
      .ok { st1 with cfiBlocks := (st1.cfiBlocks.map (fun b => if b == e.id then main.id else b)).eraseDups }

def alignOf (al : List (Nat × Nat)) (b : Nat) : Nat := ((al.find? (·.1 == b)).map (·.2)).getD 0

/-- the extras of one group are merged one after the other -/
def mergeExtras (st : AState) (ids : List Nat) (main : ABlock) : List ABlock → Except AErr AState
  | [] => .ok st
  | e :: es =>
    match mergeExtra st ids main e with
    | .error x => .error x
    | .ok st1 => mergeExtras st1 ids main es

/-- the alignment table after a group is merged: the maximum moves to the main block -/
def mergeAlign (al : List (Nat × Nat)) (g : List ABlock) (main : ABlock) : List (Nat × Nat) :=
  let maxA := (g.map (fun b => alignOf al b.id)).foldl Nat.max 0
  let al1 := al.filter (fun (b, _) => !(g.any (·.id == b)))
  if maxA != 0 then al1 ++ [(main.id, maxA)] else al1

def mergeGroup (lastId : Nat) (st : AState) (s : ASect) (g : List ABlock) : Except AErr (AState × ASect) :=
  match g.getLast? with
  | none => .ok (st, s)
  | some main =>
    if main.size == 0 && main.id != lastId then .error (.internal "assert main_block.size or main_block == section.blocks[-1]")
    else
      match mergeExtras st (g.dropLast.map (·.id)) main g.dropLast with
      | .error e => .error e
      | .ok st1 => .ok (st1, { s with alignment := mergeAlign s.alignment g main, blocks := s.blocks ++ [main] })

def mergeGroups (lastId : Nat) (st : AState) (s : ASect) : List (List ABlock) → Except AErr (AState × ASect)
  | [] => .ok (st, s)
  | g :: gs =>
    match mergeGroup lastId st s g with
    | .error e => .error e
    | .ok (st1, s1) => mergeGroups lastId st1 s1 gs

/-- `_remove_empty_blocks` -/
def removeEmptyBlocks (st : AState) (s : ASect) : Except AErr (AState × ASect) :=
  mergeGroups s.curBlock.id st { s with blocks := [] } (groupByOff s.blocks)

def requiredType (st : AState) (b : Nat) : Bool :=
  match (st.blockTypes.find? (·.1 == b)).map (·.2) with
  | some DType.uleb => true
  | some DType.sleb => true
  | _ => false

/-- `_convert_data_blocks`, one block -/
def convertOne (t : Target) (exec : Bool) (st : AState) (i : Nat) (b : ABlock) : Except AErr AState :=
  if b.size != 0 && !st.withCode.contains b.id && !st.cfiBlocks.contains b.id
      && (!exec || i != 0 || t.trivUnreach) && (inEdges st.cfg b.id).isEmpty then
    if !(outEdges st.cfg b.id).all (fun x => x.type == .fall) then .error (.internal "assert _is_fallthrough_edge(out_edge)")
    else .ok { st with dataBlocks := st.dataBlocks ++ [b.id], cfg := st.cfg.filter (fun x => !(x.src == b.id)) }
  else if requiredType st b.id then .error (.unsupported "A code block was given a data type (e.g. via uleb128)")
  else .ok st

def convertFrom (t : Target) (exec : Bool) (st : AState) (i : Nat) : List ABlock → Except AErr AState
  | [] => .ok st
  | b :: bs =>
    match convertOne t exec st i b with
    | .error e => .error e
    | .ok st1 => convertFrom t exec st1 (i + 1) bs

def convertDataBlocks (t : Target) (st : AState) (s : ASect) : Except AErr AState :=
  convertFrom t s.exec st 0 s.blocks

/-- `_remove_trailing_empty_block` -/
def removeTrailing (st : AState) (s : ASect) : Except AErr (AState × ASect) :=
  match s.blocks.getLast? with
  | none => .error (.internal "section without blocks")
  | some last =>
    let isEmpty := last.size == 0
    let isReachable := !st.dataBlocks.contains last.id && !(inEdges st.cfg last.id).isEmpty
    let isReferenced := st.keys.contains last.id
    let hasCfi := st.cfiBlocks.contains last.id
    let hasOther := s.blocks.length ≥ 2
    let dropped : ASect := { s with blocks := s.blocks.dropLast, alignment := s.alignment.filter (·.1 != last.id) }
    if isEmpty && !isReachable && !isReferenced && !hasCfi then
      if st.locals.any (·.2 == last.id) then .error (.internal "assert not symbol_index.get(last_block)") else .ok (st, dropped)
    else if isEmpty && !isReachable && hasOther && !hasCfi then
      let prev := (s.blocks.dropLast.getLast?).getD default
      .ok (replaceReferents st last.id prev.id true, dropped)
    else .ok (st, s)

def finalizeSect (t : Target) (st : AState) (name : String) : Except AErr AState :=
  match st.sects.find? (·.name == name) with
  | none => .ok st
  | some s =>
    match removeEmptyBlocks st s with
    | .error e => .error e
    | .ok (st1, s1) =>
      match convertDataBlocks t st1 s1 with
      | .error e => .error e
      | .ok st2 =>
        match removeTrailing st2 s1 with
        | .error e => .error e
        | .ok (st3, s3) => .ok (st3.setSect s3)

def finalizeSects (t : Target) (st : AState) : List String → Except AErr AState
  | [] => .ok st
  | n :: ns =>
    match finalizeSect t st n with
    | .error e => .error e
    | .ok st1 => finalizeSects t st1 ns

def finalize (t : Target) (st : AState) : Except AErr AState :=
  let st0 : AState := { st with keys := (st.locals.map (·.2)).eraseDups }
  finalizeSects t st0 (st0.sects.map (·.name))

/-- the whole assembler on one chunk list: each chunk is pre-scanned for labels, then streamed -/
def assembleChunks (t : Target) (st : AState) : List (List Event) → Except AErr AState
  | [] => .ok st
  | c :: cs =>
    match precreate t st c with
    | .error e => .error e
    | .ok st1 =>
      match run t st1 c with
      | .error e => .error e
      | .ok st2 => assembleChunks t st2 cs

def assemble (t : Target) (chunks : List (List Event)) : Except AErr AState :=
  match assembleChunks t {} chunks with
  | .error e => .error e
  | .ok st => finalize t st

end GtirbVerif.Asm
