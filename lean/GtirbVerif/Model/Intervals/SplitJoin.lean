/-!
Model of `intervalutils.split_byte_interval` and `intervalutils.join_byte_intervals`.

A byte interval: declared size, initialized contents (a prefix of the bytes), blocks
(id, offset, size, kind) and one offset-keyed table per aux table / the symbolic expressions
(`anns`: table index, offset, value).  Blocks are kept sorted by `_block_order_key` = (offset,
size, is data) and entries by offset, which is what `sorted(interval.blocks, key=…)` /
`sorted(table.items())` make of them.
-/
namespace GtirbVerif.Intervals

structure Blk where
  id : Nat
  off : Nat
  size : Nat
  isCode : Bool
  deriving Repr, DecidableEq, Inhabited

structure Ann where
  table : Nat
  off : Nat
  val : Nat
  deriving Repr, DecidableEq, Inhabited

structure Iv where
  addr : Option Nat
  size : Nat
  contents : List Nat
  blocks : List Blk
  anns : List Ann
  deriving Repr, DecidableEq, Inhabited

/-- group overlapping blocks (blocks in `_block_order_key` order): consecutive runs; a block
joins the current group unless the group's end is at or before its offset.
`cur` = the current group (reversed), `e` = its end -/
def groupRuns : List Blk → List Blk → Nat → List (List Blk)
  | [], cur, _ => if cur.isEmpty then [] else [cur.reverse]
  | b :: bs, cur, e =>
    if cur.isEmpty then groupRuns bs [b] (b.off + b.size)
    else if e ≤ b.off then cur.reverse :: groupRuns bs [b] (b.off + b.size)
    else groupRuns bs (b :: cur) (max e (b.off + b.size))

def groups (iv : Iv) : List (List Blk) := groupRuns iv.blocks [] 0

def beginOf (g : List Blk) : Nat := (g.head?.map (·.off)).getD 0

/-- one iteration of the loop (for one group, taken from the back): the new interval holding
the group `g` and everything from its begin on, and what stays -/
def cutOne (iv : Iv) (g : List Blk) : Iv × Iv :=
  let c := beginOf g
  let suffix : Iv :=
    { addr := iv.addr.map (· + c),
      size := iv.size - c,
      contents := iv.contents.drop c,
      blocks := g.map (fun b => { b with off := b.off - c }),
      anns := (iv.anns.filter (fun a => a.off ≥ c)).map (fun a => { a with off := a.off - c }) }
  let pre : Iv :=
    { addr := iv.addr,
      size := min iv.size c,
      contents := iv.contents.take c,
      blocks := iv.blocks.take (iv.blocks.length - g.length),
      anns := iv.anns.filter (fun a => a.off < c) }
  (pre, suffix)

/-- process the groups from the last to the second -/
def splitAt (iv : Iv) : List (List Blk) → List Iv → List Iv
  | [], acc => iv :: acc
  | g :: gs, acc => splitAt (cutOne iv g).1 gs ((cutOne iv g).2 :: acc)

/-- `split_byte_interval(interval)` -/
def split (iv : Iv) : List Iv := splitAt iv ((groups iv).drop 1).reverse []

/-! ### join -/

def repeatTo (unit : List Nat) : Nat → List Nat
  | 0 => []
  | n + 1 => if unit.isEmpty then [] else unit ++ repeatTo unit (n + 1 - unit.length)
termination_by n => n
decreasing_by
  have : unit.length ≠ 0 := by
    intro h; simp_all [List.length_eq_zero_iff]
  omega

def alignUp (x a : Nat) : Nat := if a ≤ 1 then x else (x + a - 1) / a * a

inductive JoinErr
  | padding (why : String)
  deriving Repr, DecidableEq

/-- `_block_order_key`: (offset, size, is data) -/
def keyLt (a b : Blk) : Bool :=
  a.off < b.off || (a.off == b.off && (a.size < b.size || (a.size == b.size && (a.isCode && !b.isCode))))

/-- `max(blocks, key=_block_order_key)`: the first block with the largest key -/
def lastBlock (bs : List Blk) : Option Blk :=
  bs.foldl (fun (acc : Option Blk) b =>
    match acc with
    | none => some b
    | some a => if keyLt a b then some b else some a) none

structure JoinState where
  dest : Iv
  address : Nat                 -- running address of the end of the destination
  last : Option Blk             -- `last_block` (offset relative to the destination)
  nextId : Nat                  -- ids for padding blocks
  deriving Repr

/-- `insert_padding(size)` -/
def insertPadding (st : JoinState) (nop : List Nat) (size : Nat) : Except JoinErr JoinState :=
  if size == 0 then .ok st
  else
    let isCode := (st.last.map (·.isCode)).getD false
    let r : Except JoinErr (List Nat) :=
      if isCode then
        if nop.isEmpty then .error (.padding "cannot determine nop instruction")
        else if size % nop.length != 0 then .error (.padding "nop does not fit evenly in padding")
        else .ok (repeatTo nop size)
      else .ok (List.replicate size 0)
    match r with
    | .error e => .error e
    | .ok pad =>
      let contents := st.dest.contents ++ pad
      -- "add a block covering anything not yet covered by the last block"; the padding block
      -- becomes the last block, so further padding starts behind it
      let lastEnd : Nat := (st.last.map (fun b => b.off + b.size)).getD 0
      let padSize := contents.length - lastEnd
      let padBlk : Blk := { id := st.nextId, off := lastEnd, size := padSize, isCode := isCode }
      if padSize > 0 then
        .ok { st with dest := { st.dest with contents := contents, blocks := st.dest.blocks ++ [padBlk] },
                      last := some padBlk, nextId := st.nextId + 1 }
      else .ok { st with dest := { st.dest with contents := contents } }

/-- alignment wanted for the interval being appended: of its first aligned block, else of the
interval itself; returns (offset of that node inside the interval, boundary) -/
def wantedAlignment (alignB : Nat → Option Nat) (alignI : Option Nat) (iv : Iv) : Nat × Nat :=
  -- `min(aligned blocks, key=_block_order_key)`: the blocks are listed in that order
  match iv.blocks.find? (fun b => (alignB b.id).isSome) with
  | some b => (b.off, (alignB b.id).getD 1)
  | none => (0, alignI.getD 1)

/-- append one interval -/
def joinOne (nop : List Nat) (alignB : Nat → Option Nat) (st : JoinState) (iv : Iv) (alignI : Option Nat) :
    Except JoinErr JoinState := do
  -- fill in any uninitialized bytes before appending
  let st1 ← insertPadding st nop (st.dest.size - st.dest.contents.length)
  let (o, boundary) := wantedAlignment alignB alignI iv
  let pad := alignUp (st1.address + o) boundary - (st1.address + o)
  let st2 ← insertPadding st1 nop pad
  let delta := st2.dest.contents.length
  .ok { dest := { st2.dest with
          size := st2.dest.size + pad + iv.size,
          contents := st2.dest.contents ++ iv.contents,
          blocks := st2.dest.blocks ++ iv.blocks.map (fun b => { b with off := b.off + delta }),
          anns := st2.dest.anns ++ iv.anns.map (fun a => { a with off := a.off + delta }) },
        address := st2.address + pad + iv.size,
        last := match lastBlock iv.blocks with
          | some b => some { b with off := b.off + delta }
          | none => st2.last,
        nextId := st2.nextId }

/-- `join_byte_intervals(intervals, nop, alignment)`; `aligns` gives the interval-level
alignment of each appended interval -/
def join (nop : List Nat) (alignB : Nat → Option Nat) (ivs : List (Iv × Option Nat)) (nextId : Nat) : Except JoinErr Iv :=
  match ivs with
  | [] => .error (.padding "no interval")
  | [(d, _)] => .ok d
  | (d, _) :: rest =>
    let st0 : JoinState := { dest := d, address := d.addr.getD 0 + d.size, last := lastBlock d.blocks, nextId := nextId }
    match rest.foldl (fun (acc : Except JoinErr JoinState) (p : Iv × Option Nat) =>
        match acc with
        | .error e => .error e
        | .ok st => joinOne nop alignB st p.1 p.2) (.ok st0) with
    | .error e => .error e
    | .ok st => .ok st.dest

end GtirbVerif.Intervals
