import GtirbVerif.Model.Adt.Simple

/-
Abstract GTIRB IR, exactly the parts `gtirb_rewriting._modify` reads or writes.
Python object identity is a natural-number id.  Sets (`bi.blocks`,
`module.symbols`, `ir.cfg`, aux-data sets) are lists treated as sets.

Caches (`ModifyCache`): `functions_by_block` is kept as the field `fbb`;
`block_ordering` as the per-section ordered list `order`; the reference cache
and the return-edge cache are replaced by what C20 proves them equivalent to
(direct referents, a scan of the edge set).
-/
namespace GtirbVerif.IR
open GtirbVerif.Adt (CfgNode Label Edge)

structure SymExpr where
  kind : Nat            -- 0 = SymAddrConst, 1 = SymAddrAddr
  offset : Int
  scale : Int
  sym1 : Nat
  sym2 : Nat            -- 0 when kind = 0
  attrs : List Nat
  deriving Repr, Inhabited, DecidableEq

structure Interval where
  id : Nat
  sect : Nat
  addr : Option Nat
  size : Nat
  bytes : List Nat                    -- initialized contents
  symExprs : List (Nat × SymExpr)     -- offset -> expression
  deriving Repr, Inhabited

structure Block where
  id : Nat
  isCode : Bool
  bi : Option Nat        -- byte interval id (none: detached)
  off : Nat
  size : Nat
  deriving Repr, Inhabited

inductive Referent
  | block (b : Nat) | proxy (p : Nat) | none
  deriving Repr, Inhabited, DecidableEq

structure Sym where
  id : Nat
  name : String
  ref : Referent
  atEnd : Bool
  deriving Repr, Inhabited

structure CfiDir where
  name : String
  args : List Int
  sym : Option Nat       -- none = NULL_UUID
  deriving Repr, Inhabited, DecidableEq

/-- key of an offset-keyed aux table entry: a block or a byte interval -/
inductive Elem
  | block (b : Nat) | interval (i : Nat)
  deriving Repr, Inhabited, DecidableEq

structure Aux where
  alignment : List (Nat × Nat) := []                       -- block -> alignment
  omaps : List (String × List (Elem × Nat × String)) := []  -- comments / padding / symbolicExpressionSizes
  cfi : List (Nat × Nat × List CfiDir) := []               -- (block, displacement) -> directives
  funcBlocks : List (Nat × List Nat) := []
  funcEntries : List (Nat × List Nat) := []
  funcNames : List (Nat × Nat) := []
  encodings : List (Nat × String) := []
  types : List (Nat × String) := []
  profile : List (Nat × String) := []
  sccs : List (Nat × String) := []
  peSafeSeh : List Nat := []
  elfInit : Option Nat := none
  elfFini : Option Nat := none
  elfSymInfo : List (Nat × String) := []
  deriving Repr, Inhabited

structure IR where
  sections : List (Nat × String) := []
  intervals : List Interval := []
  blocks : List Block := []
  proxies : List Nat := []
  syms : List Sym := []
  cfg : List Edge := []
  entry : Option Nat := none
  aux : Aux := {}
  -- ModifyCache
  fbb : List (Nat × Nat) := []            -- functions_by_block
  order : List (Nat × List (List Nat)) := []   -- block_ordering per section: disjoint chains
  next : Nat := 0                          -- fresh ids (blocks, proxies)
  deriving Repr, Inhabited

inductive Err
  | assertion (what : String) | keyError | unjoinable (why : String) | unsupported
  deriving Repr, Inhabited

/-! ### generic association helpers -/

def alookup {β} (k : Nat) : List (Nat × β) → Option β
  | [] => none
  | (k', v) :: r => if k' = k then some v else alookup k r

def aset {β} (k : Nat) (v : β) : List (Nat × β) → List (Nat × β)
  | [] => [(k, v)]
  | (k', v') :: r => if k' = k then (k, v) :: r else (k', v') :: aset k v r

def adel {β} (k : Nat) (l : List (Nat × β)) : List (Nat × β) := l.filter (·.1 != k)

def addUnique (l : List Nat) (x : Nat) : List Nat := if x ∈ l then l else l ++ [x]

/-! ### accessors -/

def IR.block? (ir : IR) (b : Nat) : Option Block := ir.blocks.find? (·.id == b)
def IR.interval? (ir : IR) (i : Nat) : Option Interval := ir.intervals.find? (·.id == i)

def IR.setBlock (ir : IR) (b : Block) : IR :=
  { ir with blocks := ir.blocks.map (fun x => if x.id == b.id then b else x) }

def IR.setInterval (ir : IR) (i : Interval) : IR :=
  { ir with intervals := ir.intervals.map (fun x => if x.id == i.id then i else x) }

def IR.sectionOf (ir : IR) (b : Block) : Option Nat :=
  match b.bi with
  | none => none
  | some i => (ir.interval? i).map (·.sect)

def IR.isCodeNode (ir : IR) (n : CfgNode) : Bool :=
  match n with
  | .block b => match ir.block? b with
    | some blk => blk.isCode
    | none => false
  | .proxy _ => false

def IR.outEdges (ir : IR) (b : Nat) : List Edge := ir.cfg.filter (fun e => e.src == .block b)
def IR.inEdges (ir : IR) (b : Nat) : List Edge := ir.cfg.filter (fun e => e.dst == .block b)

def fallType : Nat := 2
def callType : Nat := 1
def retType : Nat := 3

def Edge.isFall (e : Edge) : Bool := match e.label with | some l => l.type == fallType | none => false
def Edge.isCall (e : Edge) : Bool := match e.label with | some l => l.type == callType | none => false
def Edge.isRet (e : Edge) : Bool := match e.label with | some l => l.type == retType | none => false

def fallLabel : Option Label := some { type := fallType, conditional := false, direct := true }
def retLabel : Option Label := some { type := retType, conditional := false, direct := true }

def cfgAdd (cfg : List Edge) (e : Edge) : List Edge := if e ∈ cfg then cfg else cfg ++ [e]
def cfgDiscard (cfg : List Edge) (e : Edge) : List Edge := cfg.filter (· != e)

/-- `_block_fallthrough_targets(block)`: code-block targets of fallthrough edges -/
def IR.fallTargets (ir : IR) (b : Nat) : List Nat :=
  (ir.outEdges b).filterMap (fun e =>
    if Edge.isFall e then
      match e.dst with
      | .block t => if ir.isCodeNode (.block t) then some t else none
      | .proxy _ => none
    else none)

/-- symbols referring to a block (through the reference cache = directly) -/
def IR.refsTo (ir : IR) (b : Nat) : List Sym := ir.syms.filter (fun s => s.ref == .block b)

/-- neighbours inside one chain -/
def neighbours (l : List Nat) (b : Nat) : Option (Option Nat × Option Nat) :=
  let rec go (prev : Option Nat) : List Nat → Option (Option Nat × Option Nat)
    | [] => none
    | x :: r => if x = b then some (prev, r.head?) else go (some x) r
  go none l

/-- `cache.adjacent_blocks(block)` -/
def IR.adjacent (ir : IR) (b : Block) : Option Nat × Option Nat :=
  match ir.sectionOf b with
  | none => (none, none)
  | some s => (((alookup s ir.order).getD []).findSome? (fun ch => neighbours ch b.id)).getD (none, none)

def insAfter (after : Nat) (bs : List Nat) : List Nat → List Nat
  | [] => []
  | x :: r => if x = after then x :: (bs ++ r) else x :: insAfter after bs r

def IR.orderInsertAfter (ir : IR) (sect : Nat) (after : Nat) (bs : List Nat) : IR :=
  { ir with order := aset sect (((alookup sect ir.order).getD []).map (insAfter after bs)) ir.order }

def IR.orderRemove (ir : IR) (sect : Nat) (b : Nat) : IR :=
  let chains := (((alookup sect ir.order).getD []).map (·.filter (· != b))).filter (!·.isEmpty)
  { ir with order := aset sect chains ir.order }

def IR.orderAppend (ir : IR) (sect : Nat) (bs : List Nat) : IR :=
  if bs.isEmpty then ir
  else { ir with order := aset sect (((alookup sect ir.order).getD []) ++ [bs]) ir.order }

/-- `cache.in_same_function` -/
def IR.sameFunction (ir : IR) (b1 b2 : Nat) : Bool :=
  match alookup b1 ir.fbb, alookup b2 ir.fbb with
  | some f1, some f2 => f1 == f2
  | _, _ => false

/-- `cache.is_entry_block` -/
def IR.isEntryBlock (ir : IR) (b : Nat) : Bool :=
  match alookup b ir.fbb with
  | none => false
  | some f => ((alookup f ir.aux.funcEntries).getD []).contains b

end GtirbVerif.IR
