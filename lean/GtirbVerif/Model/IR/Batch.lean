import GtirbVerif.Model.IR.Modify
import GtirbVerif.Spec.Listing

/-!
Model of the offset bookkeeping of `RewritingContext._apply_modifications`
(`total_insert_len`, `block_delta`, `actual_offset`) at the level of the byte interval.

For the modifications of one block, sorted by `resolve_offsets`, the code computes

    block_delta   = actual_block.offset - block.offset
    actual_offset = offset + total_insert_len - block_delta

and edits `actual_block` at `actual_offset`; in interval coordinates that is position
`block.offset + offset + total_insert_len`.  `total_insert_len` grows by
`len(patch bytes) - replaced length` per insertion and shrinks by the length per deletion.
-/
namespace GtirbVerif.Batch
open GtirbVerif.IR GtirbVerif.Listing

/-- interval position at which the code applies `e`, given the running `total_insert_len` -/
def posOf (base : Nat) (total : Int) (e : LEdit) : Nat := ((base + e.off : Nat) + total).toNat

/-- the positions of all edits of one block, in application order -/
def positions (base : Nat) : Int → List LEdit → List Nat
  | _, [] => []
  | total, e :: es => posOf base total e :: positions base (total + e.ins.length - e.del) es

/-- the bytes after applying the edits one after the other the way the code does -/
def seqSplice (base : Nat) : List Nat → Int → List LEdit → List Nat
  | bs, _, [] => bs
  | bs, total, e :: es =>
    seqSplice base (spliceBytes bs (posOf base total e) e.del e.ins) (total + e.ins.length - e.del) es

/-- sorted, pairwise disjoint, inside the block (`resolve_offsets` asserts exactly this,
`_validate_offset_and_length` the bound) -/
def Disjoint (size : Nat) : Nat → List LEdit → Prop
  | _, [] => True
  | cur, e :: es => cur ≤ e.off ∧ e.off + e.del ≤ size ∧ Disjoint size (e.off + e.del) es

end GtirbVerif.Batch
