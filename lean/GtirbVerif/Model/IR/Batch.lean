import GtirbVerif.Model.IR.Modify
import GtirbVerif.Spec.Listing

/-!
Model of the offset bookkeeping of `RewritingContext._apply_modifications`
(`total_insert_len`, `block_delta`, `actual_offset`) at the level of the byte interval.

For the modifications of one block, sorted by `resolve_offsets`, the code computes

    block_delta   = actual_block.offset - block.offset
    actual_offset = offset + total_insert_len - block_delta

and edits `actual_block` at `actual_offset`; in interval coordinates that is position
`block.offset + offset + total_insert_len`.  `total_insert_len` grows by
`len(patch bytes) - replaced length` per insertion and shrinks by the length per deletion.
-/
namespace GtirbVerif.Batch
open GtirbVerif.IR GtirbVerif.Listing

/-- interval position at which the code applies `e`, given the running `total_insert_len` -/
def posOf (base : Nat) (total : Int) (e : LEdit) : Nat := ((base + e.off : Nat) + total).toNat

/-- the positions of all edits of one block, in application order -/
def positions (base : Nat) : Int → List LEdit → List Nat
  | _, [] => []
  | total, e :: es => posOf base total e :: positions base (total + e.ins.length - e.del) es

/-- the bytes after applying the edits one after the other the way the code does -/
def seqSplice (base : Nat) : List Nat → Int → List LEdit → List Nat
  | bs, _, [] => bs
  | bs, total, e :: es =>
    seqSplice base (spliceBytes bs (posOf base total e) e.del e.ins) (total + e.ins.length - e.del) es

/-- sorted, pairwise disjoint, inside the block (`resolve_offsets` asserts exactly this,
`_validate_offset_and_length` the bound) -/
def Disjoint (size : Nat) : Nat → List LEdit → Prop
  | _, [] => True
  | cur, e :: es => cur ≤ e.off ∧ e.off + e.del ≤ size ∧ Disjoint size (e.off + e.del) es

end GtirbVerif.Batch

/-! ### the loop of `_apply_modifications` on the IR

`Batch.positions` / `Batch.seqSplice` above describe the loop at the level of bytes.  The
functions below are the loop itself: every request of the block is carried out by
`IR.insert` / `IR.delete` on the block the previous request returned (`actual_block`), at
`actual_offset = offset + total_insert_len - (actual_block.offset - block.offset)`. -/
namespace GtirbVerif.IR
open GtirbVerif.Listing

/-- the ids of the block table -/
def IR.ids (ir : IR) : List Nat := ir.blocks.map (·.id)

/-- one resolved request of a block: `_InsertionOrReplacement` with its assembled patch, or
`_Deletion` -/
inductive Mod
  | ins (off repl : Nat) (p : Patch)
  | del (off len : Nat) (toProxy : Bool)
  deriving Inhabited

def Mod.off : Mod → Nat
  | .ins o _ _ => o
  | .del o _ _ => o

/-- length of the replaced / deleted range (`scope._replacement_length()`) -/
def Mod.len : Mod → Nat
  | .ins _ r _ => r
  | .del _ l _ => l

/-- the bytes the request puts there -/
def Mod.bytes : Mod → List Nat
  | .ins _ _ p => p.text.data
  | .del _ _ _ => []

/-- `block_delta = actual_block.offset - block.offset;
    actual_offset = offset + total_insert_len - block_delta` -/
def actualOffset (origOff : Nat) (ab : Block) (total : Int) (off : Nat) : Int :=
  (off : Int) + total - ((ab.off : Int) - (origOff : Int))

/-- the code blocks of a patch that are still attached and in no function yet join function `f`:
what the loop does for a patch that went into a *data* block (the trailing data of an earlier
patch at the same location), where `insert` cannot tell whose code it is -/
def IR.adoptPatchBlocks (ir : IR) (p : Patch) (f : Nat) : IR :=
  p.text.blocks.foldl (fun ir b =>
    match ir.block? b.id with
    | some blk =>
      if b.isCode && blk.bi.isSome && (alookup b.id ir.fbb).isNone then ir.addFunctionBlock b.id f else ir
    | none => ir) ir

/-- one insertion of the loop: `insert`, then the function membership of code that went into a
data block (`func`: the function of the block the requests were registered for) -/
def IR.loopInsert (ir : IR) (func : Option Nat) (ab : Block) (a ao repl : Nat) (p : Patch) : Except Err (IR × Nat) :=
  match ir.insert a ao repl p with
  | .error e => .error e
  | .ok (ir', last) =>
    match func with
    | some f => if !ab.isCode then .ok (ir'.adoptPatchBlocks p f, last) else .ok (ir', last)
    | none => .ok (ir', last)

/-- The loop of `_apply_modifications` over the resolved requests of one block. `origOff` is
`block.offset` of the block the requests were registered for, `func` its function, `actual` the block the
previous request returned (`none`: `delete` removed it entirely), `total` the running
`total_insert_len`. -/
def IR.applyMods (origOff : Nat) (func : Option Nat) : IR → Option Nat → Int → List Mod → Except Err IR
  | ir, _, _, [] => .ok ir
  | _, none, _, _ :: _ => .error (.assertion "isinstance(actual_block, gtirb.ByteBlock)")
  | ir, some a, total, m :: ms =>
    match ir.block? a with
    | none => .error (.assertion "block not in module")
    | some ab =>
      let ao := actualOffset origOff ab total m.off
      if ao < 0 then .error (.assertion "0 <= offset")
      else
        match m with
        | .ins _ repl p =>
          match ir.loopInsert func ab a ao.toNat repl p with
          | .error e => .error e
          | .ok (ir', last) => IR.applyMods origOff func ir' (some last) (total + (p.text.data.length : Int) - (repl : Int)) ms
        | .del _ len px =>
          match ir.delete a ao.toNat len px with
          | .error e => .error e
          | .ok (ir', r) => IR.applyMods origOff func ir' r (total - (len : Int)) ms

/-- the resolved requests of one block, as `apply()` hands them to `_apply_modifications` -/
structure BlockMods where
  block : Nat
  func : Option Nat      -- the function of the block (`functions_by_block`), if any
  mods : List Mod

/-- `apply()`'s loop over the blocks that have requests (in address order): every block has a
byte interval of its own during the rewrite, its requests are applied by `IR.applyMods` -/
def IR.applyAll : IR → List BlockMods → Except Err IR
  | ir, [] => .ok ir
  | ir, r :: rest =>
    match ir.block? r.block with
    | none => .error (.assertion "block not in module")
    | some blk =>
      match ir.applyMods blk.off r.func (some r.block) 0 r.mods with
      | .error e => .error e
      | .ok ir' => IR.applyAll ir' rest

/-! ### executable forms of the premises of the symbol-closure theorems (`Lemmas/IRSymClosed.lean`) -/

/-- the section of the byte interval block `c` is attached to -/
def IR.attSect (ir : IR) (c : Nat) : Option Nat := (ir.block? c).bind ir.sectionOf

/-- every symbol that refers to a block refers to an attached one -/
def IR.symsOkB (ir : IR) : Bool :=
  ir.syms.all (fun y => match y.ref with
    | .block b => (ir.attSect b).isSome
    | _ => true)

/-- the block ordering lists attached blocks of the right section, each once per chain -/
def IR.ordOkB (ir : IR) : Bool :=
  ir.order.all (fun (s, chains) => chains.all (fun ch => decide ch.Nodup && ch.all (fun b => ir.attSect b == some s)))

/-- ids of the blocks a patch puts into its extra sections -/
def Patch.otherIds (p : Patch) : List Nat := (p.others.map (fun s => s.1.blocks.map (·.id))).flatten

/-- the objects of the patch are new (executable form of `PatchOk`) -/
def IR.patchOkB (ir : IR) (p : Patch) : Bool :=
  let ids := p.text.blocks.map (·.id) ++ p.otherIds
  ids.all (fun c => (ir.block? c).isNone && decide (c < ir.next)) && decide ids.Nodup &&
  p.others.all (fun x => (ir.interval? x.2.2).isNone) && decide (p.others.map (·.2.2)).Nodup &&
  p.syms.all (fun y => match y.ref with
    | .block b => ids.contains b
    | _ => true)

/-- the symbols an expression names are among `ids` -/
def exprInB (ids : List Nat) (e : SymExpr) : Bool := ids.contains e.sym1 && (e.kind != 1 || ids.contains e.sym2)

/-- every symbolic expression names symbols of the module (executable form of `ExprOk []`) -/
def IR.exprOkB (ir : IR) : Bool :=
  ir.intervals.all (fun iv => iv.symExprs.all (fun ke => exprInB (ir.syms.map (·.id)) ke.2))

/-- the expressions of a patch name module symbols or its own (executable form of `PatchExprOk`) -/
def IR.patchExprOkB (ir : IR) (p : Patch) : Bool :=
  let ids := ir.syms.map (·.id) ++ p.syms.map (·.id)
  p.text.symExprs.all (fun ke => exprInB ids ke.2) &&
  p.others.all (fun x => x.1.symExprs.all (fun ke => exprInB ids ke.2))

/-- the request as a listing edit (what `Listing.spliceSpec` consumes): only offset, removed
length and inserted bytes matter for the bytes -/
def Mod.toLEdit (m : Mod) : LEdit :=
  { block := 0, off := m.off, del := m.len, ins := m.bytes, labels := [], aligns := [], proxy := false, order := 0,
    tailCode := true, exprs := [], exprSizes := [] }

end GtirbVerif.IR
