import GtirbVerif.Model.IR.Ops

/-
Models of `_modify/remove.py:remove_block`, `_modify/edit.py:{insert, delete,
_cleanup_modified_blocks, _add_return_edges_for_patch_calls,
_update_patch_return_edges_to_match, _add_other_section_contents}`.
-/
namespace GtirbVerif.IR
open GtirbVerif.Adt (CfgNode Label Edge)

/-! ### remove_block -/

def structuralCfi : List String := [".cfi_remember_state", ".cfi_restore_state"]

/-- `_required_cfi_directives(block)` -/
def IR.requiredCfi (ir : IR) (blk : Block) : List CfiDir :=
  if !blk.isCode then []
  else
    let mine := cfiGet ir.aux.cfi blk.id
    -- sorted(displacement_map.items())
    let sorted := mine.foldl (fun acc (k, v) =>
      let rec ins : List (Nat × List CfiDir) → List (Nat × List CfiDir)
        | [] => [(k, v)]
        | (k', v') :: r => if k ≤ k' then (k, v) :: (k', v') :: r else (k', v') :: ins r
      ins acc) []
    let ds := sorted.flatMap (·.2)
    let (results, proc) := ds.foldl (fun (acc : List CfiDir × List CfiDir) d =>
      let (results, proc) := acc
      if d.name == ".cfi_startproc" then (results, proc ++ [d])
      else if d.name == ".cfi_endproc" then
        -- `append_to = procedure_directives or results`; then the procedure list is cleared
        if proc.isEmpty then (results ++ [d], []) else (results, [])
      else if structuralCfi.contains d.name then
        if proc.isEmpty then (results ++ [d], proc) else (results, proc ++ [d])
      else (results, proc)) ([], [])
    results ++ proc

def IR.isCodeBlockId (ir : IR) (b : Option Nat) : Bool :=
  match b with
  | none => false
  | some b => match ir.block? b with
    | some blk => blk.isCode
    | none => false

/-- `_can_remove_block` -/
def IR.canRemove (ir : IR) (blk : Block) (toProxy : Bool) (prev next : Option Nat) (cfi : List CfiDir) : Bool :=
  if !(ir.refsTo blk.id).isEmpty && prev.isNone && next.isNone && !toProxy then false
  else if !cfi.isEmpty && !ir.isCodeBlockId prev && !ir.isCodeBlockId next then false
  else if blk.isCode && !((ir.inEdges blk.id).all Edge.isFall) && !ir.isCodeBlockId next && !toProxy then false
  else if (ir.entry == some blk.id || ir.aux.elfFini == some blk.id) && !ir.isCodeBlockId next && !toProxy then false
  else true

/-- `remove_block(cache, block, retarget_to_proxy)`; returns whether the block left the IR -/
def IR.removeBlock (ir : IR) (bId : Nat) (toProxy : Bool) : Except Err (IR × Bool) :=
  match ir.block? bId with
  | none => .error (.assertion "block not in module")
  | some blk =>
    match ir.sectionOf blk with
    | none => .error (.assertion "block.section")
    | some sect =>
      let (prev, next) := ir.adjacent blk
      -- the proxy for `retarget_to_proxy` is created up front (it joins module.proxies)
      let (ir0, proxy) : IR × Option Nat :=
        if toProxy then ({ ir with next := ir.next + 1, proxies := ir.proxies ++ [ir.next] }, some ir.next)
        else (ir, none)
      let cfi := ir0.requiredCfi blk
      let can := ir0.canRemove blk toProxy prev next cfi
      let nextIsCode := ir0.isCodeBlockId next
      let prevIsCode := ir0.isCodeBlockId prev
      let ir1 : IR :=
        if can then
          -- symbols
          let target : Referent × Bool :=
            match proxy, next, prev with
            | some p, _, _ => (.proxy p, false)
            | none, some n, _ => (.block n, false)
            | none, none, some p => (.block p, true)
            | none, none, none => (.none, false)
          let a : IR := { ir0 with syms := ir0.syms.map (fun s =>
            if s.ref == .block bId then { s with ref := target.1, atEnd := target.2 } else s) }
          -- incoming edges
          let b : IR :=
            if !blk.isCode || (a.inEdges bId).isEmpty then a
            else
              let (a', tgt) : IR × CfgNode :=
                match proxy with
                | some p => (a, .proxy p)
                | none =>
                  if nextIsCode then (a, .block (next.getD 0))
                  else ({ a with next := a.next + 1, proxies := a.proxies ++ [a.next] }, .proxy a.next)
              (a'.inEdges bId).foldl (fun ir e => ir.updateEdge e (updDst e tgt)) a'
          let nextArg : Option Nat := if toProxy then none else next
          let nextArgIsCode := if toProxy then false else nextIsCode
          -- _update_functions_aux_data
          let c : IR :=
            if !blk.isCode then b
            else match alookup bId b.fbb with
              | none => b
              | some f =>
                let promote := ((alookup f b.aux.funcEntries).getD []).contains bId && nextArgIsCode &&
                  b.sameFunction bId (nextArg.getD 0)
                let b' := if promote then
                    { b with aux := { b.aux with funcEntries := setAdd f (nextArg.getD 0) b.aux.funcEntries } }
                  else b
                b'.removeFunctionBlock bId
          -- _update_module_entrypoints
          let d : IR := if c.entry == some bId then { c with entry := nextArg } else c
          let d1 : IR := if d.aux.elfInit == some bId then { d with aux := { d.aux with elfInit := nextArg } } else d
          let d2 : IR := if d1.aux.elfFini == some bId then { d1 with aux := { d1.aux with elfFini := nextArg } } else d1
          -- _update_pe_safe_seh
          let e : IR :=
            if blk.isCode && d2.aux.peSafeSeh.contains bId then
              let t := d2.aux.peSafeSeh.filter (· != bId)
              { d2 with aux := { d2.aux with peSafeSeh := if nextArgIsCode then addUnique t (nextArg.getD 0) else t } }
            else d2
          -- _remove_alignment
          { e with aux := { e.aux with alignment := adel bId e.aux.alignment } }
        else ir0
      -- _remove_outgoing_edges
      let ir2 : IR :=
        if !blk.isCode then ir1
        else
          let ft := ir1.fallTargets bId
          (ir1.outEdges bId).foldl (fun ir e =>
            let ir' := if Edge.isCall e then ir.removeReturnEdgesFromCallee e ft else ir
            { ir' with cfg := cfgDiscard ir'.cfg e }) ir1
      -- _remove_aux_data_entries
      let omaps := ir2.aux.omaps.map (fun (name, entries) =>
        (name, entries.filter (fun (el, _, _) => el != Elem.block bId)))
      let ir3 : IR := { ir2 with aux := { ir2.aux with
        omaps := omaps,
        types := if blk.isCode then ir2.aux.types else adel bId ir2.aux.types,
        encodings := if blk.isCode then ir2.aux.encodings else adel bId ir2.aux.encodings,
        profile := if blk.isCode then adel bId ir2.aux.profile else ir2.aux.profile,
        sccs := if blk.isCode then adel bId ir2.aux.sccs else ir2.aux.sccs } }
      -- _remove_cfi_directives
      let cfi0 := cfiDelBlock ir3.aux.cfi bId
      let cfiT : List (Nat × Nat × List CfiDir) :=
        if cfi.isEmpty then cfi0
        else if nextIsCode then
          let n := next.getD 0
          if cfi0.any (fun (b', k', _) => b' == n && k' == 0) then
            cfi0.map (fun (b', k', v) => if b' == n && k' == 0 then (b', k', cfi ++ v) else (b', k', v))
          else cfi0 ++ [(n, 0, cfi)]
        else if prevIsCode then
          let p := prev.getD 0
          let psize := match ir3.block? p with | some pb => pb.size | none => 0
          cfiExtend cfi0 p psize cfi
        else cfi0 ++ [(bId, 0, cfi)]
      let ir4 : IR := { ir3 with aux := { ir3.aux with cfi := cfiT } }
      if can then
        let ir5 := ir4.orderRemove sect bId
        .ok (ir5.setBlock { blk with bi := none }, true)
      else
        let ir5 := ir4.setBlock { blk with size := 0 }
        if blk.isCode then
          let p := ir5.next
          .ok ({ ir5 with next := p + 1, proxies := ir5.proxies ++ [p],
                          cfg := cfgAdd ir5.cfg { src := .block bId, dst := .proxy p, label := fallLabel } }, false)
        else .ok (ir5, false)

/-! ### the assembled patch -/

structure PatchSect where
  name : String
  data : List Nat
  blocks : List Block                      -- fresh ids; `bi` ignored; offsets relative to `data`
  symExprs : List (Nat × SymExpr)
  symExprSizes : List (Nat × Nat)
  alignment : List (Nat × Nat)
  blockTypes : List (Nat × String)
  deriving Repr, Inhabited

structure Patch where
  text : PatchSect
  others : List (PatchSect × Nat × Nat)    -- (section, target section id (fresh if new), fresh interval id)
  newSections : List (Nat × String)        -- sections the patch creates
  cfg : List Edge
  syms : List Sym                          -- new symbols (fresh ids), referents already resolved
  proxies : List Nat                       -- new proxies (fresh ids)
  cfi : List (Nat × Nat × List CfiDir)     -- `code.create_cfi_directives()`
  elfSymInfo : List (Nat × String)
  hasFuncSym : Bool                        -- some new symbol is typed FUNC
  deriving Repr, Inhabited

/-- `_add_return_edges_for_patch_calls` -/
def IR.addReturnEdgesForPatchCalls (ir : IR) (pcfg : List Edge) : IR × List Edge :=
  let calls := pcfg.filter Edge.isCall
  let fallBy (s : CfgNode) : Option CfgNode :=
    -- a dict comprehension: the last fallthrough edge of a source wins
    ((pcfg.filter (fun e => Edge.isFall e && e.src == s)).getLast?).map (·.dst)
  calls.foldl (fun (acc : IR × List Edge) ce =>
    match ce.dst with
    | .proxy _ => acc
    | .block callee =>
      if !(acc.1.isCodeNode (.block callee)) then acc
      else match alookup callee acc.1.fbb with
        | none => acc
        | some f =>
          match fallBy ce.src with
          | none => acc
          | some ft => acc.1.addReturnEdgesToCallee acc.2 f ft) (ir, pcfg)

/-- `_update_patch_return_edges_to_match` -/
def IR.matchPatchReturnEdges (ir : IR) (bId : Nat) (pcfg : List Edge) (newProxies : List Nat) :
    List Edge × List Nat :=
  let pret := pcfg.filter (fun e => Edge.isRet e && (match e.dst with
    | .proxy p => newProxies.contains p
    | .block _ => false))
  if pret.isEmpty then (pcfg, newProxies)
  else match alookup bId ir.fbb with
    | none => (pcfg, newProxies)
    | some f =>
      let targets : List CfgNode := (ir.functionBlocks f).foldl (fun acc fb =>
        (ir.returnEdgesOf fb).foldl (fun acc e =>
          match e.dst with
          | .block _ => if acc.contains e.dst then acc else acc ++ [e.dst]
          | .proxy _ => acc) acc) []
      if targets.isEmpty then (pcfg, newProxies)
      else
        pret.foldl (fun (acc : List Edge × List Nat) e =>
          let cfg1 := cfgDiscard acc.1 e
          let px := match e.dst with | .proxy p => acc.2.filter (· != p) | .block _ => acc.2
          (targets.foldl (fun c t => cfgAdd c { src := e.src, dst := t, label := retLabel }) cfg1, px))
          (pcfg, newProxies)

/-- `_cleanup_modified_blocks(cache, blocks)`: returns the last surviving block -/
def IR.cleanup (ir : IR) (blocks : List Nat) : Except Err (IR × Nat) :=
  -- one pass of the `for … pairwise` loop: first change wins
  let rec pass (ir : IR) (pred : Nat) (rest : List Nat) (done : List Nat) :
      Except Err (Option (IR × List Nat)) :=
    match rest with
    | [] => .ok none
    | b :: rest' =>
      match ir.joinBlocks pred b with
      | .ok ir' => .ok (some (ir', done ++ [pred] ++ rest'))
      | .error (.unjoinable _) =>
        let sz := match ir.block? b with | some blk => blk.size | none => 1
        if sz == 0 then
          match ir.removeBlock b false with
          | .error e => .error e
          | .ok (ir', true) => .ok (some (ir', done ++ [pred] ++ rest'))
          | .ok (ir', false) => pass ir' b rest' (done ++ [pred])
        else pass ir b rest' (done ++ [pred])
      | .error e => .error e
  let rec loop (fuel : Nat) (ir : IR) (blocks : List Nat) : Except Err (IR × List Nat) :=
    match fuel with
    | 0 => .ok (ir, blocks)
    | fuel + 1 =>
      match blocks with
      | [] => .ok (ir, blocks)
      | b0 :: rest =>
        match pass ir b0 rest [] with
        | .error e => .error e
        | .ok none => .ok (ir, blocks)
        | .ok (some (ir', blocks')) => loop fuel ir' blocks'
  if !(blocks.any (fun b => match ir.block? b with | some blk => blk.size != 0 | none => false)) then
    .error (.assertion "need at least one block with content")
  else
    match loop (blocks.length + 1) ir blocks with
    | .error e => .error e
    | .ok (ir1, bl) =>
      let first := bl.head?.getD 0
      let fsz := match ir1.block? first with | some blk => blk.size | none => 1
      let r : Except Err (IR × List Nat) :=
        if fsz == 0 then
          match ir1.removeBlock first false with
          | .error e => .error e
          | .ok (ir2, true) => .ok (ir2, bl.drop 1)
          | .ok (ir2, false) => .ok (ir2, bl)
        else .ok (ir1, bl)
      match r with
      | .error e => .error e
      | .ok (ir2, bl2) =>
        if bl2.all (fun b => match ir2.block? b with | some blk => blk.size != 0 | none => false) then
          match bl2.getLast? with
          | some l => .ok (ir2, l)
          | none => .error (.assertion "no block left")
        else .error (.assertion "all(b.size for b in blocks)")

/-- `delete(cache, block, offset, length, retarget_to_proxy)`: `none` result = the
whole block went away -/
def IR.delete (ir : IR) (bId offset length : Nat) (toProxy : Bool) : Except Err (IR × Option Nat) :=
  match ir.block? bId with
  | none => .error (.assertion "block not in module")
  | some blk =>
    if offset > blk.size || offset + length > blk.size then .error (.assertion "range")
    else match blk.bi with
      | none => .error (.assertion "bi")
      | some biId =>
        if length == 0 && blk.size != 0 then .ok (ir, some bId)
        else if length != blk.size then
          match ir.splitBlock bId offset with
          | .error e => .error e
          | .ok (ir1, endB, _) =>
            match ir1.splitBlock endB length with
            | .error e => .error e
            | .ok (ir2, end2, _) =>
              match ir2.removeBlock endB false with
              | .error e => .error e
              | .ok (ir3, _) =>
                let ir4 := ir3.editInterval biId (blk.off + offset) length [] [bId]
                match ir4.cleanup [bId, end2] with
                | .error e => .error e
                | .ok (ir5, last) => .ok (ir5, some last)
        else
          let (prev, next) := ir.adjacent blk
          match ir.removeBlock bId toProxy with
          | .error e => .error e
          | .ok (ir1, deleted) =>
            let ir2 := ir1.editInterval biId (blk.off + offset) length [] [bId]
            let prevEmpty := match prev with
              | some p => (match ir2.block? p with | some pb => pb.size == 0 | none => false)
              | none => false
            if deleted && prev.isSome && next.isSome && prevEmpty && !toProxy then
              match ir2.removeBlock (prev.getD 0) false with
              | .error e => .error e
              | .ok (ir3, _) => .ok (ir3, none)
            else .ok (ir2, none)

/-- `_add_other_section_contents` (for one non-text section of the patch) -/
def IR.addOtherSection (ir : IR) (p : Patch) (s : PatchSect) (sectId biId : Nat) : Except Err (IR × List Sym) :=
  let lastEmpty := match s.blocks.getLast? with | some b => b.size == 0 | none => false
  let blocks := if lastEmpty then s.blocks.dropLast else s.blocks
  let lastId := (s.blocks.getLast?.map (·.id)).getD 0
  let prevId := ((s.blocks.dropLast).getLast?.map (·.id)).getD 0
  if lastEmpty && (p.cfg.any (fun e => e.dst == .block lastId)) &&
      (match s.blocks.getLast? with | some b => b.isCode | none => false) then .error .unsupported
  else if lastEmpty && s.blocks.length == 1 && p.syms.any (fun y => y.ref == .block lastId) then .error .unsupported
  else
    let syms := if lastEmpty then p.syms.map (fun y =>
        if y.ref == .block lastId then { y with ref := .block prevId, atEnd := true } else y)
      else p.syms
    let bi : Interval := { id := biId, sect := sectId, addr := none, size := s.data.length, bytes := s.data,
                           symExprs := s.symExprs }
    let newBlocks := blocks.map (fun b => { b with bi := some biId })
    let sizes := s.symExprSizes.map (fun (k, v) => (Elem.interval biId, k, toString v))
    let omaps :=
      if ir.aux.omaps.any (fun (n, _) => n == "symbolicExpressionSizes") then
        ir.aux.omaps.map (fun (n, es) => if n == "symbolicExpressionSizes" then (n, es ++ sizes) else (n, es))
      else ir.aux.omaps ++ [("symbolicExpressionSizes", sizes)]
    let al := s.alignment.foldl (fun a (k, v) => aset k v a) ir.aux.alignment
    let en := s.blockTypes.foldl (fun a (k, v) => aset k v a) ir.aux.encodings
    let aux1 : Aux := { ir.aux with omaps := omaps, alignment := al, encodings := en }
    let ir1 : IR := { ir with intervals := ir.intervals ++ [bi], blocks := ir.blocks ++ newBlocks, aux := aux1 }
    .ok (ir1.orderAppend sectId (newBlocks.map (·.id)), syms)

/-- `insert(cache, block, offset, replacement_length, code)` -/
def IR.insert (ir : IR) (bId offset repl : Nat) (p : Patch) : Except Err (IR × Nat) :=
  match ir.block? bId with
  | none => .error (.assertion "block not in module")
  | some blk =>
    if blk.size == 0 then .error (.assertion "block.size")
    else if offset > blk.size || offset + repl > blk.size then .error (.assertion "range")
    else match blk.bi, ir.sectionOf blk with
      | some biId, some sect =>
        let tb := p.text.blocks
        if p.text.data.isEmpty || tb.isEmpty then .error (.assertion "text_section")
        else if (tb.head?.map (·.size)).getD 0 == 0 then .error (.assertion "first block empty")
        else if !(tb.dropLast.all (fun b => b.size != 0)) then .error (.assertion "only the last block may be empty")
        else
          let lastB := (tb.getLast?).getD default
          if lastB.isCode && p.cfg.any (fun e => e.src == .block lastB.id) then
            .error (.assertion "the last block cannot have outgoing cfg edges")
          else
            -- return edges
            let (ir0, pcfg0) := ir.addReturnEdgesForPatchCalls p.cfg
            let (pcfg, pproxies) := if blk.isCode then ir0.matchPatchReturnEdges bId pcfg0 p.proxies
                                    else (pcfg0, p.proxies)
            match ir0.splitBlock bId offset with
            | .error e => .error e
            | .ok (ir1, end0, added) =>
              let r : Except Err (IR × Nat) :=
                if repl != 0 then
                  match ir1.splitBlock end0 repl with
                  | .error e => .error e
                  | .ok (i2, end2, _) =>
                    match i2.removeBlock end0 false with
                    | .error e => .error e
                    | .ok (i3, _) => .ok (i3, end2)
                else .ok (ir1, end0)
              match r with
              | .error e => .error e
              | .ok (ir2, endB) =>
                let firstB := (tb.head?).getD default
                -- the patch blocks must be known to the CFG helpers: add them first as detached nodes
                let ir2' : IR := { ir2 with blocks := ir2.blocks ++ tb.map (fun b => { b with bi := none }) }
                let ir3 := if added then ir2'.updateFallthrough bId firstB.id else ir2'
                let endIsCode := ir3.isCodeBlockId (some endB)
                let ir4 := if endIsCode && lastB.isCode then ir3.updateFallthrough lastB.id endB else ir3
                -- bytes
                let ir5 := ir4.editInterval biId (blk.off + offset) repl p.text.data [bId]
                -- blocks of the patch
                let base := blk.off + offset
                let placed := tb.map (fun b => { b with bi := some biId, off := base + b.off })
                let ir6 : IR := { ir5 with blocks := ir5.blocks.map (fun b =>
                  match placed.find? (·.id == b.id) with
                  | some pb => pb
                  | none => b) }
                let ir7 : IR := match ir6.interval? biId with
                  | none => ir6
                  | some bi =>
                    let se := p.text.symExprs.foldl (fun m (k, v) => aset (base + k) v m) bi.symExprs
                    ir6.setInterval { bi with symExprs := se }
                let ir8 := ir7.orderInsertAfter sect bId (tb.map (·.id))
                let cfg9 := pcfg.foldl cfgAdd ir8.cfg
                let px9 := pproxies.foldl addUnique ir8.proxies
                let ir9 : IR := { ir8 with cfg := cfg9, syms := ir8.syms ++ p.syms, proxies := px9,
                                           sections := ir8.sections ++ p.newSections }
                let sizes := p.text.symExprSizes.map (fun (k, v) => (Elem.interval biId, base + k, toString v))
                let omaps :=
                  if ir9.aux.omaps.any (fun (n, _) => n == "symbolicExpressionSizes") then
                    ir9.aux.omaps.map (fun (n, es) =>
                      if n == "symbolicExpressionSizes" then
                        (n, sizes.foldl (fun acc (el, k, v) =>
                          acc.filter (fun (el', k', _) => !(el' == el && k' == k)) ++ [(el, k, v)]) es)
                      else (n, es))
                  else ir9.aux.omaps ++ [("symbolicExpressionSizes", sizes)]
                let cfi := p.cfi.foldl (fun acc (b, k, v) =>
                  acc.filter (fun (b', k', _) => !(b' == b && k' == k)) ++ [(b, k, v)]) ir9.aux.cfi
                if p.hasFuncSym then .error .unsupported
                else
                  let al10 := p.text.alignment.foldl (fun a (k, v) => aset k v a) ir9.aux.alignment
                  let en10 := p.text.blockTypes.foldl (fun a (k, v) => aset k v a) ir9.aux.encodings
                  let es10 := p.elfSymInfo.foldl (fun a (k, v) => aset k v a) ir9.aux.elfSymInfo
                  let aux10 : Aux := { ir9.aux with alignment := al10, encodings := en10, cfi := cfi,
                                                    omaps := omaps, elfSymInfo := es10 }
                  let ir10 : IR := { ir9 with aux := aux10 }
                  let ir11 : IR :=
                    if blk.isCode then
                      match alookup bId ir10.fbb with
                      | some f => tb.foldl (fun ir b => if b.isCode then ir.addFunctionBlock b.id f else ir) ir10
                      | none => ir10
                    else ir10
                  -- other sections
                  let r2 : Except Err IR := p.others.foldl (fun (acc : Except Err IR) (s, sectId, biId') =>
                    match acc with
                    | .error e => .error e
                    | .ok i =>
                      match i.addOtherSection { p with syms := i.syms.filter (fun y => p.syms.any (·.id == y.id)) } s sectId biId' with
                      | .error e => .error e
                      | .ok (i', newSyms) =>
                        .ok { i' with syms := i'.syms.map (fun y =>
                          match newSyms.find? (·.id == y.id) with
                          | some ny => ny
                          | none => y) }) (.ok ir11)
                  match r2 with
                  | .error e => .error e
                  | .ok ir12 =>
                    let maxId := (tb.map (·.id) ++ p.proxies ++ p.syms.map (·.id)).foldl max ir12.next
                    let ir13 : IR := { ir12 with next := max ir12.next (maxId + 1) }
                    ir13.cleanup ([bId] ++ tb.map (·.id) ++ [endB])
      | _, _ => .error (.assertion "block.byte_interval and block.section")

end GtirbVerif.IR
