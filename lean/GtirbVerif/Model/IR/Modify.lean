import GtirbVerif.Model.IR.Ops

/-
Models of `_modify/remove.py:remove_block`, `_modify/edit.py:{insert, delete,
_cleanup_modified_blocks, _add_return_edges_for_patch_calls,
_update_patch_return_edges_to_match, _add_other_section_contents}`.
-/
namespace GtirbVerif.IR
open GtirbVerif.Adt (CfgNode Label Edge)

/-! ### remove_block -/

def structuralCfi : List String := [".cfi_remember_state", ".cfi_restore_state"]

/-- one directive of `_required_cfi_directives`: accumulators `(results, procedure_directives)`
and the flag "still in the group that started with `.cfi_startproc`" -/
def requiredStep (a : List CfiDir × List CfiDir × Bool) (d : CfiDir) : List CfiDir × List CfiDir × Bool :=
  if d.name == ".cfi_startproc" then (a.1, a.2.1 ++ [d], true)
  else if d.name == ".cfi_endproc" then
    -- `append_to = procedure_directives or results`; then the procedure list is cleared
    if a.2.1.isEmpty then (a.1 ++ [d], [], false) else (a.1, [], false)
  else if a.2.2 || structuralCfi.contains d.name then
    if a.2.1.isEmpty then (a.1 ++ [d], a.2.1, a.2.2) else (a.1, a.2.1 ++ [d], a.2.2)
  else a

/-- one displacement: directives that share their location with `.cfi_startproc` are the
procedure's initial state and are kept with it -/
def requiredGroup (acc : List CfiDir × List CfiDir) (grp : List CfiDir) : List CfiDir × List CfiDir :=
  let r := grp.foldl requiredStep (acc.1, acc.2, false)
  (r.1, r.2.1)

/-- the directives of a block (grouped by displacement, in order) that must survive its removal -/
def requiredGroups (groups : List (List CfiDir)) : List CfiDir :=
  let r := groups.foldl requiredGroup ([], [])
  r.1 ++ r.2

/-- `sorted(displacement_map.items())` -/
def sortGroups (mine : List (Nat × List CfiDir)) : List (Nat × List CfiDir) :=
  mine.foldl (fun acc (k, v) =>
    let rec ins : List (Nat × List CfiDir) → List (Nat × List CfiDir)
      | [] => [(k, v)]
      | (k', v') :: r => if k ≤ k' then (k, v) :: (k', v') :: r else (k', v') :: ins r
    ins acc) []

/-- `_required_cfi_directives(block)` -/
def IR.requiredCfi (ir : IR) (blk : Block) : List CfiDir :=
  if !blk.isCode then []
  -- an empty block has no instructions its directives could describe: all are kept
  else if blk.size == 0 then ((sortGroups (cfiGet ir.aux.cfi blk.id)).map (·.2)).flatten
  else requiredGroups ((sortGroups (cfiGet ir.aux.cfi blk.id)).map (·.2))

def IR.isCodeBlockId (ir : IR) (b : Option Nat) : Bool :=
  match b with
  | none => false
  | some b => match ir.block? b with
    | some blk => blk.isCode
    | none => false

/-- `_can_remove_block` -/
def IR.canRemove (ir : IR) (blk : Block) (toProxy : Bool) (prev next : Option Nat) (cfi : List CfiDir) : Bool :=
  if !(ir.refsTo blk.id).isEmpty && prev.isNone && next.isNone && !toProxy then false
  else if !cfi.isEmpty && !ir.isCodeBlockId prev && !ir.isCodeBlockId next then false
  else if blk.isCode && !((ir.inEdges blk.id).all Edge.isFall) && !ir.isCodeBlockId next && !toProxy then false
  else if (ir.entry == some blk.id || ir.aux.elfInit == some blk.id || ir.aux.elfFini == some blk.id) && !ir.isCodeBlockId next && !toProxy then false
  else true

/-- where the references of a removed block go: (referent, at_end) -/
def removeTarget (proxy next prev : Option Nat) : Referent × Bool :=
  match proxy, next, prev with
  | some p, _, _ => (.proxy p, false)
  | none, some n, _ => (.block n, false)
  | none, none, some p => (.block p, true)
  | none, none, none => (.none, false)

def IR.removeSyms (ir : IR) (bId : Nat) (target : Referent × Bool) : IR :=
  { ir with syms := ir.syms.map (fun s =>
      if s.ref == .block bId then { s with ref := target.1, atEnd := target.2 } else s) }

/-- `_retarget_incoming_edges` -/
def IR.removeInEdges (ir : IR) (blk : Block) (proxy next : Option Nat) (nextIsCode : Bool) : IR :=
  if !blk.isCode || (ir.inEdges blk.id).isEmpty then ir
  else
    match proxy with
    | some p => (ir.inEdges blk.id).foldl (fun ir e => ir.updateEdge e (updDst e (.proxy p))) ir
    | none =>
      if nextIsCode then
        (ir.inEdges blk.id).foldl (fun ir e => ir.updateEdge e (updDst e (.block (next.getD 0)))) ir
      else
        let a' : IR := { ir with next := ir.next + 1, proxies := ir.proxies ++ [ir.next] }
        (a'.inEdges blk.id).foldl (fun i e => i.updateEdge e (updDst e (.proxy ir.next))) a'

/-- `_update_functions_aux_data` -/
def IR.removeFunctions (ir : IR) (blk : Block) (nextArg : Option Nat) (nextArgIsCode : Bool) : IR :=
  if !blk.isCode then ir
  else match alookup blk.id ir.fbb with
    | none => ir
    | some f =>
      let promote := ((alookup f ir.aux.funcEntries).getD []).contains blk.id && nextArgIsCode &&
        ir.sameFunction blk.id (nextArg.getD 0)
      let b' := if promote then
          { ir with aux := { ir.aux with funcEntries := setAdd f (nextArg.getD 0) ir.aux.funcEntries } }
        else ir
      b'.removeFunctionBlock blk.id

/-- `_update_module_entrypoints`, `_update_pe_safe_seh`, `_remove_alignment` -/
def IR.removeEntrypoints (ir : IR) (blk : Block) (nextArg : Option Nat) (nextArgIsCode : Bool) : IR :=
  let d : IR := if ir.entry == some blk.id then { ir with entry := nextArg } else ir
  let d1 : IR := if d.aux.elfInit == some blk.id then { d with aux := { d.aux with elfInit := nextArg } } else d
  let d2 : IR := if d1.aux.elfFini == some blk.id then { d1 with aux := { d1.aux with elfFini := nextArg } } else d1
  let e : IR :=
    if blk.isCode && d2.aux.peSafeSeh.contains blk.id then
      let t := d2.aux.peSafeSeh.filter (· != blk.id)
      { d2 with aux := { d2.aux with peSafeSeh := if nextArgIsCode then addUnique t (nextArg.getD 0) else t } }
    else d2
  { e with aux := { e.aux with alignment := adel blk.id e.aux.alignment } }

/-- `_remove_outgoing_edges` -/
def IR.removeOutEdges (ir : IR) (blk : Block) : IR :=
  if !blk.isCode then ir
  else
    let ft := ir.fallTargets blk.id
    (ir.outEdges blk.id).foldl (fun ir e =>
      let i := if Edge.isCall e then ir.removeReturnEdgesFromCallee e ft else ir
      { i with cfg := cfgDiscard i.cfg e }) ir

/-- `_remove_aux_data_entries` -/
def IR.removeAuxEntries (ir : IR) (blk : Block) : IR :=
  { ir with aux := { ir.aux with
      omaps := ir.aux.omaps.map (fun (name, entries) =>
        (name, entries.filter (fun (el, _, _) => el != Elem.block blk.id))),
      types := if blk.isCode then ir.aux.types else adel blk.id ir.aux.types,
      encodings := if blk.isCode then ir.aux.encodings else adel blk.id ir.aux.encodings,
      profile := if blk.isCode then adel blk.id ir.aux.profile else ir.aux.profile,
      sccs := if blk.isCode then adel blk.id ir.aux.sccs else ir.aux.sccs } }

/-- `_remove_cfi_directives` -/
def IR.removeCfi (ir : IR) (bId : Nat) (cfi : List CfiDir) (prev next : Option Nat)
    (prevIsCode nextIsCode : Bool) : IR :=
  let cfi0 := cfiDelBlock ir.aux.cfi bId
  let cfiT : List (Nat × Nat × List CfiDir) :=
    if cfi.isEmpty then cfi0
    else if nextIsCode then
      let n := next.getD 0
      if cfi0.any (fun (b', k', _) => b' == n && k' == 0) then
        cfi0.map (fun (b', k', v) => if b' == n && k' == 0 then (b', k', cfi ++ v) else (b', k', v))
      else cfi0 ++ [(n, 0, cfi)]
    else if prevIsCode then
      let p := prev.getD 0
      let psize := match ir.block? p with | some pb => pb.size | none => 0
      cfiExtend cfi0 p psize cfi
    else cfi0 ++ [(bId, 0, cfi)]
  { ir with aux := { ir.aux with cfi := cfiT } }

/-- a kept, emptied code block falls through to a fresh proxy -/
def IR.keepEmpty (ir : IR) (blk : Block) : IR :=
  let ir5 := ir.setBlock { blk with size := 0 }
  if blk.isCode then
    { ir5 with next := ir5.next + 1, proxies := ir5.proxies ++ [ir5.next],
               cfg := cfgAdd ir5.cfg { src := .block blk.id, dst := .proxy ir5.next, label := fallLabel } }
  else ir5

/-- the proxy for `retarget_to_proxy` is created up front (it joins module.proxies) -/
def IR.withProxy (ir : IR) (toProxy : Bool) : IR :=
  if toProxy then { ir with next := ir.next + 1, proxies := ir.proxies ++ [ir.next] } else ir

/-- everything `remove_block` does before the block is unlinked or emptied -/
def IR.removeStages (ir0 : IR) (blk : Block) (toProxy can : Bool) (proxy prev next : Option Nat) : IR :=
  let cfi := ir0.requiredCfi blk
  let nextIsCode := ir0.isCodeBlockId next
  let prevIsCode := ir0.isCodeBlockId prev
  let nextArg : Option Nat := if toProxy then none else next
  let nextArgIsCode := if toProxy then false else nextIsCode
  let ir1 : IR :=
    if can then
      ((((ir0.removeSyms blk.id (removeTarget proxy next prev)).removeInEdges blk proxy next nextIsCode).removeFunctions
        blk nextArg nextArgIsCode).removeEntrypoints blk nextArg nextArgIsCode)
    else ir0
  ((ir1.removeOutEdges blk).removeAuxEntries blk).removeCfi blk.id cfi prev next prevIsCode nextIsCode

/-- `remove_block(cache, block, retarget_to_proxy)`; returns whether the block left the IR -/
def IR.removeBlock (ir : IR) (bId : Nat) (toProxy : Bool) : Except Err (IR × Bool) :=
  match ir.block? bId with
  | none => .error (.assertion "block not in module")
  | some blk =>
    match ir.sectionOf blk with
    | none => .error (.assertion "block.section")
    | some sect =>
      let prev := (ir.adjacent blk).1
      let next := (ir.adjacent blk).2
      let ir0 := ir.withProxy toProxy
      let proxy : Option Nat := if toProxy then some ir.next else none
      let can := ir0.canRemove blk toProxy prev next (ir0.requiredCfi blk)
      let ir4 := ir0.removeStages blk toProxy can proxy prev next
      if can then .ok ((ir4.orderRemove sect blk.id).setBlock { blk with bi := none }, true)
      else .ok (ir4.keepEmpty blk, false)

/-! ### the assembled patch -/

structure PatchSect where
  name : String
  data : List Nat
  blocks : List Block                      -- fresh ids; `bi` ignored; offsets relative to `data`
  symExprs : List (Nat × SymExpr)
  symExprSizes : List (Nat × Nat)
  alignment : List (Nat × Nat)
  blockTypes : List (Nat × String)
  deriving Repr, Inhabited

structure Patch where
  text : PatchSect
  others : List (PatchSect × Nat × Nat)    -- (section, target section id (fresh if new), fresh interval id)
  newSections : List (Nat × String)        -- sections the patch creates
  cfg : List Edge
  syms : List Sym                          -- new symbols (fresh ids), referents already resolved
  proxies : List Nat                       -- new proxies (fresh ids)
  cfi : List (Nat × Nat × List CfiDir)     -- `code.create_cfi_directives()`
  elfSymInfo : List (Nat × String)
  hasFuncSym : Bool                        -- some new symbol is typed FUNC
  deriving Repr, Inhabited

/-- `_add_return_edges_for_patch_calls` -/
def IR.addReturnEdgesForPatchCalls (ir : IR) (pcfg : List Edge) : IR × List Edge :=
  let calls := pcfg.filter Edge.isCall
  let fallBy (s : CfgNode) : Option CfgNode :=
    -- a dict comprehension: the last fallthrough edge of a source wins
    ((pcfg.filter (fun e => Edge.isFall e && e.src == s)).getLast?).map (·.dst)
  calls.foldl (fun (acc : IR × List Edge) ce =>
    match ce.dst with
    | .proxy _ => acc
    | .block callee =>
      if !(acc.1.isCodeNode (.block callee)) then acc
      else match alookup callee acc.1.fbb with
        | none => acc
        | some f =>
          match fallBy ce.src with
          | none => acc
          | some ft => acc.1.addReturnEdgesToCallee acc.2 f ft) (ir, pcfg)

/-- `_update_patch_return_edges_to_match` -/
def IR.matchPatchReturnEdges (ir : IR) (bId : Nat) (pcfg : List Edge) (newProxies : List Nat) :
    List Edge × List Nat :=
  let pret := pcfg.filter (fun e => Edge.isRet e && (match e.dst with
    | .proxy p => newProxies.contains p
    | .block _ => false))
  if pret.isEmpty then (pcfg, newProxies)
  else match alookup bId ir.fbb with
    | none => (pcfg, newProxies)
    | some f =>
      let targets : List CfgNode := (ir.functionBlocks f).foldl (fun acc fb =>
        (ir.returnEdgesOf fb).foldl (fun acc e =>
          match e.dst with
          | .block _ => if acc.contains e.dst then acc else acc ++ [e.dst]
          | .proxy _ => acc) acc) []
      if targets.isEmpty then (pcfg, newProxies)
      else
        pret.foldl (fun (acc : List Edge × List Nat) e =>
          let cfg1 := cfgDiscard acc.1 e
          let px := match e.dst with | .proxy p => acc.2.filter (· != p) | .block _ => acc.2
          (targets.foldl (fun c t => cfgAdd c { src := e.src, dst := t, label := retLabel }) cfg1, px))
          (pcfg, newProxies)

def IR.sizeOr1 (ir : IR) (b : Nat) : Nat := match ir.block? b with | some blk => blk.size | none => 1

/-- one pass of the `for … pairwise` loop of `_cleanup_modified_blocks`: the first change
wins and restarts the scan (`some blocks'`); `none` = nothing changed -/
def IR.cleanupPass (ir : IR) (pred : Nat) (rest : List Nat) (done : List Nat) :
    Except Err (IR × Option (List Nat)) :=
  match rest with
  | [] => .ok (ir, none)
  | b :: rest' =>
    match ir.joinBlocks pred b with
    | .ok ir' => .ok (ir', some (done ++ [pred] ++ rest'))
    | .error (.unjoinable _) =>
      if ir.sizeOr1 b == 0 then
        match ir.removeBlock b false with
        | .error e => .error e
        | .ok (ir', true) => .ok (ir', some (done ++ [pred] ++ rest'))
        | .ok (ir', false) => IR.cleanupPass ir' b rest' (done ++ [pred])
      else IR.cleanupPass ir b rest' (done ++ [pred])
    | .error e => .error e

/-- the `while True` loop: run passes until one changes nothing -/
def IR.cleanupLoop (fuel : Nat) (ir : IR) (blocks : List Nat) : Except Err (IR × List Nat) :=
  match fuel with
  | 0 => .ok (ir, blocks)
  | fuel + 1 =>
    match blocks with
    | [] => .ok (ir, blocks)
    | b0 :: rest =>
      match ir.cleanupPass b0 rest [] with
      | .error e => .error e
      | .ok (ir', none) => .ok (ir', blocks)
      | .ok (ir', some blocks') => IR.cleanupLoop fuel ir' blocks'

def IR.sizeOf (ir : IR) (b : Nat) : Nat := match ir.block? b with | some blk => blk.size | none => 0

/-- "This allows inserting a code block at offset 0 of a data block." -/
def IR.cleanupFirst (ir : IR) (bl : List Nat) : Except Err (IR × List Nat) :=
  match bl with
  | [] => .ok (ir, bl)
  | first :: tl =>
    if ir.sizeOr1 first == 0 then
      match ir.removeBlock first false with
      | .error e => .error e
      | .ok (ir2, true) => .ok (ir2, tl)
      | .ok (ir2, false) => .ok (ir2, bl)
    else .ok (ir, bl)

/-- `_cleanup_modified_blocks(cache, blocks)`: returns the last surviving block -/
def IR.cleanup (ir : IR) (blocks : List Nat) : Except Err (IR × Nat) :=
  if !(blocks.any (fun b => ir.sizeOf b != 0)) then
    .error (.assertion "need at least one block with content")
  else
    match ir.cleanupLoop (blocks.length + 1) blocks with
    | .error e => .error e
    | .ok (ir1, bl) =>
      match ir1.cleanupFirst bl with
      | .error e => .error e
      | .ok (ir2, bl2) =>
        if bl2.all (fun b => ir2.sizeOf b != 0) then
          match bl2.getLast? with
          | some l => .ok (ir2, l)
          | none => .error (.assertion "no block left")
        else .error (.assertion "all(b.size for b in blocks)")

/-- `_connect_empty_tail`: an empty code block without successor (split off the end of a block
that ended in a jump or return) falls through to the code that physically follows -/
def IR.connectEmptyTail (ir : IR) (tail : Nat) : IR :=
  match ir.block? tail with
  | none => ir
  | some t =>
    if t.isCode && t.size == 0 && (ir.outEdges tail).isEmpty then
      match (ir.adjacent t).2 with
      | some n => if ir.isCodeBlockId (some n) then ir.addFall tail n else ir
      | none => ir
    else ir

/-- `delete(cache, block, offset, length, retarget_to_proxy)`: `none` result = the
whole block went away -/
def IR.delete (ir : IR) (bId offset length : Nat) (toProxy : Bool) : Except Err (IR × Option Nat) :=
  match ir.block? bId with
  | none => .error (.assertion "block not in module")
  | some blk =>
    if offset > blk.size || offset + length > blk.size then .error (.assertion "range")
    else match blk.bi with
      | none => .error (.assertion "bi")
      | some biId =>
        if length == 0 && blk.size != 0 then .ok (ir, some bId)
        else if length != blk.size then
          match ir.splitBlock bId offset with
          | .error e => .error e
          | .ok (ir1, endB, _) =>
            match ir1.splitBlock endB length with
            | .error e => .error e
            | .ok (ir2', end2, _) =>
              let ir2 := ir2'.connectEmptyTail end2
              match ir2.removeBlock endB false with
              | .error e => .error e
              | .ok (ir3, _) =>
                let ir4 := ir3.editInterval biId (blk.off + offset) length [] [bId]
                match ir4.cleanup [bId, end2] with
                | .error e => .error e
                | .ok (ir5, last) => .ok (ir5, some last)
        else
          let prev := (ir.adjacent blk).1
          let next := (ir.adjacent blk).2
          match ir.removeBlock bId toProxy with
          | .error e => .error e
          | .ok (ir1, deleted) =>
            let ir2 := ir1.editInterval biId (blk.off + offset) length [] [bId]
            -- "see if that opens up an opportunity to delete a previous zero-sized block"
            if deleted && prev.isSome && next.isSome && ir2.sizeOr1 (prev.getD 0) == 0 && !toProxy then
              match ir2.removeBlock (prev.getD 0) false with
              | .error e => .error e
              | .ok (ir3, _) => .ok (ir3, none)
            else .ok (ir2, none)

/-- `_add_other_section_contents` (for one non-text section of the patch); the zero-sized block the
assembler leaves at the end is dropped, together with what the tables say about it -/
def IR.addOtherSection (ir : IR) (p : Patch) (s : PatchSect) (sectId biId : Nat) : Except Err (IR × List Sym) :=
  let lastEmpty := (s.blocks.getLast?.map (·.size == 0)).getD false
  let blocks := if lastEmpty then s.blocks.dropLast else s.blocks
  let lastId := (s.blocks.getLast?.map (·.id)).getD 0
  let prevId := ((s.blocks.dropLast).getLast?.map (·.id)).getD 0
  if lastEmpty && (p.cfg.any (fun e => e.dst == .block lastId)) &&
      (s.blocks.getLast?.map (·.isCode)).getD false then .error .unsupported
  else if lastEmpty && s.blocks.length == 1 && p.syms.any (fun y => y.ref == .block lastId) then .error .unsupported
  else
    let syms := if lastEmpty then p.syms.map (fun y =>
        if y.ref == .block lastId then { y with ref := .block prevId, atEnd := true } else y)
      else p.syms
    let bi : Interval := { id := biId, sect := sectId, addr := none, size := s.data.length, bytes := s.data,
                           symExprs := s.symExprs }
    let newBlocks := blocks.map (fun b => { b with bi := some biId })
    let sizes := s.symExprSizes.map (fun (k, v) => (Elem.interval biId, k, toString v))
    let omaps :=
      if ir.aux.omaps.any (fun (n, _) => n == "symbolicExpressionSizes") then
        ir.aux.omaps.map (fun (n, es) => if n == "symbolicExpressionSizes" then (n, es ++ sizes) else (n, es))
      else ir.aux.omaps ++ [("symbolicExpressionSizes", sizes)]
    -- what the tables say about the dropped last block: its directives (copied into the table by
    -- `insert` before) move to the end of the block in front, nothing else keeps mentioning it
    let prevSize := ((s.blocks.dropLast).getLast?.map (·.size)).getD 0
    let dropped := ((sortGroups (cfiGet ir.aux.cfi lastId)).map (·.2)).flatten
    let cfi :=
      if lastEmpty then
        let cfi0 := cfiDelBlock ir.aux.cfi lastId
        if s.blocks.length > 1 && !dropped.isEmpty then cfiExtend cfi0 prevId prevSize dropped else cfi0
      else ir.aux.cfi
    let sal := if lastEmpty then s.alignment.filter (·.1 != lastId) else s.alignment
    let sbt := if lastEmpty then s.blockTypes.filter (·.1 != lastId) else s.blockTypes
    let al := sal.foldl (fun a (k, v) => aset k v a) ir.aux.alignment
    let en := sbt.foldl (fun a (k, v) => aset k v a) ir.aux.encodings
    let aux1 : Aux := { ir.aux with omaps := omaps, alignment := al, encodings := en, cfi := cfi }
    let ir1 : IR := { ir with intervals := ir.intervals ++ [bi], blocks := ir.blocks ++ newBlocks, aux := aux1 }
    .ok (ir1.orderAppend sectId (newBlocks.map (·.id)), syms)

/-- split at the insertion point and cut out the replaced range; returns the state and
the block holding what follows the insertion -/
def IR.insertSplit (ir : IR) (bId offset repl : Nat) : Except Err (IR × Nat × Bool) :=
  match ir.splitBlock bId offset with
  | .error e => .error e
  | .ok (ir1, end0, added) =>
    if repl != 0 then
      match ir1.splitBlock end0 repl with
      | .error e => .error e
      | .ok (i2, end2, _) =>
        match (i2.connectEmptyTail end2).removeBlock end0 false with
        | .error e => .error e
        | .ok (i3, _) => .ok (i3, end2, added)
    else .ok (ir1.connectEmptyTail end0, end0, added)

/-- stitch the patch into the CFG: block → patch and patch → remainder -/
def IR.insertStitch (ir : IR) (tb : List Block) (bId endB : Nat) (added : Bool) : IR :=
  let firstB := (tb.head?).getD default
  let lastB := (tb.getLast?).getD default
  -- the patch blocks must be known to the CFG helpers: add them first as detached nodes
  let i2 : IR := { ir with blocks := ir.blocks ++ tb.map (fun b => { b with bi := none }) }
  let i3 := if added then i2.updateFallthrough bId firstB.id else i2
  if i3.isCodeBlockId (some endB) && lastB.isCode then i3.updateFallthrough lastB.id endB else i3

/-- the patch's blocks, rebased onto the byte interval -/
def IR.placePatchBlocks (ir : IR) (tb : List Block) (biId base : Nat) : IR :=
  let placed := tb.map (fun b => { b with bi := some biId, off := base + b.off })
  { ir with blocks := ir.blocks.map (fun b =>
      match placed.find? (·.id == b.id) with
      | some pb => pb
      | none => b) }

/-- the patch's symbolic expressions, rebased -/
def IR.addPatchExprs (ir : IR) (biId base : Nat) (exprs : List (Nat × SymExpr)) : IR :=
  match ir.interval? biId with
  | none => ir
  | some bi => ir.setInterval { bi with symExprs := exprs.foldl (fun m (k, v) => aset (base + k) v m) bi.symExprs }

/-- CFG edges, symbols, proxies and sections of the patch -/
def IR.addPatchNodes (ir : IR) (p : Patch) (pcfg : List Edge) (pproxies : List Nat) : IR :=
  { ir with cfg := pcfg.foldl cfgAdd ir.cfg, syms := ir.syms ++ p.syms, proxies := pproxies.foldl addUnique ir.proxies,
            sections := ir.sections ++ p.newSections }

def addSizes (omaps : List (String × List (Elem × Nat × String))) (sizes : List (Elem × Nat × String)) :
    List (String × List (Elem × Nat × String)) :=
  if omaps.any (fun (n, _) => n == "symbolicExpressionSizes") then
    omaps.map (fun (n, es) =>
      if n == "symbolicExpressionSizes" then
        (n, sizes.foldl (fun acc (el, k, v) =>
          acc.filter (fun (el', k', _) => !(el' == el && k' == k)) ++ [(el, k, v)]) es)
      else (n, es))
  else omaps ++ [("symbolicExpressionSizes", sizes)]

/-- aux data of the patch: alignment, encodings, CFI, expression sizes, ELF symbol info -/
def IR.addPatchAux (ir : IR) (p : Patch) (biId base : Nat) : IR :=
  let sizes := p.text.symExprSizes.map (fun (k, v) => (Elem.interval biId, base + k, toString v))
  let cfi := p.cfi.foldl (fun acc (b, k, v) =>
    acc.filter (fun (b', k', _) => !(b' == b && k' == k)) ++ [(b, k, v)]) ir.aux.cfi
  { ir with aux := { ir.aux with
      alignment := p.text.alignment.foldl (fun a (k, v) => aset k v a) ir.aux.alignment,
      encodings := p.text.blockTypes.foldl (fun a (k, v) => aset k v a) ir.aux.encodings,
      cfi := cfi, omaps := addSizes ir.aux.omaps sizes,
      elfSymInfo := p.elfSymInfo.foldl (fun a (k, v) => aset k v a) ir.aux.elfSymInfo } }

/-- code blocks of the patch join the function of the block they were inserted into -/
def IR.addPatchFunctions (ir : IR) (blk : Block) (tb : List Block) : IR :=
  if blk.isCode then
    match alookup blk.id ir.fbb with
    | some f => tb.foldl (fun ir b => if b.isCode then ir.addFunctionBlock b.id f else ir) ir
    | none => ir
  else ir

/-- contents the patch puts into other sections -/
def IR.addOthers (ir : IR) (p : Patch) : Except Err IR :=
  p.others.foldl (fun (acc : Except Err IR) (s, sectId, biId') =>
    match acc with
    | .error e => .error e
    | .ok i =>
      match i.addOtherSection { p with syms := i.syms.filter (fun y => p.syms.any (·.id == y.id)) } s sectId biId' with
      | .error e => .error e
      | .ok (i', newSyms) =>
        .ok { i' with syms := i'.syms.map (fun y =>
          match newSyms.find? (·.id == y.id) with
          | some ny => ny
          | none => y) }) (.ok ir)

/-- every id the patch brought (blocks of all its sections, proxies, symbols) -/
def Patch.ids (p : Patch) : List Nat :=
  (p.text.blocks.map (·.id)) ++ p.proxies ++ p.syms.map (·.id) ++
    (p.others.map (fun s => s.1.blocks.map (·.id))).flatten

/-- the model's id counter stays above every id in use -/
def IR.bumpNext (ir : IR) (p : Patch) : IR :=
  let maxId := p.ids.foldl max ir.next
  { ir with next := max ir.next (maxId + 1) }

/-- `insert(cache, block, offset, replacement_length, code)` -/
def IR.insert (ir : IR) (bId offset repl : Nat) (p : Patch) : Except Err (IR × Nat) :=
  match ir.block? bId with
  | none => .error (.assertion "block not in module")
  | some blk =>
    if blk.size == 0 then .error (.assertion "block.size")
    else if offset > blk.size || offset + repl > blk.size then .error (.assertion "range")
    else match blk.bi, ir.sectionOf blk with
      | some biId, some sect =>
        let tb := p.text.blocks
        if p.text.data.isEmpty || tb.isEmpty then .error (.assertion "text_section")
        else if (tb.head?.map (·.size)).getD 0 == 0 then .error (.assertion "first block empty")
        else if !(tb.dropLast.all (fun b => b.size != 0)) then .error (.assertion "only the last block may be empty")
        else
          let lastB := (tb.getLast?).getD default
          if lastB.isCode && p.cfg.any (fun e => e.src == .block lastB.id) then
            .error (.assertion "the last block cannot have outgoing cfg edges")
          else
            -- return edges inside the patch take the targets of the function's other returns
            let pc : List Edge × List Nat :=
              if blk.isCode then ir.matchPatchReturnEdges bId p.cfg p.proxies else (p.cfg, p.proxies)
            match ir.insertSplit bId offset repl with
            | .error e => .error e
            | .ok (ir2', endB, added) =>
              -- calls inside the patch: the callee's returning blocks are looked up after the splits
              let r0 := ir2'.addReturnEdgesForPatchCalls pc.1
              let ir2 := r0.1
              let base := blk.off + offset
              let ir5 := (ir2.insertStitch tb bId endB added).editInterval biId base repl p.text.data [bId]
              let ir8 := (((ir5.placePatchBlocks tb biId base).addPatchExprs biId base p.text.symExprs).orderInsertAfter
                sect bId (tb.map (·.id)))
              let ir9 := ir8.addPatchNodes p r0.2 pc.2
              if p.hasFuncSym then .error .unsupported
              else
                match ((ir9.addPatchAux p biId base).addPatchFunctions blk tb).addOthers p with
                | .error e => .error e
                | .ok ir12 => (ir12.bumpNext p).cleanup ([bId] ++ tb.map (·.id) ++ [endB])
      | _, _ => .error (.assertion "block.byte_interval and block.section")

end GtirbVerif.IR
