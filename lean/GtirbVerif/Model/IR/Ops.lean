import GtirbVerif.Model.IR.Basic

/-
Models of `_modify/edit.py:edit_byte_interval`, `_modify/split.py:split_block`,
`_modify/join.py:{are_joinable,join_blocks}`, `_modify/functions.py`,
`_modify/edges.py`, `_modify/remove.py:remove_block` (+ helpers).
-/
namespace GtirbVerif.IR
open GtirbVerif.Adt (CfgNode Label Edge)

/-! ### edit_byte_interval -/

/-- the dict comprehension used for symbolic expressions and interval-keyed
offset tables: keys `< off` stay, keys in `[off, off+len)` are dropped, keys
`≥ off+len` move by `delta = |content| - len` -/
def shiftKeys {β} (off len newLen : Nat) (m : List (Nat × β)) : List (Nat × β) :=
  m.filterMap (fun (k, v) =>
    if k < off then some (k, v)
    else if k ≥ off + len then some (k + newLen - len, v)
    else none)

def spliceBytes (bytes : List Nat) (off len : Nat) (content : List Nat) : List Nat :=
  bytes.take off ++ content ++ bytes.drop (off + len)

/-- `edit_byte_interval(bi, offset, length, content, static_blocks)` -/
def IR.editInterval (ir : IR) (biId off len : Nat) (content : List Nat) (static : List Nat) : IR :=
  match ir.interval? biId with
  | none => ir
  | some bi =>
    let newLen := content.length
    let bi' : Interval := { bi with
      size := bi.size + newLen - len,
      bytes := spliceBytes bi.bytes off len content,
      symExprs := shiftKeys off len newLen bi.symExprs }
    let blocks := ir.blocks.map (fun b =>
      if b.bi == some biId && decide (b.off ≥ off) && !static.contains b.id
      then { b with off := b.off + newLen - len } else b)
    let omaps := ir.aux.omaps.map (fun (name, entries) =>
      (name, entries.filterMap (fun (el, k, v) =>
        if el == Elem.interval biId then
          if k < off then some (el, k, v)
          else if k ≥ off + len then some (el, k + newLen - len, v)
          else none
        else some (el, k, v))))
    { (ir.setInterval bi') with blocks := blocks, aux := { ir.aux with omaps := omaps } }

/-! ### function aux data -/

def setAdd (k : Nat) (x : Nat) (t : List (Nat × List Nat)) : List (Nat × List Nat) :=
  aset k (addUnique ((alookup k t).getD []) x) t

/-- `add_function_block_aux` -/
def IR.addFunctionBlock (ir : IR) (b f : Nat) : IR :=
  { ir with aux := { ir.aux with funcBlocks := setAdd f b ir.aux.funcBlocks },
            fbb := aset b f ir.fbb }

/-- one table of `remove_function_block_aux`: discard the block from the function's set; the
flag says whether the set is still non-empty -/
def dropMember (b f : Nat) (t : List (Nat × List Nat)) : List (Nat × List Nat) × Bool :=
  match alookup f t with
  | none => (t, false)
  | some bs =>
    if bs.isEmpty then (t, false)
    else (aset f (bs.filter (· != b)) t, !(bs.filter (· != b)).isEmpty)

/-- `remove_function_block_aux` -/
def IR.removeFunctionBlock (ir : IR) (b : Nat) : IR :=
  match alookup b ir.fbb with
  | none => ir
  | some f =>
    let fe := dropMember b f ir.aux.funcEntries
    let fb := dropMember b f ir.aux.funcBlocks
    if fe.2 || fb.2 then
      { ir with fbb := adel b ir.fbb, aux := { ir.aux with funcEntries := fe.1, funcBlocks := fb.1 } }
    else
      { ir with fbb := adel b ir.fbb,
                aux := { ir.aux with funcEntries := adel f fe.1, funcBlocks := adel f fb.1,
                                     funcNames := adel f ir.aux.funcNames } }

def IR.functionBlocks (ir : IR) (f : Nat) : List Nat := (alookup f ir.aux.funcBlocks).getD []

/-! ### edges.py -/

def updSrc (e : Edge) (s : CfgNode) : Edge := { e with src := s }
def updDst (e : Edge) (t : CfgNode) : Edge := { e with dst := t }

/-- `update_edge(edge, cfg, …)` -/
def IR.updateEdge (ir : IR) (e e' : Edge) : IR := { ir with cfg := cfgAdd (cfgDiscard ir.cfg e) e' }

def IR.returnEdgesOf (ir : IR) (b : Nat) : List Edge :=
  ir.cfg.filter (fun e => Edge.isRet e && e.src == CfgNode.block b)

/-- `update_return_edges_from_changing_call_fallthrough` -/
def IR.moveReturnEdges (ir : IR) (callEdge : Edge) (fallTargets : List Nat) (newFall : Nat) : IR :=
  match callEdge.dst with
  | .proxy _ => ir
  | .block callee =>
    match alookup callee ir.fbb with
    | none => ir
    | some f =>
      (ir.functionBlocks f).foldl (fun ir tb =>
        (ir.returnEdgesOf tb).foldl (fun ir e =>
          match e.dst with
          | .block t => if fallTargets.contains t then ir.updateEdge e (updDst e (.block newFall)) else ir
          | .proxy _ => ir) ir) ir

/-- `update_fallthrough_target(cache, cfg, source, new_target)` -/
def IR.updateFallthrough (ir : IR) (src newTarget : Nat) : IR :=
  let old := ir.fallTargets src
  let ir1 := (ir.outEdges src).foldl (fun ir e =>
    if Edge.isCall e then ir.moveReturnEdges e old newTarget
    else if Edge.isFall e then { ir with cfg := cfgDiscard ir.cfg e }
    else ir) ir
  { ir1 with cfg := cfgAdd ir1.cfg { src := .block src, dst := .block newTarget, label := fallLabel } }

/-- `remove_return_edges_from_callee` -/
def IR.removeReturnEdgesFromCallee (ir : IR) (callEdge : Edge) (fallTargets : List Nat) : IR :=
  match callEdge.dst with
  | .proxy _ => ir
  | .block callee =>
    match alookup callee ir.fbb with
    | none => ir
    | some f =>
      (ir.functionBlocks f).foldl (fun ir b =>
        let rets := ir.returnEdgesOf b
        if rets.isEmpty then ir
        else
          let (ir', remaining) := rets.foldl (fun (acc : IR × Bool) e =>
            match e.dst with
            | .block t => if fallTargets.contains t then ({ acc.1 with cfg := cfgDiscard acc.1.cfg e }, acc.2)
                          else (acc.1, true)
            | .proxy _ => (acc.1, true)) (ir, false)
          if remaining then ir'
          else
            let p := ir'.next
            { ir' with next := p + 1, proxies := ir'.proxies ++ [p],
                       cfg := cfgAdd ir'.cfg { src := .block b, dst := .proxy p, label := retLabel } }) ir

/-- `add_return_edges_to_callee` (on the patch's CFG `pcfg`, reading the module) -/
def IR.addReturnEdgesToCallee (ir : IR) (pcfg : List Edge) (f : Nat) (retTarget : CfgNode) :
    IR × List Edge :=
  (ir.functionBlocks f).foldl (fun (acc : IR × List Edge) b =>
    let rets := acc.1.returnEdgesOf b
    -- the block returns if it has return edges in the module's CFG or already in the CFG being collected
    if rets.isEmpty && !(acc.2.any (fun e => Edge.isRet e && e.src == CfgNode.block b)) then acc
    else
      let proxyRets := rets.filter (fun e => match e.dst with | .proxy _ => true | .block _ => false)
      let ir' := proxyRets.foldl (fun ir e => { ir with cfg := cfgDiscard ir.cfg e }) acc.1
      (ir', cfgAdd acc.2 { src := .block b, dst := retTarget, label := retLabel })) (ir, pcfg)

/-! ### split_block -/

def cfiGet (cfi : List (Nat × Nat × List CfiDir)) (b : Nat) : List (Nat × List CfiDir) :=
  cfi.filterMap (fun (b', k, v) => if b' = b then some (k, v) else none)

def cfiDelBlock (cfi : List (Nat × Nat × List CfiDir)) (b : Nat) : List (Nat × Nat × List CfiDir) :=
  cfi.filter (fun (b', _, _) => b' != b)

/-- `before_and_after(lambda d: d[0] != ".cfi_endproc", items)` -/
def splitAtEndproc : List CfiDir → List CfiDir × List CfiDir
  | [] => ([], [])
  | d :: ds => if d.name == ".cfi_endproc" then ([], d :: ds)
    else let (k, m) := splitAtEndproc ds; (d :: k, m)

/-- symbols: `at_end` references follow the tail block -/
def IR.splitSyms (ir : IR) (bId nb : Nat) : IR :=
  { ir with syms := ir.syms.map (fun s =>
      if s.ref == .block bId && s.atEnd then { s with ref := .block nb } else s) }

/-- out-edges of a block split in the middle: they all leave from the tail -/
def IR.splitEdgesMid (ir : IR) (bId nb : Nat) : IR :=
  (ir.outEdges bId).foldl (fun ir e => ir.updateEdge e (updSrc e (.block nb))) ir

/-- out-edges of a block split at its very end: only fallthroughs move to the (empty)
tail; the return edges of called functions follow the new fallthrough -/
def IR.splitEdgesEnd (ir : IR) (bId nb : Nat) : IR :=
  let ft := ir.fallTargets bId
  (ir.outEdges bId).foldl (fun ir e =>
    if Edge.isCall e then ir.moveReturnEdges e ft nb
    else if Edge.isFall e then ir.updateEdge e (updSrc e (.block nb))
    else ir) ir

def IR.addFall (ir : IR) (src dst : Nat) : IR :=
  { ir with cfg := cfgAdd ir.cfg { src := .block src, dst := .block dst, label := fallLabel } }

def IR.inheritFunction (ir : IR) (bId nb : Nat) : IR :=
  match alookup bId ir.fbb with
  | some f => ir.addFunctionBlock nb f
  | none => ir

/-- CFG and function membership of a split code block; returns whether a connecting
fallthrough edge was added -/
def IR.splitCode (ir : IR) (bId nb : Nat) (endSplit : Bool) : IR × Bool :=
  if !endSplit then (((ir.splitEdgesMid bId nb).addFall bId nb).inheritFunction bId nb, true)
  else
    let addFall := !(ir.fallTargets bId).isEmpty
    let i1 := ir.splitEdgesEnd bId nb
    let i2 := if addFall then i1.addFall bId nb else i1
    (i2.inheritFunction bId nb, addFall)

/-- block-keyed offset tables: entries at `k ≥ offset` move to the new block -/
def splitOmaps (omaps : List (String × List (Elem × Nat × String))) (bId nb offset : Nat) :
    List (String × List (Elem × Nat × String)) :=
  omaps.map (fun (name, entries) =>
    (name, entries.map (fun (el, k, v) =>
      if el == Elem.block bId && decide (k ≥ offset) then (Elem.block nb, k - offset, v)
      else (el, k, v))))

/-- CFI directives of a split block (the `.cfi_endproc` rule at the split point) -/
def splitCfi (cfi0 : List (Nat × Nat × List CfiDir)) (bId nb offset : Nat) : List (Nat × Nat × List CfiDir) :=
  let mine := cfiGet cfi0 bId
  if mine.isEmpty then cfi0
  else
    let rest := cfiDelBlock cfi0 bId
    let low := mine.filter (fun (k, _) => k < offset)
    let high := mine.filter (fun (k, _) => k > offset)
    let atOff := (alookup offset mine).getD []
    let (keep, move) := splitAtEndproc atOff
    let lowE := low.map (fun (k, v) => (bId, k, v))
    let keepE := if keep.isEmpty then [] else [(bId, offset, keep)]
    -- `cfi_data[new_block][0] = move` overwrites; there is no key 0 among `high - offset`
    let moveE := if move.isEmpty then [] else [(nb, 0, move)]
    let highE := high.map (fun (k, v) => (nb, k - offset, v))
    rest ++ lowE ++ keepE ++ highE ++ moveE

/-- the two blocks after the split -/
def IR.splitBlocks (ir : IR) (blk : Block) (nb offset : Nat) : IR :=
  { (ir.setBlock { blk with size := offset }) with
    blocks := (ir.setBlock { blk with size := offset }).blocks ++
      [{ id := nb, isCode := blk.isCode, bi := blk.bi, off := blk.off + offset, size := blk.size - offset }],
    next := nb + 1 }

def IR.splitTables (ir : IR) (bId nb offset : Nat) : IR :=
  { ir with aux := { ir.aux with omaps := splitOmaps ir.aux.omaps bId nb offset,
                                 cfi := splitCfi ir.aux.cfi bId nb offset } }

/-- `split_block(cache, block, offset)`: returns the new state, the id of the new
block and whether a fallthrough edge was added -/
def IR.splitBlock (ir : IR) (bId offset : Nat) : Except Err (IR × Nat × Bool) :=
  match ir.block? bId with
  | none => .error (.assertion "block not in module")
  | some blk =>
    if offset > blk.size then .error (.assertion "0 <= offset <= block.size")
    else
      match ir.sectionOf blk with
      | none => .error (.assertion "target block must be in a module")
      | some sect =>
        let nb := ir.next
        let ir2 := (ir.splitBlocks blk nb offset).splitSyms bId nb
        let r : IR × Bool := if blk.isCode then ir2.splitCode bId nb (offset == blk.size) else (ir2, false)
        .ok (((r.1.splitTables bId nb offset).orderInsertAfter sect bId [nb]), nb, r.2)

/-! ### are_joinable / join_blocks -/

inductive NoJoin
  | types | interval | module | notAdjacent | endSymbols | alignment | symbols | outEdges | inEdges | function | entry
  deriving Repr, DecidableEq, Inhabited

/-- the layout part of `are_joinable`: same kind, same interval, adjacent -/
def layoutJoinable (b1 b2 : Block) : Option NoJoin :=
  if b1.isCode != b2.isCode then some .types
  else if b1.bi != b2.bi then some .interval
  else if b1.bi.isNone then some .module
  else if b1.off + b1.size != b2.off then some .notAdjacent
  else none

/-- the control-flow and function part of `are_joinable` (code blocks) -/
def IR.codeJoinable (ir : IR) (b1 b2 : Block) : Option NoJoin :=
  let anyOut := (ir.outEdges b1.id).any (fun e => !(Edge.isFall e) || e.dst != .block b2.id)
  if anyOut && b2.size != 0 then some .outEdges
  else
    let anyIn := (ir.inEdges b2.id).any (fun e => !(Edge.isFall e) || e.src != .block b1.id)
    if anyIn then some .inEdges
    else if !ir.sameFunction b1.id b2.id then some .function
    else if ir.isEntryBlock b2.id then some .entry
    else none

/-- `are_joinable(cache, block1, block2)`: `none` = joinable -/
def IR.notJoinable (ir : IR) (b1 b2 : Block) : Option NoJoin :=
  match layoutJoinable b1 b2 with
  | some r => some r
  | none =>
    if b1.size == 0 then none
    else if b2.size != 0 && (ir.refsTo b1.id).any (·.atEnd) then some .endSymbols
    else if (alookup b2.id ir.aux.alignment).getD 1 != 1 then some .alignment
    else if (ir.refsTo b2.id).any (fun s => !s.atEnd) then some .symbols
    else if b1.isCode then ir.codeJoinable b1 b2
    else none

/-- merge `extra` into the directive list at `(b, k)` (setdefault(...).extend) -/
def cfiExtend (cfi : List (Nat × Nat × List CfiDir)) (b k : Nat) (extra : List CfiDir) :
    List (Nat × Nat × List CfiDir) :=
  if cfi.any (fun (b', k', _) => b' == b && k' == k) then
    cfi.map (fun (b', k', v) => if b' == b && k' == k then (b', k', v ++ extra) else (b', k', v))
  else cfi ++ [(b, k, extra)]

/-- `join_blocks(cache, block1, block2)` -/
def IR.joinSyms (ir : IR) (b1 : Block) (id2 : Nat) : IR :=
  -- non-empty block1: retarget_references(block2, block1, True);
  -- empty block1: every reference keeps its at_end flag
  { ir with syms := ir.syms.map (fun s =>
      if s.ref == .block id2 then
        { s with ref := .block b1.id, atEnd := if b1.size != 0 then true else s.atEnd }
      else s) }

/-- CFG of two joined code blocks -/
def IR.joinCode (ir : IR) (b1 : Block) (id2 size2 : Nat) : IR :=
  let flowsIn := (ir.inEdges id2).any (fun e => Edge.isFall e && e.src == .block b1.id)
  let i1 := (ir.inEdges id2).foldl (fun ir e =>
    if Edge.isFall e && e.src == .block b1.id then { ir with cfg := cfgDiscard ir.cfg e } else ir) ir
  let i2 := if b1.size == 0 then
      (i1.inEdges id2).foldl (fun ir e => ir.updateEdge e (updDst e (.block b1.id))) i1
    else (i1.inEdges id2).foldl (fun ir e => { ir with cfg := cfgDiscard ir.cfg e }) i1
  -- an empty block2 that block1 does not fall into (block1 ends in a jump or return) is dead:
  -- its fallthrough is dropped, not inherited
  let i3 := if b1.size != 0 && size2 == 0 && !flowsIn then
      (i2.outEdges id2).foldl (fun ir e => { ir with cfg := cfgDiscard ir.cfg e }) i2
    else (i2.outEdges id2).foldl (fun ir e => ir.updateEdge e (updSrc e (.block b1.id))) i2
  i3.removeFunctionBlock id2

def joinOmaps (omaps : List (String × List (Elem × Nat × String))) (id1 size1 id2 : Nat) :
    List (String × List (Elem × Nat × String)) :=
  omaps.map (fun (name, entries) =>
    (name,
      let mine := entries.filter (fun (el, _, _) => el == Elem.block id2)
      let rest := entries.filter (fun (el, _, _) => el != Elem.block id2)
      -- dict.update: later keys overwrite
      mine.foldl (fun acc (_, k, v) =>
        (acc.filter (fun (el', k', _) => !(el' == Elem.block id1 && k' == size1 + k)))
          ++ [(Elem.block id1, size1 + k, v)]) rest))

def joinCfi (cfi : List (Nat × Nat × List CfiDir)) (id1 size1 id2 : Nat) : List (Nat × Nat × List CfiDir) :=
  (cfiGet cfi id2).foldl (fun acc (k, v) => cfiExtend acc id1 (size1 + k) v) (cfiDelBlock cfi id2)

def joinAlignment (al : List (Nat × Nat)) (id1 id2 : Nat) : List (Nat × Nat) :=
  let a1 := (alookup id1 al).getD 1
  let a2 := (alookup id2 al).getD 1
  let al0 := adel id2 al
  if a2 > a1 then aset id1 a2 al0 else al0

def IR.joinTables (ir : IR) (b1 : Block) (id2 : Nat) (code2 : Bool) : IR :=
  { ir with aux := { ir.aux with omaps := joinOmaps ir.aux.omaps b1.id b1.size id2,
                                 cfi := joinCfi ir.aux.cfi b1.id b1.size id2,
                                 alignment := joinAlignment ir.aux.alignment b1.id id2,
                                 -- the absorbed block leaves the whole-block tables
                                 types := if code2 then ir.aux.types else adel id2 ir.aux.types,
                                 encodings := if code2 then ir.aux.encodings else adel id2 ir.aux.encodings,
                                 profile := if code2 then adel id2 ir.aux.profile else ir.aux.profile,
                                 sccs := if code2 then adel id2 ir.aux.sccs else ir.aux.sccs } }

def IR.joinBlocks (ir : IR) (id1 id2 : Nat) : Except Err IR :=
  match ir.block? id1, ir.block? id2 with
  | some b1, some b2 =>
    match ir.notJoinable b1 b2 with
    | some r => .error (.unjoinable (reprStr r))
    | none =>
      match ir.sectionOf b2 with
      | none => .error (.assertion "block2.section")
      | some sect =>
        let ir1 := ir.joinSyms b1 id2
        let ir2 := if b2.isCode then ir1.joinCode b1 id2 b2.size else ir1
        let ir3 := ir2.joinTables b1 id2 b2.isCode
        let ir4 := ir3.setBlock { b1 with size := b1.size + b2.size }
        let ir5 := ir4.orderRemove sect id2
        .ok (ir5.setBlock { b2 with bi := none })
  | _, _ => .error (.assertion "blocks not in module")

end GtirbVerif.IR
