import GtirbVerif.Model.Abi.Prologue

/-
Model of `gtirb_rewriting.patches.calls` (CallPatch): `_create_passed_args`,
`_CallPatchX86.get_asm`, `_CallPatchARM64.{_load_immediate,_load_symbol,get_asm}`
and `utils.align_address`, plus the machine semantics of exactly the
instructions those generators emit.
-/
namespace GtirbVerif.Abi

/-- an actual argument: integer or symbol (callables are evaluated by the harness
and passed on as their value) -/
inductive ArgVal
  | int (v : Int)
  | sym (name : String)
  deriving Repr, Inhabited, DecidableEq

structure Conv where
  regs : List String
  align : Nat
  callerCleanup : Bool
  shadow : Nat
  deriving Repr, Inhabited

inductive CInstr
  | subSp (n : Nat) | addSp (n : Nat)
  -- x86 (Intel syntax)
  | movImm (r : String) (v : Int)          -- mov r, imm
  | movSym (r : String) (s : String)       -- mov r, sym[rip] / mov r, sym   (a *load* from the symbol)
  | pushImm (v : Int)
  | pushSym (s : String)                   -- push sym[rip] / push sym       (pushes the *contents*)
  | call (f : String)
  -- ARM64
  | movSmall (r : String) (v : Int)        -- mov r, #v
  | movz (r : String) (chunk : Nat)
  | movk (r : String) (chunk : Nat) (shift : Nat)
  | movn (r : String) (chunk : Nat)        -- mov-wide-with-NOT: r := ~chunk (never generated; understood by the oracle)
  | adrp (r : String) (s : String)
  | addLo12 (r : String) (s : String)
  | strSlot (r : String) (slot : Nat)      -- str r, [sp, #slot]
  | bl (f : String)
  deriving Repr, Inhabited, DecidableEq

/-- `_create_passed_args`: the i-th argument gets the i-th convention register -/
def passedArgs : List String → List ArgVal → List (ArgVal × Option String)
  | _, [] => []
  | [], a :: as => (a, none) :: passedArgs [] as
  | r :: rs, a :: as => (a, some r) :: passedArgs rs as

/-- `align_address(address, alignment)`: `(address + alignment - 1) & -alignment`,
i.e. rounding up, for a power-of-two alignment -/
def alignUp (x a : Nat) : Nat := if a = 0 then x else (x + a - 1) / a * a

def stackArgCount (pa : List (ArgVal × Option String)) : Nat :=
  (pa.filter (fun p => p.2.isNone)).length

/-- `_CallPatchX86.get_asm`; `W` = pointer size, `adj` = `insertion_context.stack_adjustment` -/
def x86Call (W : Nat) (conv : Conv) (f : String) (args : List ArgVal) (adj : Option Nat) : List CInstr :=
  let pa := passedArgs conv.regs args
  let argStack := W * stackArgCount pa
  let total := adj.getD 0 + argStack + conv.shadow
  let padding := alignUp total conv.align - total
  let p0 : List CInstr := if padding != 0 then [.subSp padding] else []
  let body := pa.reverse.map (fun (a, r) =>
    match r, a with
    | some r, .int v => CInstr.movImm r v
    | some r, .sym s => CInstr.movSym r s
    | none, .int v => CInstr.pushImm v
    | none, .sym s => CInstr.pushSym s)
  let p1 : List CInstr := if conv.shadow != 0 then [.subSp conv.shadow] else []
  let cleanup := conv.shadow + padding + (if conv.callerCleanup then argStack else 0)
  let p2 : List CInstr := if cleanup != 0 then [.addSp cleanup] else []
  p0 ++ body ++ p1 ++ [.call f] ++ p2

/-- `(value >> shift) & 0xFFFF` on Python integers -/
def chunk16 (v : Int) (shift : Nat) : Nat := ((v / (2 ^ shift : Int)) % 65536).toNat

/-- `_load_immediate(reg, value)` -/
def loadImmediate (r : String) (v : Int) : List CInstr :=
  if 0 ≤ v ∧ v ≤ 0xFFFF then [.movSmall r v]
  else
    [.movz r (chunk16 v 0)] ++
    (if chunk16 v 16 != 0 then [.movk r (chunk16 v 16) 16] else []) ++
    (if chunk16 v 32 != 0 then [.movk r (chunk16 v 32) 32] else []) ++
    (if chunk16 v 48 != 0 then [.movk r (chunk16 v 48) 48] else [])

def loadArg (r : String) : ArgVal → List CInstr
  | .int v => loadImmediate r v
  | .sym s => [.adrp r s, .addLo12 r s]

/-- the `for i, arg in enumerate(stack_args)` loop (`stack_args` is in reversed order) -/
def armStackLoop (n : Nat) : Nat → List ArgVal → List CInstr
  | _, [] => []
  | i, a :: as => loadArg "x0" a ++ [.strSlot "x0" ((n - i - 1) * 8)] ++ armStackLoop n (i + 1) as

/-- `_CallPatchARM64.get_asm` -/
def arm64Call (conv : Conv) (f : String) (args : List ArgVal) : List CInstr :=
  let pa := (passedArgs conv.regs args).reverse
  let stackArgs := (pa.filter (fun p => p.2.isNone)).map (·.1)
  let regArgs := pa.filterMap (fun p => match p.2 with | some r => some (p.1, r) | none => none)
  let sa := alignUp (stackArgs.length * 8) conv.align
  let p0 : List CInstr := if sa != 0 then [.subSp sa] else []
  let p1 := armStackLoop stackArgs.length 0 stackArgs
  let p2 := regArgs.flatMap (fun (a, r) => loadArg r a)
  let p3 : List CInstr := if sa != 0 then [.addSp sa] else []
  p0 ++ p1 ++ p2 ++ [.bl f] ++ p3

/-! ### machine -/

structure CM where
  reg : String → Int
  sp : Int
  mem : Int → Option Int
  snap : Option (String × (String → Int) × Int × (Int → Option Int)) := none  -- snapshot at the call

inductive CErr
  | immRange (what : String)      -- the assembler rejects the operand
  | other
  deriving Repr, Inhabited, DecidableEq

/-- environment: address of a symbol, and the word stored there -/
structure SymEnv where
  addr : String → Int
  contents : String → Int

/-- `W` = cell width; `pushMax` = exclusive upper bound of a push immediate
(x86-64: sign-extended imm32), `calleePops` = bytes the callee removes on return
(callee-cleanup conventions) -/
def cstep (env : SymEnv) (W : Int) (pushLo pushHi : Int) (calleePops : Int) (i : CInstr) (σ : CM) :
    Except CErr CM :=
  match i with
  | .subSp n => .ok { σ with sp := σ.sp - n }
  | .addSp n => .ok { σ with sp := σ.sp + n }
  | .movImm r v =>
    if -(2 ^ 63 : Int) ≤ v ∧ v < 2 ^ 64 then .ok { σ with reg := setReg σ.reg r v }
    else .error (.immRange "mov")
  | .movSym r s => .ok { σ with reg := setReg σ.reg r (env.contents s) }
  | .pushImm v =>
    if pushLo ≤ v ∧ v < pushHi then
      .ok { σ with sp := σ.sp - W, mem := fun x => if x = σ.sp - W then some v else σ.mem x }
    else .error (.immRange "push")
  | .pushSym s =>
    .ok { σ with sp := σ.sp - W, mem := fun x => if x = σ.sp - W then some (env.contents s) else σ.mem x }
  | .call f => .ok { σ with snap := some (f, σ.reg, σ.sp, σ.mem), sp := σ.sp + calleePops }
  | .movSmall r v =>
    if 0 ≤ v ∧ v ≤ 0xFFFF then .ok { σ with reg := setReg σ.reg r v } else .error (.immRange "mov #imm")
  | .movz r c => .ok { σ with reg := setReg σ.reg r c }
  | .movn r c => .ok { σ with reg := setReg σ.reg r (-(c : Int) - 1) }
  | .movk r c sh =>
    let v : Int := σ.reg r - ((σ.reg r / (2 ^ sh : Int)) % 65536) * 2 ^ sh + (c : Int) * 2 ^ sh
    .ok { σ with reg := setReg σ.reg r v }
  | .adrp r s => .ok { σ with reg := setReg σ.reg r (env.addr s - env.addr s % 4096) }
  | .addLo12 r s => .ok { σ with reg := setReg σ.reg r (σ.reg r + env.addr s % 4096) }
  | .strSlot r slot => .ok { σ with mem := fun x => if x = σ.sp + slot then some (σ.reg r) else σ.mem x }
  | .bl f => .ok { σ with snap := some (f, σ.reg, σ.sp, σ.mem) }

def crun (env : SymEnv) (W pushLo pushHi calleePops : Int) : List CInstr → CM → Except CErr CM
  | [], σ => .ok σ
  | i :: is, σ => match cstep env W pushLo pushHi calleePops i σ with
    | .error e => .error e
    | .ok σ' => crun env W pushLo pushHi calleePops is σ'

end GtirbVerif.Abi
