/-
Abstract machine for the code `ABI._create_prologue_and_epilogue` and
`CallPatch.get_asm` emit (abi.py, patches/calls.py).  The instruction set is
exactly what those generators produce.

Memory is a map from cell start addresses to `Option Int`: `some v` = a cell
written by wrapper code and still intact, `none` = not ours / clobbered.  A
write at `a` of width `W` invalidates every other cell start in `(a-W, a+W)`
(partial overlap).  A wrapper *read* of a `none` cell is a machine error, so a
successful run reads only slots the wrapper wrote itself.  `wr` logs the
addresses written by wrapper instructions.
-/
namespace GtirbVerif.Abi

structure M where
  reg : String → Int
  flags : Int
  sp : Int
  mem : Int → Option Int
  wr : List Int := []

inductive Instr
  -- x86
  | push (r : String) | pop (r : String) | pushf | popf
  | lea (d : Int)                 -- lea d(%sp), %sp
  | movSpTo (r : String)          -- mov %sp, r
  | movToSp (r : String)          -- mov r, %sp
  | andSp (m : Int)               -- and $-m, %sp   (clobbers the flags)
  -- ARM64
  | stp (r1 r2 : String) | ldp (r1 r2 : String)     -- [sp, #-16]! / [sp], #16
  | strPre (r : String) | ldrPost (r : String)
  | mrs (r : String) | msr (r : String)
  -- MIPS32
  | addiuSp (d : Int) | sw (r : String) (off : Int) | lw (r : String) (off : Int)
  deriving Repr, DecidableEq, Inhabited

def setReg (f : String → Int) (r : String) (v : Int) : String → Int :=
  fun x => if x = r then v else f x

/-- write a cell of width `W` -/
def M.write (σ : M) (W a v : Int) : M :=
  { σ with mem := fun x => if x = a then some v else if a - W < x ∧ x < a + W then none else σ.mem x,
           wr := a :: σ.wr }

/-- value the `and` leaves in the flags: some function of the result, never
assumed equal to the old flags -/
def andFlags (sp : Int) : Int := sp % 7 + 1000

/-- one instruction; `W` = width of a stack cell (8: x86-64 / ARM64, 4: IA32 / MIPS32) -/
def step (W : Int) (i : Instr) (σ : M) : Option M :=
  match i with
  | .push r => some ({ σ with sp := σ.sp - W }.write W (σ.sp - W) (σ.reg r))
  | .pop r => match σ.mem σ.sp with
    | none => none
    | some v => some { σ with reg := setReg σ.reg r v, sp := σ.sp + W }
  | .pushf => some ({ σ with sp := σ.sp - W }.write W (σ.sp - W) σ.flags)
  | .popf => match σ.mem σ.sp with
    | none => none
    | some v => some { σ with flags := v, sp := σ.sp + W }
  | .lea d => some { σ with sp := σ.sp + d }
  | .movSpTo r => some { σ with reg := setReg σ.reg r σ.sp }
  | .movToSp r => some { σ with sp := σ.reg r }
  | .andSp m => some { σ with sp := σ.sp - σ.sp % m, flags := andFlags (σ.sp - σ.sp % m) }
  | .stp r1 r2 =>
    some (({ σ with sp := σ.sp - 16 }.write W (σ.sp - 16) (σ.reg r1)).write W (σ.sp - 8) (σ.reg r2))
  | .ldp r1 r2 => match σ.mem σ.sp, σ.mem (σ.sp + 8) with
    | some v1, some v2 =>
      some { σ with reg := setReg (setReg σ.reg r1 v1) r2 v2, sp := σ.sp + 16 }
    | _, _ => none
  | .strPre r => some ({ σ with sp := σ.sp - 16 }.write W (σ.sp - 16) (σ.reg r))
  | .ldrPost r => match σ.mem σ.sp with
    | none => none
    | some v => some { σ with reg := setReg σ.reg r v, sp := σ.sp + 16 }
  | .mrs r => some { σ with reg := setReg σ.reg r σ.flags }
  | .msr r => some { σ with flags := σ.reg r }
  | .addiuSp d => some { σ with sp := σ.sp + d }
  | .sw r off => some (σ.write W (σ.sp + off) (σ.reg r))
  | .lw r off => match σ.mem (σ.sp + off) with
    | none => none
    | some v => some { σ with reg := setReg σ.reg r v }

def run (W : Int) : List Instr → M → Option M
  | [], σ => some σ
  | i :: is, σ => match step W i σ with
    | none => none
    | some σ' => run W is σ'

end GtirbVerif.Abi
