import GtirbVerif.Model.Abi.Machine

/-
Model of `ABI._allocate_patch_registers` and of the four
`_create_prologue_and_epilogue` implementations (abi.py).  Everything that is
data (register lists, scratch / caller-saved sets, red zone, sub-register
aliases) comes from `Gen/AbiFull.lean`, regenerated from `abi._ABIS`.
-/
namespace GtirbVerif.Abi

inductive Family | x64 | ia32 | arm64 | mips32
  deriving DecidableEq, Repr, Inhabited

structure AbiDesc where
  name : String
  isa : String
  ff : String
  family : Family
  allRegs : List String            -- `all_registers()`, default-size names, in order
  scratchRegs : List String        -- `_scratch_registers()`
  callerSaved : List String        -- `caller_saved_registers()` (a set)
  aliases : List (String × String) -- `_register_map`: lower-cased (sub)register name -> register
  redZone : Nat
  ptr : Nat
  stackReg : String
  ccRegs : List String
  ccAlign : Nat
  ccCallerCleanup : Bool
  ccShadow : Nat
  deriving Repr, Inhabited

structure Constraints where
  clobbersFlags : Bool := false
  clobbers : List String := []
  scratch : Nat := 0
  reads : List String := []
  alignStack : Bool := false
  preserveCallerSaved : Bool := false
  deriving Repr, Inhabited

structure Alloc where
  clobbered : List String     -- sorted by position in `all_registers()`
  scratch : List String
  available : List String
  deriving Repr, Inhabited

inductive GenErr
  | keyError | valueError | indexError | notImplemented
  deriving DecidableEq, Repr, Inhabited

/-- `get_register(name)`: `self._register_map[name.lower()]` -/
def AbiDesc.getRegister (abi : AbiDesc) (name : String) : Except GenErr String :=
  match abi.aliases.lookup name.toLower with
  | some r => .ok r
  | none => .error .keyError

def resolveAll (abi : AbiDesc) : List String → Except GenErr (List String)
  | [] => .ok []
  | n :: ns => do
    let r ← abi.getRegister n
    let rs ← resolveAll abi ns
    .ok (r :: rs)

/-- `if x in l: l.remove(x)` for each `x`: a read register that is not (or no longer) in the pool
is simply not handed out -/
def removeAll : List String → List String → Except GenErr (List String)
  | avail, [] => .ok avail
  | avail, r :: rs => removeAll (avail.erase r) rs

/-- scratch registers left once the declared clobbers are taken out -/
def availAfterClobbers (abi : AbiDesc) (clob : List String) : List String :=
  abi.scratchRegs.filter (fun r => !clob.contains r)

def mkAlloc (abi : AbiDesc) (c : Constraints) (clob avail : List String) : Alloc :=
  let scratch := avail.take c.scratch
  let set := clob ++ scratch ++ (if c.preserveCallerSaved then abi.callerSaved else [])
  { clobbered := abi.allRegs.filter (fun r => set.contains r), scratch := scratch, available := avail }

/-- `_allocate_patch_registers(constraints)` -/
def allocate (abi : AbiDesc) (c : Constraints) : Except GenErr Alloc :=
  match resolveAll abi c.clobbers with
  | .error e => .error e
  | .ok clob =>
    match resolveAll abi c.reads with
    | .error e => .error e
    | .ok reads =>
      match removeAll (availAfterClobbers abi clob) reads with
      | .error e => .error e
      | .ok avail2 =>
        if c.scratch > avail2.length then .error .valueError
        else .ok (mkAlloc abi c clob avail2)

/-- x86 `align_stack` snippets -/
def alignPre (ax : String) : List Instr :=
  [.push ax, .movSpTo ax, .lea (-0x80), .andSp 0x10, .push ax, .push ax]
def alignPost (ax : String) : List Instr := [.pop ax, .movToSp ax, .pop ax]

/-- result: prologue, epilogue in execution order (`reversed(epilogue)`), reported adjustment -/
abbrev ProEpi := List Instr × List Instr × Option Nat

def flatRev (l : List (List Instr)) : List Instr := l.reverse.flatten

def x86Gen (W : Nat) (ax : String) (rz : Nat) (c : Constraints) (a : Alloc) (leaf : Bool) : ProEpi :=
  let skip : Bool := (!a.clobbered.isEmpty || c.clobbersFlags || c.alignStack) && rz != 0 && leaf
  let p1 : List Instr := if skip then [.lea (-(rz : Int))] else []
  let e1 : List (List Instr) := if skip then [[.lea (rz : Int)]] else []
  let p2 : List Instr := if c.clobbersFlags then [.pushf] else []
  let e2 : List (List Instr) := if c.clobbersFlags then [[.popf]] else []
  let p3 := a.clobbered.map Instr.push
  let e3 := a.clobbered.map (fun r => [Instr.pop r])
  let p4 := if c.alignStack then alignPre ax else []
  let e4 := if c.alignStack then [alignPost ax] else []
  let adj := (if skip then rz else 0) + (if c.clobbersFlags then W else 0) + a.clobbered.length * W
  (p1 ++ p2 ++ p3 ++ p4, flatRev (e1 ++ e2 ++ e3 ++ e4), if c.alignStack then none else some adj)

def pairs : List String → List (String × Option String)
  | [] => []
  | [r] => [(r, none)]
  | r1 :: r2 :: rest => (r1, some r2) :: pairs rest

/-- the register that carries the flags (`flags_reg`) and the list of registers
that is pushed (`register_use.clobbered_registers`, possibly extended) -/
def arm64FlagsReg (c : Constraints) (a : Alloc) : Except GenErr (Option String × List String) :=
  if c.clobbersFlags then
    match a.scratch with
    | r :: _ => .ok (some r, a.clobbered)
    | [] => match a.available with
      | r :: _ => .ok (some r, a.clobbered ++ [r])
      | [] => .error .indexError
  else .ok (none, a.clobbered)

/-- `stp`/`str` for each pair, in order -/
def pairPre : List (String × Option String) → List Instr
  | [] => []
  | (r1, some r2) :: rest => Instr.stp r1 r2 :: pairPre rest
  | (r1, none) :: rest => Instr.strPre r1 :: pairPre rest

/-- the matching `ldp`/`ldr`, in reverse order (`reversed(epilogue)`) -/
def pairPost : List (String × Option String) → List Instr
  | [] => []
  | (r1, some r2) :: rest => pairPost rest ++ [Instr.ldp r1 r2]
  | (r1, none) :: rest => pairPost rest ++ [Instr.ldrPost r1]

def arm64Emit (c : Constraints) (flagsReg : Option String) (clob : List String) : ProEpi :=
  let ps := pairs clob
  let p2 : List Instr := match flagsReg with
    | some r => [Instr.mrs r, Instr.strPre r]
    | none => []
  let e2 : List Instr := match flagsReg with
    | some r => [Instr.ldrPost r, Instr.msr r]
    | none => []
  let adj := ps.length * 16 + (if c.clobbersFlags then 16 else 0)
  (pairPre ps ++ p2, e2 ++ pairPost ps, some adj)

def arm64Gen (c : Constraints) (a : Alloc) : Except GenErr ProEpi :=
  match arm64FlagsReg c a with
  | .error e => .error e
  | .ok (fr, clob) => .ok (arm64Emit c fr clob)

/-- `sw $r, 4*i($sp)` for the i-th register -/
def swList : Nat → List String → List Instr
  | _, [] => []
  | i, r :: rs => Instr.sw r ((4 * i : Nat) : Int) :: swList (i + 1) rs

/-- the matching `lw`s in reverse order (`reversed(epilogue)`) -/
def lwListRev : Nat → List String → List Instr
  | _, [] => []
  | i, r :: rs => lwListRev (i + 1) rs ++ [Instr.lw r ((4 * i : Nat) : Int)]

def mips32Gen (c : Constraints) (a : Alloc) : Except GenErr ProEpi :=
  if c.alignStack then .error .notImplemented
  else
    let n := a.clobbered.length * 4
    let p0 : List Instr := if n != 0 then [.addiuSp (-(n : Int))] else []
    let e0 : List Instr := if n != 0 then [.addiuSp (n : Int)] else []
    .ok (p0 ++ swList 0 a.clobbered, lwListRev 0 a.clobbered ++ e0, some n)

/-- `_create_prologue_and_epilogue(constraints, register_use, is_leaf_function)` -/
def prologueEpilogue (abi : AbiDesc) (c : Constraints) (a : Alloc) (leaf : Bool) :
    Except GenErr ProEpi :=
  match abi.family with
  | .x64 => .ok (x86Gen 8 "rax" abi.redZone c a leaf)
  | .ia32 => .ok (x86Gen 4 "eax" abi.redZone c a leaf)
  | .arm64 => arm64Gen c a
  | .mips32 => mips32Gen c a

def AbiDesc.cell (abi : AbiDesc) : Int :=
  match abi.family with
  | .x64 => 8 | .ia32 => 4 | .arm64 => 8 | .mips32 => 4

end GtirbVerif.Abi
