/-
Model of `rewriting.py:_ModificationStore` (`add`, `modifications_for_block`, `resolve_offsets`)
and of the scope classes of `scopes.py` (`_known_targets`, `_block_matches`, `_needs_disassembly`,
`_replacement_length`, `_potential_offsets`, `pattern_match`).

What the scopes ask of other code is a parameter (`BlockEnv`): whether the block is a code block,
the function gtirb-functions reports for it (name, entry / exit membership, whether the module's
entry point is one of its entry blocks), the sizes of the instructions that
`utils._nonterminator_instructions` keeps and whether capstone decoded the whole block.  The
correspondence run fills it from the real helpers.
-/
namespace GtirbVerif.Store

inductive Pos
  | entry | exit | anywhere
  deriving Repr, DecidableEq, Inhabited

/-- one element of a `functions=` / `exclude_functions=` set -/
inductive Pat
  | lit (name : String)
  | main                       -- MAIN_NAME
  | entrypoint                 -- ENTRYPOINT_NAME
  | prefix (p : String)        -- re.compile(re.escape(p) + ".*"), fullmatch
  deriving Repr, DecidableEq, Inhabited

inductive Scope
  | allBlocks (pos : Pos) (exclude : Option (List Pat))
  | single (block : Nat) (pos : Pos)
  | allFunctions (entry : Bool) (pos : Pos) (functions : Option (List Pat))
  | specific (block off repl : Nat)        -- _SpecificLocationScope
  deriving Repr, DecidableEq, Inhabited

/-- `_Modification` (what it carries besides the scope - patch, retarget flag - plays no part here) -/
structure Mod where
  id : Nat
  scope : Scope
  deriving Repr, DecidableEq, Inhabited

structure FuncInfo where
  name : String
  hasEntryPoint : Bool         -- module.entry_point in func.get_entry_blocks()
  isEntry : Bool               -- block in func.get_entry_blocks()
  isExit : Bool                -- block in func.get_exit_blocks()
  deriving Repr, Inhabited

structure BlockEnv where
  id : Nat
  isCode : Bool
  func : Option FuncInfo
  nonterm : List Nat           -- sizes of `_nonterminator_instructions(block, disassembly)`
  partialDis : Bool            -- `_is_partial_disassembly(block, disassembly)`
  deriving Repr, Inhabited

inductive Err
  | assertion (what : String)
  deriving Repr, DecidableEq, Inhabited

/-! ### scopes.py -/

/-- `Scope._known_targets` -/
def knownTargets : Scope → Option (List Nat)
  | .single b _ => some [b]
  | .specific b _ _ => some [b]
  | _ => none

/-- `pattern_match(module, func, match_set)` -/
def patternMatch (f : FuncInfo) (pats : List Pat) : Bool :=
  pats.any (fun p =>
    match p with
    | .lit n => f.name == n
    | .main => f.name == "main"
    | .entrypoint => f.hasEntryPoint
    | .prefix p => f.name.startsWith p)

/-- `Scope._block_matches(module, func, block)` -/
def blockMatches (env : BlockEnv) : Scope → Bool
  | .allBlocks _ excl =>
    if !env.isCode then false
    else match env.func, excl with
      | some f, some pats => !patternMatch f pats
      | _, _ => true
  | .single b _ => b == env.id
  | .allFunctions entry _ fs =>
    match env.func with
    | none => false
    | some f =>
      let fm := match fs with
        | none => true
        | some pats => patternMatch f pats
      if !fm then false else if entry then f.isEntry else f.isExit
  | .specific b _ _ => b == env.id

/-- `Scope._needs_disassembly` -/
def needsDisassembly : Scope → Bool
  | .allBlocks p _ | .single _ p | .allFunctions _ p _ => p == .anywhere || p == .exit
  | .specific _ _ _ => false

/-- `Scope._replacement_length` -/
def replLen : Scope → Nat
  | .specific _ _ r => r
  | _ => 0

/-- `next(_potential_offsets_in_block(position, block, disassembly))` -/
def firstInBlock (env : BlockEnv) (haveDis : Bool) : Pos → Except Err Nat
  | .entry => .ok 0
  | .anywhere => if haveDis then .ok 0 else .error (.assertion "disassembly is not None")
  | .exit =>
    if !haveDis then .error (.assertion "disassembly is not None")
    else if env.partialDis then .error (.assertion "Capstone failed to disassemble all instructions in target block")
    else .ok env.nonterm.sum

/-- `next(scope._potential_offsets(block, instructions))`: the first potential offset -/
def firstOffset (env : BlockEnv) (haveDis : Bool) : Scope → Except Err Nat
  | .allBlocks p _ | .single _ p | .allFunctions _ p _ =>
    if !env.isCode then .error (.assertion "isinstance(block, gtirb.CodeBlock)") else firstInBlock env haveDis p
  | .specific _ off _ => .ok off

/-! ### _ModificationStore -/

structure Store where
  scopeChanges : List Mod := []
  blockChanges : List (Nat × List Mod) := []      -- defaultdict(list), keyed by block
  deriving Repr, Inhabited

def bcLookup (b : Nat) : List (Nat × List Mod) → List Mod
  | [] => []
  | (k, v) :: r => if k = b then v else bcLookup b r

def bcAppend (b : Nat) (m : Mod) : List (Nat × List Mod) → List (Nat × List Mod)
  | [] => [(b, [m])]
  | (k, v) :: r => if k = b then (k, v ++ [m]) :: r else (k, v) :: bcAppend b m r

/-- `_ModificationStore.add` -/
def Store.add (s : Store) (m : Mod) : Store :=
  match knownTargets m.scope with
  | some ts => { s with blockChanges := ts.foldl (fun bc t => bcAppend t m bc) s.blockChanges }
  | none => { s with scopeChanges := s.scopeChanges ++ [m] }

/-- `_ModificationStore.modifications_for_block` -/
def Store.modificationsFor (s : Store) (env : BlockEnv) : List Mod :=
  bcLookup env.id s.blockChanges ++ s.scopeChanges.filter (fun m => blockMatches env m.scope)

/-- the sort key of `resolve_offsets`: (offset, replacement_length != 0, id) -/
def sortKey (x : Mod × Nat) : Nat × Nat × Nat := (x.2, if replLen x.1.scope != 0 then 1 else 0, x.1.id)

def keyLe (a b : Nat × Nat × Nat) : Bool :=
  a.1 < b.1 || (a.1 == b.1 && (a.2.1 < b.2.1 || (a.2.1 == b.2.1 && a.2.2 ≤ b.2.2)))

/-- stable insertion (an element goes in front of the first one whose key is not smaller) -/
def insertK (x : Mod × Nat) : List (Mod × Nat) → List (Mod × Nat)
  | [] => [x]
  | y :: ys => if keyLe (sortKey x) (sortKey y) then x :: y :: ys else y :: insertK x ys

/-- `list.sort(key=…)`: stable -/
def sortK (l : List (Mod × Nat)) : List (Mod × Nat) := l.foldr insertK []

/-- the loop `assert offset >= last_end, "modifications overlap"` -/
def checkOverlap (lastEnd : Nat) : List (Mod × Nat) → Bool
  | [] => true
  | (m, off) :: r => if off < lastEnd then false else checkOverlap (off + replLen m.scope) r

def offsetsOf (env : BlockEnv) (haveDis : Bool) : List Mod → Except Err (List (Mod × Nat))
  | [] => .ok []
  | m :: r =>
    match firstOffset env haveDis m.scope with
    | .error e => .error e
    | .ok off =>
      match offsetsOf env haveDis r with
      | .error e => .error e
      | .ok rest => .ok ((m, off) :: rest)

/-- `_ModificationStore.resolve_offsets(block, decoder, modifications)` -/
def resolveOffsets (env : BlockEnv) (mods : List Mod) : Except Err (List (Mod × Nat)) :=
  let haveDis := env.isCode && mods.any (fun m => needsDisassembly m.scope)
  match offsetsOf env haveDis mods with
  | .error e => .error e
  | .ok l =>
    let sorted := sortK l
    if checkOverlap 0 sorted then .ok sorted else .error (.assertion "modifications overlap")

/-- the store after registering `ms` in that order -/
def build (ms : List Mod) : Store := ms.foldl Store.add {}

end GtirbVerif.Store
