/-
Models of the small containers of `gtirb_rewriting._adt` and of
`_modify/cache.py:ReturnEdgeCache` / `make_return_cache`.

* `IdentitySet`   (`_adt/identity_set.py`)  -> `IdSet`
* `OffsetMapping` (`_adt/offset_mapping.py`) -> `OMap`   (dict of dicts, insertion ordered)
* `BlockOrdering` + `LinkedListNode` (`_adt/block_ordering.py`, `linked_list.py`) -> `BOrd`
* `ReturnEdgeCache`, `make_return_cache` (`_modify/cache.py`) -> `RetCache`, `ReturnCtx`

Object identity is a natural number. Python exceptions are `Except AdtErr`.
-/
namespace GtirbVerif.Adt

inductive AdtErr
  | keyError | valueError | cfgModified | assertion | bodyRaised
  | fuel      -- model-internal: a fuel bound was exhausted (never observed)
  deriving DecidableEq, Repr, Inhabited

/-! ## IdentitySet -/

/-- `_map: Dict[int, T]` — only the keys matter (the value is the object itself) -/
structure IdSet where
  ids : List Nat := []
  deriving Repr, Inhabited

def IdSet.add (s : IdSet) (x : Nat) : IdSet := if x ∈ s.ids then s else { ids := s.ids ++ [x] }
def IdSet.discard (s : IdSet) (x : Nat) : IdSet := { ids := s.ids.filter (· != x) }
def IdSet.contains (s : IdSet) (x : Nat) : Bool := decide (x ∈ s.ids)
def IdSet.len (s : IdSet) : Nat := s.ids.length

inductive IdOp | add (x : Nat) | discard (x : Nat)
  deriving Repr, Inhabited

def IdSet.step (s : IdSet) : IdOp → IdSet
  | .add x => s.add x
  | .discard x => s.discard x

/-! ## OffsetMapping -/

abbrev SubDict := List (Nat × Nat)          -- displacement -> value
structure OMap where
  data : List (Nat × SubDict) := []         -- element -> sub-dict
  deriving Repr, Inhabited

def dictGet {β} (k : Nat) : List (Nat × β) → Option β
  | [] => none
  | (k', v) :: r => if k' = k then some v else dictGet k r

def dictSet {β} (k : Nat) (v : β) : List (Nat × β) → List (Nat × β)
  | [] => [(k, v)]
  | (k', v') :: r => if k' = k then (k, v) :: r else (k', v') :: dictSet k v r

def dictDel {β} (k : Nat) : List (Nat × β) → List (Nat × β)
  | [] => []
  | (k', v') :: r => if k' = k then dictDel k r else (k', v') :: dictDel k r

/-- `m[Offset(e, d)]` -/
def OMap.getO (m : OMap) (e d : Nat) : Except AdtErr Nat :=
  match dictGet e m.data with
  | none => .error .keyError
  | some sub => match dictGet d sub with
    | none => .error .keyError
    | some v => .ok v

/-- `m[e]` -/
def OMap.getE (m : OMap) (e : Nat) : Except AdtErr SubDict :=
  match dictGet e m.data with
  | none => .error .keyError
  | some sub => .ok sub

/-- `m[Offset(e, d)] = v` -/
def OMap.setO (m : OMap) (e d v : Nat) : OMap :=
  match dictGet e m.data with
  | none => { data := dictSet e [(d, v)] m.data }
  | some sub => { data := dictSet e (dictSet d v sub) m.data }

/-- `m[e] = sub` -/
def OMap.setE (m : OMap) (e : Nat) (sub : SubDict) : OMap := { data := dictSet e sub m.data }

/-- `del m[Offset(e, d)]` -/
def OMap.delO (m : OMap) (e d : Nat) : Except AdtErr OMap :=
  match dictGet e m.data with
  | none => .error .keyError
  | some sub => match dictGet d sub with
    | none => .error .keyError
    | some _ => .ok { data := dictSet e (dictDel d sub) m.data }

/-- `del m[e]` -/
def OMap.delE (m : OMap) (e : Nat) : Except AdtErr OMap :=
  match dictGet e m.data with
  | none => .error .keyError
  | some _ => .ok { data := dictDel e m.data }

def OMap.containsO (m : OMap) (e d : Nat) : Bool :=
  match dictGet e m.data with
  | none => false
  | some sub => (dictGet d sub).isSome

def OMap.containsE (m : OMap) (e : Nat) : Bool := (dictGet e m.data).isSome
def OMap.len (m : OMap) : Nat := (m.data.map (·.2.length)).sum
def OMap.bool (m : OMap) : Bool := m.data.any (fun p => !p.2.isEmpty)
/-- `list(m)`: the Offsets in iteration order -/
def OMap.keys (m : OMap) : List (Nat × Nat) := m.data.flatMap (fun p => p.2.map (fun q => (p.1, q.1)))
def OMap.nodeKeys (m : OMap) : List Nat := m.data.map (·.1)

/-- `m[e][d] = v` (mutating the live sub-dict returned by `m[e]`) -/
def OMap.subSet (m : OMap) (e d v : Nat) : Except AdtErr OMap :=
  match dictGet e m.data with
  | none => .error .keyError
  | some sub => .ok { data := dictSet e (dictSet d v sub) m.data }

/-- inherited `MutableMapping.pop(Offset(e,d))` -/
def OMap.popO (m : OMap) (e d : Nat) : Except AdtErr (Nat × OMap) := do
  let v ← m.getO e d
  let m' ← m.delO e d
  .ok (v, m')

/-- inherited `MutableMapping.setdefault(Offset(e,d), v)` -/
def OMap.setdefaultO (m : OMap) (e d v : Nat) : Nat × OMap :=
  match m.getO e d with
  | .ok v' => (v', m)
  | .error _ => (v, m.setO e d v)

/-! ## BlockOrdering over LinkedListNode -/

structure BOrd where
  mem : Nat → Bool := fun _ => false          -- `block in self.__order`
  prev : Nat → Option Nat := fun _ => none    -- entry.prev.value
  next : Nat → Option Nat := fun _ => none
  deriving Inhabited

def fset {β} (f : Nat → β) (k : Nat) (v : β) : Nat → β := fun x => if x = k then v else f x

/-- `prev_entry.insert_node_after(block_entry)` for a fresh `block_entry`,
then `self.__order[block] = block_entry` -/
def BOrd.linkAfter (o : BOrd) (p : Option Nat) (b : Nat) : BOrd :=
  match p with
  | none => { o with mem := fset o.mem b true, prev := fset o.prev b none, next := fset o.next b none }
  | some p =>
    let n := o.next p
    let prev1 := match n with
      | some n => fset o.prev n (some b)
      | none => o.prev
    { mem := fset o.mem b true,
      prev := fset prev1 b (some p),
      next := fset (fset o.next b n) p (some b) }

def BOrd.insertLoop : BOrd → Option Nat → List Nat → BOrd
  | o, _, [] => o
  | o, p, b :: bs => BOrd.insertLoop (o.linkAfter p b) (some b) bs

/-- `_primitive_insert(after_block, insert_blocks)` -/
def BOrd.primitiveInsert (o : BOrd) (after : Option Nat) (bs : List Nat) : Except AdtErr BOrd :=
  -- "already ordered": in the ordering, or listed twice in this call
  if bs.any o.mem || !decide bs.Nodup then .error .valueError
  else match after with
    | some a => if o.mem a then .ok (o.insertLoop (some a) bs) else .error .keyError
    | none => .ok (o.insertLoop none bs)

/-- `LinkedListNode.unlink` + `self.__order.pop(block)` -/
def BOrd.removeCore (o : BOrd) (b : Nat) : BOrd :=
  let p := o.prev b
  let n := o.next b
  let next1 := match p with
    | some p => fset o.next p n
    | none => o.next
  let prev1 := match n with
    | some n => fset o.prev n p
    | none => o.prev
  { mem := fset o.mem b false, prev := fset prev1 b none, next := fset next1 b none }

/-- `remove_block`: `self.__order.pop(block).unlink()` -/
def BOrd.remove (o : BOrd) (b : Nat) : Except AdtErr BOrd :=
  if o.mem b then .ok (o.removeCore b) else .error .keyError

def BOrd.adjacent (o : BOrd) (b : Nat) : Except AdtErr (Option Nat × Option Nat) :=
  if o.mem b then .ok (o.prev b, o.next b) else .error .keyError

/-! ## ReturnEdgeCache -/

inductive CfgNode | block (n : Nat) | proxy (n : Nat)
  deriving DecidableEq, Repr, Inhabited

structure Label where
  type : Nat            -- gtirb.Edge.Type value; Return = 3 (see `retType`)
  conditional : Bool
  direct : Bool
  deriving DecidableEq, Repr, Inhabited

structure Edge where
  src : CfgNode
  dst : CfgNode
  label : Option Label
  deriving DecidableEq, Repr, Inhabited

/-- numeric value of `gtirb.Edge.Type.Return` (checked by the harness) -/
def retType : Nat := 3

def Edge.isReturn (e : Edge) : Bool :=
  match e.label with
  | some l => l.type == retType
  | none => false

def Edge.toProxy (e : Edge) : Bool :=
  match e.dst with
  | .proxy _ => true
  | .block _ => false

abbrev SetDict := List (CfgNode × List Edge)    -- defaultdict(set)

def sdGet (k : CfgNode) : SetDict → Option (List Edge)
  | [] => none
  | (k', v) :: r => if k' = k then some v else sdGet k r

def sdPut (k : CfgNode) (v : List Edge) : SetDict → SetDict
  | [] => [(k, v)]
  | (k', v') :: r => if k' = k then (k, v) :: r else (k', v') :: sdPut k v r

def sdDel (k : CfgNode) : SetDict → SetDict
  | [] => []
  | (k', v') :: r => if k' = k then sdDel k r else (k', v') :: sdDel k r

/-- `setdict[key].add(value)` -/
def sdAdd (d : SetDict) (k : CfgNode) (e : Edge) : SetDict :=
  match sdGet k d with
  | none => sdPut k [e] d
  | some s => if e ∈ s then d else sdPut k (s ++ [e]) d

/-- `_dict_set_discard` -/
def sdDiscard (d : SetDict) (k : CfgNode) (e : Edge) : SetDict :=
  let s := ((sdGet k d).getD []).filter (· != e)
  if s.isEmpty then sdDel k d else sdPut k s d

structure RetCache where
  edges : List Edge := []          -- the CFG proper (a set)
  ret : SetDict := []              -- _return_edges
  pret : SetDict := []             -- _proxy_return_edges
  deriving Repr, Inhabited

def RetCache.add (c : RetCache) (e : Edge) : RetCache :=
  let edges := if e ∈ c.edges then c.edges else c.edges ++ [e]
  if e.isReturn then
    { edges := edges, ret := sdAdd c.ret e.src e,
      pret := if e.toProxy then sdAdd c.pret e.src e else c.pret }
  else { c with edges := edges }

def RetCache.discard (c : RetCache) (e : Edge) : RetCache :=
  let edges := c.edges.filter (· != e)
  if e.isReturn then
    { edges := edges, ret := sdDiscard c.ret e.src e,
      pret := if e.toProxy then sdDiscard c.pret e.src e else c.pret }
  else { c with edges := edges }

def RetCache.clear (_ : RetCache) : RetCache := {}
def RetCache.update (c : RetCache) (es : List Edge) : RetCache := es.foldl RetCache.add c

def RetCache.anyReturn (c : RetCache) (b : CfgNode) : Bool := (sdGet b c.ret).isSome
def RetCache.blockReturn (c : RetCache) (b : CfgNode) : List Edge := (sdGet b c.ret).getD []
def RetCache.blockProxyReturn (c : RetCache) (b : CfgNode) : List Edge := (sdGet b c.pret).getD []

inductive RetOp | add (e : Edge) | discard (e : Edge) | clear | update (es : List Edge)
  deriving Repr, Inhabited

def RetCache.step (c : RetCache) : RetOp → RetCache
  | .add e => c.add e
  | .discard e => c.discard e
  | .clear => c.clear
  | .update es => c.update es

/-! ## make_return_cache -/

/-- what the body of the `with` block does -/
inductive BodyOp
  | cache (op : RetOp)       -- through the yielded cache / ir.cfg
  | old (op : RetOp)         -- through a stale reference to the original CFG object
  | replaceIrCfg             -- `ir.cfg = <some other object>`
  | restoreIrCfg             -- `ir.cfg = <the yielded cache>` again
  deriving Repr, Inhabited

/-- plain `gtirb.CFG` as a set of edges -/
def cfgStep (s : List Edge) : RetOp → List Edge
  | .add e => if e ∈ s then s else s ++ [e]
  | .discard e => s.filter (· != e)
  | .clear => []
  | .update es => es.foldl (fun s e => if e ∈ s then s else s ++ [e]) s

structure CtxState where
  old : List Edge            -- edges of the caller's CFG object
  cache : RetCache
  irIsCache : Bool           -- `ir.cfg is cache`
  deriving Repr, Inhabited

def CtxState.body (s : CtxState) : BodyOp → CtxState
  | .cache op => { s with cache := s.cache.step op }
  | .old op => { s with old := cfgStep s.old op }
  | .replaceIrCfg => { s with irIsCache := false }
  | .restoreIrCfg => { s with irIsCache := true }

/-- the xor-of-hashes check, for an arbitrary per-edge hash -/
def weakHash (h : Edge → Nat) (s : List Edge) : Nat := s.foldl (fun a e => a ^^^ h e) 0

structure CtxResult where
  irCfgIsOld : Bool          -- after exit `ir.cfg` is the caller's object
  oldEdges : List Edge       -- and holds these edges
  raised : Option AdtErr
  deriving Repr, Inhabited

/-- state on entry: `cache = ReturnEdgeCache(old_cfg); ir.cfg = cache` -/
def CtxState.init (e0in : List Edge) : CtxState :=
  let e0 := cfgStep [] (.update e0in)     -- the caller's CFG is a set
  { old := e0, cache := ({} : RetCache).update e0, irIsCache := true }

/-- `with make_return_cache(ir) as cache: body` when `ir.cfg` is a plain CFG.
`raises`: the body raises after performing `ops`. -/
def runReturnCtx (h : Edge → Nat) (e0in : List Edge) (ops : List BodyOp) (raises : Bool) : CtxResult :=
  let oldHash := weakHash h (CtxState.init e0in).old
  let s := ops.foldl CtxState.body (CtxState.init e0in)
  let err : Option AdtErr :=
    if raises then some .bodyRaised
    else if weakHash h s.old != oldHash then some .cfgModified
    else if !s.irIsCache then some .cfgModified
    else none
  -- finally: old_cfg.clear(); old_cfg.update(cache); ir.cfg = old_cfg
  { irCfgIsOld := true, oldEdges := cfgStep [] (.update s.cache.edges), raised := err }

end GtirbVerif.Adt
