import GtirbVerif.Model.Adt.Simple

/-
Model of `gtirb_rewriting._modify.cache.ReferenceCache` (cache.py: RefNode,
retarget_references, get_references/_make_direct_refs (lazy generator),
apply, set_referent, get_referent).

Objects are natural numbers: symbols `0..nSyms-1`, blocks, RefNodes in
allocation order (`next` = number of nodes allocated so far).

`node.children` and `node.symbols` are Python *sets* (iteration order is
unspecified), kept consistent with `child.parent` / `_referents` by the code;
the model derives them: `children n = {c | parent c = node n}`,
`symbols n = {s | referents s = n}` in increasing id order.  Where the code
removes a node from its parent's `children` without re-adding it elsewhere
(the node is then unreachable garbage), the model sets its parent to `dead`.

Loops run on fuel (`next + 1` iterations, one per RefNode); running out of
fuel is reported as `AdtErr.assertion`-like `fuel` errors, never silently.
-/
namespace GtirbVerif.Adt

inductive PRef
  | block (b : Nat)     -- the node is a root: its referent block
  | node (n : Nat)
  | dead                -- unreachable (removed from every `children` set)
  deriving DecidableEq, Repr, Inhabited

structure RC where
  nSyms : Nat
  next : Nat := 0
  parent : Nat → PRef := fun _ => .dead
  referents : Nat → Option Nat := fun _ => none        -- _referents
  refs : Nat → Option (Nat × Nat) := fun _ => none     -- _references (start tree, end tree)
  refBlocks : List Nat := []                           -- keys of _references, insertion order
  direct : Nat → Option Nat := fun _ => none           -- symbol.referent (a block) or None
  atEnd : Nat → Bool := fun _ => false                 -- symbol.at_end
  deriving Inhabited

/-- `block.references`: symbols whose direct referent is the block -/
def RC.directRefs (c : RC) (b : Nat) : List Nat :=
  (List.range c.nSyms).filter (fun s => c.direct s == some b)

def RC.children (c : RC) (n : Nat) : List Nat :=
  (List.range c.next).filter (fun k => c.parent k == .node n)

def RC.symbols (c : RC) (n : Nat) : List Nat :=
  (List.range c.nSyms).filter (fun s => c.referents s == some n)

/-- `self._references[b] = RefNode(b), RefNode(b)` when the block has no trees -/
def RC.newTrees (c : RC) (b : Nat) : RC :=
  { c with next := c.next + 2,
           parent := fset (fset c.parent c.next (.block b)) (c.next + 1) (.block b),
           refs := fset c.refs b (some (c.next, c.next + 1)),
           refBlocks := c.refBlocks ++ [b] }

def RC.ensureTrees (c : RC) (b : Nat) : RC :=
  match c.refs b with
  | some _ => c
  | none => c.newTrees b

/-- the `for symbol in tuple(block.references)` loop of `retarget_references`:
every direct reference to `b` becomes an indirect one in the start or end tree -/
def RC.indirectify (c : RC) (b : Nat) : RC :=
  match c.refs b with
  | none => c
  | some (sr, er) =>
    { c with referents := fun s => if c.direct s = some b then some (if c.atEnd s then er else sr)
                                   else c.referents s,
             direct := fun s => if c.direct s = some b then none else c.direct s }

/-- `target_ref.children.add(start_refs/end_refs); start_refs.parent = end_refs.parent = target_ref` -/
def RC.hang (c : RC) (sr er tgt : Nat) : RC :=
  { c with parent := fset (fset c.parent sr (.node tgt)) er (.node tgt) }

/-- `self._references.pop(block)` -/
def RC.detach (c : RC) (b : Nat) : RC :=
  { c with refs := fset c.refs b none, refBlocks := c.refBlocks.filter (· != b) }

/-- retargeting a block to itself: its trees were popped, so `to_block not in
self._references` and a fresh pair is created for the same block -/
def RC.selfTrees (c : RC) (b : Nat) : RC :=
  { c with next := c.next + 2,
           parent := fset (fset c.parent c.next (.block b)) (c.next + 1) (.block b),
           refs := fset c.refs b (some (c.next, c.next + 1)),
           refBlocks := c.refBlocks.filter (· != b) ++ [b] }

/-- detach the trees of `b`, make sure `t` has trees, hang both trees of `b`
under the start or end root of `t` -/
def RC.graft (c : RC) (b t : Nat) (atEnd : Bool) : RC :=
  match c.refs b with
  | none => c
  | some (sr, er) =>
    if t = b then
      (c.selfTrees b).hang sr er (if atEnd then c.next + 1 else c.next)
    else
      let c2 := c.ensureTrees t
      match c2.refs t with
      | none => c2
      | some (ts, te) => (c2.detach b).hang sr er (if atEnd then te else ts)

/-- `set_referent(symbol, referent, at_end)` -/
def RC.setReferent (c : RC) (s : Nat) (r : Option Nat) (atEnd : Bool) : RC :=
  { c with referents := fset c.referents s none, direct := fset c.direct s r,
           atEnd := fset c.atEnd s atEnd }

def RC.treeEmpty (c : RC) (n : Nat) : Bool := (c.children n).isEmpty && (c.symbols n).isEmpty

def RC.withParent (c : RC) (par : Nat → PRef) : RC := { c with parent := par }

/-- the `while isinstance(parent, RefNode)` loop of `get_referent`.
Returns the root reached, its block and the updated parent table. -/
def RC.climb (c : RC) : Nat → Nat → (Nat → PRef) → Option (Nat × Nat × (Nat → PRef))
  | 0, _, _ => none
  | fuel + 1, ref, par =>
    match par ref with
    | .block b => some (ref, b, par)
    | .dead => none
    | .node p =>
      let par' :=
        if (c.withParent par).treeEmpty ref then fset par ref .dead
        else match par p with
          | .node g => fset par ref (.node g)
          | _ => par
      RC.climb c fuel p par'

/-- `get_referent(symbol)`: the referent and the new state -/
def RC.getReferent (c : RC) (s : Nat) : Except AdtErr (Option Nat × RC) :=
  match c.referents s with
  | none => .ok (c.direct s, c)
  | some n =>
    -- `ref = self._referents.pop(symbol); ref.symbols.remove(symbol)`
    -- (the symbol's direct referent is None while it is indirect)
    let c1 := c.setReferent s none (c.atEnd s)
    match RC.climb c1 (c.next + 1) n c1.parent with
    | none => .error .fuel
    | some (root, b, par) =>
      match c1.refs b with
      | none => .error .fuel
      | some (_, e) => .ok (some b, (c1.withParent par).setReferent s (some b) (root == e))

/-- result of running (part of) the `_make_direct_refs` generator -/
structure GenOut where
  c : RC
  yielded : List Nat       -- symbols yielded, in order
  budget : Nat             -- yields the consumer still wants
  suspended : Bool         -- stopped at a `yield`

/-- one symbol becomes direct -/
def RC.makeSymDirect (c : RC) (s referent : Nat) (atEnd : Bool) : RC :=
  { c with referents := fset c.referents s none, direct := fset c.direct s (some referent),
           atEnd := fset c.atEnd s atEnd }

/-- the `for symbol in tuple(node.symbols)` loop, stopping when the consumer's
budget is exhausted (right after the yield) -/
def RC.drainSyms (referent : Nat) (atEnd : Bool) : RC → List Nat → List Nat → Nat → GenOut
  | c, [], acc, k => { c := c, yielded := acc, budget := k, suspended := false }
  | c, s :: ss, acc, k =>
    let c' := c.makeSymDirect s referent atEnd
    if k = 1 then { c := c', yielded := acc ++ [s], budget := 0, suspended := true }
    else RC.drainSyms referent atEnd c' ss (acc ++ [s]) (k - 1)

/-- `child.parent = root` for all children of a non-root node -/
def RC.adopt (c : RC) (root : Nat) : List Nat → RC
  | [] => c
  | ch :: r => RC.adopt { c with parent := fset c.parent ch (.node root) } root r

/-- `if node.parent is root: root.children.remove(node)` (the node has been
emptied by the two loops before; the model checks it) -/
def RC.retire (c : RC) (node root : Nat) : RC :=
  if c.parent node == .node root && c.treeEmpty node then
    { c with parent := fset c.parent node .dead }
  else c

/-- `_make_direct_refs(referent, root, at_end)` with a worklist (stack) -/
def RC.makeDirect (referent root : Nat) (atEnd : Bool) :
    Nat → RC → List Nat → List Nat → Nat → GenOut
  | 0, c, _, acc, k => { c := c, yielded := acc, budget := k, suspended := false }
  | _ + 1, c, [], acc, k => { c := c, yielded := acc, budget := k, suspended := false }
  | fuel + 1, c, node :: work, acc, k =>
    if c.parent node == .dead then
      -- cannot happen (worklist nodes are distinct live nodes); kept total
      RC.makeDirect referent root atEnd fuel c work acc k
    else
      -- children are re-parented to the root and pushed (the last pushed is popped first)
      let kids := c.children node
      let c1 : RC := if node = root then c else c.adopt root kids
      let work1 := kids.reverse ++ work
      let out := RC.drainSyms referent atEnd c1 (c1.symbols node) acc k
      if out.suspended then out
      else RC.makeDirect referent root atEnd fuel (out.c.retire node root) work1 out.yielded out.budget

/-- both trees are drained: the roots are garbage (`del self._references[block]`) -/
def RC.dropTrees (c : RC) (block sr er : Nat) : RC :=
  { c with refs := fset c.refs block none,
           refBlocks := c.refBlocks.filter (· != block),
           parent := fset (fset c.parent sr .dead) er .dead }

/-- `get_references(block)` consumed until `k` symbols were yielded (or to
exhaustion when it yields fewer). `k = 0`: the generator is never started.
`none` = the model's fuel was exhausted (never observed; termination bound
not proved). -/
def RC.getReferences (c : RC) (block : Nat) (k : Nat) : Option (RC × List Nat) :=
  if k = 0 then some (c, [])
  else
    let ds := c.directRefs block
    if k ≤ ds.length then some (c, ds.take k)
    else
      let k1 := k - ds.length
      match c.refs block with
      | none => some (c, ds)
      | some (sr, er) =>
        let o1 := RC.makeDirect block sr false (c.next + 1) c [sr] ds k1
        if o1.suspended then some (o1.c, o1.yielded)
        else
          let o2 := RC.makeDirect block er true (c.next + 1) o1.c [er] o1.yielded o1.budget
          if o2.suspended then some (o2.c, o2.yielded)
          else if o2.c.treeEmpty sr && o2.c.treeEmpty er then
            some (o2.c.dropTrees block sr er, o2.yielded)
          else none

/-- `retarget_references(block, to_block, at_end)` -/
def RC.retarget (c : RC) (block : Nat) (to : Option Nat) (atEnd : Bool) : Except AdtErr RC :=
  if (c.directRefs block).isEmpty && (c.refs block).isNone then .ok c
  else match to with
  | none =>
    -- `not any(self.get_references(block))`: stops at the first symbol
    match c.getReferences block 1 with
    | none => .error .fuel
    | some (c', ys) => if ys.isEmpty then .ok c' else .error .assertion
  | some t =>
    -- `RefNode(block), RefNode(block)` when absent; direct -> indirect; hang under the target
    .ok (((c.ensureTrees block).indirectify block).graft block t atEnd)

def RC.allDirect (c : RC) : Bool := (List.range c.nSyms).all (fun s => (c.referents s).isNone)

/-- `self._references.clear()` once no symbol is indirect: every RefNode is garbage -/
def RC.clearAll (c : RC) : RC :=
  { c with refs := fun _ => none, refBlocks := [], parent := fun _ => .dead }

def RC.drainBlocks : List Nat → RC → Option RC
  | [], c => some c
  | b :: bs, c =>
    match c.getReferences b (c.nSyms + 1) with
    | none => none
    | some (c', _) => RC.drainBlocks bs c'

/-- `apply()`: drain every registered block, then clear the table -/
def RC.apply (c : RC) : Option RC :=
  match RC.drainBlocks c.refBlocks c with
  | none => none
  | some c' => if c'.allDirect then some c'.clearAll else none

/-- operations of a history -/
inductive RcOp
  | retarget (block : Nat) (to : Option Nat) (atEnd : Bool)
  | setReferent (s : Nat) (r : Option Nat) (atEnd : Bool)
  | getReferent (s : Nat)
  | getReferences (block : Nat) (k : Nat)      -- consume k symbols then abandon
  | apply
  deriving Repr, Inhabited

end GtirbVerif.Adt
