import GtirbVerif.Model.Adt.Simple

/-
Model of `gtirb_rewriting._modify.cache.ReferenceCache` (cache.py: RefNode,
retarget_references, get_references/_make_direct_refs (lazy generator),
apply, set_referent, get_referent).

Objects are natural numbers: symbols `0..nSyms-1`, blocks, RefNodes in
allocation order (`next` = number of nodes allocated so far).

`node.children` and `node.symbols` are Python *sets* (iteration order is
unspecified), kept consistent with `child.parent` / `_referents` by the code;
the model derives them: `children n = {c | parent c = node n}`,
`symbols n = {s | referents s = n}` in increasing id order.  Where the code
removes a node from its parent's `children` without re-adding it elsewhere
(the node is then unreachable garbage), the model sets its parent to `dead`.
-/
namespace GtirbVerif.Adt

inductive PRef
  | block (b : Nat)     -- the node is a root: its referent block
  | node (n : Nat)
  | dead                -- unreachable (removed from every `children` set)
  deriving DecidableEq, Repr, Inhabited

structure RC where
  nSyms : Nat
  next : Nat := 0
  parent : Nat → PRef := fun _ => .dead
  referents : Nat → Option Nat := fun _ => none        -- _referents
  refs : Nat → Option (Nat × Nat) := fun _ => none     -- _references (start tree, end tree)
  refBlocks : List Nat := []                           -- keys of _references, insertion order
  direct : Nat → Option Nat := fun _ => none           -- symbol.referent (a block) or None
  atEnd : Nat → Bool := fun _ => false                 -- symbol.at_end
  deriving Inhabited

/-- `block.references`: symbols whose direct referent is the block -/
def RC.directRefs (c : RC) (b : Nat) : List Nat :=
  (List.range c.nSyms).filter (fun s => c.direct s == some b)

def RC.children (c : RC) (n : Nat) : List Nat :=
  (List.range c.next).filter (fun k => c.parent k == .node n)

def RC.symbols (c : RC) (n : Nat) : List Nat :=
  (List.range c.nSyms).filter (fun s => c.referents s == some n)

/-- allocate `RefNode(block)` -/
def RC.alloc (c : RC) (b : Nat) : RC × Nat :=
  ({ c with next := c.next + 1, parent := fset c.parent c.next (.block b) }, c.next)

/-- `set_referent(symbol, referent, at_end)` -/
def RC.setReferent (c : RC) (s : Nat) (r : Option Nat) (atEnd : Bool) : RC :=
  { c with referents := fset c.referents s none, direct := fset c.direct s r,
           atEnd := fset c.atEnd s atEnd }

/-- the `while isinstance(parent, RefNode)` loop of `get_referent`.
`hasSyms n`: does node `n` still carry symbols. Returns the root reached and
the updated parent table. -/
def RC.climb (c : RC) : Nat → Nat → (Nat → PRef) → Option (Nat × Nat × (Nat → PRef))
  | 0, _, _ => none
  | fuel + 1, ref, par =>
    match par ref with
    | .block b => some (ref, b, par)
    | .dead => none
    | .node p =>
      let cNow : RC := { c with parent := par }
      let empty := (cNow.children ref).isEmpty && (c.symbols ref).isEmpty
      let par' :=
        if empty then fset par ref .dead
        else match par p with
          | .node g => fset par ref (.node g)
          | _ => par
      RC.climb c fuel p par'

/-- `get_referent(symbol)`: the referent and the new state -/
def RC.getReferent (c : RC) (s : Nat) : Except AdtErr (Option Nat × RC) :=
  match c.referents s with
  | none => .ok (c.direct s, c)
  | some n =>
    let c1 : RC := { c with referents := fset c.referents s none }
    match RC.climb c1 (c.next + 1) n c1.parent with
    | none => .error .assertion
    | some (root, b, par) =>
      match c1.refs b with
      | none => .error .keyError
      | some (_, e) =>
        .ok (some b, { c1 with parent := par, direct := fset c1.direct s (some b),
                               atEnd := fset c1.atEnd s (root == e) })

/-- result of running (part of) the `_make_direct_refs` generator -/
structure GenOut where
  c : RC
  yielded : List Nat       -- symbols yielded, in order
  budget : Nat             -- yields the consumer still wants
  suspended : Bool         -- stopped at a `yield`

/-- the `for symbol in tuple(node.symbols)` loop, stopping when the consumer's
budget is exhausted (right after the yield) -/
def RC.drainSyms (referent : Nat) (atEnd : Bool) : RC → List Nat → List Nat → Nat → GenOut
  | c, [], acc, k => { c := c, yielded := acc, budget := k, suspended := false }
  | c, s :: ss, acc, k =>
    let c' : RC := { c with referents := fset c.referents s none,
                            direct := fset c.direct s (some referent),
                            atEnd := fset c.atEnd s atEnd }
    if k = 1 then { c := c', yielded := acc ++ [s], budget := 0, suspended := true }
    else RC.drainSyms referent atEnd c' ss (acc ++ [s]) (k - 1)

/-- `_make_direct_refs(referent, root, at_end)` with a worklist (stack) -/
def RC.makeDirect (referent root : Nat) (atEnd : Bool) :
    Nat → RC → List Nat → List Nat → Nat → GenOut
  | 0, c, _, acc, k => { c := c, yielded := acc, budget := k, suspended := false }
  | _ + 1, c, [], acc, k => { c := c, yielded := acc, budget := k, suspended := false }
  | fuel + 1, c, node :: work, acc, k =>
    -- children are re-parented to the root and pushed (the last pushed is popped first)
    let kids := c.children node
    let c1 : RC := if node = root then c
      else { c with parent := kids.foldl (fun p ch => fset p ch (.node root)) c.parent }
    let work1 := kids.reverse ++ work
    let out := RC.drainSyms referent atEnd c1 (c1.symbols node) acc k
    if out.suspended then out
    else
      let c2 : RC :=
        if out.c.parent node == .node root then { out.c with parent := fset out.c.parent node .dead }
        else out.c
      RC.makeDirect referent root atEnd fuel c2 work1 out.yielded out.budget

/-- `get_references(block)` consumed until `k` symbols were yielded (or to
exhaustion when it yields fewer). `k = 0`: the generator is never started. -/
def RC.getReferences (c : RC) (block : Nat) (k : Nat) : RC × List Nat :=
  if k = 0 then (c, [])
  else
    let ds := c.directRefs block
    if k ≤ ds.length then (c, ds.take k)
    else
      let k1 := k - ds.length
      match c.refs block with
      | none => (c, ds)
      | some (sr, er) =>
        let o1 := RC.makeDirect block sr false (c.next + 1) c [sr] ds k1
        if o1.suspended then (o1.c, o1.yielded)
        else
          let o2 := RC.makeDirect block er true (c.next + 1) o1.c [er] o1.yielded o1.budget
          if o2.suspended then (o2.c, o2.yielded)
          else
            ({ o2.c with refs := fset o2.c.refs block none,
                         refBlocks := o2.c.refBlocks.filter (· != block),
                         parent := fset (fset o2.c.parent sr .dead) er .dead }, o2.yielded)

/-- `retarget_references(block, to_block, at_end)` -/
def RC.retarget (c : RC) (block : Nat) (to : Option Nat) (atEnd : Bool) : Except AdtErr RC :=
  if (c.directRefs block).isEmpty && (c.refs block).isNone then .ok c
  else match to with
  | none =>
    -- `not any(self.get_references(block))`: stops at the first symbol
    let (c', ys) := c.getReferences block 1
    if ys.isEmpty then .ok c' else .error .assertion
  | some to =>
    -- detach / create the two trees of `block`
    let (c1, sr, er) : RC × Nat × Nat :=
      match c.refs block with
      | some (s, e) => ({ c with refs := fset c.refs block none,
                                 refBlocks := c.refBlocks.filter (· != block) }, s, e)
      | none =>
        let (ca, s) := c.alloc block
        let (cb, e) := ca.alloc block
        (cb, s, e)
    -- direct references become indirect
    let ds := c.directRefs block
    let c2 : RC := ds.foldl (fun c s =>
      { c with referents := fset c.referents s (some (if c.atEnd s then er else sr)),
               direct := fset c.direct s none }) c1
    -- trees of the target
    let c3 : RC :=
      match c2.refs to with
      | some _ => c2
      | none =>
        let (ca, s) := c2.alloc to
        let (cb, e) := ca.alloc to
        { cb with refs := fset cb.refs to (some (s, e)), refBlocks := cb.refBlocks ++ [to] }
    match c3.refs to with
    | none => .error .assertion     -- unreachable
    | some (ts, te) =>
      let tgt := if atEnd then te else ts
      .ok { c3 with parent := fset (fset c3.parent sr (.node tgt)) er (.node tgt) }

/-- `apply()` -/
def RC.apply (c : RC) : RC :=
  let c' := c.refBlocks.foldl (fun c b =>
    match c.refs b with
    | none => c
    | some (sr, er) =>
      let o1 := RC.makeDirect b sr false (c.next + 1) c [sr] [] (c.nSyms + 1)
      let o2 := RC.makeDirect b er true (c.next + 1) o1.c [er] [] (c.nSyms + 1)
      { o2.c with parent := fset (fset o2.c.parent sr .dead) er .dead }) c
  { c' with refs := fun _ => none, refBlocks := [] }

/-- operations of a history -/
inductive RcOp
  | retarget (block : Nat) (to : Option Nat) (atEnd : Bool)
  | setReferent (s : Nat) (r : Option Nat) (atEnd : Bool)
  | getReferent (s : Nat)
  | getReferences (block : Nat) (k : Nat)      -- consume k symbols then abandon
  | apply
  deriving Repr, Inhabited

end GtirbVerif.Adt
