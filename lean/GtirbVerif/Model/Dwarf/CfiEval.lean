import GtirbVerif.Model.Dwarf.Encodable

/-
Model of `gtirb_rewriting.dwarf.cfi_eval.evaluate_cfi_directives`
(cfi_eval.py; the big `for directive in directives` chain, the
`state.initial = copy(state.current)` rule and the per-(block, offset) yield).

Python dicts are association lists here (`setKey` / `eraseKey` / `getKey`);
objects are immutable values, so `copy()` is the identity in the model — the
correspondence serialises the real copies *after* the whole evaluation, which
is where an aliasing bug in `__copy__` would show.
-/
namespace GtirbVerif.CfiEval
open GtirbVerif.Dwarf

inductive Rule
  | undefined | sameValue
  | offset (n : Int) | valOffset (n : Int)
  | inReg (r : Int)
  | atExpr (e : List OpObj) | isExpr (e : List OpObj)
  deriving Repr, Inhabited

inductive Cfa
  | regOff (r o : Int)
  | expr (e : List OpObj)
  deriving Repr, Inhabited

/-- third component of a cfiDirectives entry -/
inductive SymRef
  | sym (id : Nat)      -- a gtirb.Symbol
  | nullUuid            -- NULL_UUID
  | otherUuid           -- a dangling UUID
  deriving Repr, Inhabited, DecidableEq

structure Directive where
  name : String
  args : List Int
  sym : SymRef
  deriving Repr, Inhabited

abbrev Regs := List (Int × Rule)

def getKey (k : Int) : Regs → Option Rule
  | [] => none
  | (k', v) :: r => if k' = k then some v else getKey k r

/-- `d[k] = v` -/
def setKey (k : Int) (v : Rule) : Regs → Regs
  | [] => [(k, v)]
  | (k', v') :: r => if k' = k then (k, v) :: r else (k', v') :: setKey k v r

/-- `d.pop(k, None)` -/
def eraseKey (k : Int) : Regs → Regs
  | [] => []
  | (k', v') :: r => if k' = k then eraseKey k r else (k', v') :: eraseKey k r

structure Row where
  regs : Regs := []
  cfa : Option Cfa := none
  deriving Repr, Inhabited

structure Proc where
  retcol : Int
  personality : Option (Int × Nat) := none     -- (encoding, symbol id)
  lsda : Option (Int × Nat) := none
  current : Row := {}
  initial : Row := {}
  stack : List Row := []
  deriving Repr, Inhabited

inductive EvalErr
  | cfiState         -- CFIStateError
  | valueError       -- ValueError
  | notImplemented   -- NotImplementedError (directive / instruction outside the supported set)
  | eof              -- EOFError out of a truncated .cfi_escape
  deriving Repr, Inhabited, DecidableEq

/-- what the evaluator needs from the ABI (regenerated into Gen/Abi) -/
structure AbiParams where
  retcol : Option Int        -- none: default_dwarf_eh_return_column() raises NotImplementedError
  bo : ByteOrder
  ptr : Nat
  deriving Repr, Inhabited

def one : List Int → Except EvalErr Int
  | [a] => .ok a
  | _ => .error .valueError

def two : List Int → Except EvalErr (Int × Int)
  | [a, b] => .ok (a, b)
  | _ => .error .valueError

/-- `_resolve_cfi_symbol` -/
def resolveSym : SymRef → Except EvalErr Nat
  | .sym n => .ok n
  | _ => .error .valueError

def encodedPointer (args : List Int) (s : SymRef) : Except EvalErr (Option (Int × Nat)) := do
  let enc ← one args
  if enc = 255 then .ok none
  else do
    let n ← resolveSym s
    .ok (some (enc, n))

/-- `bytes(args)` -/
def toBytes : List Int → Except EvalErr (List Nat)
  | [] => .ok []
  | a :: r => if 0 ≤ a ∧ a < 256 then do let t ← toBytes r; .ok (a.toNat :: t) else .error .valueError

def convErr : Err → EvalErr
  | .valueError => .valueError
  | .eof => .eof
  | .typeError => .valueError
  | .fuel => .valueError

/-- a row update demanded by an escaped instruction -/
inductive Upd
  | setCfa (e : List OpObj)
  | setReg (r : Int) (rule : Rule)
  deriving Repr, Inhabited

/-- the `isinstance` chain over escaped instructions -/
def updOf (i : InstObj) : Except EvalErr (List Upd) :=
  match i.cls.name, i.args with
  | "InstDefCFAExpression", [.expr e] => .ok [.setCfa e]
  | "InstExpression", [.int r, .expr e] => .ok [.setReg r (.atExpr e)]
  | "InstValExpression", [.int r, .expr e] => .ok [.setReg r (.isExpr e)]
  | "InstNop", [] => .ok []
  | _, _ => .error .notImplemented

/-- `for inst in parse_cfi_instructions(bytes(args), byteorder, ptr)`: the
instructions are parsed lazily, so an unsupported instruction that precedes a
malformed one is the error that surfaces. -/
def escapeLoop (et ct : Table) (abi : AbiParams) (len : Nat) :
    Nat → Nat → List Nat → Except EvalErr (List Upd)
  | 0, _, _ => .ok []
  | f + 1, off, bs =>
    if off < len then
      match decodeInst et ct abi.bo abi.ptr bs with
      | .error e => .error (convErr e)
      | .ok (i, k, r) => do
        let u ← updOf i
        let us ← escapeLoop et ct abi len f (off + k) r
        .ok (u ++ us)
    else .ok []

def escapeUpdates (et ct : Table) (abi : AbiParams) (args : List Int) : Except EvalErr (List Upd) := do
  let bs ← toBytes args
  escapeLoop et ct abi bs.length bs.length 0 bs

def applyUpd (cur : Row) : Upd → Row
  | .setCfa e => { cur with cfa := some (.expr e) }
  | .setReg r rule => { cur with regs := setKey r rule cur.regs }

inductive Kind
  | startproc | endproc | personality | lsda | returnColumn
  | defCfa | defCfaRegister | defCfaOffset | adjustCfaOffset
  | undefined | sameValue | register | restore | valOffset | offset | relOffset
  | rememberState | restoreState | escape
  deriving Repr, Inhabited, DecidableEq

/-- the directive names `evaluate_cfi_directives` handles -/
def kindOf (name : String) : Option Kind :=
  match name with
  | ".cfi_startproc" => some .startproc
  | ".cfi_endproc" => some .endproc
  | ".cfi_personality" => some .personality
  | ".cfi_lsda" => some .lsda
  | ".cfi_return_column" => some .returnColumn
  | ".cfi_def_cfa" => some .defCfa
  | ".cfi_def_cfa_register" => some .defCfaRegister
  | ".cfi_def_cfa_offset" => some .defCfaOffset
  | ".cfi_adjust_cfa_offset" => some .adjustCfaOffset
  | ".cfi_undefined" => some .undefined
  | ".cfi_same_value" => some .sameValue
  | ".cfi_register" => some .register
  | ".cfi_restore" => some .restore
  | ".cfi_val_offset" => some .valOffset
  | ".cfi_offset" => some .offset
  | ".cfi_rel_offset" => some .relOffset
  | ".cfi_remember_state" => some .rememberState
  | ".cfi_restore_state" => some .restoreState
  | ".cfi_escape" => some .escape
  | _ => none

/-- a directive inside a procedure (everything but `.cfi_startproc`) -/
def stepIn (et ct : Table) (abi : AbiParams) (s : Proc) (k : Kind) (args : List Int) (sym : SymRef) :
    Except EvalErr (Option Proc) :=
  let cur := s.current
  let setCur (c : Row) : Except EvalErr (Option Proc) := .ok (some { s with current := c })
  match k with
  | .startproc => .error .cfiState
  | .endproc => .ok none
  | .personality => do
    let p ← encodedPointer args sym
    .ok (some { s with personality := p })
  | .lsda => do
    let p ← encodedPointer args sym
    .ok (some { s with lsda := p })
  | .returnColumn => do
    let c ← one args
    .ok (some { s with retcol := c })
  | .defCfa => do
    let (r, o) ← two args
    setCur { cur with cfa := some (.regOff r o) }
  | .defCfaRegister => do
    let r ← one args
    match cur.cfa with
    | some (.regOff _ o) => setCur { cur with cfa := some (.regOff r o) }
    | _ => .error .cfiState
  | .defCfaOffset => do
    let o ← one args
    match cur.cfa with
    | some (.regOff r _) => setCur { cur with cfa := some (.regOff r o) }
    | _ => .error .cfiState
  | .adjustCfaOffset => do
    let o ← one args
    match cur.cfa with
    | some (.regOff r o') => setCur { cur with cfa := some (.regOff r (o' + o)) }
    | _ => .error .cfiState
  | .undefined => do
    let r ← one args
    setCur { cur with regs := setKey r .undefined cur.regs }
  | .sameValue => do
    let r ← one args
    setCur { cur with regs := setKey r .sameValue cur.regs }
  | .register => do
    let (r1, r2) ← two args
    setCur { cur with regs := setKey r1 (.inReg r2) cur.regs }
  | .restore => do
    let r ← one args
    match getKey r s.initial.regs with
    | some rule => setCur { cur with regs := setKey r rule cur.regs }
    | none => setCur { cur with regs := eraseKey r cur.regs }
  | .valOffset => do
    let (r, o) ← two args
    setCur { cur with regs := setKey r (.valOffset o) cur.regs }
  | .offset => do
    let (r, o) ← two args
    setCur { cur with regs := setKey r (.offset o) cur.regs }
  | .relOffset => do
    let (r, o) ← two args
    match getKey r cur.regs with
    | some (.offset o') => setCur { cur with regs := setKey r (.offset (o' + o)) cur.regs }
    | _ => .error .cfiState
  | .rememberState => .ok (some { s with stack := s.stack ++ [cur] })
  | .restoreState =>
    match s.stack.getLast? with
    | none => .error .cfiState
    | some top => .ok (some { s with current := top, stack := s.stack.dropLast })
  | .escape => do
    let us ← escapeUpdates et ct abi args
    setCur (us.foldl applyUpd cur)

/-- One directive. Returns the new state and whether it was a `.cfi_startproc`. -/
def step (et ct : Table) (abi : AbiParams) (st : Option Proc) (d : Directive) :
    Except EvalErr (Option Proc × Bool) :=
  match kindOf d.name, st with
  | some .startproc, some _ => .error .cfiState
  | some .startproc, none =>
    match abi.retcol with
    | none => .error .notImplemented
    | some rc => .ok (some { retcol := rc }, true)
  | _, none => .error .cfiState
  | none, some _ => .error .notImplemented
  | some k, some s => do
    let r ← stepIn et ct abi s k d.args d.sym
    .ok (r, false)

/-- all directives at one (block, offset); then the initial-row rule. -/
def stepGroup (et ct : Table) (abi : AbiParams) :
    Option Proc → Bool → List Directive → Except EvalErr (Option Proc × Bool)
  | st, started, [] => .ok (st, started)
  | st, started, d :: ds => do
    let (st', s') ← step et ct abi st d
    stepGroup et ct abi st' (started || s') ds

def finishGroup (r : Option Proc × Bool) : Option Proc :=
  match r with
  | (some s, true) => some { s with initial := s.current }
  | (st, _) => st

/-- a location carrying directives: (block index, offset) -/
structure Loc where
  block : Nat
  offset : Nat
  deriving Repr, Inhabited, DecidableEq

/-- evaluation over the already ordered list of groups. Returns the rows
yielded so far and the error that stopped the evaluation, if any. -/
def evalGroups (et ct : Table) (abi : AbiParams) :
    Option Proc → List (Loc × List Directive) → List (Loc × Option Proc) × Option EvalErr
  | _, [] => ([], none)
  | st, (loc, ds) :: rest =>
    match stepGroup et ct abi st false ds with
    | .error e => ([], some e)
    | .ok r =>
      let st' := finishGroup r
      let (rows, err) := evalGroups et ct abi st' rest
      ((loc, st') :: rows, err)

/-- stable insertion sort by key (Python's `sorted`) -/
def insertBy {α} (key : α → Nat) (x : α) : List α → List α
  | [] => [x]
  | y :: ys => if key x ≤ key y then x :: y :: ys else y :: insertBy key x ys

def sortBy {α} (key : α → Nat) : List α → List α
  | [] => []
  | x :: xs => insertBy key x (sortBy key xs)

/-- a block as the evaluator sees it: index, address, and its
`cfiDirectives` entry (offset -> directives), `none` when absent -/
structure BlockIn where
  idx : Nat
  address : Nat
  dirs : Option (List (Nat × List Directive))
  deriving Repr, Inhabited

/-- `sorted(blocks, key=address)` then `sorted(block_directives.items())` -/
def groupsOf (blocks : List BlockIn) : List (Loc × List Directive) :=
  (sortBy (·.address) blocks).flatMap fun b =>
    match b.dirs with
    | none => []
    | some m => (sortBy (·.1) m).map fun (o, ds) => ({ block := b.idx, offset := o }, ds)

def evaluate (et ct : Table) (abi : AbiParams) (blocks : List BlockIn) :
    List (Loc × Option Proc) × Option EvalErr :=
  evalGroups et ct abi none (groupsOf blocks)

end GtirbVerif.CfiEval
