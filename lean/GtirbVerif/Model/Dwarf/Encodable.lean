import GtirbVerif.Model.Dwarf.Leb

/-
Model of `gtirb_rewriting.dwarf._encodable._OpcodeEncodable` (encode, decode,
_validate, opcode registration) and of `_ExprEncoder` /
`parse_cfi_instructions` / `Instruction._operands` from `dwarf/cfi.py`.

The classes themselves (opcode, ordered fields, encoder of each field,
directive) are *data*: they are regenerated from the live Python classes into
`GtirbVerif/Gen/DwarfTables.lean` by `harness/extract.py` on every run.
-/
namespace GtirbVerif.Dwarf

/-- encoder kinds of `_encoders.py` (+ `_ExprEncoder` of `cfi.py`). -/
inductive Enc
  | uleb | sleb
  | uint (n : Nat) | sint (n : Nat)
  | uintptr
  | addOp (bound : Nat)
  | expr
  deriving DecidableEq, Repr, Inhabited

structure ClassDesc where
  name : String
  opcode : Nat
  directive : String        -- "" for expression operations
  fields : List (String × Enc)
  deriving Repr, Inhabited

abbrev Table := List ClassDesc

inductive Err
  | valueError      -- ValueError
  | eof             -- EOFError from leb128.decode_reader
  | typeError       -- wrong number / kind of arguments (harness never sends these)
  | fuel            -- model-internal: unreachable (proved)
  deriving DecidableEq, Repr, Inhabited

def ClassDesc.encs (c : ClassDesc) : List Enc := c.fields.map (·.2)

/-- `_fused_encoder`: only the first field is looked at. -/
def ClassDesc.fusedBound (c : ClassDesc) : Option Nat :=
  match c.encs with
  | .addOp b :: _ => some b
  | _ => none

/-- number of opcode bytes registered for the class. -/
def ClassDesc.width (c : ClassDesc) : Nat := (c.fusedBound).getD 1

def ClassDesc.covers (c : ClassDesc) (b : Nat) : Bool :=
  decide (c.opcode ≤ b ∧ b < c.opcode + c.width)

/-- `type_storage.opcodes.get(opcode_byte)`. -/
def lookup (t : Table) (b : Nat) : Option ClassDesc := t.find? (·.covers b)

/-- an expression operation object: class + integer operands. -/
structure OpObj where
  cls : ClassDesc
  args : List Int
  deriving Repr, Inhabited

/-- `encoder.validate(value, ptr_size)` for integer-valued encoders. -/
def validateInt (e : Enc) (ptr : Option Nat) (v : Int) : Bool :=
  match e with
  | .uleb => decide (0 ≤ v)
  | .sleb => true
  | .uint n => inIntDomain n false v
  | .sint n => inIntDomain n true v
  | .uintptr =>
    decide (0 ≤ v) && (match ptr with
      | none => true
      | some p => inIntDomain p false v)
  | .addOp b => decide (0 ≤ v ∧ v < (b : Int))
  | .expr => true

/-- standalone `encoder.encode(value, byteorder, ptr_size)` for integers. -/
def encInt (e : Enc) (bo : ByteOrder) (ptr : Nat) (v : Int) : Option (List Nat) :=
  match e with
  | .uleb => some (ulebEnc v.toNat)
  | .sleb => some (slebEnc v)
  | .uint n => intEnc n false bo v
  | .sint n => intEnc n true bo v
  | .uintptr => intEnc ptr false bo v
  | .addOp _ => some []          -- fused: contributes to the opcode byte only
  | .expr => none

/-- standalone `encoder.decode(io, byteorder, ptr_size)` for integers. -/
def decInt (e : Enc) (bo : ByteOrder) (ptr : Nat) (bs : List Nat) :
    Except Err (Int × Nat × List Nat) :=
  match e with
  | .uleb => match ulebDec bs with
    | none => .error .eof
    | some (v, k, r) => .ok (v, k, r)
  | .sleb => match slebDec bs with
    | none => .error .eof
    | some (v, k, r) => .ok (v, k, r)
  | .uint n => .ok (intDec n false bo bs)
  | .sint n => .ok (intDec n true bo bs)
  | .uintptr => .ok (intDec ptr false bo bs)
  | .addOp _ => .error .typeError
  | .expr => .error .typeError

def validateOpArgs (ptr : Option Nat) : List Enc → List Int → Except Err Unit
  | [], [] => .ok ()
  | e :: es, v :: vs =>
    if validateInt e ptr v then validateOpArgs ptr es vs else .error .valueError
  | _, _ => .error .typeError

def encOpFields (bo : ByteOrder) (ptr : Nat) : List Enc → List Int → Except Err (List Nat)
  | [], [] => .ok []
  | e :: es, v :: vs =>
    match encInt e bo ptr v with
    | none => .error .valueError
    | some b => do
      let r ← encOpFields bo ptr es vs
      .ok (b ++ r)
  | _, _ => .error .typeError

/-- first byte written by `encode`. -/
def firstByte (c : ClassDesc) (first : Option Int) : Nat :=
  match c.fusedBound, first with
  | some _, some v => c.opcode + v.toNat
  | _, _ => c.opcode

/-- `Operation.encode(byteorder, ptr_size)`. -/
def encodeOp (bo : ByteOrder) (ptr : Nat) (o : OpObj) : Except Err (List Nat) := do
  validateOpArgs (some ptr) o.cls.encs o.args
  let r ← encOpFields bo ptr o.cls.encs o.args
  .ok (firstByte o.cls o.args.head? :: r)

/-- decode the standalone fields in order. -/
def decOpFields (bo : ByteOrder) (ptr : Nat) :
    List Enc → List Nat → Except Err (List Int × Nat × List Nat)
  | [], bs => .ok ([], 0, bs)
  | e :: es, bs => do
    let (v, k, r) ← decInt e bo ptr bs
    let (vs, k', r') ← decOpFields bo ptr es r
    .ok (v :: vs, k + k', r')

/-- first byte of the stream as Python reads it: `int.from_bytes(io.read(1))`
(0 on end of input). -/
def readOpcode : List Nat → Nat × List Nat
  | [] => (0, [])
  | b :: bs => (b, bs)

/-- `Operation.decode(io, byteorder, ptr_size)`: object, bytes read, rest. -/
def decodeOp (t : Table) (bo : ByteOrder) (ptr : Nat) (bs : List Nat) :
    Except Err (OpObj × Nat × List Nat) :=
  let (b, rest) := readOpcode bs
  match lookup t b with
  | none => .error .valueError
  | some c =>
    match c.fusedBound with
    | some _ => do
      let (vs, k, r) ← decOpFields bo ptr (c.encs.drop 1) rest
      .ok ({ cls := c, args := ((b : Int) - c.opcode) :: vs }, 1 + k, r)
    | none => do
      let (vs, k, r) ← decOpFields bo ptr c.encs rest
      .ok ({ cls := c, args := vs }, 1 + k, r)

/-- `b"".join(op.encode(...) for op in value)`. -/
def encodeOps (bo : ByteOrder) (ptr : Nat) : List OpObj → Except Err (List Nat)
  | [] => .ok []
  | o :: os => do
    let b ← encodeOp bo ptr o
    let r ← encodeOps bo ptr os
    .ok (b ++ r)

/-- the `while op_bytes_read < length` loop of `_ExprEncoder.decode`. -/
def decodeOpsLoop (t : Table) (bo : ByteOrder) (ptr : Nat) :
    Nat → Nat → Nat → List Nat → Except Err (List OpObj × Nat × List Nat)
  | 0, read, len, bs => if read < len then .error .fuel else .ok ([], read, bs)
  | f + 1, read, len, bs =>
    if read < len then do
      let (o, k, r) ← decodeOp t bo ptr bs
      let (os, read', r') ← decodeOpsLoop t bo ptr f (read + k) len r
      .ok (o :: os, read', r')
    else .ok ([], read, bs)

/-- `_ExprEncoder.encode`. -/
def encodeExpr (bo : ByteOrder) (ptr : Nat) (ops : List OpObj) : Except Err (List Nat) := do
  let e ← encodeOps bo ptr ops
  .ok (ulebEnc e.length ++ e)

/-- `_ExprEncoder.decode`. -/
def decodeExpr (t : Table) (bo : ByteOrder) (ptr : Nat) (bs : List Nat) :
    Except Err (List OpObj × Nat × List Nat) :=
  match ulebDec bs with
  | none => .error .eof
  | some (len, k, r) => do
    let (os, read, r') ← decodeOpsLoop t bo ptr len 0 len r
    .ok (os, k + read, r')

/-- operand of a CFI instruction. -/
inductive Arg
  | int (v : Int)
  | expr (ops : List OpObj)
  deriving Repr, Inhabited

structure InstObj where
  cls : ClassDesc
  args : List Arg
  deriving Repr, Inhabited

def validateArg (e : Enc) (ptr : Option Nat) : Arg → Except Err Unit
  | .int v => if e = .expr then .error .typeError
              else if validateInt e ptr v then .ok () else .error .valueError
  | .expr _ => if e = .expr then .ok () else .error .typeError

def validateInstArgs (ptr : Option Nat) : List Enc → List Arg → Except Err Unit
  | [], [] => .ok ()
  | e :: es, a :: as => do validateArg e ptr a; validateInstArgs ptr es as
  | _, _ => .error .typeError

def encArg (bo : ByteOrder) (ptr : Nat) (e : Enc) : Arg → Except Err (List Nat)
  | .int v => match encInt e bo ptr v with
    | none => .error .valueError
    | some b => .ok b
  | .expr ops => if e = .expr then encodeExpr bo ptr ops else .error .typeError

def encInstFields (bo : ByteOrder) (ptr : Nat) : List Enc → List Arg → Except Err (List Nat)
  | [], [] => .ok []
  | e :: es, a :: as => do
    let b ← encArg bo ptr e a
    let r ← encInstFields bo ptr es as
    .ok (b ++ r)
  | _, _ => .error .typeError

def Arg.int? : Arg → Option Int
  | .int v => some v
  | .expr _ => none

/-- `Instruction.encode(byteorder, ptr_size)`. -/
def encodeInst (bo : ByteOrder) (ptr : Nat) (i : InstObj) : Except Err (List Nat) := do
  validateInstArgs (some ptr) i.cls.encs i.args
  let r ← encInstFields bo ptr i.cls.encs i.args
  .ok (firstByte i.cls (i.args.head?.bind Arg.int?) :: r)

def decArg (et : Table) (bo : ByteOrder) (ptr : Nat) (e : Enc) (bs : List Nat) :
    Except Err (Arg × Nat × List Nat) :=
  if e = .expr then do
    let (os, k, r) ← decodeExpr et bo ptr bs
    .ok (.expr os, k, r)
  else do
    let (v, k, r) ← decInt e bo ptr bs
    .ok (.int v, k, r)

def decInstFields (et : Table) (bo : ByteOrder) (ptr : Nat) :
    List Enc → List Nat → Except Err (List Arg × Nat × List Nat)
  | [], bs => .ok ([], 0, bs)
  | e :: es, bs => do
    let (v, k, r) ← decArg et bo ptr e bs
    let (vs, k', r') ← decInstFields et bo ptr es r
    .ok (v :: vs, k + k', r')

/-- `Instruction.decode(io, byteorder, ptr_size)`; `et` is the expression
table, `ct` the CFI table. -/
def decodeInst (et ct : Table) (bo : ByteOrder) (ptr : Nat) (bs : List Nat) :
    Except Err (InstObj × Nat × List Nat) :=
  let (b, rest) := readOpcode bs
  match lookup ct b with
  | none => .error .valueError
  | some c =>
    match c.fusedBound with
    | some _ => do
      let (vs, k, r) ← decInstFields et bo ptr (c.encs.drop 1) rest
      .ok ({ cls := c, args := .int ((b : Int) - c.opcode) :: vs }, 1 + k, r)
    | none => do
      let (vs, k, r) ← decInstFields et bo ptr c.encs rest
      .ok ({ cls := c, args := vs }, 1 + k, r)

/-- `parse_cfi_instructions(value, byteorder, ptr_size)` (the list it yields,
or the first error). `offset < len(value)` loop with fuel `len(value)`. -/
def parseInstsLoop (et ct : Table) (bo : ByteOrder) (ptr : Nat) :
    Nat → Nat → Nat → List Nat → Except Err (List InstObj)
  | 0, off, len, _ => if off < len then .error .fuel else .ok []
  | f + 1, off, len, bs =>
    if off < len then do
      let (i, k, r) ← decodeInst et ct bo ptr bs
      let is ← parseInstsLoop et ct bo ptr f (off + k) len r
      .ok (i :: is)
    else .ok []

def parseInsts (et ct : Table) (bo : ByteOrder) (ptr : Nat) (bs : List Nat) :
    Except Err (List InstObj) :=
  parseInstsLoop et ct bo ptr bs.length 0 bs.length bs

/-- `Instruction._operands`: the operand list handed to GTIRB. -/
def instOperands (bo : ByteOrder) (ptr : Nat) (i : InstObj) : Except Err (List Int) :=
  if i.cls.directive = ".cfi_escape" then do
    let b ← encodeInst bo ptr i
    .ok (b.map Int.ofNat)
  else
    i.args.foldr (fun a acc => do
      let r ← acc
      match a with
      | .int v => .ok (v :: r)
      | .expr _ => .error .typeError) (.ok [])

end GtirbVerif.Dwarf
