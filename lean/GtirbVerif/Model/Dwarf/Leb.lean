/-
Model of the integer encoders used by `gtirb_rewriting.dwarf._encoders`
(and of the four functions of the `leb128` package they call).

Python source modelled (quoted by function):
* `leb128.u.encode`, `leb128.u.decode_reader`   -> `ulebEnc`, `ulebDec`
* `leb128.i.encode`, `leb128.i.decode_reader`   -> `slebEnc`, `slebDec`
* `int.to_bytes(n, byteorder, signed=…)`        -> `intEnc`
* `int.from_bytes(io.read(n), byteorder, …)`    -> `intDec` (short reads modelled)

Bytes are natural numbers; every encoder is shown to produce values `< 256`.
No Mathlib import: this file is linked into the driver executable.
-/
namespace GtirbVerif.Dwarf

inductive ByteOrder | little | big
  deriving DecidableEq, Repr, Inhabited

/-- `leb128.u.encode(i)` for `i >= 0`. -/
def ulebEnc (n : Nat) : List Nat :=
  if n / 128 = 0 then [n % 128] else (128 + n % 128) :: ulebEnc (n / 128)
termination_by n
decreasing_by omega

/-- `leb128.u.decode_reader`: value, number of bytes read, remaining input.
`none` = `EOFError`. -/
def ulebDec : List Nat → Option (Nat × Nat × List Nat)
  | [] => none
  | b :: bs =>
    if b / 128 % 2 = 0 then some (b % 128, 1, bs)
    else match ulebDec bs with
      | none => none
      | some (v, k, r) => some (b % 128 + 128 * v, k + 1, r)

/-- `leb128.i.encode(i)`. -/
def slebEnc (i : Int) : List Nat :=
  if (i / 128 = 0 ∧ (i % 128).toNat / 64 % 2 = 0) ∨ (i / 128 = -1 ∧ (i % 128).toNat / 64 % 2 ≠ 0)
  then [(i % 128).toNat]
  else (128 + (i % 128).toNat) :: slebEnc (i / 128)
termination_by i.toNat + (-i).toNat
decreasing_by omega

/-- `leb128.i.decode_reader`. -/
def slebDec : List Nat → Option (Int × Nat × List Nat)
  | [] => none
  | b :: bs =>
    if b / 128 % 2 = 0 then
      some (if b / 64 % 2 = 0 then (b % 128 : Nat) else (b % 128 : Nat) - (128 : Int), 1, bs)
    else match slebDec bs with
      | none => none
      | some (v, k, r) => some ((b % 128 : Nat) + 128 * v, k + 1, r)

/-- `n` little-endian bytes of `v` (low byte first). -/
def leBytes : Nat → Nat → List Nat
  | 0, _ => []
  | n + 1, v => v % 256 :: leBytes n (v / 256)

/-- value of a little-endian byte string. -/
def leVal : List Nat → Nat
  | [] => 0
  | b :: bs => b + 256 * leVal bs

def orderBytes (bo : ByteOrder) (l : List Nat) : List Nat :=
  match bo with
  | .little => l
  | .big => l.reverse

/-- domain of `_int_domain(8*n, signed)` as a predicate. -/
def inIntDomain (n : Nat) (signed : Bool) (v : Int) : Bool :=
  if signed then decide (-(2 ^ (8 * n - 1) : Int) ≤ v ∧ v < (2 ^ (8 * n - 1) : Int))
  else decide (0 ≤ v ∧ v < (2 ^ (8 * n) : Int))

/-- `v.to_bytes(n, byteorder, signed=signed)`; `none` = `OverflowError`
(never reached by the library: `_validate` runs first). -/
def intEnc (n : Nat) (signed : Bool) (bo : ByteOrder) (v : Int) : Option (List Nat) :=
  if inIntDomain n signed v then
    some (orderBytes bo (leBytes n (v % (2 ^ (8 * n) : Int)).toNat))
  else none

/-- `int.from_bytes(io.read(n), byteorder, signed=signed), n` followed by the
rest of the stream.  A short read (fewer than `n` bytes left) is interpreted
with the width that was actually read, as Python does. -/
def intDec (n : Nat) (signed : Bool) (bo : ByteOrder) (bs : List Nat) : Int × Nat × List Nat :=
  let a := bs.take n
  let u := leVal (orderBytes bo a)
  let v : Int :=
    if signed ∧ a.length ≠ 0 ∧ 2 ^ (8 * a.length - 1) ≤ u then (u : Int) - (2 ^ (8 * a.length) : Int)
    else (u : Int)
  (v, n, bs.drop n)

end GtirbVerif.Dwarf
