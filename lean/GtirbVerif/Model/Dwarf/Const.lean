import GtirbVerif.Model.Dwarf.Encodable

/-! Model of `gtirb_rewriting.dwarf.expr.make_const_op` (expr.py, the loop over
the literal `(bit_size, signed, cls)` tuple). -/
namespace GtirbVerif.Dwarf

inductive ConstKind
  | lit | c1u | c1s | c2u | c2s | c4u | c4s | c8u | c8s | cu | cs
  deriving DecidableEq, Repr, Inhabited

/-- opcode of the class each branch of `make_const_op` names
(OpLit, OpConst1U, …), as the DWARF standard numbers them. -/
def ConstKind.opcode : ConstKind → Nat
  | .lit => 0x30 | .c1u => 0x08 | .c1s => 0x09 | .c2u => 0x0a | .c2s => 0x0b
  | .c4u => 0x0c | .c4s => 0x0d | .c8u => 0x0e | .c8s => 0x0f | .cu => 0x10 | .cs => 0x11

def ConstKind.enc : ConstKind → Enc
  | .lit => .addOp 32 | .c1u => .uint 1 | .c1s => .sint 1 | .c2u => .uint 2 | .c2s => .sint 2
  | .c4u => .uint 4 | .c4s => .sint 4 | .c8u => .uint 8 | .c8s => .sint 8 | .cu => .uleb | .cs => .sleb

def ConstKind.all : List ConstKind :=
  [.lit, .c1u, .c1s, .c2u, .c2s, .c4u, .c4s, .c8u, .c8s, .cu, .cs]

/-- `make_const_op(value)`; `none` = `ValueError("value cannot be encoded")`. -/
def makeConst (v : Int) : Option ConstKind :=
  if 0 ≤ v ∧ v ≤ 31 then some .lit
  else if inIntDomain 1 false v then some .c1u
  else if inIntDomain 2 false v then some .c2u
  else if inIntDomain 4 false v then
    (if (ulebEnc v.toNat).length * 8 < 32 then some .cu else some .c4u)
  else if inIntDomain 8 false v then
    (if (ulebEnc v.toNat).length * 8 < 64 then some .cu else some .c8u)
  else if inIntDomain 1 true v then some .c1s
  else if inIntDomain 2 true v then some .c2s
  else if inIntDomain 4 true v then
    (if (slebEnc v).length * 8 < 32 then some .cs else some .c4s)
  else if inIntDomain 8 true v then
    (if (slebEnc v).length * 8 < 64 then some .cs else some .c8s)
  else none

/-- number of bytes of the encoded operation (opcode byte included). -/
def ConstKind.size (k : ConstKind) (v : Int) : Nat :=
  match k with
  | .lit => 1
  | .c1u | .c1s => 2
  | .c2u | .c2s => 3
  | .c4u | .c4s => 5
  | .c8u | .c8s => 9
  | .cu => 1 + (ulebEnc v.toNat).length
  | .cs => 1 + (slebEnc v).length

end GtirbVerif.Dwarf
