/-!
Model of `_modify/delete_symbols.py:delete_symbols`.

The part of a module it reads or writes: the symbol set, the symbolic expressions (location
and the symbols each mentions), and the aux tables that mention symbols.  Symbols, version
ids and function UUIDs are numbers, library names and directive names strings.
-/
namespace GtirbVerif.Symbols

structure Expr where
  interval : Nat
  off : Nat
  syms : List Nat
  deriving Repr, DecidableEq, Inhabited

structure Cfi where
  loc : Nat                 -- index of the directive in the flattened table
  name : String
  args : List Int
  sym : Option Nat          -- none = NULL_UUID
  deriving Repr, DecidableEq, Inhabited

structure Mod where
  syms : List Nat
  exprs : List Expr
  elfSymInfo : List Nat                              -- keys
  elfTabIdx : List Nat                               -- keys
  verDefs : List (Nat × Nat)                         -- version id -> flags (the names do not matter)
  verReqs : List (String × List Nat)                 -- library -> version ids
  verEntries : List (Nat × Nat)                      -- symbol -> version id
  funcNames : List (Nat × Nat)                       -- function -> name symbol
  peImports : List Nat
  peExports : List Nat
  forwarding : List (Nat × Nat)
  cfi : List Cfi
  deriving Repr, DecidableEq, Inhabited

inductive DelErr
  | usesRemaining (sym : Nat)
  deriving Repr, DecidableEq

def omitEncoding : Int := 0xff

/-- the request: symbol -> force -/
abbrev Req := List (Nat × Bool)

def Req.has (r : Req) (s : Nat) : Bool := r.any (·.1 == s)
def Req.force (r : Req) (s : Nat) : Option Bool := (r.find? (·.1 == s)).map (·.2)

def verFlgBase : Nat := 1

/-- `_update_cfi_directive_symbols` -/
def updateCfi (r : Req) (cfi : List Cfi) : List Cfi :=
  cfi.map (fun d =>
    match d.sym with
    | some s =>
      if r.has s then
        if d.name == ".cfi_personality" || d.name == ".cfi_lsda" then { d with args := [omitEncoding], sym := none }
        else { d with sym := none }
      else d
    | none => d)

/-- `_delete_elf_symbol_versions` -/
def deleteVersions (r : Req) (m : Mod) : Mod :=
    -- (an absent table is three empty ones: nothing to do)
    let entries := m.verEntries.filter (fun (s, _) => !r.has s)
    let keep := entries.map (·.2)
    -- definitions without remaining entries go, except the base definition
    let defs := m.verDefs.filter (fun (id, flags) => keep.contains id || flags % 2 == 1)
    -- requirements: unused version ids go; a library whose last version went goes too
    let reqs := m.verReqs.filterMap (fun (lib, ids) =>
      let ids' := ids.filter keep.contains
      if ids'.isEmpty && !ids.isEmpty then none else some (lib, ids'))
    { m with verEntries := entries, verDefs := defs, verReqs := reqs }

/-- `_delete_auxdata_entries` -/
def deleteAux (r : Req) (m : Mod) : Mod :=
  let m1 : Mod := { m with cfi := updateCfi r m.cfi,
                           elfSymInfo := m.elfSymInfo.filter (!r.has ·),
                           elfTabIdx := m.elfTabIdx.filter (!r.has ·) }
  let m2 := deleteVersions r m1
  { m2 with funcNames := m2.funcNames.filter (fun (_, y) => !r.has y),
            peImports := m2.peImports.filter (!r.has ·),
            peExports := m2.peExports.filter (!r.has ·),
            forwarding := m2.forwarding.filter (fun (k, v) => !(r.has k || r.has v)) }

/-- `_delete_symbolic_expressions`: the first use of a symbol that is not forced raises -/
def deleteExprs (r : Req) (exprs : List Expr) : Except DelErr (List Expr) :=
  match exprs.findSome? (fun e => e.syms.find? (fun s => r.force s == some false)) with
  | some s => .error (.usesRemaining s)
  | none => .ok (exprs.filter (fun e => !(e.syms.any (fun s => r.force s == some true))))

/-- `delete_symbols(module, symbols)` -/
def deleteSymbols (r : Req) (m : Mod) : Except DelErr Mod :=
  let m1 := deleteAux r m
  match deleteExprs r m1.exprs with
  | .error e => .error e
  | .ok ex => .ok { m1 with exprs := ex, syms := m1.syms.filter (!r.has ·) }

end GtirbVerif.Symbols
