/-!
Model of `_modify/retarget.py:retarget_symbol_uses`.

The part of a module it reads or writes: symbolic expressions (with the block that holds them
and how the operand is used there — both determined by the harness from the module's geometry
and an independent disassembly), CFI directives, symbolForwarding, the CFG, and for every symbol
what it refers to.
-/
namespace GtirbVerif.Retarget

inductive Access
  | controlFlow | codeRef | data
  deriving Repr, DecidableEq, Inhabited

inductive Referent
  | code (b : Nat) | dataBlock (b : Nat) | proxy (p : Nat) | none
  deriving Repr, DecidableEq, Inhabited

def Referent.defined : Referent → Bool
  | .code _ | .dataBlock _ => true
  | _ => false

/-- CFG node a referent stands for, if it is one -/
def Referent.node : Referent → Option (Bool × Nat)     -- (is proxy, id)
  | .code b => some (false, b)
  | .proxy p => some (true, p)
  | _ => Option.none

structure Expr where
  interval : Nat
  off : Nat
  isAddrAddr : Bool
  syms : List Nat            -- one symbol (SymAddrConst) or two (SymAddrAddr)
  addend : Int
  attrs : List Nat           -- sorted attribute codes
  access : Access
  blocks : Nat               -- number of non-empty blocks covering the expression's address
  cfgBlock : Option Nat      -- the block, when it is a code block
  deriving Repr, DecidableEq, Inhabited

structure Rule where
  internal : List Nat
  external : List Nat
  access : List Access
  deriving Repr, DecidableEq, Inhabited

structure Edge where
  src : Nat
  dstProxy : Bool
  dst : Nat
  type : Nat                 -- gtirb.Edge.Type: Branch = 0, Call = 1
  flags : Nat                -- conditional / direct, carried along
  deriving Repr, DecidableEq, Inhabited

structure Mod where
  refs : List (Nat × Referent)          -- symbol -> referent
  exprs : List Expr
  cfi : List (Nat × Option Nat)         -- (index, symbol)
  forwarding : List (Nat × Nat)
  cfg : List Edge
  deriving Repr, DecidableEq, Inhabited

inductive Err
  | ambiguous (why : String) | notImplemented | multipleRules | assertion (what : String)
  deriving Repr, DecidableEq

def Mod.ref (m : Mod) (s : Nat) : Referent := ((m.refs.find? (·.1 == s)).map (·.2)).getD .none

abbrev RMap := List (Nat × Nat)
def RMap.get (r : RMap) (s : Nat) : Option Nat := (r.find? (·.1 == s)).map (·.2)

/-- `_retarget_sym_expr`: the attributes after replacing `old` by `new` -/
def newAttrs (rules : List Rule) (m : Mod) (old new : Nat) (attrs : List Nat) (acc : Access) : Except Err (List Nat) :=
  let oldDef := (m.ref old).defined
  let newDef := (m.ref new).defined
  let matching := rules.filter (fun r => r.access.contains acc && attrs == (if oldDef then r.internal else r.external))
  match matching with
  | [] => .ok attrs
  | [r] => .ok (if newDef then r.internal else r.external)
  | _ => .error .multipleRules

/-- `_retarget_out_edges` -/
def retargetEdges (m : Mod) (old new : Nat) (block : Nat) (cfg : List Edge) : Except Err (List Edge) :=
  match (m.ref old).node with
  | Option.none => .ok cfg
  | some (op, oid) =>
    let hit (e : Edge) : Bool := e.src == block && e.dstProxy == op && e.dst == oid && (e.type == 0 || e.type == 1)
    if !(cfg.any hit) then .ok cfg
    else
      match (m.ref new).node with
      | Option.none => .error (.ambiguous "attempting to retarget control flow into a data block")
      | some (np, nid) =>
        -- update_edge: discard + add (the CFG is a set)
        .ok (cfg.foldl (fun acc e =>
          if hit e then
            let e' := { e with dstProxy := np, dst := nid }
            let acc' := acc.filter (· != e)
            if acc'.contains e' then acc' else acc' ++ [e']
          else acc) cfg)

/-- one expression -/
def retargetExpr (rules : List Rule) (m : Mod) (r : RMap) (e : Expr) (cfg : List Edge) : Except Err (Expr × List Edge) :=
  e.syms.foldl (fun (acc : Except Err (Expr × List Edge)) sym =>
    match acc with
    | .error x => .error x
    | .ok (cur, cfg) =>
      match r.get sym with
      | Option.none => .ok (cur, cfg)
      | some new =>
        if (m.ref new) == .none then .error (.assertion "retarget.referent")
        else if e.blocks > 1 then .error (.ambiguous "multiple blocks overlap symbolic expression")
        else
          match newAttrs rules m sym new cur.attrs e.access with
          | .error x => .error x
          | .ok attrs =>
            if cur.isAddrAddr then .error .notImplemented
            else
              let cur' := { cur with syms := [new], attrs := attrs }
              if e.access == .controlFlow then
                match e.cfgBlock with
                | some b =>
                  (match retargetEdges m sym new b cfg with
                   | .error x => .error x
                   | .ok cfg' => .ok (cur', cfg'))
                | Option.none => .ok (cur', cfg)
              else .ok (cur', cfg)) (.ok (e, cfg))

/-- `retarget_symbol_uses(module, retargeted_symbols, decoder)` -/
def retarget (rules : List Rule) (r : RMap) (m : Mod) : Except Err Mod :=
  let cfi := m.cfi.map (fun (i, s) => match s with
    | some y => (i, some ((r.get y).getD y))
    | Option.none => (i, Option.none))
  let fwd := m.forwarding.map (fun (k, v) => (k, (r.get v).getD v))
  let res := m.exprs.foldl (fun (acc : Except Err (List Expr × List Edge)) e =>
    match acc with
    | .error x => .error x
    | .ok (done, cfg) =>
      match retargetExpr rules m r e cfg with
      | .error x => .error x
      | .ok (e', cfg') => .ok (done ++ [e'], cfg')) (.ok ([], m.cfg))
  match res with
  | .error x => .error x
  | .ok (exprs, cfg) => .ok { m with cfi := cfi, forwarding := fwd, exprs := exprs, cfg := cfg }

end GtirbVerif.Retarget
