import GtirbVerif.Model.Abi.Call
import Mathlib.Tactic.NormNum
import Mathlib.Data.List.Nodup

namespace GtirbVerif.Abi

/-! ### argument assignment -/

theorem passedArgs_get : ∀ (regs : List String) (args : List ArgVal) (i : Nat),
    (passedArgs regs args)[i]? = args[i]?.map (fun a => (a, regs[i]?))
  | _, [], i => by simp [passedArgs]
  | [], a :: as, 0 => by simp [passedArgs]
  | [], a :: as, i + 1 => by
    simp only [passedArgs, List.getElem?_cons_succ, passedArgs_get [] as i]
    simp
  | r :: rs, a :: as, 0 => by simp [passedArgs]
  | r :: rs, a :: as, i + 1 => by
    simp only [passedArgs, List.getElem?_cons_succ, passedArgs_get rs as i]

theorem passedArgs_length (regs : List String) (args : List ArgVal) :
    (passedArgs regs args).length = args.length := by
  induction args generalizing regs with
  | nil => simp [passedArgs]
  | cons a as ih => cases regs <;> simp [passedArgs, ih]

/-! ### alignment arithmetic -/

theorem alignUp_spec (x a : Nat) (ha : 0 < a) :
    alignUp x a % a = 0 ∧ x ≤ alignUp x a ∧ alignUp x a < x + a := by
  have hne : a ≠ 0 := by omega
  simp only [alignUp, hne, ↓reduceIte]
  refine ⟨Nat.mul_mod_left _ _, ?_, ?_⟩
  · have := Nat.div_add_mod (x + a - 1) a
    have := Nat.mod_lt (x + a - 1) ha
    rw [Nat.mul_comm]; omega
  · have := Nat.div_add_mod (x + a - 1) a
    rw [Nat.mul_comm]; omega

/-- **x86: the stack pointer at the call is aligned.** The call happens
`padding + argStack + shadow` below the patch's entry `sp`, which itself is
`adj` below a `conv.align`-aligned address (or aligned itself when the
prologue aligned the stack and reports no adjustment). -/
theorem x86_call_aligned (W : Nat) (conv : Conv) (nStack : Nat) (adj : Option Nat) (sp0 : Int)
    (ha : 0 < conv.align) (h0 : sp0 % (conv.align : Int) = 0) :
    let argStack := W * nStack
    let total := adj.getD 0 + argStack + conv.shadow
    let padding := alignUp total conv.align - total
    ((sp0 - (adj.getD 0 : Nat)) - padding - argStack - conv.shadow) % (conv.align : Int) = 0 := by
  intro argStack total padding
  obtain ⟨h1, h2, _⟩ := alignUp_spec total conv.align ha
  have hpad : (padding : Int) = (alignUp total conv.align : Int) - total := by
    simp only [padding]; omega
  have htot : (total : Int) = (adj.getD 0 : Nat) + (argStack : Nat) + (conv.shadow : Nat) := by
    simp only [total]; push_cast; rfl
  have : sp0 - ((adj.getD 0 : Nat) : Int) - padding - argStack - conv.shadow =
      sp0 - (alignUp total conv.align : Int) := by rw [hpad, htot]; omega
  rw [this]
  have h1' : ((alignUp total conv.align : Nat) : Int) % (conv.align : Int) = 0 := by
    exact_mod_cast h1
  rw [Int.sub_emod, h0, h1']; simp

/-- **x86: the patch is stack neutral**: what is subtracted before the call is
added back after it, whichever side cleans up the arguments -/
theorem x86_call_neutral (conv : Conv) (padding argStack : Nat) :
    let calleePops := if conv.callerCleanup then 0 else argStack
    let cleanup := conv.shadow + padding + (if conv.callerCleanup then argStack else 0)
    (padding + argStack + conv.shadow : Int) = (calleePops : Nat) + (cleanup : Nat) := by
  intro calleePops cleanup
  simp only [calleePops, cleanup]
  split <;> push_cast <;> omega

/-! ### ARM64 immediates -/

theorem chunks_sum (v : Int) :
    (chunk16 v 0 : Int) + (chunk16 v 16 : Int) * 2 ^ 16 + (chunk16 v 32 : Int) * 2 ^ 32 +
      (chunk16 v 48 : Int) * 2 ^ 48 = v % 2 ^ 64 := by
  simp only [chunk16]
  have e0 : ((v / (2 ^ 0 : Int) % 65536).toNat : Int) = v % 65536 := by
    rw [Int.toNat_of_nonneg (by omega)]; simp
  have e1 : ((v / (2 ^ 16 : Int) % 65536).toNat : Int) = v / 65536 % 65536 := by
    rw [Int.toNat_of_nonneg (by omega)]; norm_num
  have e2 : ((v / (2 ^ 32 : Int) % 65536).toNat : Int) = v / 4294967296 % 65536 := by
    rw [Int.toNat_of_nonneg (by omega)]; norm_num
  have e3 : ((v / (2 ^ 48 : Int) % 65536).toNat : Int) = v / 281474976710656 % 65536 := by
    rw [Int.toNat_of_nonneg (by omega)]; norm_num
  rw [e0, e1, e2, e3]
  norm_num
  omega

end GtirbVerif.Abi

namespace GtirbVerif.Abi

theorem chunk16_lt (v : Int) (s : Nat) : (chunk16 v s : Int) < 65536 ∧ 0 ≤ (chunk16 v s : Int) := by
  simp only [chunk16]
  rw [Int.toNat_of_nonneg (by omega)]
  omega

/-- an optional `movk` sets the next 16-bit chunk of a register whose higher
bits are still zero -/
theorem movk_opt (env : SymEnv) (W lo hi cp : Int) (r : String) (c sh : Nat) (σ : CM) (p : Int)
    (hp : σ.reg r = p) (h0 : 0 ≤ p) (hlt : p < 2 ^ sh) (hc : (c : Int) < 65536) :
    ∃ σ', crun env W lo hi cp (if c != 0 then [CInstr.movk r c sh] else []) σ = .ok σ' ∧
      σ'.reg r = p + (c : Int) * 2 ^ sh ∧ (∀ r', r' ≠ r → σ'.reg r' = σ.reg r') ∧
      σ'.sp = σ.sp ∧ σ'.mem = σ.mem ∧ σ'.snap = σ.snap := by
  by_cases hc0 : c = 0
  · subst hc0
    exact ⟨σ, by simp [crun], by simp [hp], fun _ _ => rfl, rfl, rfl, rfl⟩
  · have hne : (c != 0) = true := by simpa using hc0
    simp only [hne, ↓reduceIte, crun, cstep]
    refine ⟨_, rfl, ?_, fun r' hr' => by simp [setReg, hr'], rfl, rfl, rfl⟩
    simp only [setReg, ↓reduceIte, hp]
    have : p / (2 ^ sh : Int) = 0 := Int.ediv_eq_zero_of_lt h0 hlt
    rw [this]; simp

/-- **ARM64 `_load_immediate`: the register receives exactly the value (mod 2^64)** -/
theorem loadImmediate_ok (env : SymEnv) (W lo hi cp : Int) (r : String) (v : Int) (σ : CM) :
    ∃ σ', crun env W lo hi cp (loadImmediate r v) σ = .ok σ' ∧ σ'.reg r = v % 2 ^ 64 ∧
      (∀ r', r' ≠ r → σ'.reg r' = σ.reg r') ∧ σ'.sp = σ.sp ∧ σ'.mem = σ.mem ∧ σ'.snap = σ.snap := by
  unfold loadImmediate
  split
  · rename_i hsmall
    refine ⟨{ σ with reg := setReg σ.reg r v }, by simp [crun, cstep, hsmall], ?_,
      fun r' hr' => by simp [setReg, hr'], rfl, rfl, rfl⟩
    simp only [setReg, ↓reduceIte]
    rw [Int.emod_eq_of_lt hsmall.1 (by omega)]
  · -- movz, then up to three movk
    have c0 := chunk16_lt v 0
    have c1 := chunk16_lt v 16
    have c2 := chunk16_lt v 32
    have c3 := chunk16_lt v 48
    let σ0 : CM := { σ with reg := setReg σ.reg r (chunk16 v 0) }
    have hz : σ0.reg r = (chunk16 v 0 : Int) := by simp [σ0, setReg]
    obtain ⟨σ1, r1, q1, o1, s1, m1, n1⟩ := movk_opt env W lo hi cp r (chunk16 v 16) 16 σ0 _ hz c0.2
      (by omega) c1.1
    obtain ⟨σ2, r2, q2, o2, s2, m2, n2⟩ := movk_opt env W lo hi cp r (chunk16 v 32) 32 σ1 _ q1
      (by omega) (by norm_num; omega) c2.1
    obtain ⟨σ3, r3, q3, o3, s3, m3, n3⟩ := movk_opt env W lo hi cp r (chunk16 v 48) 48 σ2 _ q2
      (by omega) (by norm_num; omega) c3.1
    have happ : ∀ (a b : List CInstr) (s t u : CM), crun env W lo hi cp a s = .ok t →
        crun env W lo hi cp b t = .ok u → crun env W lo hi cp (a ++ b) s = .ok u := by
      intro a
      induction a with
      | nil => intro b s t u h1 h2; simp only [crun, Except.ok.injEq] at h1; subst h1; exact h2
      | cons i is ih =>
        intro b s t u h1 h2
        simp only [List.cons_append, crun] at h1 ⊢
        cases hs : cstep env W lo hi cp i s with
        | error e => simp [hs] at h1
        | ok s' => simp only [hs] at h1 ⊢; exact ih b s' t u h1 h2
    refine ⟨σ3, ?_, ?_, ?_, ?_, ?_, ?_⟩
    · have hmz : crun env W lo hi cp [CInstr.movz r (chunk16 v 0)] σ = .ok σ0 := by simp [crun, cstep, σ0]
      exact happ _ _ _ _ _ (happ _ _ _ _ _ (happ _ _ _ _ _ hmz r1) r2) r3
    · rw [q3, ← chunks_sum v]
    · intro r' hr'
      rw [o3 r' hr', o2 r' hr', o1 r' hr']; simp [σ0, setReg, hr']
    · rw [s3, s2, s1]
    · rw [m3, m2, m1]
    · rw [n3, n2, n1]

/-- **ARM64 `_load_symbol`: `adrp` + `add :lo12:` yields the symbol's address** -/
theorem loadSymbol_ok (env : SymEnv) (W lo hi cp : Int) (r s : String) (σ : CM) :
    ∃ σ', crun env W lo hi cp (loadArg r (.sym s)) σ = .ok σ' ∧ σ'.reg r = env.addr s ∧
      (∀ r', r' ≠ r → σ'.reg r' = σ.reg r') ∧ σ'.sp = σ.sp ∧ σ'.mem = σ.mem := by
  let f1 := setReg σ.reg r (env.addr s - env.addr s % 4096)
  refine ⟨{ σ with reg := setReg f1 r (f1 r + env.addr s % 4096) },
    by simp [loadArg, crun, cstep, f1], ?_, ?_, rfl, rfl⟩
  · simp only [setReg, ↓reduceIte, f1]; omega
  · intro r' hr'; simp [setReg, hr', f1]

end GtirbVerif.Abi

namespace GtirbVerif.Abi

/-! ### x86: the argument-passing sequence on the machine -/

/-- what an x86 operand delivers: an immediate, or the word stored at the symbol -/
def x86Val (env : SymEnv) : ArgVal → Int
  | .int v => v
  | .sym s => env.contents s

def x86Arg : ArgVal × Option String → CInstr
  | (.int v, some r) => .movImm r v
  | (.sym s, some r) => .movSym r s
  | (.int v, none) => .pushImm v
  | (.sym s, none) => .pushSym s

/-- operands the assembler accepts -/
def x86ArgValid (lo hi : Int) : ArgVal × Option String → Prop
  | (.int v, some _) => -(2 ^ 63 : Int) ≤ v ∧ v < 2 ^ 64
  | (.int v, none) => lo ≤ v ∧ v < hi
  | _ => True

def stackVals (l : List (ArgVal × Option String)) : List ArgVal :=
  (l.filter (fun p => p.2.isNone)).map (·.1)

def regsOf (l : List (ArgVal × Option String)) : List String := l.filterMap (·.2)

theorem x86_body (env : SymEnv) (W lo hi cp : Int) (hW : 0 < W) :
    ∀ (l : List (ArgVal × Option String)) (σ : CM), (∀ p ∈ l, x86ArgValid lo hi p) →
    ∃ σ', crun env W lo hi cp (l.map x86Arg) σ = .ok σ' ∧
      σ'.sp = σ.sp - W * (stackVals l).length ∧
      (∀ x, σ.sp ≤ x → σ'.mem x = σ.mem x) ∧
      (∀ k (hk : k < (stackVals l).length),
        σ'.mem (σ.sp - W * (k + 1)) = some (x86Val env ((stackVals l)[k]))) ∧
      (∀ r, r ∉ regsOf l → σ'.reg r = σ.reg r) ∧
      ((regsOf l).Nodup → ∀ a r, (a, some r) ∈ l → σ'.reg r = x86Val env a) ∧
      σ'.snap = σ.snap
  | [], σ, _ => ⟨σ, rfl, by simp [stackVals], fun _ _ => rfl, by simp [stackVals], fun _ _ => rfl,
      by simp, rfl⟩
  | (a, some r) :: l, σ, hv => by
    have hval := hv (a, some r) List.mem_cons_self
    -- the move
    obtain ⟨σ1, h1, hr1, hs1, hm1, hn1⟩ : ∃ σ1, cstep env W lo hi cp (x86Arg (a, some r)) σ = .ok σ1 ∧
        σ1.reg = setReg σ.reg r (x86Val env a) ∧ σ1.sp = σ.sp ∧ σ1.mem = σ.mem ∧ σ1.snap = σ.snap := by
      cases a with
      | int v =>
        simp only [x86ArgValid] at hval
        have hval' : -9223372036854775808 ≤ v ∧ v < 18446744073709551616 := by
          constructor <;> [have := hval.1; have := hval.2] <;> norm_num at this <;> omega
        exact ⟨{ σ with reg := setReg σ.reg r v }, by simp [x86Arg, cstep, hval'], rfl, rfl, rfl, rfl⟩
      | sym s =>
        exact ⟨{ σ with reg := setReg σ.reg r (env.contents s) }, by simp [x86Arg, cstep], rfl, rfl,
          rfl, rfl⟩
    obtain ⟨σ', q1, q2, q3, q4, q5, q6, q7⟩ :=
      x86_body env W lo hi cp hW l σ1 (fun p hp => hv p (List.mem_cons_of_mem _ hp))
    have hsv : stackVals ((a, some r) :: l) = stackVals l := by simp [stackVals]
    have hro : regsOf ((a, some r) :: l) = r :: regsOf l := by simp [regsOf]
    refine ⟨σ', by simp only [List.map_cons, crun, h1]; exact q1, by rw [hsv, q2, hs1],
      fun x hx => by rw [q3 x (by rw [hs1]; exact hx), hm1], ?_, ?_, ?_, by rw [q7, hn1]⟩
    · intro k hk
      simp only [hsv] at hk ⊢
      rw [← hs1]; exact q4 k hk
    · intro r' hr'
      rw [hro] at hr'
      simp only [List.mem_cons, not_or] at hr'
      rw [q5 r' hr'.2, hr1]; simp [setReg, hr'.1]
    · intro hnd a' r' hmem
      rw [hro] at hnd
      rcases List.mem_cons.mp hmem with heq | hmem
      · cases heq
        rw [q5 r (List.nodup_cons.mp hnd).1, hr1]; simp [setReg]
      · exact q6 (List.nodup_cons.mp hnd).2 a' r' hmem
  | (a, none) :: l, σ, hv => by
    have hval := hv (a, none) List.mem_cons_self
    obtain ⟨σ1, h1, hr1, hs1, hm1, hn1⟩ : ∃ σ1, cstep env W lo hi cp (x86Arg (a, none)) σ = .ok σ1 ∧
        σ1.reg = σ.reg ∧ σ1.sp = σ.sp - W ∧
        σ1.mem = (fun x => if x = σ.sp - W then some (x86Val env a) else σ.mem x) ∧
        σ1.snap = σ.snap := by
      cases a with
      | int v =>
        simp only [x86ArgValid] at hval
        exact ⟨{ σ with sp := σ.sp - W, mem := fun x => if x = σ.sp - W then some v else σ.mem x },
          by simp [x86Arg, cstep, hval], rfl, rfl, rfl, rfl⟩
      | sym s =>
        exact ⟨{ σ with sp := σ.sp - W,
                        mem := fun x => if x = σ.sp - W then some (env.contents s) else σ.mem x },
          by simp [x86Arg, cstep], rfl, rfl, rfl, rfl⟩
    obtain ⟨σ', q1, q2, q3, q4, q5, q6, q7⟩ :=
      x86_body env W lo hi cp hW l σ1 (fun p hp => hv p (List.mem_cons_of_mem _ hp))
    have hsv : stackVals ((a, none) :: l) = a :: stackVals l := by simp [stackVals]
    have hro : regsOf ((a, none) :: l) = regsOf l := by simp [regsOf]
    refine ⟨σ', by simp only [List.map_cons, crun, h1]; exact q1, ?_, ?_, ?_, ?_, ?_, by rw [q7, hn1]⟩
    · rw [hsv, q2, hs1]; simp only [List.length_cons]; push_cast
      rw [Int.mul_add]; omega
    · intro x hx
      rw [q3 x (by rw [hs1]; omega), hm1]
      simp only []; rw [if_neg (by omega)]
    · intro k hk
      rw [hsv] at hk
      cases k with
      | zero =>
        simp only [hsv, List.getElem_cons_zero]
        have : σ.sp - W * ((0 : Nat) + 1 : Int) = σ1.sp := by rw [hs1]; simp
        rw [show ((0 : Nat) : Int) + 1 = ((0 : Nat) + 1 : Int) from rfl, this, q3 σ1.sp (Int.le_refl _), hm1, hs1]
        simp
      | succ k =>
        simp only [hsv, List.getElem_cons_succ]
        have hk' : k < (stackVals l).length := by simp only [List.length_cons] at hk; omega
        have := q4 k hk'
        rw [hs1] at this
        have e : σ.sp - W * (((k + 1 : Nat) : Int) + 1) = σ.sp - W - W * ((k : Int) + 1) := by
          push_cast; rw [Int.mul_add, Int.mul_add]; omega
        rw [e]; exact this
    · intro r' hr'
      rw [hro] at hr'
      rw [q5 r' hr', hr1]
    · intro hnd a' r' hmem
      rw [hro] at hnd
      rcases List.mem_cons.mp hmem with heq | hmem
      · cases heq
      · exact q6 hnd a' r' hmem

end GtirbVerif.Abi

namespace GtirbVerif.Abi

theorem crun_append (env : SymEnv) (W lo hi cp : Int) : ∀ (a b : List CInstr) (s t u : CM),
    crun env W lo hi cp a s = .ok t → crun env W lo hi cp b t = .ok u →
    crun env W lo hi cp (a ++ b) s = .ok u := by
  intro a
  induction a with
  | nil => intro b s t u h1 h2; simp only [crun, Except.ok.injEq] at h1; subst h1; exact h2
  | cons i is ih =>
    intro b s t u h1 h2
    simp only [List.cons_append, crun] at h1 ⊢
    cases hs : cstep env W lo hi cp i s with
    | error e => simp [hs] at h1
    | ok s' => simp only [hs] at h1 ⊢; exact ih b s' t u h1 h2

theorem x86Call_body_eq (W : Nat) (conv : Conv) (f : String) (args : List ArgVal) (adj : Option Nat) :
    ∃ p0 p1 p2 : List CInstr, x86Call W conv f args adj =
      p0 ++ (passedArgs conv.regs args).reverse.map x86Arg ++ p1 ++ [.call f] ++ p2 ∧
      p0 = (let pa := passedArgs conv.regs args
            let total := adj.getD 0 + W * stackArgCount pa + conv.shadow
            let padding := alignUp total conv.align - total
            if padding != 0 then [.subSp padding] else []) ∧
      p1 = (if conv.shadow != 0 then [.subSp conv.shadow] else []) ∧
      p2 = (let pa := passedArgs conv.regs args
            let argStack := W * stackArgCount pa
            let total := adj.getD 0 + argStack + conv.shadow
            let padding := alignUp total conv.align - total
            let cleanup := conv.shadow + padding + (if conv.callerCleanup then argStack else 0)
            if cleanup != 0 then [.addSp cleanup] else []) := by
  refine ⟨_, _, _, ?_, rfl, rfl, rfl⟩
  simp only [x86Call]
  congr 4
  apply List.map_congr_left
  intro p _
  obtain ⟨a, r⟩ := p
  cases a <;> cases r <;> rfl

/-- **x86 CallPatch on the machine.** At the call: the i-th argument is in the
i-th convention register, the remaining ones are on the stack in order right
above the shadow space, the stack pointer is `padding + argStack + shadow` below
the entry; after the sequence the stack pointer is back where it was. (A symbol
operand delivers the word stored at the symbol — see `symbol_argument_x86`.) -/
theorem x86_call_at (env : SymEnv) (W : Nat) (hW : 0 < W) (lo hi : Int) (conv : Conv) (f : String)
    (args : List ArgVal) (adj : Option Nat) (σ : CM)
    (hvalid : ∀ p ∈ passedArgs conv.regs args, x86ArgValid lo hi p)
    (hnd : conv.regs.Nodup) :
    let pa := passedArgs conv.regs args
    let argStack := W * stackArgCount pa
    let total := adj.getD 0 + argStack + conv.shadow
    let padding := alignUp total conv.align - total
    let calleePops : Int := if conv.callerCleanup then 0 else argStack
    ∃ σ' regs spc mem, crun env W lo hi calleePops (x86Call W conv f args adj) σ = .ok σ' ∧
      σ'.sp = σ.sp ∧ σ'.snap = some (f, regs, spc, mem) ∧
      spc = σ.sp - padding - argStack - conv.shadow ∧
      (∀ a r, (a, some r) ∈ pa → regs r = x86Val env a) ∧
      (∀ j (hj : j < (stackVals pa).length),
        mem (spc + conv.shadow + W * j) = some (x86Val env ((stackVals pa)[j]))) := by
  intro pa argStack total padding calleePops
  obtain ⟨p0, p1, p2, heq, hp0, hp1, hp2⟩ := x86Call_body_eq W conv f args adj
  rw [heq]
  -- padding
  have s0 : ∃ σ0, crun env W lo hi calleePops p0 σ = .ok σ0 ∧ σ0.sp = σ.sp - padding ∧
      σ0.reg = σ.reg ∧ σ0.mem = σ.mem := by
    rw [hp0]
    simp only []
    by_cases hpad : padding = 0
    · have : (alignUp total conv.align - total != 0) = false := by simpa using hpad
      simp only [pa, argStack, total] at this
      simp only [this, Bool.false_eq_true, ↓reduceIte, crun]
      exact ⟨σ, rfl, by rw [hpad]; simp, rfl, rfl⟩
    · have : (alignUp total conv.align - total != 0) = true := by simpa using hpad
      simp only [pa, argStack, total] at this
      simp only [this, ↓reduceIte, crun, cstep]
      exact ⟨_, rfl, rfl, rfl, rfl⟩
  obtain ⟨σ0, r0, q0, g0, m0⟩ := s0
  -- arguments
  have hvalid' : ∀ p ∈ pa.reverse, x86ArgValid lo hi p := fun p hp => hvalid p (List.mem_reverse.mp hp)
  obtain ⟨σ1, r1, q1, _, q4, _, q6, _⟩ := x86_body env W lo hi calleePops (by exact_mod_cast hW) pa.reverse σ0 hvalid'
  have hcnt : (stackVals pa.reverse).length = stackArgCount pa := by
    simp [stackVals, stackArgCount, List.filter_reverse]
  have hsv : stackVals pa.reverse = (stackVals pa).reverse := by
    simp [stackVals, List.filter_reverse, List.map_reverse]
  -- registers of the convention are distinct, hence so are the ones in use
  have hregs : (regsOf pa.reverse).Nodup := by
    have hsub : ∀ (regs : List String) (as : List ArgVal), (regsOf (passedArgs regs as)).Sublist regs := by
      intro regs as
      induction as generalizing regs with
      | nil => simp [passedArgs, regsOf]
      | cons a as ih =>
        cases regs with
        | nil =>
          have := ih []
          simpa [passedArgs, regsOf] using this
        | cons r rs =>
          have := ih rs
          simp only [passedArgs, regsOf, List.filterMap_cons] at this ⊢
          exact this.cons_cons r
    have h1 : (regsOf pa).Nodup := (hsub conv.regs args).nodup hnd
    have : regsOf pa.reverse = (regsOf pa).reverse := by simp [regsOf, List.filterMap_reverse]
    rw [this]; exact List.nodup_reverse.mpr h1
  -- shadow space
  have s2 : ∃ σ2, crun env W lo hi calleePops p1 σ1 = .ok σ2 ∧ σ2.sp = σ1.sp - conv.shadow ∧
      σ2.reg = σ1.reg ∧ σ2.mem = σ1.mem := by
    rw [hp1]
    by_cases hsh : conv.shadow = 0
    · have : (conv.shadow != 0) = false := by simpa using hsh
      simp only [this, Bool.false_eq_true, ↓reduceIte, crun]
      exact ⟨σ1, rfl, by rw [hsh]; simp, rfl, rfl⟩
    · have : (conv.shadow != 0) = true := by simpa using hsh
      simp only [this, ↓reduceIte, crun, cstep]
      exact ⟨_, rfl, rfl, rfl, rfl⟩
  obtain ⟨σ2, r2, q2, g2, m2⟩ := s2
  -- the call
  let σ3 : CM := { σ2 with snap := some (f, σ2.reg, σ2.sp, σ2.mem), sp := σ2.sp + calleePops }
  have r3 : crun env W lo hi calleePops [CInstr.call f] σ2 = .ok σ3 := by simp [crun, cstep, σ3]
  -- cleanup
  have hneutral := x86_call_neutral conv padding argStack
  have s4 : ∃ σ4, crun env W lo hi calleePops p2 σ3 = .ok σ4 ∧
      σ4.sp = σ3.sp + (conv.shadow + padding + (if conv.callerCleanup then argStack else 0) : Nat) ∧
      σ4.snap = σ3.snap := by
    rw [hp2]
    simp only []
    by_cases hcl : conv.shadow + padding + (if conv.callerCleanup then argStack else 0) = 0
    · have : (conv.shadow + padding + (if conv.callerCleanup then argStack else 0) != 0) = false := by
        simpa using hcl
      simp only [pa, argStack, total, padding] at this
      simp only [this, Bool.false_eq_true, ↓reduceIte, crun]
      exact ⟨σ3, rfl, by rw [hcl]; simp, rfl⟩
    · have : (conv.shadow + padding + (if conv.callerCleanup then argStack else 0) != 0) = true := by
        simpa using hcl
      simp only [pa, argStack, total, padding] at this
      simp only [this, ↓reduceIte, crun, cstep]
      exact ⟨_, rfl, rfl, rfl⟩
  obtain ⟨σ4, r4, q4', n4⟩ := s4
  refine ⟨σ4, σ2.reg, σ2.sp, σ2.mem, ?_, ?_, ?_, ?_, ?_, ?_⟩
  · exact crun_append _ _ _ _ _ _ _ _ _ _
      (crun_append _ _ _ _ _ _ _ _ _ _ (crun_append _ _ _ _ _ _ _ _ _ _
        (crun_append _ _ _ _ _ _ _ _ _ _ r0 r1) r2) r3) r4
  · rw [q4']
    simp only [σ3]
    rw [q2, q1, q0, hcnt]
    simp only [calleePops] at hneutral ⊢
    simp only [argStack] at hneutral ⊢
    split at hneutral <;> simp_all <;> omega
  · rw [n4]
  · rw [q2, q1, q0, hcnt]; simp only [argStack]; push_cast; omega
  · intro a r hmem
    rw [g2]
    exact q6 hregs a r (List.mem_reverse.mpr hmem)
  · intro j hj
    rw [m2]
    have hk : (stackVals pa).length - 1 - j < (stackVals pa.reverse).length := by
      rw [hsv, List.length_reverse]; omega
    have := q4 ((stackVals pa).length - 1 - j) hk
    have hidx : (stackVals pa.reverse)[(stackVals pa).length - 1 - j] = (stackVals pa)[j] := by
      simp only [hsv]
      rw [List.getElem_reverse]
      congr 1
      omega
    rw [hidx] at this
    rw [← this]
    congr 1
    rw [q2, q1, q0, hcnt]
    have hlen : (stackVals pa).length = stackArgCount pa := by simp [stackVals, stackArgCount]
    have : (((stackVals pa).length - 1 - j : Nat) : Int) = (stackArgCount pa : Int) - 1 - j := by
      rw [← hlen]; omega
    rw [this]
    push_cast
    have e1 : (W : Int) * ((stackArgCount pa : Int) - 1 - j + 1) =
        (W : Int) * (stackArgCount pa : Int) - (W : Int) * j := by
      rw [show (stackArgCount pa : Int) - 1 - j + 1 = (stackArgCount pa : Int) - j by omega, Int.mul_sub]
    rw [e1]; omega

end GtirbVerif.Abi
