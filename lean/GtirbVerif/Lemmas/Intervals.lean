import GtirbVerif.Model.Intervals.SplitJoin

/-!
# split_byte_interval / join_byte_intervals round trip (C10)

For a fully initialized byte interval, splitting it and joining the pieces again (no alignment
demands) restores the interval: same address, size and bytes, the same blocks at the same
offsets and the same table entries at the same offsets (as sets: `List.Perm`).
-/
namespace GtirbVerif.Intervals

/-- equal up to the order in which blocks and entries are listed -/
structure Same (a b : Iv) : Prop where
  addr : a.addr = b.addr
  size : a.size = b.size
  contents : a.contents = b.contents
  blocks : a.blocks.Perm b.blocks
  anns : a.anns.Perm b.anns

theorem Same.refl (a : Iv) : Same a a := ⟨rfl, rfl, rfl, List.Perm.refl _, List.Perm.refl _⟩

theorem Same.trans {a b c : Iv} (h1 : Same a b) (h2 : Same b c) : Same a c :=
  ⟨h1.addr.trans h2.addr, h1.size.trans h2.size, h1.contents.trans h2.contents, h1.blocks.trans h2.blocks,
   h1.anns.trans h2.anns⟩

/-- appending without any padding -/
def joinPlain (d s : Iv) : Iv :=
  { d with size := d.size + s.size, contents := d.contents ++ s.contents,
           blocks := d.blocks ++ s.blocks.map (fun b => { b with off := b.off + d.contents.length }),
           anns := d.anns ++ s.anns.map (fun a => { a with off := a.off + d.contents.length }) }

theorem joinPlain_congr {d d' : Iv} (s : Iv) (h : Same d d') : Same (joinPlain d s) (joinPlain d' s) := by
  unfold joinPlain
  refine ⟨h.addr, by simp [h.size], by simp [h.contents], ?_, ?_⟩
  · simp only [h.contents]; exact h.blocks.append (List.Perm.refl _)
  · simp only [h.contents]; exact h.anns.append (List.Perm.refl _)

def Full (iv : Iv) : Prop := iv.contents.length = iv.size

/-- **cut, then glue**: one iteration of the split loop is undone by appending -/
theorem cut_then_join (iv : Iv) (front g : List Blk) (hb : iv.blocks = front ++ g)
    (hge : ∀ b ∈ g, beginOf g ≤ b.off) (hf : Full iv) (hc : beginOf g ≤ iv.size) :
    Same (joinPlain (cutOne iv g).1 (cutOne iv g).2) iv := by
  unfold Full at hf
  unfold joinPlain cutOne
  simp only []
  generalize hcdef : beginOf g = c at *
  have hlen : (iv.contents.take c).length = c := by rw [List.length_take]; omega
  refine ⟨rfl, by simp only []; omega, by simp only [List.take_append_drop], ?_, ?_⟩
  · simp only [hlen, List.map_map]
    have hmap : (List.map ((fun b : Blk => { b with off := b.off + c }) ∘ fun b : Blk => { b with off := b.off - c }) g) = g := by
      conv => rhs; rw [← List.map_id g]
      apply List.map_congr_left
      intro b hbm
      have hge' := hge b hbm
      simp only [Function.comp, id]
      cases b with
      | mk i o sz k =>
        simp only [Blk.mk.injEq, true_and, and_true]
        simp only [] at hge'
        omega
    rw [hmap, hb]
    simp only [List.length_append, Nat.add_sub_cancel, List.take_left']
    exact List.Perm.refl _
  · simp only [hlen, List.map_map]
    have hmap : (List.map ((fun a : Ann => { a with off := a.off + c }) ∘ fun a : Ann => { a with off := a.off - c })
        (List.filter (fun a => decide (a.off ≥ c)) iv.anns)) = List.filter (fun a => decide (a.off ≥ c)) iv.anns := by
      conv => rhs; rw [← List.map_id (List.filter (fun a => decide (a.off ≥ c)) iv.anns)]
      apply List.map_congr_left
      intro a ha
      have hge' : a.off ≥ c := by simpa using (List.mem_filter.mp ha).2
      simp only [Function.comp, id]
      cases a with
      | mk t o v =>
        simp only [Ann.mk.injEq, true_and, and_true]
        simp only [] at hge'
        omega
    rw [hmap]
    have := List.filter_append_perm (fun a : Ann => decide (a.off < c)) iv.anns
    have e : (fun x : Ann => !decide (x.off < c)) = (fun a : Ann => decide (a.off ≥ c)) := by
      funext x; by_cases hx : x.off < c <;> simp [hx] <;> omega
    rw [e] at this
    exact this

theorem cutOne_full (iv : Iv) (g : List Blk) (hf : Full iv) : Full (cutOne iv g).1 ∧ Full (cutOne iv g).2 := by
  unfold Full at *
  unfold cutOne
  simp only [List.length_take, List.length_drop]
  omega

theorem cutOne_size (iv : Iv) (g : List Blk) : (cutOne iv g).1.size = min iv.size (beginOf g) := rfl

theorem cutOne_blocks (iv : Iv) (front g : List Blk) (hb : iv.blocks = front ++ g) : (cutOne iv g).1.blocks = front := by
  unfold cutOne
  simp only [hb, List.length_append, Nat.add_sub_cancel, List.take_left']

def joinAll : List Iv → Option Iv
  | [] => none
  | d :: rest => some (rest.foldl joinPlain d)

theorem foldl_joinPlain_congr (rest : List Iv) {d d' : Iv} (h : Same d d') :
    Same (rest.foldl joinPlain d) (rest.foldl joinPlain d') := by
  induction rest generalizing d d' with
  | nil => exact h
  | cons s rest ih => simp only [List.foldl_cons]; exact ih (joinPlain_congr s h)

/-- the pieces of the split loop glue back to the interval it started from; `gs` are the
groups still to be cut off, last first -/
theorem splitAt_joinAll : ∀ (gs : List (List Blk)) (iv : Iv) (front : List Blk) (acc : List Iv), Full iv →
    iv.blocks = front ++ gs.reverse.flatten →
    (∀ g ∈ gs, (∀ b ∈ g, beginOf g ≤ b.off) ∧ beginOf g ≤ iv.size) →
    gs.Pairwise (fun g1 g2 => beginOf g2 ≤ beginOf g1) →
    ∃ r, joinAll (splitAt iv gs acc) = some r ∧ Same r (acc.foldl joinPlain iv) := by
  intro gs
  induction gs with
  | nil => intro iv front acc _ _ _ _; exact ⟨_, rfl, Same.refl _⟩
  | cons g gs ih =>
    intro iv front acc hf hb hg hp
    unfold splitAt
    obtain ⟨hge, hc0⟩ := hg g (List.mem_cons_self)
    have hb' : iv.blocks = (front ++ gs.reverse.flatten) ++ g := by
      rw [hb]; simp [List.reverse_cons, List.flatten_append]
    obtain ⟨hf1, _⟩ := cutOne_full iv g hf
    have hgs : ∀ g' ∈ gs, (∀ b ∈ g', beginOf g' ≤ b.off) ∧ beginOf g' ≤ (cutOne iv g).1.size := by
      intro g' hg'
      refine ⟨(hg g' (List.mem_cons_of_mem _ hg')).1, ?_⟩
      rw [cutOne_size]
      have h1 := (hg g' (List.mem_cons_of_mem _ hg')).2
      have h2 : beginOf g' ≤ beginOf g := (List.pairwise_cons.mp hp).1 g' hg'
      omega
    have hblocks : (cutOne iv g).1.blocks = front ++ gs.reverse.flatten := cutOne_blocks iv _ g hb'
    obtain ⟨r, hr, hs⟩ := ih (cutOne iv g).1 front ((cutOne iv g).2 :: acc) hf1 hblocks hgs (List.pairwise_cons.mp hp).2
    refine ⟨r, hr, hs.trans ?_⟩
    simp only [List.foldl_cons]
    exact foldl_joinPlain_congr acc (cut_then_join iv _ g hb' hge hf hc0)

/-! ### the groups -/

theorem groupRuns_flatten : ∀ (bs cur : List Blk) (e : Nat), (groupRuns bs cur e).flatten = cur.reverse ++ bs := by
  intro bs
  induction bs with
  | nil =>
    intro cur e
    unfold groupRuns
    split
    · rename_i h; simp [List.isEmpty_iff.mp h]
    · simp
  | cons b bs ih =>
    intro cur e
    unfold groupRuns
    split
    · rename_i h; rw [ih]; simp [List.isEmpty_iff.mp h]
    · split
      · simp only [List.flatten_cons]; rw [ih]; simp
      · rw [ih]; simp

theorem groupRuns_nonempty : ∀ (bs cur : List Blk) (e : Nat), ∀ g ∈ groupRuns bs cur e, g ≠ [] := by
  intro bs
  induction bs with
  | nil =>
    intro cur e g hg
    unfold groupRuns at hg
    split at hg
    · cases hg
    · rename_i h
      simp only [List.mem_singleton] at hg
      subst hg
      intro hn
      apply h
      simpa using hn
  | cons b bs ih =>
    intro cur e g hg
    unfold groupRuns at hg
    split at hg
    · exact ih _ _ g hg
    · rename_i h
      split at hg
      · rcases List.mem_cons.mp hg with rfl | hg
        · intro hn; apply h; simpa using hn
        · exact ih _ _ g hg
      · exact ih _ _ g hg

/-- blocks listed in increasing offset order and lying inside the interval -/
structure WF (iv : Iv) : Prop where
  full : Full iv
  sorted : iv.blocks.Pairwise (fun a b => a.off ≤ b.off)
  inside : ∀ b ∈ iv.blocks, b.off ≤ iv.size

theorem beginOf_le {g : List Blk} (hp : g.Pairwise (fun a b => a.off ≤ b.off)) : ∀ b ∈ g, beginOf g ≤ b.off := by
  intro b hb
  cases g with
  | nil => cases hb
  | cons h t =>
    simp only [beginOf, List.head?_cons, Option.map_some, Option.getD_some]
    rcases List.mem_cons.mp hb with rfl | hb
    · exact Nat.le_refl _
    · exact (List.pairwise_cons.mp hp).1 b hb

theorem beginOf_mem {g : List Blk} (hne : g ≠ []) : ∃ b ∈ g, beginOf g = b.off := by
  cases g with
  | nil => exact absurd rfl hne
  | cons h t => exact ⟨h, List.mem_cons_self, rfl⟩

/-- **split, then glue** -/
theorem split_joinAll (iv : Iv) (h : WF iv) : ∃ r, joinAll (split iv) = some r ∧ Same r iv := by
  have hflat : (groups iv).flatten = iv.blocks := by
    unfold groups; rw [groupRuns_flatten]; simp
  have hne := groupRuns_nonempty iv.blocks [] 0
  have hpw : (groups iv).flatten.Pairwise (fun a b => a.off ≤ b.off) := by rw [hflat]; exact h.sorted
  rw [List.pairwise_flatten] at hpw
  obtain ⟨hin, hcross⟩ := hpw
  -- split the groups into the first one and the rest
  cases hgs : groups iv with
  | nil =>
    unfold split
    rw [hgs]
    exact ⟨iv, rfl, Same.refl _⟩
  | cons g0 rest =>
    unfold split
    rw [hgs]
    simp only [List.drop_succ_cons, List.drop_zero]
    have hmemrest : ∀ g ∈ rest, g ∈ groups iv := by intro g hg; rw [hgs]; exact List.mem_cons_of_mem _ hg
    have hb : iv.blocks = g0 ++ rest.reverse.reverse.flatten := by
      rw [List.reverse_reverse, ← hflat, hgs]; rfl
    have hcond : ∀ g ∈ rest.reverse, (∀ b ∈ g, beginOf g ≤ b.off) ∧ beginOf g ≤ iv.size := by
      intro g hg
      have hg' := hmemrest g (List.mem_reverse.mp hg)
      refine ⟨beginOf_le (hin g hg'), ?_⟩
      obtain ⟨b, hbm, hbe⟩ := beginOf_mem (hne g (by unfold groups at hg'; exact hg'))
      rw [hbe]
      apply h.inside
      rw [← hflat]
      exact List.mem_flatten.mpr ⟨g, hg', hbm⟩
    have hord : rest.reverse.Pairwise (fun g1 g2 => beginOf g2 ≤ beginOf g1) := by
      rw [List.pairwise_reverse]
      rw [hgs] at hcross
      have hc2 := (List.pairwise_cons.mp hcross).2
      refine List.Pairwise.imp_of_mem ?_ hc2
      intro g1 g2 hm1 hm2 hx
      obtain ⟨b1, hb1, he1⟩ := beginOf_mem (hne g1 (by have := hmemrest g1 hm1; unfold groups at this; exact this))
      obtain ⟨b2, hb2, he2⟩ := beginOf_mem (hne g2 (by have := hmemrest g2 hm2; unfold groups at this; exact this))
      rw [he1, he2]
      exact hx b1 hb1 b2 hb2
    obtain ⟨r, hr, hs⟩ := splitAt_joinAll rest.reverse iv g0 [] h.full hb hcond hord
    exact ⟨r, hr, hs⟩

/-! ### the real `join_byte_intervals` without alignment demands, on fully initialized pieces -/

theorem alignUp_one (x : Nat) : alignUp x 1 = x := by simp [alignUp]

theorem insertPadding_zero (st : JoinState) (nop : List Nat) : insertPadding st nop 0 = .ok st := by
  simp [insertPadding]

theorem joinOne_plain (nop : List Nat) (st : JoinState) (iv : Iv) (hf : st.dest.contents.length = st.dest.size) :
    ∃ st', joinOne nop (fun _ => none) st iv none = .ok st' ∧ st'.dest = joinPlain st.dest iv := by
  unfold joinOne
  have h0 : st.dest.size - st.dest.contents.length = 0 := by omega
  have hw : wantedAlignment (fun _ => none) none iv = (0, 1) := by
    unfold wantedAlignment
    have : iv.blocks.find? (fun b => ((fun _ => none : Nat → Option Nat) b.id).isSome) = none := by
      rw [List.find?_eq_none]; intro b _; simp
    rw [this]; rfl
  simp only [h0, insertPadding_zero, hw, alignUp_one, Nat.add_zero, Nat.sub_self, bind, Except.bind]
  refine ⟨_, rfl, ?_⟩
  unfold joinPlain
  simp

theorem joinFold_plain (nop : List Nat) : ∀ (rest : List Iv) (st : JoinState),
    st.dest.contents.length = st.dest.size → (∀ s ∈ rest, Full s) →
    ∃ st', (rest.map (fun s => (s, (none : Option Nat)))).foldl (fun (acc : Except JoinErr JoinState) (p : Iv × Option Nat) =>
        match acc with
        | .error e => .error e
        | .ok st => joinOne nop (fun _ => none) st p.1 p.2) (Except.ok st) = Except.ok st' ∧
      st'.dest = rest.foldl joinPlain st.dest := by
  intro rest
  induction rest with
  | nil => intro st _ _; exact ⟨st, rfl, rfl⟩
  | cons s rest ih =>
    intro st hf hall
    obtain ⟨st1, h1, h2⟩ := joinOne_plain nop st s hf
    simp only [List.map_cons, List.foldl_cons, h1]
    have hf1 : st1.dest.contents.length = st1.dest.size := by
      rw [h2]; unfold joinPlain
      have := hall s (List.mem_cons_self)
      unfold Full at this
      simp only [List.length_append]; omega
    obtain ⟨st', h3, h4⟩ := ih st1 hf1 (fun x hx => hall x (List.mem_cons_of_mem _ hx))
    exact ⟨st', h3, by rw [h4, h2]⟩

theorem splitAt_full : ∀ (cs : List (List Blk)) (iv : Iv) (acc : List Iv), Full iv → (∀ a ∈ acc, Full a) →
    ∀ x ∈ splitAt iv cs acc, Full x := by
  intro cs
  induction cs with
  | nil =>
    intro iv acc hf ha x hx
    simp only [splitAt, List.mem_cons] at hx
    rcases hx with rfl | hx
    · exact hf
    · exact ha x hx
  | cons c cs ih =>
    intro iv acc hf ha x hx
    simp only [splitAt] at hx
    obtain ⟨h1, h2⟩ := cutOne_full iv c hf
    apply ih (cutOne iv c).1 ((cutOne iv c).2 :: acc) h1 _ x hx
    intro a hmem
    rcases List.mem_cons.mp hmem with rfl | hmem
    · exact h2
    · exact ha a hmem

/-- **`join_byte_intervals(split_byte_interval(interval))` restores the interval** (fully
initialized, blocks inside it, no alignment demands; any nop encoding) -/
theorem join_split (iv : Iv) (h : WF iv) (nop : List Nat) (nextId : Nat) :
    ∃ r, join nop (fun _ => none) ((split iv).map (fun s => (s, (none : Option Nat)))) nextId = .ok r ∧ Same r iv := by
  obtain ⟨r, hr, hs⟩ := split_joinAll iv h
  have hfull : ∀ x ∈ split iv, Full x := by
    unfold split
    exact splitAt_full _ iv [] h.full (by intro a ha; cases ha)
  cases hsp : split iv with
  | nil => rw [hsp] at hr; cases hr
  | cons d rest =>
    rw [hsp] at hr hfull
    simp only [joinAll, Option.some.injEq] at hr
    cases rest with
    | nil =>
      refine ⟨d, rfl, ?_⟩
      simp only [List.foldl_nil] at hr
      rw [hr]; exact hs
    | cons s rest =>
      simp only [List.map_cons, join]
      have hd : d.contents.length = d.size := hfull d (List.mem_cons_self)
      obtain ⟨st', h1, h2⟩ := joinFold_plain nop (s :: rest)
        { dest := d, address := d.addr.getD 0 + d.size, last := lastBlock d.blocks, nextId := nextId } hd
        (fun x hx => hfull x (List.mem_cons_of_mem _ hx))
      simp only [List.map_cons] at h1
      refine ⟨st'.dest, ?_, ?_⟩
      · split
        · rename_i e he
          have : (Except.error e : Except JoinErr JoinState) = Except.ok st' := he.symm.trans h1
          cases this
        · rename_i st he
          have : (Except.ok st : Except JoinErr JoinState) = Except.ok st' := he.symm.trans h1
          injection this with this
          rw [this]
      · rw [h2, hr]; exact hs

end GtirbVerif.Intervals
