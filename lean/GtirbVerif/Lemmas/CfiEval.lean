import GtirbVerif.Spec.CfiSpec

namespace GtirbVerif.CfiEval
open GtirbVerif.Dwarf GtirbVerif.CfiSpec

theorem getKey_setKey (k k' : Int) (v : Rule) (l : Regs) :
    getKey k' (setKey k v l) = if k' = k then some v else getKey k' l := by
  induction l with
  | nil =>
    simp only [setKey, getKey]
    by_cases h : k = k'
    · subst h; simp
    · simp [h, Ne.symm h]
  | cons p r ih =>
    obtain ⟨a, b⟩ := p
    simp only [setKey]
    by_cases h : a = k
    · subst h
      simp only [↓reduceIte, getKey]
      by_cases h2 : a = k'
      · subst h2; simp
      · simp [h2, Ne.symm h2]
    · simp only [h, ↓reduceIte, getKey, ih]
      by_cases h2 : a = k'
      · subst h2; simp [h]
      · simp only [h2, ↓reduceIte]

theorem getKey_eraseKey (k k' : Int) (l : Regs) :
    getKey k' (eraseKey k l) = if k' = k then none else getKey k' l := by
  induction l with
  | nil => simp [eraseKey, getKey]
  | cons p r ih =>
    obtain ⟨a, b⟩ := p
    simp only [eraseKey]
    by_cases h : a = k
    · subst h
      simp only [↓reduceIte, ih, getKey]
      by_cases h2 : k' = a
      · simp [h2]
      · simp [h2, Ne.symm h2]
    · simp only [h, ↓reduceIte, getKey, ih]
      by_cases h2 : a = k'
      · subst h2; simp [h]
      · simp [h2]

theorem absRow_set (cur : Row) (r : Int) (v : Rule) :
    absRow { cur with regs := setKey r v cur.regs } =
      { absRow cur with regs := upd (absRow cur).regs r (some v) } := by
  simp only [absRow, upd, SRow.mk.injEq, and_true]
  funext k
  exact getKey_setKey r k v cur.regs

theorem absRow_erase (cur : Row) (r : Int) :
    absRow { cur with regs := eraseKey r cur.regs } =
      { absRow cur with regs := upd (absRow cur).regs r none } := by
  simp only [absRow, upd, SRow.mk.injEq, and_true]
  funext k
  exact getKey_eraseKey r k cur.regs

theorem absRow_cfa (cur : Row) (c : Option Cfa) :
    absRow { cur with cfa := c } = { absRow cur with cfa := c } := rfl

theorem absRow_applyUpd (cur : Row) (u : Upd) :
    absRow (applyUpd cur u) = applyUpdS (absRow cur) u := by
  cases u with
  | setCfa e => rfl
  | setReg r rule => exact absRow_set cur r rule

theorem absRow_foldl (us : List Upd) (cur : Row) :
    absRow (us.foldl applyUpd cur) = us.foldl applyUpdS (absRow cur) := by
  induction us generalizing cur with
  | nil => rfl
  | cons u us ih => simp only [List.foldl_cons, ih, absRow_applyUpd]

theorem upd_self (f : Int → Option Rule) (r : Int) : upd f r (f r) = f := by
  funext k; simp only [upd]; split <;> simp_all

/-- **Refinement**: one directive of the model, seen through `absProc`, is the
specification's transition. -/
theorem stepIn_refines (et ct : Table) (abi : AbiParams) (s : Proc) (k : Kind)
    (args : List Int) (sym : SymRef) :
    (stepIn et ct abi s k args sym).map (Option.map absProc) =
      specIn et ct abi (absProc s) k args sym := by
  cases k
  case startproc => rfl
  case endproc => rfl
  case personality =>
    simp only [stepIn, specIn]
    cases encodedPointer args sym <;> rfl
  case lsda =>
    simp only [stepIn, specIn]
    cases encodedPointer args sym <;> rfl
  case returnColumn =>
    simp only [stepIn, specIn]
    cases one args <;> rfl
  case defCfa =>
    simp only [stepIn, specIn]
    cases two args <;> rfl
  case defCfaRegister =>
    simp only [stepIn, specIn]
    cases one args with
    | error e => rfl
    | ok r =>
      simp only [bind, Except.bind, absProc, absRow]
      cases h : s.current.cfa with
      | none => rfl
      | some c => cases c <;> rfl
  case defCfaOffset =>
    simp only [stepIn, specIn]
    cases one args with
    | error e => rfl
    | ok r =>
      simp only [bind, Except.bind, absProc, absRow]
      cases h : s.current.cfa with
      | none => rfl
      | some c => cases c <;> rfl
  case adjustCfaOffset =>
    simp only [stepIn, specIn]
    cases one args with
    | error e => rfl
    | ok r =>
      simp only [bind, Except.bind, absProc, absRow]
      cases h : s.current.cfa with
      | none => rfl
      | some c => cases c <;> rfl
  case undefined =>
    simp only [stepIn, specIn]
    cases one args with
    | error e => rfl
    | ok r => simp only [bind, Except.bind, Except.map, Option.map, absProc, absRow_set]
  case sameValue =>
    simp only [stepIn, specIn]
    cases one args with
    | error e => rfl
    | ok r => simp only [bind, Except.bind, Except.map, Option.map, absProc, absRow_set]
  case register =>
    simp only [stepIn, specIn]
    cases two args with
    | error e => rfl
    | ok r => simp only [bind, Except.bind, Except.map, Option.map, absProc, absRow_set]
  case restore =>
    simp only [stepIn, specIn]
    cases one args with
    | error e => rfl
    | ok r =>
      simp only [bind, Except.bind, absProc]
      cases h : getKey r s.initial.regs with
      | none =>
        have h' : (absRow s.initial).regs r = none := h
        simp only [Except.map, Option.map, absProc, absRow_erase, h']
      | some rule =>
        have h' : (absRow s.initial).regs r = some rule := h
        simp only [Except.map, Option.map, absProc, absRow_set, h']
  case valOffset =>
    simp only [stepIn, specIn]
    cases two args with
    | error e => rfl
    | ok r => simp only [bind, Except.bind, Except.map, Option.map, absProc, absRow_set]
  case offset =>
    simp only [stepIn, specIn]
    cases two args with
    | error e => rfl
    | ok r => simp only [bind, Except.bind, Except.map, Option.map, absProc, absRow_set]
  case relOffset =>
    simp only [stepIn, specIn]
    cases two args with
    | error e => rfl
    | ok r =>
      obtain ⟨r, o⟩ := r
      simp only [bind, Except.bind, absProc]
      have : (absRow s.current).regs r = getKey r s.current.regs := rfl
      rw [this]
      cases h : getKey r s.current.regs with
      | none => rfl
      | some rule =>
        cases rule <;> first | rfl | simp only [Except.map, Option.map, absProc, absRow_set]
  case rememberState =>
    simp only [stepIn, specIn, Except.map, Option.map, absProc, List.reverse_append,
      List.reverse_cons, List.reverse_nil, List.nil_append, List.map_cons, List.cons_append]
  case restoreState =>
    simp only [stepIn, specIn, absProc]
    rcases List.eq_nil_or_concat s.stack with h | ⟨init, top, h⟩
    · simp [h, Except.map]
    · simp [h, Except.map, Option.map, absProc]
  case escape =>
    simp only [stepIn, specIn]
    cases escapeUpdates et ct abi args with
    | error e => rfl
    | ok us => simp only [bind, Except.bind, Except.map, Option.map, absProc, absRow_foldl]

/-! ### sorting (`sorted(..., key=...)`) -/

theorem insertBy_perm {α} (key : α → Nat) (x : α) (l : List α) :
    (insertBy key x l).Perm (x :: l) := by
  induction l with
  | nil => exact List.Perm.refl _
  | cons y ys ih =>
    simp only [insertBy]
    split
    · exact List.Perm.refl _
    · exact (List.Perm.cons y ih).trans (List.Perm.swap x y ys)

theorem sortBy_perm {α} (key : α → Nat) (l : List α) : (sortBy key l).Perm l := by
  induction l with
  | nil => exact List.Perm.refl _
  | cons x xs ih => exact (insertBy_perm key x _).trans (List.Perm.cons x ih)

theorem insertBy_sorted {α} (key : α → Nat) (x : α) (l : List α)
    (h : l.Pairwise (fun a b => key a ≤ key b)) :
    (insertBy key x l).Pairwise (fun a b => key a ≤ key b) := by
  induction l with
  | nil => simp [insertBy]
  | cons y ys ih =>
    simp only [insertBy]
    rw [List.pairwise_cons] at h
    split
    · rename_i hle
      rw [List.pairwise_cons]
      refine ⟨?_, List.pairwise_cons.mpr h⟩
      intro a ha
      rcases List.mem_cons.mp ha with rfl | ha
      · exact hle
      · exact Nat.le_trans hle (h.1 a ha)
    · rename_i hgt
      rw [List.pairwise_cons]
      refine ⟨?_, ih h.2⟩
      intro a ha
      have := (insertBy_perm key x ys).mem_iff.mp ha
      rcases List.mem_cons.mp this with rfl | ha'
      · omega
      · exact h.1 a ha'

theorem sortBy_sorted {α} (key : α → Nat) (l : List α) :
    (sortBy key l).Pairwise (fun a b => key a ≤ key b) := by
  induction l with
  | nil => simp [sortBy]
  | cons x xs ih => exact insertBy_sorted key x _ ih

end GtirbVerif.CfiEval
