import GtirbVerif.Model.Abi.Prologue

/-! `_allocate_patch_registers`: what the scratch and clobber lists contain. -/
namespace GtirbVerif.Abi

theorem removeAll_ok : ∀ (rs avail avail' : List String), avail.Nodup →
    removeAll avail rs = .ok avail' →
    avail'.Nodup ∧ (∀ x ∈ avail', x ∈ avail) ∧ (∀ r ∈ rs, r ∉ avail') ∧
    (∀ x ∈ avail, x ∉ rs → x ∈ avail')
  | [], avail, avail', hnd, h => by
    simp only [removeAll, Except.ok.injEq] at h; subst h
    exact ⟨hnd, fun _ h => h, by simp, fun _ h _ => h⟩
  | r :: rs, avail, avail', hnd, h => by
    simp only [removeAll] at h
    obtain ⟨h1, h2, h3, h4⟩ := removeAll_ok rs (avail.erase r) avail' (hnd.erase r) h
    refine ⟨h1, fun x hx => List.mem_of_mem_erase (h2 x hx), ?_, ?_⟩
    · intro r' hr'
      rcases List.mem_cons.mp hr' with rfl | hr'
      · intro hx
        exact (List.Nodup.mem_erase_iff hnd).mp (h2 _ hx) |>.1 rfl
      · exact h3 r' hr'
    · intro x hx hnot
      simp only [List.mem_cons, not_or] at hnot
      exact h4 x ((List.Nodup.mem_erase_iff hnd).mpr ⟨hnot.1, hx⟩) hnot.2

/-- taking the read registers out of the pool never fails: a read register that is not a scratch
register, or that is also clobbered, is simply not there to be handed out -/
theorem removeAll_err : ∀ (rs avail : List String) (e : GenErr),
    removeAll avail rs = .error e → False
  | [], _, _, h => by simp [removeAll] at h
  | r :: rs, avail, e, h => by
    simp only [removeAll] at h
    exact removeAll_err rs _ e h

/-- **the allocation**: as many scratch registers as requested, distinct, taken
from the ABI's scratch list, none of them clobbered or read by the patch, all
of them saved; every declared clobber and (on request) every caller-saved
register is saved; the save list follows `all_registers()` order. -/
theorem allocate_ok (abi : AbiDesc) (c : Constraints) (a : Alloc)
    (hsn : abi.scratchRegs.Nodup) (hsub : ∀ r ∈ abi.scratchRegs, r ∈ abi.allRegs)
    (h : allocate abi c = .ok a) :
    ∃ clob reads, resolveAll abi c.clobbers = .ok clob ∧ resolveAll abi c.reads = .ok reads ∧
      a.scratch.length = c.scratch ∧ a.scratch.Nodup ∧
      (∀ r ∈ a.scratch, r ∈ abi.scratchRegs ∧ r ∉ clob ∧ r ∉ reads ∧ r ∈ a.clobbered) ∧
      (∀ r ∈ clob, r ∈ abi.allRegs → r ∈ a.clobbered) ∧
      (c.preserveCallerSaved = true → ∀ r ∈ abi.callerSaved, r ∈ abi.allRegs → r ∈ a.clobbered) ∧
      (∀ r ∈ a.clobbered, r ∈ clob ∨ r ∈ a.scratch ∨
        (c.preserveCallerSaved = true ∧ r ∈ abi.callerSaved)) ∧
      a.clobbered.Sublist abi.allRegs := by
  unfold allocate at h
  cases hc : resolveAll abi c.clobbers with
  | error e => rw [hc] at h; cases h
  | ok clob =>
    cases hr : resolveAll abi c.reads with
    | error e => rw [hc] at h; simp only [hr] at h; cases h
    | ok reads =>
      rw [hc] at h
      simp only [hr] at h
      cases hra : removeAll (availAfterClobbers abi clob) reads with
      | error e => rw [hra] at h; cases h
      | ok avail2 =>
        rw [hra] at h
        simp only [] at h
        split at h
        · cases h
        · rename_i hle
          simp only [Except.ok.injEq] at h
          subst h
          obtain ⟨r1, r2, r3, _⟩ := removeAll_ok reads _ avail2 (hsn.filter _) hra
          have hscr : ∀ r ∈ avail2.take c.scratch, r ∈ abi.scratchRegs ∧ r ∉ clob ∧ r ∉ reads := by
            intro r hr
            have hm := r2 r (List.mem_of_mem_take hr)
            simp only [availAfterClobbers, List.mem_filter, Bool.not_eq_true', List.contains_eq_mem,
              decide_eq_false_iff_not] at hm
            exact ⟨hm.1, hm.2, fun hrd => r3 r hrd (List.mem_of_mem_take hr)⟩
          refine ⟨clob, reads, rfl, rfl, ?_, ?_, ?_, ?_, ?_, ?_, List.filter_sublist⟩
          · simp only [mkAlloc, List.length_take]; omega
          · exact r1.sublist (List.take_sublist _ _)
          · intro r hr
            obtain ⟨q1, q2, q3⟩ := hscr r hr
            refine ⟨q1, q2, q3, ?_⟩
            simp only [mkAlloc, List.mem_filter, List.contains_eq_mem, List.mem_append, decide_eq_true_eq]
            exact ⟨hsub r q1, Or.inl (Or.inr hr)⟩
          · intro r hr hall
            simp only [mkAlloc, List.mem_filter, List.contains_eq_mem, List.mem_append, decide_eq_true_eq]
            exact ⟨hall, Or.inl (Or.inl hr)⟩
          · intro hp r hr hall
            simp only [mkAlloc, List.mem_filter, List.contains_eq_mem, List.mem_append, decide_eq_true_eq, hp,
              ↓reduceIte]
            exact ⟨hall, Or.inr hr⟩
          · intro r hr
            simp only [mkAlloc, List.mem_filter, List.contains_eq_mem, List.mem_append, decide_eq_true_eq] at hr
            rcases hr.2 with (h1 | h1) | h1
            · exact Or.inl h1
            · exact Or.inr (Or.inl h1)
            · by_cases hp : c.preserveCallerSaved = true
              · simp only [hp, ↓reduceIte] at h1; exact Or.inr (Or.inr ⟨hp, h1⟩)
              · simp [hp] at h1

/-- the refusals: an unknown register name is a KeyError, not enough scratch
registers or an unavailable read register a ValueError -/
theorem allocate_err (abi : AbiDesc) (c : Constraints) (e : GenErr) (h : allocate abi c = .error e) :
    e = .keyError ∨ e = .valueError := by
  unfold allocate at h
  have hres : ∀ (ns : List String) (e' : GenErr), resolveAll abi ns = .error e' → e' = .keyError := by
    intro ns
    induction ns with
    | nil => intro e' h'; simp [resolveAll] at h'
    | cons n ns ih =>
      intro e' h'
      simp only [resolveAll, bind, Except.bind] at h'
      cases hg : abi.getRegister n with
      | error e2 =>
        simp only [hg, Except.error.injEq] at h'
        subst h'
        unfold AbiDesc.getRegister at hg
        split at hg <;> simp_all
      | ok r =>
        simp only [hg] at h'
        cases hrs : resolveAll abi ns with
        | error e3 => simp only [hrs, Except.error.injEq] at h'; subst h'; exact ih e3 hrs
        | ok rs => simp [hrs] at h'
  cases hc : resolveAll abi c.clobbers with
  | error e1 => rw [hc] at h; cases h; exact Or.inl (hres _ _ hc)
  | ok clob =>
    rw [hc] at h
    cases hr : resolveAll abi c.reads with
    | error e1 => simp only [hr] at h; cases h; exact Or.inl (hres _ _ hr)
    | ok reads =>
      simp only [hr] at h
      cases hra : removeAll (availAfterClobbers abi clob) reads with
      | error e1 =>
        rw [hra] at h; cases h
        exact (removeAll_err _ _ _ hra).elim
      | ok avail2 =>
        rw [hra] at h
        simp only [] at h
        split at h
        · cases h; exact Or.inr rfl
        · cases h

end GtirbVerif.Abi
