import GtirbVerif.Model.Dwarf.Leb

/-! Helper lemmas about LEB128 and fixed-width integer codecs. -/
namespace GtirbVerif.Dwarf

theorem ulebDec_ulebEnc (n : Nat) (rest : List Nat) :
    ulebDec (ulebEnc n ++ rest) = some (n, (ulebEnc n).length, rest) := by
  induction n using Nat.strongRecOn with
  | _ n ih =>
    rw [ulebEnc]
    split
    · rename_i h
      simp only [List.cons_append, List.nil_append, ulebDec, List.length_cons, List.length_nil]
      have : n % 128 / 128 % 2 = 0 := by omega
      simp only [this, ↓reduceIte, Nat.zero_add]
      congr 2
      omega
    · rename_i h
      have hlt : n / 128 < n := by omega
      simp only [List.cons_append, ulebDec, List.length_cons]
      have : (128 + n % 128) / 128 % 2 ≠ 0 := by omega
      simp only [this, ↓reduceIte, ih (n / 128) hlt]
      congr 2
      omega

theorem ulebEnc_lt (n : Nat) : ∀ b ∈ ulebEnc n, b < 256 := by
  induction n using Nat.strongRecOn with
  | _ n ih =>
    rw [ulebEnc]
    split
    · intro b hb; simp at hb; omega
    · rename_i h
      intro b hb
      simp only [List.mem_cons] at hb
      rcases hb with hb | hb
      · omega
      · exact ih (n / 128) (by omega) b hb

theorem ulebEnc_length_pos (n : Nat) : 0 < (ulebEnc n).length := by
  rw [ulebEnc]; split <;> simp

/-- length characterisation: `k` bytes suffice iff `n < 128^k` (for `k ≥ 1`). -/
theorem ulebEnc_length_le (n k : Nat) : (ulebEnc n).length ≤ k + 1 ↔ n < 128 ^ (k + 1) := by
  induction k generalizing n with
  | zero =>
    rw [ulebEnc]
    split
    · simp; omega
    · have := ulebEnc_length_pos (n / 128)
      simp only [List.length_cons]; omega
  | succ k ih =>
    rw [ulebEnc]
    split
    · rename_i h
      simp only [List.length_cons, List.length_nil]
      have : 128 ^ (k + 1) ≥ 1 := Nat.pow_pos (by omega)
      constructor
      · intro _; rw [Nat.pow_succ]; omega
      · intro _; omega
    · simp only [List.length_cons]
      rw [Nat.add_le_add_iff_right, ih (n / 128), Nat.pow_succ 128 (k + 1)]
      omega

theorem slebDec_slebEnc (i : Int) (rest : List Nat) :
    slebDec (slebEnc i ++ rest) = some (i, (slebEnc i).length, rest) := by
  generalize hm : i.toNat + (-i).toNat = m
  induction m using Nat.strongRecOn generalizing i with
  | _ m ih =>
    rw [slebEnc]
    split
    · rename_i h
      simp only [List.cons_append, List.nil_append, slebDec, List.length_cons, List.length_nil]
      have h1 : (i % 128).toNat / 128 % 2 = 0 := by omega
      simp only [h1, ↓reduceIte, Nat.zero_add]
      rcases h with ⟨hj, hb⟩ | ⟨hj, hb⟩
      · simp only [hb, ↓reduceIte]
        congr 2
        omega
      · simp only [hb, ↓reduceIte]
        congr 2
        omega
    · rename_i h
      simp only [List.cons_append, slebDec, List.length_cons]
      have h1 : (128 + (i % 128).toNat) / 128 % 2 ≠ 0 := by omega
      have hdec : (i / 128).toNat + (-(i / 128)).toNat < m := by omega
      simp only [h1, ↓reduceIte, ih _ hdec (i / 128) rfl]
      congr 2
      omega

theorem slebEnc_lt (i : Int) : ∀ b ∈ slebEnc i, b < 256 := by
  generalize hm : i.toNat + (-i).toNat = m
  induction m using Nat.strongRecOn generalizing i with
  | _ m ih =>
    rw [slebEnc]
    split
    · intro b hb; simp at hb; omega
    · rename_i h
      intro b hb
      simp only [List.mem_cons] at hb
      rcases hb with hb | hb
      · omega
      · exact ih _ (by omega) (i / 128) rfl b hb

theorem slebEnc_length_pos (i : Int) : 0 < (slebEnc i).length := by
  rw [slebEnc]; split <;> simp

theorem leBytes_length (n v : Nat) : (leBytes n v).length = n := by
  induction n generalizing v with
  | zero => rfl
  | succ n ih => simp [leBytes, ih]

theorem leBytes_lt (n v : Nat) : ∀ b ∈ leBytes n v, b < 256 := by
  induction n generalizing v with
  | zero => intro b hb; simp [leBytes] at hb
  | succ n ih =>
    intro b hb
    simp only [leBytes, List.mem_cons] at hb
    rcases hb with hb | hb
    · omega
    · exact ih _ b hb

theorem leVal_leBytes (n v : Nat) : leVal (leBytes n v) = v % 256 ^ n := by
  induction n generalizing v with
  | zero => simp [leBytes, leVal, Nat.mod_one]
  | succ n ih =>
    simp only [leBytes, leVal, ih]
    rw [Nat.pow_succ, Nat.mul_comm (256 ^ n) 256, Nat.mod_mul]

end GtirbVerif.Dwarf
