import GtirbVerif.Model.Asm.Streamer
/-!
Frame lemma for the streamer: labels that an event does not mention may be added to the table of
local symbols without changing what the event does.  This is what makes assembling a text in
chunks equal to assembling it whole.
-/
namespace GtirbVerif.Asm

def withLocals (st : AState) (ex : List (String × Nat)) : AState := { st with locals := st.locals ++ ex }

def namesOf (ex : List (String × Nat)) : List String := ex.map (·.1)

def mapOk (f : AState → AState) : Except AErr AState → Except AErr AState
  | .ok st => .ok (f st)
  | .error e => .error e

def fixNames (f : Fixup) : List String := if f.sym2 == "" then [f.sym] else [f.sym, f.sym2]

def Event.mentions : Event → List String
  | .label n => [n]
  | .insn _ _ _ fx => fx.flatMap fixNames
  | .value _ f => fixNames f
  | .leb _ f => fixNames f
  | _ => []

theorem any_append_notin {l ex : List (String × Nat)} {n : String} (h : n ∉ namesOf ex) :
    (l ++ ex).any (·.1 == n) = l.any (·.1 == n) := by
  rw [List.any_append]
  have : ex.any (·.1 == n) = false := by
    rw [List.any_eq_false]
    intro x hx hc
    apply h
    have : x.1 = n := by simpa using hc
    rw [← this]; exact List.mem_map_of_mem hx
  rw [this]; simp

theorem find_append_notin {l ex : List (String × Nat)} {n : String} (h : n ∉ namesOf ex) :
    (l ++ ex).find? (·.1 == n) = l.find? (·.1 == n) := by
  rw [List.find?_append]
  have : ex.find? (·.1 == n) = none := by
    rw [List.find?_eq_none]
    intro x hx hc
    apply h
    have : x.1 = n := by simpa using hc
    rw [← this]; exact List.mem_map_of_mem hx
  rw [this]; simp

theorem resolveRef_frame {t : Target} {st : AState} {ex : List (String × Nat)} {n : String} (h : n ∉ namesOf ex) :
    resolveRef t (withLocals st ex) n = mapOk (withLocals · ex) (resolveRef t st n) := by
  unfold resolveRef
  simp only [withLocals, any_append_notin h]
  split
  · rfl
  · split <;> rfl

theorem resolveFix_frame {t : Target} {st : AState} {ex : List (String × Nat)} {f : Fixup}
    (h : ∀ n ∈ fixNames f, n ∉ namesOf ex) :
    resolveFix t (withLocals st ex) f = mapOk (withLocals · ex) (resolveFix t st f) := by
  unfold resolveFix
  have h1 : f.sym ∉ namesOf ex := h _ (by unfold fixNames; split <;> simp)
  rw [resolveRef_frame h1]
  cases hr : resolveRef t st f.sym with
  | error e => rfl
  | ok st1 =>
    simp only [mapOk]
    split
    · rfl
    · rename_i h2
      have h2' : f.sym2 ∉ namesOf ex := h _ (by unfold fixNames; simp [h2])
      exact resolveRef_frame h2'

theorem resolveFixups_frame {t : Target} {fx : List Fixup} {st : AState} {ex : List (String × Nat)}
    (h : ∀ n ∈ fx.flatMap fixNames, n ∉ namesOf ex) :
    resolveFixups t (withLocals st ex) fx = mapOk (withLocals · ex) (resolveFixups t st fx) := by
  induction fx generalizing st with
  | nil => rfl
  | cons f fs ih =>
    simp only [resolveFixups]
    rw [resolveFix_frame (fun n hn => h n (by simp [List.flatMap_cons, hn]))]
    cases hr : resolveFix t st f with
    | error e => rfl
    | ok st1 =>
      simp only [mapOk]
      exact ih (fun n hn => h n (by simp only [List.flatMap_cons, List.mem_append]; exact Or.inr hn))

theorem resolveTarget_frame {t : Target} {st : AState} {ex : List (String × Nat)} {n : String} (h : n ∉ namesOf ex) :
    resolveTarget t (withLocals st ex) n =
      (match resolveTarget t st n with
       | .ok (a, nd) => .ok (withLocals a ex, nd)
       | .error e => .error e) := by
  unfold resolveTarget
  simp only [withLocals, find_append_notin h]
  split
  · rfl
  · split
    · rfl
    · split
      · split <;> rfl
      · split <;> rfl

theorem insnTarget_frame {t : Target} {st : AState} {ex : List (String × Nat)} {ind : Bool} {fx : List Fixup}
    (h : ∀ n ∈ fx.flatMap fixNames, n ∉ namesOf ex) :
    insnTarget t (withLocals st ex) ind fx =
      (match insnTarget t st ind fx with
       | .ok (a, nd, d) => .ok (withLocals a ex, nd, d)
       | .error e => .error e) := by
  unfold insnTarget
  split
  · rfl
  · split
    · rename_i f
      split
      · rfl
      · have hf : f.sym ∉ namesOf ex := h _ (by simp [fixNames]; split <;> simp)
        rw [resolveTarget_frame hf]
        cases hr : resolveTarget t st f.sym with
        | error e => rfl
        | ok r => obtain ⟨a, nd⟩ := r; rfl
    · rfl

theorem sect?_withLocals (st : AState) (ex : List (String × Nat)) : (withLocals st ex).sect? = st.sect? := rfl

theorem stepInsn_frame {t : Target} {st : AState} {s : ASect} {ex : List (String × Nat)} {size : Nat} {kind : IKind}
    {ind : Bool} {fx : List Fixup} (h : ∀ n ∈ fx.flatMap fixNames, n ∉ namesOf ex) :
    stepInsn t (withLocals st ex) s size kind ind fx = mapOk (withLocals · ex) (stepInsn t st s size kind ind fx) := by
  unfold stepInsn
  rw [resolveFixups_frame h]
  cases hr : resolveFixups t st fx with
  | error e => rfl
  | ok st0 =>
    simp only [mapOk]
    cases kind with
    | other => rfl
    | ret => rfl
    | call =>
      simp only []
      have := insnTarget_frame (t := t) (st := markCode st0 (insnSect s size fx).curBlock.id) (ex := ex) (ind := ind) h
      show (match insnTarget t (withLocals (markCode st0 (insnSect s size fx).curBlock.id) ex) ind fx with | .error e => _ | .ok (st2, tgt, direct) => _) = _
      rw [this]
      cases hi : insnTarget t (markCode st0 (insnSect s size fx).curBlock.id) ind fx with
      | error e => rfl
      | ok r => obtain ⟨a, nd, d⟩ := r; rfl
    | jmp =>
      simp only []
      have := insnTarget_frame (t := t) (st := markCode st0 (insnSect s size fx).curBlock.id) (ex := ex) (ind := ind) h
      show (match insnTarget t (withLocals (markCode st0 (insnSect s size fx).curBlock.id) ex) ind fx with | .error e => _ | .ok (st2, tgt, direct) => _) = _
      rw [this]
      cases hi : insnTarget t (markCode st0 (insnSect s size fx).curBlock.id) ind fx with
      | error e => rfl
      | ok r => obtain ⟨a, nd, d⟩ := r; rfl
    | jcc =>
      simp only []
      have := insnTarget_frame (t := t) (st := markCode st0 (insnSect s size fx).curBlock.id) (ex := ex) (ind := ind) h
      show (match insnTarget t (withLocals (markCode st0 (insnSect s size fx).curBlock.id) ex) ind fx with | .error e => _ | .ok (st2, tgt, direct) => _) = _
      rw [this]
      cases hi : insnTarget t (markCode st0 (insnSect s size fx).curBlock.id) ind fx with
      | error e => rfl
      | ok r => obtain ⟨a, nd, d⟩ := r; rfl

theorem step_frame {t : Target} {st : AState} {ex : List (String × Nat)} {ev : Event}
    (h : ∀ n ∈ ev.mentions, n ∉ namesOf ex) :
    step t (withLocals st ex) ev = mapOk (withLocals · ex) (step t st ev) := by
  cases ev with
  | «section» name exec =>
    simp only [step, mapOk, stepSection, withLocals]
    by_cases hc : (st.sects.any (·.name == name)) = true
    · simp only [hc, if_true]
    · simp only [hc, if_false]; rfl
  | label name =>
    simp only [step, sect?_withLocals]
    cases hs : st.sect? with
    | none => rfl
    | some s =>
      simp only [stepIn, stepLabel, withLocals]
      have hn : name ∉ namesOf ex := h name (by simp [Event.mentions])
      rw [find_append_notin hn]
      cases hf : st.locals.find? (·.1 == name) with
      | none => rfl
      | some p => rfl
  | insn size kind ind fx =>
    simp only [step, sect?_withLocals]
    cases hs : st.sect? with
    | none => rfl
    | some s => exact stepInsn_frame (fun n hn => h n (by simpa [Event.mentions] using hn))
  | value size f =>
    simp only [step, sect?_withLocals]
    cases hs : st.sect? with
    | none => rfl
    | some s =>
      simp only [stepIn, stepValue]
      rw [resolveFix_frame (fun n hn => h n (by simpa [Event.mentions] using hn))]
      cases hr : resolveFix t st f with
      | error e => rfl
      | ok st0 => rfl
  | rawBytes n =>
    simp only [step, sect?_withLocals]
    cases hs : st.sect? <;> rfl
  | strBytes n z =>
    simp only [step, sect?_withLocals]
    cases hs : st.sect? with
    | none => rfl
    | some s =>
      simp only [stepIn, stepStr, mapOk]
      have : canTerminate (withLocals st ex) s n z = canTerminate st s n z := rfl
      rw [this]
      split <;> rfl
  | fill n =>
    simp only [step, sect?_withLocals]
    cases hs : st.sect? <;> rfl
  | align a =>
    simp only [step, sect?_withLocals]
    cases hs : st.sect? with
    | none => rfl
    | some s =>
      simp only [stepIn, stepAlign, mapOk]
      split <;> rfl
  | leb sg f =>
    simp only [step, sect?_withLocals]
    cases hs : st.sect? with
    | none => rfl
    | some s =>
      simp only [stepIn, stepLeb]
      rw [resolveFix_frame (fun n hn => h n (by simpa [Event.mentions] using hn))]
      cases hr : resolveFix t st f with
      | error e => rfl
      | ok st0 => rfl
  | cfi =>
    simp only [step, sect?_withLocals]
    cases hs : st.sect? <;> rfl

theorem run_frame {t : Target} {evs : List Event} {st : AState} {ex : List (String × Nat)}
    (h : ∀ ev ∈ evs, ∀ n ∈ ev.mentions, n ∉ namesOf ex) :
    run t (withLocals st ex) evs = mapOk (withLocals · ex) (run t st evs) := by
  induction evs generalizing st with
  | nil => rfl
  | cons e es ih =>
    simp only [run]
    rw [step_frame (h e (by simp))]
    cases hr : step t st e with
    | error x => rfl
    | ok st1 =>
      simp only [mapOk]
      exact ih (fun ev hev => h ev (by simp [hev]))

end GtirbVerif.Asm

namespace GtirbVerif.Asm

/-! ### the pre-pass, characterised -/

def newLocals (k : Nat) : List Event → List (String × Nat)
  | [] => []
  | .label n :: es => (n, 2 * k + 1) :: newLocals (k + 1) es
  | _ :: es => newLocals k es

def labelsOf : List Event → List String
  | [] => []
  | .label n :: es => n :: labelsOf es
  | _ :: es => labelsOf es

theorem namesOf_newLocals (k : Nat) (c : List Event) : namesOf (newLocals k c) = labelsOf c := by
  induction c generalizing k with
  | nil => rfl
  | cons e es ih => cases e <;> simp [newLocals, labelsOf, namesOf, ← ih] <;> exact ih _

/-- the admission test of the pre-pass, on names only -/
def preCheck (t : Target) (ls us : List String) : List Event → Bool
  | [] => true
  | .label n :: es => !(ls.any (· == n) || us.any (· == n) || t.moduleSyms.any (·.1 == n)) && preCheck t (ls ++ [n]) us es
  | _ :: es => preCheck t ls us es

theorem any_names (l : List (String × Nat)) (n : String) : l.any (·.1 == n) = (namesOf l).any (· == n) := by
  simp [namesOf, List.any_map, Function.comp_def]

theorem precreate_char {t : Target} {c : List Event} {st r : AState} :
    precreate t st c = .ok r ↔ preCheck t (namesOf st.locals) (namesOf st.undefs) c = true ∧ r = withLocals st (newLocals st.locals.length c) := by
  induction c generalizing st with
  | nil => simp [precreate, preCheck, newLocals, withLocals]; exact eq_comm
  | cons e es ih =>
    cases e with
    | label n =>
      simp only [precreate, preCheck, newLocals]
      rw [any_names, any_names]
      split
      · rename_i hb
        simp [hb]
      · rename_i hb
        have hb' : ((namesOf st.locals).any (· == n) || (namesOf st.undefs).any (· == n) || t.moduleSyms.any (·.1 == n)) = false := by
          cases hx : ((namesOf st.locals).any (· == n) || (namesOf st.undefs).any (· == n) || t.moduleSyms.any (·.1 == n))
          · rfl
          · exact absurd hx hb
        rw [ih, hb']
        simp only [Bool.not_false, Bool.true_and, List.length_append, List.length_singleton, namesOf, List.map_append, List.map_cons, List.map_nil]
        constructor
        · rintro ⟨h1, h2⟩
          refine ⟨h1, ?_⟩
          rw [h2]; simp [withLocals]
        · rintro ⟨h1, h2⟩
          refine ⟨h1, ?_⟩
          rw [h2]; simp [withLocals]
    | «section» a b => simpa [precreate, preCheck, newLocals] using ih
    | insn a b c d => simpa [precreate, preCheck, newLocals] using ih
    | value a b => simpa [precreate, preCheck, newLocals] using ih
    | rawBytes a => simpa [precreate, preCheck, newLocals] using ih
    | strBytes a b => simpa [precreate, preCheck, newLocals] using ih
    | fill a => simpa [precreate, preCheck, newLocals] using ih
    | align a => simpa [precreate, preCheck, newLocals] using ih
    | leb a b => simpa [precreate, preCheck, newLocals] using ih
    | cfi => simpa [precreate, preCheck, newLocals] using ih

theorem preCheck_append (t : Target) (ls us : List String) (c1 c2 : List Event) :
    preCheck t ls us (c1 ++ c2) = (preCheck t ls us c1 && preCheck t (ls ++ labelsOf c1) us c2) := by
  induction c1 generalizing ls with
  | nil => simp [preCheck, labelsOf]
  | cons e es ih =>
    cases e <;> simp only [List.cons_append, preCheck, labelsOf, ih]
    case label n => simp [Bool.and_assoc]

theorem newLocals_append (k : Nat) (c1 c2 : List Event) :
    newLocals k (c1 ++ c2) = newLocals k c1 ++ newLocals (k + (labelsOf c1).length) c2 := by
  induction c1 generalizing k with
  | nil => simp [newLocals, labelsOf]
  | cons e es ih =>
    cases e <;> simp only [List.cons_append, newLocals, labelsOf, ih]
    case label n =>
      simp only [List.length_cons, List.cons.injEq, true_and, List.append_cancel_left_eq]
      have : k + 1 + (labelsOf es).length = k + ((labelsOf es).length + 1) := by omega
      rw [this]

/-- names added to `us` that no label of the chunk carries do not change the admission test -/
theorem preCheck_extra (t : Target) (ls us extra : List String) (c : List Event) (h : ∀ n ∈ extra, n ∉ labelsOf c) :
    preCheck t ls (us ++ extra) c = preCheck t ls us c := by
  induction c generalizing ls with
  | nil => rfl
  | cons e es ih =>
    cases e with
    | label n =>
      simp only [preCheck]
      have hn : extra.any (· == n) = false := by
        rw [List.any_eq_false]
        intro x hx hc
        have : x = n := by simpa using hc
        exact h n (this ▸ hx) (by simp [labelsOf])
      rw [ih _ (fun m hm hl => h m hm (by simp [labelsOf, hl]))]
      simp [List.any_append, hn]
    | «section» a b => exact ih _ (fun m hm hl => h m hm (by simpa [labelsOf] using hl))
    | insn a b c d => exact ih _ (fun m hm hl => h m hm (by simpa [labelsOf] using hl))
    | value a b => exact ih _ (fun m hm hl => h m hm (by simpa [labelsOf] using hl))
    | rawBytes a => exact ih _ (fun m hm hl => h m hm (by simpa [labelsOf] using hl))
    | strBytes a b => exact ih _ (fun m hm hl => h m hm (by simpa [labelsOf] using hl))
    | fill a => exact ih _ (fun m hm hl => h m hm (by simpa [labelsOf] using hl))
    | align a => exact ih _ (fun m hm hl => h m hm (by simpa [labelsOf] using hl))
    | leb a b => exact ih _ (fun m hm hl => h m hm (by simpa [labelsOf] using hl))
    | cfi => exact ih _ (fun m hm hl => h m hm (by simpa [labelsOf] using hl))

theorem run_append (t : Target) (st : AState) (c1 c2 : List Event) :
    run t st (c1 ++ c2) = (match run t st c1 with | .ok s => run t s c2 | .error e => .error e) := by
  induction c1 generalizing st with
  | nil => rfl
  | cons e es ih =>
    simp only [List.cons_append, run]
    cases step t st e with
    | error x => rfl
    | ok st1 => exact ih st1

end GtirbVerif.Asm

namespace GtirbVerif.Asm

/-! ### streaming never touches the local labels and only adds mentioned names as undefined symbols -/

def Grows (M : List String) (st st' : AState) : Prop :=
  st'.locals = st.locals ∧ ∃ extra, st'.undefs = st.undefs ++ extra ∧ ∀ n ∈ namesOf extra, n ∈ M

theorem Grows.of_eq {M : List String} {st st' : AState} (h1 : st'.locals = st.locals) (h2 : st'.undefs = st.undefs) : Grows M st st' :=
  ⟨h1, [], by simp [h2], by simp [namesOf]⟩

theorem Grows.trans {M : List String} {a b c : AState} (h1 : Grows M a b) (h2 : Grows M b c) : Grows M a c := by
  obtain ⟨l1, e1, u1, m1⟩ := h1
  obtain ⟨l2, e2, u2, m2⟩ := h2
  refine ⟨by rw [l2, l1], e1 ++ e2, by rw [u2, u1, List.append_assoc], ?_⟩
  intro n hn
  simp only [namesOf, List.map_append, List.mem_append] at hn
  rcases hn with hn | hn
  · exact m1 n hn
  · exact m2 n hn

theorem Grows.mono {M M' : List String} {a b : AState} (h : Grows M a b) (hm : ∀ n ∈ M, n ∈ M') : Grows M' a b := by
  obtain ⟨l1, e1, u1, m1⟩ := h
  exact ⟨l1, e1, u1, fun n hn => hm n (m1 n hn)⟩

theorem resolveRef_grows {t : Target} {st st' : AState} {n : String} (h : resolveRef t st n = .ok st') : Grows [n] st st' := by
  unfold resolveRef at h
  split at h
  · injection h with h; rw [← h]; exact Grows.of_eq rfl rfl
  · split at h
    · cases h
    · injection h with h; rw [← h]
      exact ⟨rfl, [(n, st.next)], rfl, by simp [namesOf]⟩

theorem resolveFix_grows {t : Target} {st st' : AState} {f : Fixup} (h : resolveFix t st f = .ok st') : Grows (fixNames f) st st' := by
  unfold resolveFix at h
  split at h
  · cases h
  · rename_i st1 h1
    have g1 := (resolveRef_grows h1).mono (M' := fixNames f) (by intro n hn; simp at hn; rw [hn]; unfold fixNames; split <;> simp)
    split at h
    · injection h with h; rw [← h]; exact g1
    · rename_i h2
      exact g1.trans ((resolveRef_grows h).mono (by intro n hn; simp at hn; rw [hn]; unfold fixNames; simp [h2]))

theorem resolveFixups_grows {t : Target} {fx : List Fixup} {st st' : AState} (h : resolveFixups t st fx = .ok st') :
    Grows (fx.flatMap fixNames) st st' := by
  induction fx generalizing st with
  | nil => simp [resolveFixups] at h; rw [← h]; exact Grows.of_eq rfl rfl
  | cons f fs ih =>
    simp only [resolveFixups] at h
    split at h
    · cases h
    · rename_i st1 h1
      exact ((resolveFix_grows h1).mono (by intro n hn; simp [List.flatMap_cons, hn])).trans
        ((ih h).mono (by intro n hn; simp only [List.flatMap_cons, List.mem_append]; exact Or.inr hn))

theorem resolveTarget_grows {t : Target} {st st' : AState} {n : String} {nd : Node} (h : resolveTarget t st n = .ok (st', nd)) :
    Grows [n] st st' := by
  unfold resolveTarget at h
  split at h
  · injection h with h; injection h with h1 h2; rw [← h1]; exact Grows.of_eq rfl rfl
  · split at h
    · injection h with h; injection h with h1 h2; rw [← h1]; exact Grows.of_eq rfl rfl
    · split at h
      · split at h
        · injection h with h; injection h with h1 h2; rw [← h1]; exact Grows.of_eq rfl rfl
        · cases h
      · split at h
        · cases h
        · injection h with h; injection h with h1 h2; rw [← h1]
          exact ⟨rfl, [(n, st.next)], rfl, by simp [namesOf]⟩

theorem insnTarget_grows {t : Target} {st st' : AState} {ind : Bool} {fx : List Fixup} {nd : Node} {d : Bool}
    (h : insnTarget t st ind fx = .ok (st', nd, d)) : Grows (fx.flatMap fixNames) st st' := by
  unfold insnTarget at h
  split at h
  · injection h with h; injection h with h1 h2; rw [← h1]; exact Grows.of_eq rfl rfl
  · split at h
    · rename_i f
      split at h
      · cases h
      · cases hr : resolveTarget t st f.sym with
        | error e => rw [hr] at h; cases h
        | ok r =>
          obtain ⟨a, n⟩ := r
          rw [hr] at h
          simp only [Except.map] at h
          injection h with h; injection h with h1 h2
          rw [← h1]
          exact (resolveTarget_grows hr).mono (by intro m hm; simp at hm; rw [hm]; simp [fixNames]; split <;> simp)
    · cases h

theorem stepInsn_grows {t : Target} {st st' : AState} {s : ASect} {size : Nat} {kind : IKind} {ind : Bool} {fx : List Fixup}
    (h : stepInsn t st s size kind ind fx = .ok st') : Grows (fx.flatMap fixNames) st st' := by
  unfold stepInsn at h
  split at h
  · cases h
  · rename_i st0 h0
    have g0 := resolveFixups_grows h0
    split at h
    · injection h with h; rw [← h]; exact g0.trans (Grows.of_eq rfl rfl)
    · injection h with h; rw [← h]; exact g0.trans (Grows.of_eq rfl rfl)
    · simp only [] at h
      split at h
      · cases h
      · rename_i st2 tgt direct ht
        injection h with h; rw [← h]
        have g1 : Grows (fx.flatMap fixNames) st0 (markCode st0 (insnSect s size fx).curBlock.id) := Grows.of_eq rfl rfl
        exact (g0.trans (g1.trans (insnTarget_grows ht))).trans (Grows.of_eq rfl rfl)

theorem step_grows {t : Target} {st st' : AState} {ev : Event} (h : step t st ev = .ok st') : Grows ev.mentions st st' := by
  unfold step at h
  split at h
  · injection h with h; rw [← h]
    unfold stepSection
    split <;> exact Grows.of_eq rfl rfl
  · split at h
    · cases h
    · rename_i s hs
      unfold stepIn at h
      split at h
      · injection h with h; rw [← h]; exact Grows.of_eq rfl rfl
      · unfold stepLabel at h
        split at h
        · cases h
        · injection h with h; rw [← h]; exact Grows.of_eq rfl rfl
      · exact (stepInsn_grows h).mono (by intro n hn; simpa [Event.mentions] using hn)
      · unfold stepValue at h
        split at h
        · cases h
        · rename_i st0 h0
          injection h with h; rw [← h]
          exact ((resolveFix_grows h0).mono (by intro n hn; simpa [Event.mentions] using hn)).trans (Grows.of_eq rfl rfl)
      · injection h with h; rw [← h]; exact Grows.of_eq rfl rfl
      · injection h with h; rw [← h]; exact Grows.of_eq rfl rfl
      · injection h with h; rw [← h]
        unfold stepStr
        split <;> exact Grows.of_eq rfl rfl
      · unfold stepLeb at h
        split at h
        · cases h
        · rename_i st0 h0
          injection h with h; rw [← h]
          exact ((resolveFix_grows h0).mono (by intro n hn; simpa [Event.mentions] using hn)).trans (Grows.of_eq rfl rfl)
      · injection h with h; rw [← h]
        unfold stepAlign
        split <;> exact Grows.of_eq rfl rfl
      · injection h with h; rw [← h]; exact Grows.of_eq rfl rfl

theorem run_grows {t : Target} {evs : List Event} {st st' : AState} (h : run t st evs = .ok st') :
    Grows (evs.flatMap Event.mentions) st st' := by
  induction evs generalizing st with
  | nil => simp [run] at h; rw [← h]; exact Grows.of_eq rfl rfl
  | cons e es ih =>
    simp only [run] at h
    split at h
    · cases h
    · rename_i st1 h1
      exact ((step_grows h1).mono (by intro n hn; simp [List.flatMap_cons, hn])).trans
        ((ih h).mono (by intro n hn; simp only [List.flatMap_cons, List.mem_append]; exact Or.inr hn))

end GtirbVerif.Asm
