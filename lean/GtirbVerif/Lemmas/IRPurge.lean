import GtirbVerif.Lemmas.IRAnn
import GtirbVerif.Lemmas.IRFunc

/-!
# No aux-data table keeps a key for a block that left the module (model side of C05)
-/
namespace GtirbVerif.IR
open GtirbVerif.Adt (CfgNode Label Edge)

theorem joinAlignment_none (al : List (Nat × Nat)) (id1 id2 : Nat) (h : id2 ≠ id1) :
    alookup id2 (joinAlignment al id1 id2) = none := by
  unfold joinAlignment
  simp only []
  split
  · rw [alookup_aset_other _ _ _ _ h]; exact alookup_adel_same _ _
  · exact alookup_adel_same _ _

/-- the whole-block tables and alignment after `join_blocks`: block2 has no entry any more -/
theorem joinBlocks_purges {ir ir' : IR} {id1 id2 : Nat} {b1 b2 : Block}
    (h : ir.joinBlocks id1 id2 = .ok ir') (h1 : ir.block? id1 = some b1) (h2 : ir.block? id2 = some b2)
    (hne : id2 ≠ id1) :
    alookup id2 ir'.aux.alignment = none ∧
    (if b2.isCode then alookup id2 ir'.aux.profile = none ∧ alookup id2 ir'.aux.sccs = none
     else alookup id2 ir'.aux.types = none ∧ alookup id2 ir'.aux.encodings = none) := by
  have e1 : b1.id = id1 := findB_id h1
  unfold IR.joinBlocks at h
  rw [h1, h2] at h
  simp only [] at h
  split at h
  · cases h
  · split at h
    · cases h
    · injection h with h
      subst h
      constructor
      · show alookup id2 (joinAlignment _ b1.id id2) = none
        exact joinAlignment_none _ _ _ (by rw [e1]; exact hne)
      · cases hc : b2.isCode with
        | true =>
          simp only [if_true]
          constructor
          · show alookup id2 (adel id2 _) = none
            exact alookup_adel_same _ _
          · show alookup id2 (adel id2 _) = none
            exact alookup_adel_same _ _
        | false =>
          simp only [Bool.false_eq_true, if_false]
          constructor
          · show alookup id2 (adel id2 _) = none
            exact alookup_adel_same _ _
          · show alookup id2 (adel id2 _) = none
            exact alookup_adel_same _ _

/-- `remove_block` of a block that leaves the module purges it from alignment and from the
whole-block tables of its kind -/
theorem removeBlock_purges {ir ir' : IR} {b : Nat} {px : Bool} {blk : Block}
    (h : ir.removeBlock b px = .ok (ir', true)) (hb : ir.block? b = some blk) :
    alookup b ir'.aux.alignment = none ∧
    (if blk.isCode then alookup b ir'.aux.profile = none ∧ alookup b ir'.aux.sccs = none
     else alookup b ir'.aux.types = none ∧ alookup b ir'.aux.encodings = none) := by
  have hid : blk.id = b := findB_id hb
  unfold IR.removeBlock at h
  rw [hb] at h
  simp only [] at h
  split at h
  · cases h
  · split at h
    · rename_i hcan
      injection h with h; injection h with h1 h2; subst h1
      constructor
      · show alookup b (IR.removeStages _ _ _ _ _ _ _).aux.alignment = none
        unfold IR.removeStages
        rw [hcan]
        simp only [if_true]
        show alookup b (IR.removeOutEdges _ blk).aux.alignment = none
        rw [core_alignment (removeOutEdges_core _ _)]
        unfold IR.removeEntrypoints
        simp only [hid]
        exact alookup_adel_same _ _
      · cases hc : blk.isCode with
        | true =>
          simp only [if_true]
          constructor
          · show alookup b (IR.removeStages _ _ _ _ _ _ _).aux.profile = none
            unfold IR.removeStages IR.removeCfi IR.removeAuxEntries
            simp only [hc, if_true, hid]
            exact alookup_adel_same _ _
          · show alookup b (IR.removeStages _ _ _ _ _ _ _).aux.sccs = none
            unfold IR.removeStages IR.removeCfi IR.removeAuxEntries
            simp only [hc, if_true, hid]
            exact alookup_adel_same _ _
        | false =>
          simp only [Bool.false_eq_true, if_false]
          constructor
          · show alookup b (IR.removeStages _ _ _ _ _ _ _).aux.types = none
            unfold IR.removeStages IR.removeCfi IR.removeAuxEntries
            simp only [hc, Bool.false_eq_true, if_false, hid]
            exact alookup_adel_same _ _
          · show alookup b (IR.removeStages _ _ _ _ _ _ _).aux.encodings = none
            unfold IR.removeStages IR.removeCfi IR.removeAuxEntries
            simp only [hc, Bool.false_eq_true, if_false, hid]
            exact alookup_adel_same _ _
    · injection h with h; injection h with h1 h2; cases h2

end GtirbVerif.IR
