import GtirbVerif.Lemmas.Store

/-!
# `resolve_offsets` does not depend on the order in which it is handed the modifications

The modifications of a block reach `resolve_offsets` in the order of registration (block-keyed ones first,
then the scope-wide ones).  With distinct registration ids the answer depends on the *set* only: any
permutation of the list gives the same resolved list - what "registered in any order" needs of this step.
-/
namespace GtirbVerif.Store

/-- the offset `resolve_offsets` uses for a modification (0 where the scope has none: only used under `ok`) -/
def offOf (env : BlockEnv) (hd : Bool) (m : Mod) : Nat :=
  match firstOffset env hd m.scope with
  | .ok o => o
  | .error _ => 0

theorem offsetsOf_eq_map (env : BlockEnv) (hd : Bool) : ∀ (ms : List Mod) (l : List (Mod × Nat)),
    offsetsOf env hd ms = .ok l → l = ms.map (fun m => (m, offOf env hd m)) := by
  intro ms
  induction ms with
  | nil => intro l h; simp only [offsetsOf, Except.ok.injEq] at h; subst h; rfl
  | cons m r ih =>
    intro l h
    unfold offsetsOf at h
    split at h
    · cases h
    · rename_i off hoff
      split at h
      · cases h
      · rename_i rest hrest
        simp only [Except.ok.injEq] at h
        subst h
        rw [ih rest hrest]
        simp [offOf, hoff]

theorem offsetsOf_of_all_ok (env : BlockEnv) (hd : Bool) : ∀ (ms : List Mod),
    (∀ m ∈ ms, ∃ o, firstOffset env hd m.scope = .ok o) →
    offsetsOf env hd ms = .ok (ms.map (fun m => (m, offOf env hd m))) := by
  intro ms
  induction ms with
  | nil => intro _; rfl
  | cons m r ih =>
    intro h
    obtain ⟨o, ho⟩ := h m (List.mem_cons_self ..)
    unfold offsetsOf
    rw [ho, ih (fun x hx => h x (List.mem_cons_of_mem _ hx))]
    simp [offOf, ho]

theorem offsetsOf_all_ok (env : BlockEnv) (hd : Bool) : ∀ (ms : List Mod) (l : List (Mod × Nat)),
    offsetsOf env hd ms = .ok l → ∀ m ∈ ms, ∃ o, firstOffset env hd m.scope = .ok o := by
  intro ms
  induction ms with
  | nil => intro l _ m hm; cases hm
  | cons x r ih =>
    intro l h m hm
    unfold offsetsOf at h
    split at h
    · cases h
    · rename_i off hoff
      split at h
      · cases h
      · rename_i rest hrest
        rcases List.mem_cons.mp hm with rfl | hm
        · exact ⟨off, hoff⟩
        · exact ih rest hrest m hm

theorem Before.antisymm {a b : Mod × Nat} (h1 : Before a b) (h2 : Before b a) :
    a.2 = b.2 ∧ a.1.id = b.1.id := by
  unfold Before at *
  by_cases ha : replLen a.1.scope = 0 <;> by_cases hb : replLen b.1.scope = 0 <;> simp [ha, hb] at h1 h2 <;> omega

/-- sorting two permutations of a list with distinct registration ids gives one list -/
theorem sortK_perm_eq {l1 l2 : List (Mod × Nat)} (hp : l1.Perm l2)
    (hd : ∀ a ∈ l1, ∀ b ∈ l1, a.1.id = b.1.id → a = b) : sortK l1 = sortK l2 := by
  apply List.Perm.eq_of_pairwise (le := Before)
  · intro a b ha hb hab hba
    have ha1 : a ∈ l1 := (sortK_perm l1).mem_iff.mp ha
    have hb1 : b ∈ l1 := hp.mem_iff.mpr ((sortK_perm l2).mem_iff.mp hb)
    exact hd a ha1 b hb1 (Before.antisymm hab hba).2
  · exact sortK_sorted l1
  · exact sortK_sorted l2
  · exact (sortK_perm l1).trans (hp.trans (sortK_perm l2).symm)

theorem haveDisFor_perm {env : BlockEnv} {m1 m2 : List Mod} (hp : m1.Perm m2) : haveDisFor env m1 = haveDisFor env m2 := by
  unfold haveDisFor
  congr 1
  apply Bool.eq_iff_iff.mpr
  simp only [List.any_eq_true]
  constructor
  · rintro ⟨x, hx, h⟩; exact ⟨x, hp.mem_iff.mp hx, h⟩
  · rintro ⟨x, hx, h⟩; exact ⟨x, hp.mem_iff.mpr hx, h⟩

/-- **any order**: with distinct registration ids, `resolve_offsets` answers a permutation of its input with
the same list -/
theorem resolve_perm {env : BlockEnv} {m1 m2 : List Mod} {r : List (Mod × Nat)} (hp : m1.Perm m2)
    (hid : ∀ a ∈ m1, ∀ b ∈ m1, a.id = b.id → a = b) (h : resolveOffsets env m1 = .ok r) :
    resolveOffsets env m2 = .ok r := by
  have hdis := haveDisFor_perm (env := env) hp
  unfold haveDisFor at hdis
  unfold resolveOffsets at h ⊢
  simp only [] at h ⊢
  split at h
  · cases h
  · rename_i l1 hl1
    have e1 := offsetsOf_eq_map env _ m1 l1 hl1
    have ok1 := offsetsOf_all_ok env _ m1 l1 hl1
    have ok2 : ∀ m ∈ m2, ∃ o, firstOffset env (env.isCode && m2.any (fun m => needsDisassembly m.scope)) m.scope = .ok o := by
      intro m hm
      rw [← hdis]
      exact ok1 m (hp.mem_iff.mpr hm)
    rw [offsetsOf_of_all_ok env _ m2 ok2]
    simp only []
    have hperm : l1.Perm (m2.map (fun m => (m, offOf env (env.isCode && m2.any (fun m => needsDisassembly m.scope)) m))) := by
      rw [e1, ← hdis]
      exact hp.map _
    have hdist : ∀ a ∈ l1, ∀ b ∈ l1, a.1.id = b.1.id → a = b := by
      intro a ha b hb hab
      rw [e1] at ha hb
      obtain ⟨x, hx, rfl⟩ := List.mem_map.mp ha
      obtain ⟨y, hy, rfl⟩ := List.mem_map.mp hb
      have := hid x hx y hy hab
      subst this
      rfl
    rw [← sortK_perm_eq hperm hdist]
    exact h

end GtirbVerif.Store
