import GtirbVerif.Lemmas.IRCore

/-!
# Where symbols point after split / join / remove (model side of C02)

`IR.symPos ir y` is the place a symbol designates: (byte interval, offset inside it) — the
start of its block, or the end when `at_end`.  Splitting and joining blocks must not move any
symbol; removing a block must leave no symbol behind on it.
-/
namespace GtirbVerif.IR
open GtirbVerif.Adt (CfgNode Label Edge)

def Block.place (blk : Block) (atEnd : Bool) : Option (Nat × Nat) :=
  match blk.bi with
  | some i => some (i, blk.off + (if atEnd then blk.size else 0))
  | none => none

def IR.symPos (ir : IR) (y : Sym) : Option (Nat × Nat) :=
  match y.ref with
  | .block b => (ir.block? b).bind (·.place y.atEnd)
  | _ => none

theorem symPos_congr {a b : IR} (h : a.blocks = b.blocks) (y : Sym) : a.symPos y = b.symPos y := by
  unfold IR.symPos IR.block?; rw [h]

theorem findB_id {l : List Block} {i : Nat} {b : Block} (h : l.find? (·.id == i) = some b) : b.id = i := by
  have := List.find?_some h
  simpa using this

theorem findB_map_same (l : List Block) (i : Nat) (b nb : Block)
    (h : l.find? (·.id == i) = some b) (hid : nb.id = i) :
    (l.map (fun x => if x.id == nb.id then nb else x)).find? (·.id == i) = some nb := by
  induction l with
  | nil => simp at h
  | cons x xs ih =>
    simp only [List.map_cons, List.find?_cons]
    by_cases hx : x.id = i
    · simp [hx, hid]
    · have hx' : (x.id == nb.id) = false := by simp [hid, hx]
      simp only [hx', Bool.false_eq_true, if_false]
      have hx2 : (x.id == i) = false := by simp [hx]
      simp only [hx2]
      apply ih
      simpa [List.find?_cons, hx2] using h

theorem findB_map_other (l : List Block) (i j : Nat) (nb : Block) (hid : nb.id = i) (hj : j ≠ i) :
    (l.map (fun x => if x.id == nb.id then nb else x)).find? (·.id == j) = l.find? (·.id == j) := by
  induction l with
  | nil => rfl
  | cons x xs ih =>
    simp only [List.map_cons, List.find?_cons]
    by_cases hx : x.id = i
    · have : (x.id == nb.id) = true := by simp [hid, hx]
      simp only [this, if_true]
      have h1 : (nb.id == j) = false := by simp [hid]; exact fun h => hj h.symm
      have h2 : (x.id == j) = false := by simp [hx]; exact fun h => hj h.symm
      simp only [h1, h2]
      exact ih
    · have : (x.id == nb.id) = false := by simp [hid, hx]
      simp only [this, Bool.false_eq_true, if_false]
      by_cases hxj : x.id = j
      · simp [hxj]
      · have : (x.id == j) = false := by simp [hxj]
        simp only [this]
        exact ih

theorem block?_setBlock_same (ir : IR) (i : Nat) (b nb : Block) (h : ir.block? i = some b) (hid : nb.id = i) :
    (ir.setBlock nb).block? i = some nb := findB_map_same ir.blocks i b nb h hid

theorem block?_setBlock_other (ir : IR) (i j : Nat) (nb : Block) (hid : nb.id = i) (hj : j ≠ i) :
    (ir.setBlock nb).block? j = ir.block? j := findB_map_other ir.blocks i j nb hid hj

/-! ### split_block -/

/-- the symbol map of `split_block` -/
def splitSym (b nb : Nat) (s : Sym) : Sym :=
  if s.ref == .block b && s.atEnd then { s with ref := .block nb } else s

/-- blocks after a split, as a lookup -/
theorem splitBlocks_block? (ir : IR) (blk : Block) (b nb off : Nat) (hb : ir.block? b = some blk)
    (hfresh : ir.block? nb = none) (c : Nat) :
    (ir.splitBlocks blk nb off).block? c =
      if c = b then some { blk with size := off }
      else if c = nb then some { id := nb, isCode := blk.isCode, bi := blk.bi, off := blk.off + off, size := blk.size - off }
      else ir.block? c := by
  have hid : blk.id = b := findB_id hb
  unfold IR.splitBlocks IR.block?
  simp only [List.find?_append]
  have hne : nb ≠ b := by intro h; rw [h] at hfresh; rw [hfresh] at hb; cases hb
  by_cases hc : c = b
  · subst hc
    have := block?_setBlock_same ir c blk { blk with size := off } hb hid
    unfold IR.block? at this
    simp only [this, if_true]; rfl
  · have := block?_setBlock_other ir b c { blk with size := off } hid hc
    unfold IR.block? at this
    rw [this]
    simp only [hc, if_false]
    by_cases hn : c = nb
    · subst hn
      unfold IR.block? at hfresh
      simp [hfresh]
    · simp only [hn, if_false]
      cases hf : List.find? (fun x => x.id == c) ir.blocks with
      | some v => simp
      | none =>
        have : (nb == c) = false := by simp; exact fun h => hn h.symm
        simp [this]

/-- the state `split_block` returns: symbols and blocks -/
theorem splitBlock_core {ir ir' : IR} {b off nb : Nat} {added : Bool} {blk : Block}
    (h : ir.splitBlock b off = .ok (ir', nb, added)) (hb : ir.block? b = some blk) :
    nb = ir.next ∧ off ≤ blk.size ∧ ir'.syms = ir.syms.map (splitSym b nb) ∧
      ir'.blocks = (ir.splitBlocks blk nb off).blocks := by
  unfold IR.splitBlock at h
  rw [hb] at h
  simp only [] at h
  split at h
  · cases h
  · rename_i hoff
    split at h
    · cases h
    · injection h with h
      injection h with h1 h2
      injection h2 with h2 h3
      subst h2
      refine ⟨rfl, by omega, ?_, ?_⟩
      · rw [← h1]
        have : ∀ (s : Nat) (x : IR × Bool), ((x.1.splitTables b ir.next off).orderInsertAfter s b [ir.next]).syms = x.1.syms := by
          intro s x; rfl
        rw [this]
        split
        · rw [core_syms (splitCode_core _ _ _ _)]; rfl
        · rfl
      · rw [← h1]
        have : ∀ (s : Nat) (x : IR × Bool), ((x.1.splitTables b ir.next off).orderInsertAfter s b [ir.next]).blocks = x.1.blocks := by
          intro s x; rfl
        rw [this]
        split
        · rw [core_blocks (splitCode_core _ _ _ _)]; rfl
        · rfl

/-- **Splitting a block moves no symbol**: every symbol designates the same place afterwards
(end-of-block symbols follow the tail block). -/
theorem splitBlock_symPos {ir ir' : IR} {b off nb : Nat} {added : Bool} {blk : Block}
    (h : ir.splitBlock b off = .ok (ir', nb, added)) (hb : ir.block? b = some blk)
    (hfresh : ir.block? ir.next = none) (y : Sym) (pos : Nat × Nat) (hy : ir.symPos y = some pos) :
    ir'.symPos (splitSym b nb y) = some pos := by
  obtain ⟨hnb, hoff, _, hblocks⟩ := splitBlock_core h hb
  subst hnb
  rw [symPos_congr hblocks]
  have hne : ir.next ≠ b := by intro h; rw [h] at hfresh; rw [hfresh] at hb; cases hb
  unfold IR.symPos at hy ⊢
  unfold splitSym
  cases hr : y.ref with
  | none => rw [hr] at hy; cases hy
  | proxy p => rw [hr] at hy; cases hy
  | block c =>
    rw [hr] at hy
    simp only [] at hy
    by_cases hc : c = b
    · subst hc
      rw [hb] at hy
      simp only [Option.bind_some] at hy
      cases hae : y.atEnd with
      | true =>
        simp only [beq_self_eq_true, Bool.and_true, if_true]
        rw [splitBlocks_block? ir blk c ir.next off hb hfresh]
        simp only [hne, if_false, if_true, Option.bind_some]
        unfold Block.place at hy ⊢
        cases hbi : blk.bi with
        | none => rw [hbi] at hy; cases hy
        | some i =>
          rw [hbi] at hy
          simp only [hae, if_true] at hy ⊢
          rw [← hy]
          congr 2
          omega
      | false =>
        simp only [Bool.and_false, Bool.false_eq_true, if_false, hr]
        rw [splitBlocks_block? ir blk c ir.next off hb hfresh]
        simp only [if_true, Option.bind_some]
        unfold Block.place at hy ⊢
        cases hbi : blk.bi with
        | none => rw [hbi] at hy; cases hy
        | some i =>
          rw [hbi] at hy
          simp only [hae, Bool.false_eq_true, if_false] at hy ⊢
          exact hy
    · have : (Referent.block c == Referent.block b) = false := by simp [hc]
      simp only [this, Bool.false_and, Bool.false_eq_true, if_false, hr]
      rw [splitBlocks_block? ir blk b ir.next off hb hfresh]
      simp only [hc, if_false]
      by_cases hn : c = ir.next
      · subst hn; rw [hfresh] at hy; cases hy
      · simp only [hn, if_false]; exact hy

/-- after a split no end-of-block symbol is left on the head block: they all follow the tail
(this is what makes the later `join_blocks` of the head with non-empty blocks harmless) -/
theorem splitBlock_head_has_no_end_symbols {ir ir' : IR} {b off nb : Nat} {added : Bool} {blk : Block}
    (h : ir.splitBlock b off = .ok (ir', nb, added)) (hb : ir.block? b = some blk)
    (hfresh : ir.block? ir.next = none) :
    ∀ y ∈ ir'.syms, y.ref = .block b → y.atEnd = false := by
  obtain ⟨hnb, _, hsyms, _⟩ := splitBlock_core h hb
  intro y hy hr
  rw [hsyms] at hy
  obtain ⟨y0, _, rfl⟩ := List.mem_map.mp hy
  unfold splitSym at hr ⊢
  have hne : nb ≠ b := by
    intro hh; rw [hnb] at hh; rw [hh] at hfresh; rw [hfresh] at hb; cases hb
  split at hr
  · simp at hr; exact absurd hr hne
  · rename_i hc
    split
    · rename_i hc2; exact absurd hc2 hc
    · cases hae : y0.atEnd with
      | false => rfl
      | true => simp [hr, hae] at hc

/-! ### join_blocks -/

def joinSym (b1 : Block) (id2 : Nat) (s : Sym) : Sym :=
  if s.ref == .block id2 then
    { s with ref := .block b1.id, atEnd := if b1.size != 0 then true else s.atEnd }
  else s

theorem layoutJoinable_none {b1 b2 : Block} (h : layoutJoinable b1 b2 = none) :
    b1.bi = b2.bi ∧ b1.bi ≠ none ∧ b1.off + b1.size = b2.off := by
  unfold layoutJoinable at h
  split at h
  · cases h
  · split at h
    · cases h
    · split at h
      · cases h
      · split at h
        · cases h
        · rename_i h1 h2 h3 h4
          refine ⟨by simpa using h2, ?_, by simpa using h4⟩
          intro hn; rw [hn] at h3; simp at h3

theorem notJoinable_none {ir : IR} {b1 b2 : Block} (h : ir.notJoinable b1 b2 = none) :
    b1.bi = b2.bi ∧ b1.bi ≠ none ∧ b1.off + b1.size = b2.off ∧
    (b1.size = 0 ∨ ∀ y ∈ ir.syms, y.ref = .block b2.id → y.atEnd = true) := by
  unfold IR.notJoinable at h
  split at h
  · cases h
  · rename_i hl
    obtain ⟨a, b, c⟩ := layoutJoinable_none hl
    refine ⟨a, b, c, ?_⟩
    split at h
    · rename_i h5; left; simpa using h5
    · split at h
      · cases h
      · split at h
        · cases h
        · split at h
          · cases h
          · rename_i h7
            right
            intro y hy hr
            have : ¬ ((ir.refsTo b2.id).any (fun s => !s.atEnd)) = true := h7
            simp only [IR.refsTo, List.any_eq_true, List.mem_filter, not_exists, not_and] at this
            have := this y ⟨hy, by simp [hr]⟩
            simpa using this

/-- blocks are only joined when no label stands at the end of the first one, unless one of the two is empty:
a label at the end of block1 never ends up behind bytes of block2 -/
theorem notJoinable_none_end {ir : IR} {b1 b2 : Block} (h : ir.notJoinable b1 b2 = none) :
    b1.size = 0 ∨ b2.size = 0 ∨ ∀ y ∈ ir.syms, y.ref = .block b1.id → y.atEnd = false := by
  unfold IR.notJoinable at h
  split at h
  · cases h
  · split at h
    · rename_i h5; left; simpa using h5
    · split at h
      · cases h
      · rename_i h6
        by_cases hz : b2.size = 0
        · exact Or.inr (Or.inl hz)
        · right; right
          intro y hy hr
          have : ¬ ((ir.refsTo b1.id).any (·.atEnd)) = true := by
            intro hc; apply h6; simp [hz, hc]
          simp only [IR.refsTo, List.any_eq_true, List.mem_filter, not_exists, not_and] at this
          have := this y ⟨hy, by simp [hr]⟩
          simpa using this
theorem joinBlocks_core {ir ir' : IR} {id1 id2 : Nat} {b1 b2 : Block}
    (h : ir.joinBlocks id1 id2 = .ok ir') (h1 : ir.block? id1 = some b1) (h2 : ir.block? id2 = some b2) :
    ir.notJoinable b1 b2 = none ∧ ir'.syms = ir.syms.map (joinSym b1 id2) ∧
      ir'.blocks = ((ir.setBlock { b1 with size := b1.size + b2.size }).setBlock { b2 with bi := none }).blocks := by
  unfold IR.joinBlocks at h
  rw [h1, h2] at h
  simp only [] at h
  split at h
  · cases h
  · rename_i hj
    split at h
    · cases h
    · injection h with h
      subst h
      refine ⟨hj, ?_, ?_⟩
      · show (if b2.isCode then (ir.joinSyms b1 id2).joinCode b1 id2 b2.size else ir.joinSyms b1 id2).syms = _
        split
        · rw [core_syms (joinCode_core _ _ _ _)]; rfl
        · rfl
      · have hb : (if b2.isCode then (ir.joinSyms b1 id2).joinCode b1 id2 b2.size else ir.joinSyms b1 id2).blocks = ir.blocks := by
          split
          · rw [core_blocks (joinCode_core _ _ _ _)]; rfl
          · rfl
        unfold IR.setBlock IR.orderRemove IR.joinTables
        simp only [hb]

theorem some_pair_eq {i a b : Nat} (h : a = b) : (some (i, a) : Option (Nat × Nat)) = some (i, b) := by rw [h]

/-- **Joining two blocks moves no symbol** — provided no end-of-block symbol sits on block1
when block2 has bytes: `are_joinable` does not look at block1's `at_end` symbols, its callers
establish the premise by splitting first (`splitBlock_head_has_no_end_symbols`). -/
theorem joinBlocks_symPos {ir ir' : IR} {id1 id2 : Nat} {b1 b2 : Block}
    (h : ir.joinBlocks id1 id2 = .ok ir') (h1 : ir.block? id1 = some b1) (h2 : ir.block? id2 = some b2)
    (hne : id1 ≠ id2)
    (hend : b2.size = 0 ∨ ∀ y ∈ ir.syms, y.ref = .block id1 → y.atEnd = false)
    (y : Sym) (hy : y ∈ ir.syms) (pos : Nat × Nat) (hp : ir.symPos y = some pos) :
    ir'.symPos (joinSym b1 id2 y) = some pos := by
  obtain ⟨hj, _, hblocks⟩ := joinBlocks_core h h1 h2
  obtain ⟨hbi, hbin, hadj, hsym⟩ := notJoinable_none hj
  have e1 : b1.id = id1 := findB_id h1
  have e2 : b2.id = id2 := findB_id h2
  subst e1
  subst e2
  rw [symPos_congr hblocks]
  -- lookups after the two updates
  have hL1 : ((ir.setBlock { b1 with size := b1.size + b2.size }).setBlock { b2 with bi := none }).block? b1.id =
      some { b1 with size := b1.size + b2.size } := by
    rw [block?_setBlock_other _ b2.id b1.id { b2 with bi := none } rfl hne]
    exact block?_setBlock_same ir b1.id b1 { b1 with size := b1.size + b2.size } h1 rfl
  have hLo : ∀ c, c ≠ b1.id → c ≠ b2.id →
      ((ir.setBlock { b1 with size := b1.size + b2.size }).setBlock { b2 with bi := none }).block? c = ir.block? c := by
    intro c hc1 hc2
    rw [block?_setBlock_other _ b2.id c { b2 with bi := none } rfl hc2,
      block?_setBlock_other _ b1.id c { b1 with size := b1.size + b2.size } rfl hc1]
  unfold IR.symPos at hp ⊢
  unfold joinSym
  cases hr : y.ref with
  | none => rw [hr] at hp; cases hp
  | proxy p => rw [hr] at hp; cases hp
  | block c =>
    rw [hr] at hp
    simp only [] at hp
    by_cases hc2 : c = b2.id
    · subst hc2
      rw [h2] at hp
      simp only [beq_self_eq_true, if_true, hL1, Option.bind_some] at hp ⊢
      unfold Block.place at hp ⊢
      cases hb2 : b2.bi with
      | none => rw [hb2] at hp; cases hp
      | some i =>
        rw [hb2] at hp
        have hb1 : b1.bi = some i := by rw [hbi, hb2]
        simp only [hb1]
        simp only [] at hp
        rw [← hp]
        rcases hsym with hz | hall
        · simp only [hz, bne_self_eq_false, Bool.false_eq_true, if_false, Nat.zero_add]
          apply some_pair_eq; omega
        · have hae : y.atEnd = true := hall y hy hr
          by_cases hz : b1.size = 0
          · simp only [hz, bne_self_eq_false, Bool.false_eq_true, if_false, hae, if_true]
            apply some_pair_eq; omega
          · have hnz : (b1.size != 0) = true := by simp [hz]
            simp only [hnz, if_true, hae]
            apply some_pair_eq; omega
    · have hcne : (Referent.block c == Referent.block b2.id) = false := by simp [hc2]
      simp only [hcne, Bool.false_eq_true, if_false, hr]
      by_cases hc1 : c = b1.id
      · subst hc1
        rw [h1] at hp
        simp only [hL1, Option.bind_some] at hp ⊢
        unfold Block.place at hp ⊢
        cases hb1 : b1.bi with
        | none => rw [hb1] at hp; cases hp
        | some i =>
          rw [hb1] at hp
          simp only [] at hp ⊢
          rw [← hp]
          rcases hend with hz | hno
          · simp [hz]
          · have := hno y hy hr
            simp [this]
      · rw [hLo c hc1 hc2]; exact hp

/-! ### remove_block -/

def removeSym (b : Nat) (t : Referent × Bool) (s : Sym) : Sym :=
  if s.ref == .block b then { s with ref := t.1, atEnd := t.2 } else s

theorem removeStages_syms (ir : IR) (blk : Block) (t c : Bool) (px p n : Option Nat) :
    (ir.removeStages blk t c px p n).syms =
      if c then ir.syms.map (removeSym blk.id (removeTarget px n p)) else ir.syms := by
  unfold IR.removeStages
  have h : ∀ x : IR, (((x.removeOutEdges blk).removeAuxEntries blk).removeCfi blk.id (ir.requiredCfi blk) p n
      (ir.isCodeBlockId p) (ir.isCodeBlockId n)).syms = x.syms := by
    intro x
    rw [removeCfi_syms, removeAuxEntries_syms, core_syms (removeOutEdges_core _ _)]
  simp only [h]
  split
  · rw [removeEntrypoints_syms, core_syms (removeFunctions_core _ _ _ _),
      core_syms (removeInEdges_core _ _ _ _ _)]
    rfl
  · rfl

@[simp] theorem keepEmpty_syms (ir : IR) (blk : Block) : (ir.keepEmpty blk).syms = ir.syms := by
  unfold IR.keepEmpty; simp only []; split <;> rfl

/-- **where the symbols of a removed block go**: to the fresh proxy when `retarget_to_proxy`,
else to the start of the next block, else to the end of the previous one; a block that has to
stay (zero-sized) keeps its symbols. -/
theorem removeBlock_syms {ir ir' : IR} {b : Nat} {px r : Bool} {blk : Block}
    (h : ir.removeBlock b px = .ok (ir', r)) (hb : ir.block? b = some blk) :
    ir'.syms = if r then
        ir.syms.map (removeSym b (removeTarget (if px then some ir.next else none) (ir.adjacent blk).2 (ir.adjacent blk).1))
      else ir.syms := by
  have hid : blk.id = b := findB_id hb
  unfold IR.removeBlock at h
  rw [hb] at h
  simp only [] at h
  split at h
  · cases h
  · split at h
    · rename_i hcan
      injection h with h; injection h with h1 h2; subst h1; subst h2
      show (IR.removeStages _ _ _ _ _ _ _).syms = _
      rw [removeStages_syms, hcan]
      simp only [if_true, hid]
      rw [core_syms (withProxy_core _ _)]
    · rename_i hcan
      injection h with h; injection h with h1 h2; subst h1; subst h2
      rw [keepEmpty_syms, removeStages_syms]
      have : (ir.withProxy px).canRemove blk px (ir.adjacent blk).1 (ir.adjacent blk).2
          ((ir.withProxy px).requiredCfi blk) = false := by simpa using hcan
      rw [this]
      simp only [Bool.false_eq_true, if_false]
      exact core_syms (withProxy_core _ _)

/-- **No symbol is left on a block that left the module** (unless the chosen target is the
block itself, which the block ordering excludes). -/
theorem removeBlock_no_dangling {ir ir' : IR} {b : Nat} {px : Bool} {blk : Block}
    (h : ir.removeBlock b px = .ok (ir', true)) (hb : ir.block? b = some blk)
    (ht : (removeTarget (if px then some ir.next else none) (ir.adjacent blk).2 (ir.adjacent blk).1).1 ≠ .block b) :
    ∀ y ∈ ir'.syms, y.ref ≠ .block b := by
  have hs := removeBlock_syms h hb
  simp only [if_true] at hs
  intro y hy
  rw [hs] at hy
  obtain ⟨y0, _, rfl⟩ := List.mem_map.mp hy
  unfold removeSym
  split
  · exact ht
  · rename_i hne; simpa using hne

end GtirbVerif.IR
