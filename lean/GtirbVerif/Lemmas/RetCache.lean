import GtirbVerif.Spec.AdtSpec

namespace GtirbVerif.Adt

theorem sdGet_sdPut (k k' : CfgNode) (v : List Edge) (d : SetDict) :
    sdGet k' (sdPut k v d) = if k' = k then some v else sdGet k' d := by
  induction d with
  | nil =>
    simp only [sdPut, sdGet]
    by_cases h : k = k'
    · subst h; simp
    · simp [h, Ne.symm h]
  | cons p r ih =>
    obtain ⟨a, b⟩ := p
    simp only [sdPut]
    by_cases h : a = k
    · subst h
      simp only [↓reduceIte, sdGet]
      by_cases h2 : a = k'
      · subst h2; simp
      · simp [h2, Ne.symm h2]
    · simp only [h, ↓reduceIte, sdGet, ih]
      by_cases h2 : a = k'
      · subst h2; simp [h]
      · simp only [h2, ↓reduceIte]

theorem sdGet_sdDel (k k' : CfgNode) (d : SetDict) :
    sdGet k' (sdDel k d) = if k' = k then none else sdGet k' d := by
  induction d with
  | nil => simp [sdDel, sdGet]
  | cons p r ih =>
    obtain ⟨a, b⟩ := p
    simp only [sdDel]
    by_cases h : a = k
    · subst h
      simp only [↓reduceIte, ih, sdGet]
      by_cases h2 : k' = a
      · simp [h2]
      · simp [h2, Ne.symm h2]
    · simp only [h, ↓reduceIte, sdGet, ih]
      by_cases h2 : a = k'
      · subst h2; simp [h]
      · simp [h2]

/-- a set-valued index agrees with a predicate over the edge set -/
def IndexOK (idx : SetDict) (edges : List Edge) (p : Edge → Bool) : Prop :=
  ∀ b : CfgNode,
    (∀ e, e ∈ (sdGet b idx).getD [] ↔ (e ∈ edges ∧ p e = true ∧ e.src = b)) ∧
    ((sdGet b idx).isSome = true ↔ ∃ e, e ∈ edges ∧ p e = true ∧ e.src = b) ∧
    ((sdGet b idx).getD []).Nodup

theorem indexOK_add {idx edges p} (h : IndexOK idx edges p) (e : Edge) (hp : p e = true) :
    IndexOK (sdAdd idx e.src e) (if e ∈ edges then edges else edges ++ [e]) p := by
  intro b
  have hb := h b
  have hmem : ∀ x, x ∈ (if e ∈ edges then edges else edges ++ [e]) ↔ (x ∈ edges ∨ x = e) := by
    intro x; split <;> simp_all
  unfold sdAdd
  cases hg : sdGet e.src idx with
  | none =>
    simp only [sdGet_sdPut]
    by_cases hbe : b = e.src
    · subst hbe
      have hnone : ∀ x, ¬ (x ∈ edges ∧ p x = true ∧ x.src = e.src) := by
        intro x hx
        have := (hb.1 x).mpr hx
        simp [hg] at this
      refine ⟨fun x => ?_, ?_, by simp⟩
      · simp only [↓reduceIte, Option.getD_some, List.mem_singleton, hmem]
        constructor
        · rintro rfl; exact ⟨Or.inr rfl, hp, rfl⟩
        · rintro ⟨hx | hx, h2, h3⟩
          · exact absurd ⟨hx, h2, h3⟩ (hnone x)
          · exact hx
      · simp only [↓reduceIte, Option.isSome_some, true_iff]
        exact ⟨e, (hmem e).mpr (Or.inr rfl), hp, rfl⟩
    · simp only [hbe, ↓reduceIte]
      refine ⟨fun x => ?_, ?_, hb.2.2⟩
      · rw [hb.1 x, hmem]
        constructor
        · rintro ⟨h1, h2, h3⟩; exact ⟨Or.inl h1, h2, h3⟩
        · rintro ⟨h1 | h1, h2, h3⟩
          · exact ⟨h1, h2, h3⟩
          · subst h1; exact absurd h3.symm hbe
      · rw [hb.2.1]
        constructor
        · rintro ⟨x, h1, h2, h3⟩; exact ⟨x, (hmem x).mpr (Or.inl h1), h2, h3⟩
        · rintro ⟨x, h1, h2, h3⟩
          rcases (hmem x).mp h1 with h1 | h1
          · exact ⟨x, h1, h2, h3⟩
          · subst h1; exact absurd h3.symm hbe
  | some s =>
    have hs := h e.src
    simp only [hg, Option.getD_some, Option.isSome_some, true_iff] at hs
    by_cases hin : e ∈ s
    · simp only [hin, ↓reduceIte]
      have he : e ∈ edges := ((hs.1 e).mp hin).1
      refine ⟨fun x => ?_, ?_, hb.2.2⟩
      · rw [hb.1 x, hmem]
        constructor
        · rintro ⟨h1, h2, h3⟩; exact ⟨Or.inl h1, h2, h3⟩
        · rintro ⟨h1 | h1, h2, h3⟩
          · exact ⟨h1, h2, h3⟩
          · subst h1; exact ⟨he, h2, h3⟩
      · rw [hb.2.1]
        constructor
        · rintro ⟨x, h1, h2, h3⟩; exact ⟨x, (hmem x).mpr (Or.inl h1), h2, h3⟩
        · rintro ⟨x, h1, h2, h3⟩
          rcases (hmem x).mp h1 with h1 | h1
          · exact ⟨x, h1, h2, h3⟩
          · subst h1; exact ⟨x, he, h2, h3⟩
    · simp only [hin, ↓reduceIte, sdGet_sdPut]
      by_cases hbe : b = e.src
      · subst hbe
        simp only [↓reduceIte, Option.getD_some, Option.isSome_some, true_iff, List.mem_append,
          List.mem_singleton]
        refine ⟨fun x => ?_, ⟨e, (hmem e).mpr (Or.inr rfl), hp, rfl⟩, ?_⟩
        · rw [hs.1 x, hmem]
          constructor
          · rintro (⟨h1, h2, h3⟩ | rfl)
            · exact ⟨Or.inl h1, h2, h3⟩
            · exact ⟨Or.inr rfl, hp, rfl⟩
          · rintro ⟨h1 | h1, h2, h3⟩
            · exact Or.inl ⟨h1, h2, h3⟩
            · exact Or.inr h1
        · rw [List.nodup_append]
          refine ⟨hs.2.2, by simp, ?_⟩
          intro a ha c hc
          simp only [List.mem_singleton] at hc
          subst hc
          intro hac; subst hac; exact hin ha
      · simp only [hbe, ↓reduceIte]
        refine ⟨fun x => ?_, ?_, hb.2.2⟩
        · rw [hb.1 x, hmem]
          constructor
          · rintro ⟨h1, h2, h3⟩; exact ⟨Or.inl h1, h2, h3⟩
          · rintro ⟨h1 | h1, h2, h3⟩
            · exact ⟨h1, h2, h3⟩
            · subst h1; exact absurd h3.symm hbe
        · rw [hb.2.1]
          constructor
          · rintro ⟨x, h1, h2, h3⟩; exact ⟨x, (hmem x).mpr (Or.inl h1), h2, h3⟩
          · rintro ⟨x, h1, h2, h3⟩
            rcases (hmem x).mp h1 with h1 | h1
            · exact ⟨x, h1, h2, h3⟩
            · subst h1; exact absurd h3.symm hbe

/-- adding an edge the predicate rejects does not concern the index -/
theorem indexOK_add_other {idx edges p} (h : IndexOK idx edges p) (e : Edge) (hp : p e = false) :
    IndexOK idx (if e ∈ edges then edges else edges ++ [e]) p := by
  intro b
  have hb := h b
  have hmem : ∀ x, x ∈ (if e ∈ edges then edges else edges ++ [e]) ↔ (x ∈ edges ∨ x = e) := by
    intro x; split <;> simp_all
  refine ⟨fun x => ?_, ?_, hb.2.2⟩
  · rw [hb.1 x, hmem]
    constructor
    · rintro ⟨h1, h2, h3⟩; exact ⟨Or.inl h1, h2, h3⟩
    · rintro ⟨h1 | h1, h2, h3⟩
      · exact ⟨h1, h2, h3⟩
      · subst h1; simp [hp] at h2
  · rw [hb.2.1]
    constructor
    · rintro ⟨x, h1, h2, h3⟩; exact ⟨x, (hmem x).mpr (Or.inl h1), h2, h3⟩
    · rintro ⟨x, h1, h2, h3⟩
      rcases (hmem x).mp h1 with h1 | h1
      · exact ⟨x, h1, h2, h3⟩
      · subst h1; simp [hp] at h2

theorem indexOK_discard_other {idx edges p} (h : IndexOK idx edges p) (e : Edge) (hp : p e = false) :
    IndexOK idx (edges.filter (· != e)) p := by
  intro b
  have hb := h b
  have hmem : ∀ x, x ∈ edges.filter (· != e) ↔ (x ∈ edges ∧ x ≠ e) := by
    intro x; simp
  refine ⟨fun x => ?_, ?_, hb.2.2⟩
  · rw [hb.1 x, hmem]
    constructor
    · rintro ⟨h1, h2, h3⟩
      refine ⟨⟨h1, ?_⟩, h2, h3⟩
      rintro rfl; simp [hp] at h2
    · rintro ⟨⟨h1, _⟩, h2, h3⟩; exact ⟨h1, h2, h3⟩
  · rw [hb.2.1]
    constructor
    · rintro ⟨x, h1, h2, h3⟩
      refine ⟨x, (hmem x).mpr ⟨h1, ?_⟩, h2, h3⟩
      rintro rfl; simp [hp] at h2
    · rintro ⟨x, h1, h2, h3⟩; exact ⟨x, ((hmem x).mp h1).1, h2, h3⟩

theorem indexOK_discard {idx edges p} (h : IndexOK idx edges p) (e : Edge) :
    IndexOK (sdDiscard idx e.src e) (edges.filter (· != e)) p := by
  intro b
  have hb := h b
  have hs := h e.src
  have hmem : ∀ x, x ∈ edges.filter (· != e) ↔ (x ∈ edges ∧ x ≠ e) := by
    intro x; simp
  unfold sdDiscard
  simp only []
  have hfilt : ∀ x, x ∈ ((sdGet e.src idx).getD []).filter (· != e) ↔
      (x ∈ edges ∧ p x = true ∧ x.src = e.src) ∧ x ≠ e := by
    intro x; simp [hs.1 x]
  split
  · rename_i hempty
    have hnone : ∀ x, ¬ ((x ∈ edges ∧ p x = true ∧ x.src = e.src) ∧ x ≠ e) := by
      intro x hx
      have := (hfilt x).mpr hx
      rw [List.isEmpty_iff.mp hempty] at this
      simp at this
    simp only [sdGet_sdDel]
    by_cases hbe : b = e.src
    · subst hbe
      simp only [↓reduceIte, Option.getD_none, List.not_mem_nil, false_iff, Option.isSome_none,
        Bool.false_eq_true, List.nodup_nil, and_true]
      refine ⟨fun x hx => ?_, fun ⟨x, h1, h2, h3⟩ => ?_⟩
      · rw [hmem] at hx
        exact hnone x ⟨⟨hx.1.1, hx.2.1, hx.2.2⟩, hx.1.2⟩
      · rw [hmem] at h1
        exact hnone x ⟨⟨h1.1, h2, h3⟩, h1.2⟩
    · simp only [hbe, ↓reduceIte]
      refine ⟨fun x => ?_, ?_, hb.2.2⟩
      · rw [hb.1 x, hmem]
        constructor
        · rintro ⟨h1, h2, h3⟩
          refine ⟨⟨h1, ?_⟩, h2, h3⟩
          rintro rfl; exact hbe h3.symm
        · rintro ⟨⟨h1, _⟩, h2, h3⟩; exact ⟨h1, h2, h3⟩
      · rw [hb.2.1]
        constructor
        · rintro ⟨x, h1, h2, h3⟩
          refine ⟨x, (hmem x).mpr ⟨h1, ?_⟩, h2, h3⟩
          rintro rfl; exact hbe h3.symm
        · rintro ⟨x, h1, h2, h3⟩; exact ⟨x, ((hmem x).mp h1).1, h2, h3⟩
  · rename_i hne
    simp only [sdGet_sdPut]
    by_cases hbe : b = e.src
    · subst hbe
      simp only [↓reduceIte, Option.getD_some, Option.isSome_some, true_iff]
      refine ⟨fun x => ?_, ?_, hs.2.2.filter _⟩
      · rw [hfilt x, hmem]
        constructor
        · rintro ⟨⟨h1, h2, h3⟩, h4⟩; exact ⟨⟨h1, h4⟩, h2, h3⟩
        · rintro ⟨⟨h1, h4⟩, h2, h3⟩; exact ⟨⟨h1, h2, h3⟩, h4⟩
      · have : ∃ x, x ∈ ((sdGet e.src idx).getD []).filter (· != e) := by
          cases hl : ((sdGet e.src idx).getD []).filter (· != e) with
          | nil => simp [hl] at hne
          | cons x _ => exact ⟨x, by simp⟩
        obtain ⟨x, hx⟩ := this
        have := (hfilt x).mp hx
        exact ⟨x, (hmem x).mpr ⟨this.1.1, this.2⟩, this.1.2.1, this.1.2.2⟩
    · simp only [hbe, ↓reduceIte]
      refine ⟨fun x => ?_, ?_, hb.2.2⟩
      · rw [hb.1 x, hmem]
        constructor
        · rintro ⟨h1, h2, h3⟩
          refine ⟨⟨h1, ?_⟩, h2, h3⟩
          rintro rfl; exact hbe h3.symm
        · rintro ⟨⟨h1, _⟩, h2, h3⟩; exact ⟨h1, h2, h3⟩
      · rw [hb.2.1]
        constructor
        · rintro ⟨x, h1, h2, h3⟩
          refine ⟨x, (hmem x).mpr ⟨h1, ?_⟩, h2, h3⟩
          rintro rfl; exact hbe h3.symm
        · rintro ⟨x, h1, h2, h3⟩; exact ⟨x, ((hmem x).mp h1).1, h2, h3⟩

/-- the cache invariant: both indices are scans of the edge set -/
structure RetInv (c : RetCache) : Prop where
  nodup : c.edges.Nodup
  ret : IndexOK c.ret c.edges (fun e => e.isReturn)
  pret : IndexOK c.pret c.edges (fun e => e.isReturn && e.toProxy)

theorem retInv_empty : RetInv {} := by
  refine ⟨by simp, ?_, ?_⟩ <;> intro b <;> simp [sdGet]

theorem nodup_addEdge {edges : List Edge} (h : edges.Nodup) (e : Edge) :
    (if e ∈ edges then edges else edges ++ [e]).Nodup := by
  split
  · exact h
  · rename_i hin
    rw [List.nodup_append]
    refine ⟨h, by simp, ?_⟩
    intro a ha c hc
    simp only [List.mem_singleton] at hc
    subst hc
    intro hac; subst hac; exact hin ha

theorem retInv_add {c : RetCache} (h : RetInv c) (e : Edge) : RetInv (c.add e) := by
  unfold RetCache.add
  by_cases hr : e.isReturn = true
  · simp only [hr, ↓reduceIte]
    refine ⟨nodup_addEdge h.nodup e, indexOK_add h.ret e hr, ?_⟩
    by_cases hp : e.toProxy = true
    · simp only [hp, ↓reduceIte]
      exact indexOK_add h.pret e (by simp [hr, hp])
    · simp only [hp]
      exact indexOK_add_other h.pret e (by simp [hp])
  · have hr' : e.isReturn = false := by simpa using hr
    simp only [hr', Bool.false_eq_true, ↓reduceIte]
    exact ⟨nodup_addEdge h.nodup e, indexOK_add_other h.ret e hr',
      indexOK_add_other h.pret e (by simp [hr'])⟩

theorem retInv_discard {c : RetCache} (h : RetInv c) (e : Edge) : RetInv (c.discard e) := by
  unfold RetCache.discard
  by_cases hr : e.isReturn = true
  · simp only [hr, ↓reduceIte]
    refine ⟨h.nodup.filter _, indexOK_discard h.ret e, ?_⟩
    by_cases hp : e.toProxy = true
    · simp only [hp, ↓reduceIte]
      exact indexOK_discard h.pret e
    · simp only [hp]
      exact indexOK_discard_other h.pret e (by simp [hp])
  · have hr' : e.isReturn = false := by simpa using hr
    simp only [hr', Bool.false_eq_true, ↓reduceIte]
    exact ⟨h.nodup.filter _, indexOK_discard_other h.ret e hr',
      indexOK_discard_other h.pret e (by simp [hr'])⟩

theorem retInv_update {c : RetCache} (h : RetInv c) (es : List Edge) : RetInv (c.update es) := by
  unfold RetCache.update
  induction es generalizing c with
  | nil => exact h
  | cons e es ih => exact ih (retInv_add h e)

theorem retInv_step {c : RetCache} (h : RetInv c) (op : RetOp) : RetInv (c.step op) := by
  cases op with
  | add e => exact retInv_add h e
  | discard e => exact retInv_discard h e
  | clear => exact retInv_empty
  | update es => exact retInv_update h es

/-- the edge component of the cache is a plain edge set under the same ops -/
theorem edges_add (c : RetCache) (e : Edge) : (c.add e).edges = cfgStep c.edges (.add e) := by
  simp only [RetCache.add, cfgStep]
  by_cases hr : e.isReturn = true <;> simp [hr]

theorem edges_discard (c : RetCache) (e : Edge) :
    (c.discard e).edges = cfgStep c.edges (.discard e) := by
  simp only [RetCache.discard, cfgStep]
  by_cases hr : e.isReturn = true <;> simp [hr]

theorem edges_update (c : RetCache) (es : List Edge) :
    (c.update es).edges = cfgStep c.edges (.update es) := by
  simp only [RetCache.update, cfgStep]
  induction es generalizing c with
  | nil => rfl
  | cons e es ih =>
    simp only [List.foldl_cons]
    rw [ih (c.add e), edges_add]
    rfl

theorem edges_step (c : RetCache) (op : RetOp) : (c.step op).edges = cfgStep c.edges op := by
  cases op with
  | add e => exact edges_add c e
  | discard e => exact edges_discard c e
  | clear => rfl
  | update es => exact edges_update c es

end GtirbVerif.Adt
