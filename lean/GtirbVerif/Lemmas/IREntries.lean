import GtirbVerif.Lemmas.IRMirror

/-!
# Entries are blocks of their function — over whole rewrites

`EntSub`: every block `functionEntries` lists for a function is listed by `functionBlocks` for it.
Only `remove_function_block_aux` (drops the block from both tables) and the entry promotion of
`remove_block` (the next block, of the same function, becomes an entry) write the entry table;
`add_function_block_aux` only adds to the block table.
-/
namespace GtirbVerif.IR
open GtirbVerif.Adt (CfgNode Label Edge)

/-! ### which steps touch `functionEntries` -/

theorem foldl_funcEntries {α} (f : IR → α → IR) (h : ∀ ir a, (f ir a).aux.funcEntries = ir.aux.funcEntries)
    (l : List α) (ir : IR) : (l.foldl f ir).aux.funcEntries = ir.aux.funcEntries := by
  induction l generalizing ir with
  | nil => rfl
  | cons a l ih => simp only [List.foldl_cons]; rw [ih, h]

theorem ite_funcEntries {c : Prop} [Decidable c] {a b : IR} {x : List (Nat × List Nat)}
    (ha : a.aux.funcEntries = x) (hb : b.aux.funcEntries = x) : (if c then a else b).aux.funcEntries = x := by
  split <;> assumption

theorem foldl_pair_funcEntries {α β} (f : IR × β → α → IR × β)
    (h : ∀ acc a, (f acc a).1.aux.funcEntries = acc.1.aux.funcEntries)
    (l : List α) (acc : IR × β) : (l.foldl f acc).1.aux.funcEntries = acc.1.aux.funcEntries := by
  induction l generalizing acc with
  | nil => rfl
  | cons a l ih => simp only [List.foldl_cons]; rw [ih, h]


@[simp] theorem setBlock_funcEntries (ir : IR) (b : Block) : (ir.setBlock b).aux.funcEntries = ir.aux.funcEntries := rfl

@[simp] theorem updateEdge_funcEntries (ir : IR) (e e' : Edge) : (ir.updateEdge e e').aux.funcEntries = ir.aux.funcEntries := rfl

@[simp] theorem orderInsertAfter_funcEntries (ir : IR) (s a : Nat) (bs : List Nat) :
    (ir.orderInsertAfter s a bs).aux.funcEntries = ir.aux.funcEntries := rfl

@[simp] theorem orderRemove_funcEntries (ir : IR) (s b : Nat) : (ir.orderRemove s b).aux.funcEntries = ir.aux.funcEntries := rfl

@[simp] theorem orderAppend_funcEntries (ir : IR) (s : Nat) (bs : List Nat) :
    (ir.orderAppend s bs).aux.funcEntries = ir.aux.funcEntries := by
  unfold IR.orderAppend; split <;> rfl

@[simp] theorem moveReturnEdges_funcEntries (ir : IR) (ce : Edge) (ft : List Nat) (nf : Nat) :
    (ir.moveReturnEdges ce ft nf).aux.funcEntries = ir.aux.funcEntries := by
  unfold IR.moveReturnEdges
  split
  · rfl
  · split
    · rfl
    · apply foldl_funcEntries
      intro ir tb
      apply foldl_funcEntries
      intro ir e
      split
      · split <;> simp
      · rfl

@[simp] theorem updateFallthrough_funcEntries (ir : IR) (s t : Nat) :
    (ir.updateFallthrough s t).aux.funcEntries = ir.aux.funcEntries := by
  unfold IR.updateFallthrough
  simp only []
  apply foldl_funcEntries
  intro ir e
  split
  · simp
  · split <;> rfl

@[simp] theorem removeReturnEdgesFromCallee_funcEntries (ir : IR) (ce : Edge) (ft : List Nat) :
    (ir.removeReturnEdgesFromCallee ce ft).aux.funcEntries = ir.aux.funcEntries := by
  unfold IR.removeReturnEdgesFromCallee
  split
  · rfl
  · split
    · rfl
    · apply foldl_funcEntries
      intro ir b
      simp only []
      split
      · rfl
      · have hfold : ∀ (rets : List Edge) (acc : IR × Bool),
            (rets.foldl (fun (acc : IR × Bool) e =>
              match e.dst with
              | .block t => if ft.contains t then ({ acc.1 with cfg := cfgDiscard acc.1.cfg e }, acc.2)
                            else (acc.1, true)
              | .proxy _ => (acc.1, true)) acc).1.aux.funcEntries = acc.1.aux.funcEntries := by
          intro rets acc
          apply foldl_pair_funcEntries
          intro acc e
          split
          · split <;> rfl
          · rfl
        split
        · exact hfold _ _
        · exact hfold _ _

@[simp] theorem addReturnEdgesToCallee_funcEntries (ir : IR) (pcfg : List Edge) (f : Nat) (rt : CfgNode) :
    (ir.addReturnEdgesToCallee pcfg f rt).1.aux.funcEntries = ir.aux.funcEntries := by
  unfold IR.addReturnEdgesToCallee
  apply foldl_pair_funcEntries
  intro acc b
  simp only []
  split
  · rfl
  · simp only []
    apply foldl_funcEntries
    intro ir e
    rfl

@[simp] theorem splitSyms_funcEntries (ir : IR) (b nb : Nat) : (ir.splitSyms b nb).aux.funcEntries = ir.aux.funcEntries := rfl

@[simp] theorem splitBlocks_funcEntries (ir : IR) (blk : Block) (nb off : Nat) :
    (ir.splitBlocks blk nb off).aux.funcEntries = ir.aux.funcEntries := rfl

@[simp] theorem splitTables_funcEntries (ir : IR) (b nb off : Nat) :
    (ir.splitTables b nb off).aux.funcEntries = ir.aux.funcEntries := rfl

@[simp] theorem addFall_funcEntries (ir : IR) (a b : Nat) : (ir.addFall a b).aux.funcEntries = ir.aux.funcEntries := rfl

@[simp] theorem splitEdgesMid_funcEntries (ir : IR) (b nb : Nat) :
    (ir.splitEdgesMid b nb).aux.funcEntries = ir.aux.funcEntries := by
  unfold IR.splitEdgesMid
  apply foldl_funcEntries; intro i e; rfl

@[simp] theorem splitEdgesEnd_funcEntries (ir : IR) (b nb : Nat) :
    (ir.splitEdgesEnd b nb).aux.funcEntries = ir.aux.funcEntries := by
  unfold IR.splitEdgesEnd
  apply foldl_funcEntries; intro i e
  split
  · simp
  · split <;> rfl

@[simp] theorem joinSyms_funcEntries (ir : IR) (b1 : Block) (id2 : Nat) :
    (ir.joinSyms b1 id2).aux.funcEntries = ir.aux.funcEntries := rfl

@[simp] theorem joinTables_funcEntries (ir : IR) (b1 : Block) (id2 : Nat) (c : Bool) :
    (ir.joinTables b1 id2 c).aux.funcEntries = ir.aux.funcEntries := rfl

@[simp] theorem removeSyms_funcEntries (ir : IR) (b : Nat) (t : Referent × Bool) :
    (ir.removeSyms b t).aux.funcEntries = ir.aux.funcEntries := rfl

@[simp] theorem removeAuxEntries_funcEntries (ir : IR) (blk : Block) :
    (ir.removeAuxEntries blk).aux.funcEntries = ir.aux.funcEntries := rfl

@[simp] theorem removeCfi_funcEntries (ir : IR) (b : Nat) (c : List CfiDir) (p n : Option Nat) (pc nc : Bool) :
    (ir.removeCfi b c p n pc nc).aux.funcEntries = ir.aux.funcEntries := rfl

@[simp] theorem removeInEdges_funcEntries (ir : IR) (blk : Block) (p n : Option Nat) (nc : Bool) :
    (ir.removeInEdges blk p n nc).aux.funcEntries = ir.aux.funcEntries := by
  unfold IR.removeInEdges
  split
  · rfl
  · split
    · apply foldl_funcEntries; intro i e; rfl
    · split
      · apply foldl_funcEntries; intro i e; rfl
      · simp only []
        rw [foldl_funcEntries _ (by intro i e; rfl)]

@[simp] theorem removeEntrypoints_funcEntries (ir : IR) (blk : Block) (n : Option Nat) (nc : Bool) :
    (ir.removeEntrypoints blk n nc).aux.funcEntries = ir.aux.funcEntries := by
  unfold IR.removeEntrypoints
  simp only []
  apply ite_funcEntries
  · exact ite_funcEntries (ite_funcEntries (ite_funcEntries rfl rfl) (ite_funcEntries rfl rfl))
      (ite_funcEntries (ite_funcEntries rfl rfl) (ite_funcEntries rfl rfl))
  · exact ite_funcEntries (ite_funcEntries (ite_funcEntries rfl rfl) (ite_funcEntries rfl rfl))
      (ite_funcEntries (ite_funcEntries rfl rfl) (ite_funcEntries rfl rfl))

@[simp] theorem removeOutEdges_funcEntries (ir : IR) (blk : Block) :
    (ir.removeOutEdges blk).aux.funcEntries = ir.aux.funcEntries := by
  unfold IR.removeOutEdges
  split
  · rfl
  · apply foldl_funcEntries; intro i e
    simp only []
    split <;> simp

@[simp] theorem keepEmpty_funcEntries (ir : IR) (blk : Block) : (ir.keepEmpty blk).aux.funcEntries = ir.aux.funcEntries := by
  unfold IR.keepEmpty; simp only []; split <;> rfl

@[simp] theorem withProxy_funcEntries (ir : IR) (t : Bool) : (ir.withProxy t).aux.funcEntries = ir.aux.funcEntries := by
  unfold IR.withProxy; split <;> rfl

@[simp] theorem connectEmptyTail_funcEntries (ir : IR) (t : Nat) : (ir.connectEmptyTail t).aux.funcEntries = ir.aux.funcEntries := by
  unfold IR.connectEmptyTail
  split
  · rfl
  · split
    · split
      · split <;> rfl
      · rfl
    · rfl

@[simp] theorem insertStitch_funcEntries (ir : IR) (tb : List Block) (b e : Nat) (a : Bool) :
    (ir.insertStitch tb b e a).aux.funcEntries = ir.aux.funcEntries := by
  unfold IR.insertStitch
  apply ite_funcEntries
  · simp only [updateFallthrough_funcEntries]; split <;> simp
  · split <;> simp

@[simp] theorem placePatchBlocks_funcEntries (ir : IR) (tb : List Block) (i base : Nat) :
    (ir.placePatchBlocks tb i base).aux.funcEntries = ir.aux.funcEntries := rfl

@[simp] theorem addPatchNodes_funcEntries (ir : IR) (p : Patch) (c : List Edge) (px : List Nat) :
    (ir.addPatchNodes p c px).aux.funcEntries = ir.aux.funcEntries := rfl

@[simp] theorem addPatchAux_funcEntries (ir : IR) (p : Patch) (i base : Nat) :
    (ir.addPatchAux p i base).aux.funcEntries = ir.aux.funcEntries := rfl

@[simp] theorem bumpNext_funcEntries (ir : IR) (p : Patch) : (ir.bumpNext p).aux.funcEntries = ir.aux.funcEntries := rfl

@[simp] theorem addReturnEdgesForPatchCalls_funcEntries (ir : IR) (pcfg : List Edge) :
    (ir.addReturnEdgesForPatchCalls pcfg).1.aux.funcEntries = ir.aux.funcEntries := by
  unfold IR.addReturnEdgesForPatchCalls
  apply foldl_pair_funcEntries
  intro acc ce
  split
  · rfl
  · split
    · rfl
    · split
      · rfl
      · split
        · rfl
        · simp

/-! ## the invariant -/


@[simp] theorem addFunctionBlock_funcEntries (ir : IR) (b f : Nat) : (ir.addFunctionBlock b f).aux.funcEntries = ir.aux.funcEntries := rfl

/-! ### the invariant -/

def IR.isEntry (ir : IR) (b f : Nat) : Prop := b ∈ (alookup f ir.aux.funcEntries).getD []

/-- every entry of a function is, by the cache, a block of that function -/
def EntC (ir : IR) : Prop := ∀ b f, ir.isEntry b f → alookup b ir.fbb = some f

/-- entries are a subset of blocks -/
def EntSub (ir : IR) : Prop := ∀ b f, ir.isEntry b f → ir.inFunc b f

theorem EntC.sub {ir : IR} (h : EntC ir) (hm : Mirror ir) : EntSub ir := fun b f he => (hm b f).mp (h b f he)
theorem EntSub.c {ir : IR} (h : EntSub ir) (hm : Mirror ir) : EntC ir := fun b f he => (hm b f).mpr (h b f he)

theorem EntC.of_same {a b : IR} (hf : b.fbb = a.fbb) (he : b.aux.funcEntries = a.aux.funcEntries) (h : EntC a) : EntC b := by
  intro c f hc
  unfold IR.isEntry at hc
  rw [he] at hc
  rw [hf]; exact h c f hc

theorem addFunctionBlock_entc (x : IR) (b f : Nat) (h : EntC x) (hnew : alookup b x.fbb = none) :
    EntC (x.addFunctionBlock b f) := by
  intro c g hc
  have hcg := h c g hc
  show alookup c (aset b f x.fbb) = some g
  by_cases hcb : c = b
  · subst hcb; rw [hnew] at hcg; cases hcg
  · rw [alookup_aset_other _ _ _ _ hcb]; exact hcg

theorem removeFunctionBlock_entc (x : IR) (b : Nat) (h : EntC x) : EntC (x.removeFunctionBlock b) := by
  unfold IR.removeFunctionBlock
  cases hb : alookup b x.fbb with
  | none => exact h
  | some f =>
    simp only []
    split
    · intro c g hc
      unfold IR.isEntry at hc
      simp only [] at hc
      rw [dropMember_lookup] at hc
      obtain ⟨hc1, hc2⟩ := hc
      have hcg := h c g hc1
      show alookup c (adel b x.fbb) = some g
      have hcb : c ≠ b := by
        intro he; subst he
        rw [hb] at hcg; injection hcg with hcg
        exact hc2 hcg.symm rfl
      rw [alookup_adel_other _ _ _ hcb]; exact hcg
    · intro c g hc
      unfold IR.isEntry at hc
      simp only [] at hc
      by_cases hg : g = f
      · subst hg; rw [alookup_adel_same] at hc; simp at hc
      · rw [alookup_adel_other _ _ _ hg, dropMember_lookup] at hc
        have hcg := h c g hc.1
        show alookup c (adel b x.fbb) = some g
        have hcb : c ≠ b := by
          intro he; subst he
          rw [hb] at hcg; injection hcg with hcg
          exact hg hcg.symm
        rw [alookup_adel_other _ _ _ hcb]; exact hcg

theorem inheritFunction_entc (x : IR) (b nb : Nat) (h : EntC x) (hnew : alookup nb x.fbb = none) :
    EntC (x.inheritFunction b nb) := by
  unfold IR.inheritFunction
  split
  · exact addFunctionBlock_entc x nb _ h hnew
  · exact h

/-! ### split_block -/

theorem splitCode_entc (x : IR) (b nb : Nat) (e : Bool) (h : EntC x) (hnew : alookup nb x.fbb = none) :
    EntC (x.splitCode b nb e).1 := by
  unfold IR.splitCode
  split
  · apply inheritFunction_entc
    · exact h.of_same (by rw [addFall_fbb, splitEdgesMid_fbb]) (by rw [addFall_funcEntries, splitEdgesMid_funcEntries])
    · rw [addFall_fbb, splitEdgesMid_fbb]; exact hnew
  · simp only []
    have hE : EntC (x.splitEdgesEnd b nb) := h.of_same (splitEdgesEnd_fbb _ _ _) (splitEdgesEnd_funcEntries _ _ _)
    split
    · apply inheritFunction_entc
      · exact hE.of_same (addFall_fbb _ _ _) (addFall_funcEntries _ _ _)
      · rw [addFall_fbb, splitEdgesEnd_fbb]; exact hnew
    · apply inheritFunction_entc _ _ _ hE
      rw [splitEdgesEnd_fbb]; exact hnew

theorem splitBlock_entc {ir ir' : IR} {b off nb : Nat} {added : Bool}
    (h : ir.splitBlock b off = .ok (ir', nb, added)) (he : EntC ir) (hm : MInv ir) (hI : IdsBelow ir) : EntC ir' := by
  have hnewk : alookup ir.next ir.fbb = none := hm.fresh hI (Nat.le_refl _)
  unfold IR.splitBlock at h
  split at h
  · cases h
  · rename_i blk hb
    split at h
    · cases h
    · split at h
      · cases h
      · injection h with h
        injection h with h1 h2
        injection h2 with h2 h3
        subst h2
        have e2 : EntC ((ir.splitBlocks blk ir.next off).splitSyms b ir.next) := he.of_same rfl rfl
        have er : EntC (if blk.isCode then ((ir.splitBlocks blk ir.next off).splitSyms b ir.next).splitCode b ir.next (off == blk.size)
            else (((ir.splitBlocks blk ir.next off).splitSyms b ir.next), false)).1 := by
          split
          · exact splitCode_entc _ _ _ _ e2 hnewk
          · exact e2
        rw [← h1]
        exact er.of_same rfl rfl

/-! ### join_blocks -/

theorem joinCode_split' (x : IR) (b1 : Block) (id2 s2 : Nat) :
    ∃ i3 : IR, x.joinCode b1 id2 s2 = i3.removeFunctionBlock id2 ∧ i3.fbb = x.fbb ∧
      i3.aux.funcEntries = x.aux.funcEntries := by
  unfold IR.joinCode
  simp only []
  refine ⟨_, rfl, ?_, ?_⟩
  · have h1 : ∀ (y : IR), ((y.inEdges id2).foldl (fun ir e =>
        if Edge.isFall e && e.src == .block b1.id then { ir with cfg := cfgDiscard ir.cfg e } else ir) y).fbb = y.fbb := by
      intro y; apply foldl_fbb; intro i e; split <;> rfl
    have h2 : ∀ (y : IR), (if b1.size == 0 then
        (y.inEdges id2).foldl (fun ir e => ir.updateEdge e (updDst e (.block b1.id))) y
      else (y.inEdges id2).foldl (fun ir e => { ir with cfg := cfgDiscard ir.cfg e }) y).fbb = y.fbb := by
      intro y; split <;> (apply foldl_fbb; intro i e; rfl)
    split
    · rw [foldl_fbb _ (by intro i e; rfl), h2, h1]
    · rw [foldl_fbb _ (by intro i e; rfl), h2, h1]
  · have h1 : ∀ (y : IR), ((y.inEdges id2).foldl (fun ir e =>
        if Edge.isFall e && e.src == .block b1.id then { ir with cfg := cfgDiscard ir.cfg e } else ir) y).aux.funcEntries
        = y.aux.funcEntries := by
      intro y; apply foldl_funcEntries; intro i e; split <;> rfl
    have h2 : ∀ (y : IR), (if b1.size == 0 then
        (y.inEdges id2).foldl (fun ir e => ir.updateEdge e (updDst e (.block b1.id))) y
      else (y.inEdges id2).foldl (fun ir e => { ir with cfg := cfgDiscard ir.cfg e }) y).aux.funcEntries = y.aux.funcEntries := by
      intro y; split <;> (apply foldl_funcEntries; intro i e; rfl)
    split
    · rw [foldl_funcEntries _ (by intro i e; rfl), h2, h1]
    · rw [foldl_funcEntries _ (by intro i e; rfl), h2, h1]

theorem joinCode_entc (x : IR) (b1 : Block) (id2 s2 : Nat) (h : EntC x) : EntC (x.joinCode b1 id2 s2) := by
  obtain ⟨i3, he, hf, hg⟩ := joinCode_split' x b1 id2 s2
  rw [he]
  exact removeFunctionBlock_entc i3 id2 (h.of_same hf hg)

theorem joinBlocks_entc {ir ir' : IR} {id1 id2 : Nat} (h : ir.joinBlocks id1 id2 = .ok ir') (he : EntC ir) : EntC ir' := by
  unfold IR.joinBlocks at h
  split at h
  · rename_i b1 b2 h1 h2
    split at h
    · cases h
    · split at h
      · cases h
      · injection h with h
        subst h
        have e1 : EntC (ir.joinSyms b1 id2) := he.of_same rfl rfl
        have e2 : EntC (if b2.isCode then (ir.joinSyms b1 id2).joinCode b1 id2 b2.size else ir.joinSyms b1 id2) := by
          split
          · exact joinCode_entc _ _ _ _ e1
          · exact e1
        generalize (if b2.isCode then (ir.joinSyms b1 id2).joinCode b1 id2 b2.size else ir.joinSyms b1 id2) = y at e2
        exact e2.of_same rfl rfl
  · cases h

/-! ### remove_block -/

theorem removeFunctions_entc (x : IR) (blk : Block) (n : Option Nat) (nc : Bool) (h : EntC x) :
    EntC (x.removeFunctions blk n nc) := by
  unfold IR.removeFunctions
  split
  · exact h
  · split
    · exact h
    · rename_i f hf
      simp only []
      apply removeFunctionBlock_entc
      split
      · -- the next block, of the same function, becomes an entry
        rename_i hpromote
        intro c g hc
        unfold IR.isEntry at hc
        simp only [] at hc
        unfold setAdd at hc
        by_cases hg : g = f
        · subst hg
          rw [alookup_aset_same] at hc
          simp only [Option.getD_some] at hc
          rcases (mem_addUnique _ _ _).mp hc with hc | hc
          · exact h c g hc
          · subst hc
            simp only [Bool.and_eq_true] at hpromote
            have hsame := hpromote.2
            unfold IR.sameFunction at hsame
            rw [hf] at hsame
            split at hsame
            · rename_i f1 f2 h1 h2
              injection h1 with h1
              have : f1 = f2 := by simpa using hsame
              rw [h1, this]; exact h2
            · cases hsame
        · rw [alookup_aset_other _ _ _ _ hg] at hc
          exact h c g hc
      · exact h

theorem removeStages_entc (x : IR) (blk : Block) (t c : Bool) (px p n : Option Nat) (h : EntC x) :
    EntC (x.removeStages blk t c px p n) := by
  unfold IR.removeStages
  have tail : ∀ y : IR, EntC y → EntC (((y.removeOutEdges blk).removeAuxEntries blk).removeCfi blk.id (x.requiredCfi blk) p n
      (x.isCodeBlockId p) (x.isCodeBlockId n)) := by
    intro y hy
    have m1 : EntC (y.removeOutEdges blk) := hy.of_same (removeOutEdges_fbb _ _) (removeOutEdges_funcEntries _ _)
    exact (m1.of_same (a := y.removeOutEdges blk) (b := (y.removeOutEdges blk).removeAuxEntries blk) rfl rfl).of_same rfl rfl
  simp only []
  apply tail
  split
  · have m1 : EntC (x.removeSyms blk.id (removeTarget px n p)) := h.of_same rfl rfl
    have m2 : EntC ((x.removeSyms blk.id (removeTarget px n p)).removeInEdges blk px n (x.isCodeBlockId n)) :=
      m1.of_same (removeInEdges_fbb _ _ _ _ _) (removeInEdges_funcEntries _ _ _ _ _)
    have m3 := removeFunctions_entc _ blk (if t then none else n) (if t then false else x.isCodeBlockId n) m2
    exact m3.of_same (removeEntrypoints_fbb _ _ _ _) (removeEntrypoints_funcEntries _ _ _ _)
  · exact h

theorem removeBlock_entc {ir ir' : IR} {b : Nat} {px r : Bool}
    (h : ir.removeBlock b px = .ok (ir', r)) (he : EntC ir) : EntC ir' := by
  unfold IR.removeBlock at h
  split at h
  · cases h
  · rename_i blk hb
    split at h
    · cases h
    · rename_i sect hsect
      have m0 : EntC (ir.withProxy px) := he.of_same (withProxy_fbb _ _) (withProxy_funcEntries _ _)
      simp only [] at h
      have m4 := removeStages_entc (ir.withProxy px) blk px
        ((ir.withProxy px).canRemove blk px (ir.adjacent blk).1 (ir.adjacent blk).2 ((ir.withProxy px).requiredCfi blk))
        (if px then some ir.next else none) (ir.adjacent blk).1 (ir.adjacent blk).2 m0
      generalize ((ir.withProxy px).removeStages blk px
        ((ir.withProxy px).canRemove blk px (ir.adjacent blk).1 (ir.adjacent blk).2 ((ir.withProxy px).requiredCfi blk))
        (if px then some ir.next else none) (ir.adjacent blk).1 (ir.adjacent blk).2) = x at m4 h
      split at h
      · injection h with h; injection h with h1 h2; subst h1
        exact m4.of_same rfl rfl
      · injection h with h; injection h with h1 h2; subst h1
        exact m4.of_same (keepEmpty_fbb _ _) (keepEmpty_funcEntries _ _)

theorem editInterval_entc (ir : IR) (i off len : Nat) (c st : List Nat) (h : EntC ir) : EntC (ir.editInterval i off len c st) := by
  refine h.of_same ?_ ?_
  · unfold IR.editInterval; split <;> rfl
  · unfold IR.editInterval; split <;> rfl

theorem connectEmptyTail_entc (ir : IR) (t : Nat) (h : EntC ir) : EntC (ir.connectEmptyTail t) :=
  h.of_same (connectEmptyTail_fbb _ _) (connectEmptyTail_funcEntries _ _)

/-! ### _cleanup_modified_blocks -/

theorem cleanupPass_entc : ∀ (rest : List Nat) (ir ir' : IR) (pred : Nat) (done : List Nat) (r : Option (List Nat)),
    ir.cleanupPass pred rest done = .ok (ir', r) → EntC ir → EntC ir' := by
  intro rest
  induction rest with
  | nil =>
    intro ir ir' pred done r h hm
    unfold IR.cleanupPass at h
    injection h with h; injection h with h1 h2; subst h1; exact hm
  | cons b rest ih =>
    intro ir ir' pred done r h hm
    unfold IR.cleanupPass at h
    split at h
    · rename_i i2 hj
      injection h with h; injection h with h1 h2; subst h1
      exact joinBlocks_entc hj hm
    · split at h
      · split at h
        · cases h
        · rename_i i2 hr
          injection h with h; injection h with h1 h2; subst h1
          exact removeBlock_entc hr hm
        · rename_i i2 hr
          exact ih _ _ _ _ _ h (removeBlock_entc hr hm)
      · exact ih _ _ _ _ _ h hm
    · cases h

theorem cleanupLoop_entc : ∀ (fuel : Nat) (ir ir' : IR) (bl bl' : List Nat),
    ir.cleanupLoop fuel bl = .ok (ir', bl') → EntC ir → EntC ir' := by
  intro fuel
  induction fuel with
  | zero =>
    intro ir ir' bl bl' h hm
    unfold IR.cleanupLoop at h
    injection h with h; injection h with h1 h2; subst h1; exact hm
  | succ n ih =>
    intro ir ir' bl bl' h hm
    unfold IR.cleanupLoop at h
    split at h
    · injection h with h; injection h with h1 h2; subst h1; exact hm
    · split at h
      · cases h
      · rename_i i2 hp
        injection h with h; injection h with h1 h2; subst h1
        exact cleanupPass_entc _ _ _ _ _ _ hp hm
      · rename_i i2 bl2 hp
        exact ih _ _ _ _ h (cleanupPass_entc _ _ _ _ _ _ hp hm)

theorem cleanupFirst_entc {ir ir' : IR} {bl bl' : List Nat}
    (h : ir.cleanupFirst bl = .ok (ir', bl')) (hm : EntC ir) : EntC ir' := by
  unfold IR.cleanupFirst at h
  split at h
  · injection h with h; injection h with h1 h2; subst h1; exact hm
  · split at h
    · split at h
      · cases h
      · rename_i hr
        injection h with h; injection h with h1 h2; subst h1
        exact removeBlock_entc hr hm
      · rename_i hr
        injection h with h; injection h with h1 h2; subst h1
        exact removeBlock_entc hr hm
    · injection h with h; injection h with h1 h2; subst h1; exact hm

theorem cleanup_entc {ir ir' : IR} {bl : List Nat} {last : Nat}
    (h : ir.cleanup bl = .ok (ir', last)) (hm : EntC ir) : EntC ir' := by
  unfold IR.cleanup at h
  split at h
  · cases h
  · split at h
    · cases h
    · rename_i ir1 bl1 hl
      split at h
      · cases h
      · rename_i ir2 bl2 hf
        split at h
        · split at h
          · injection h with h; injection h with h1 h2; subst h1
            exact cleanupFirst_entc hf (cleanupLoop_entc _ _ _ _ _ hl hm)
          · cases h
        · cases h

/-! ### delete -/

theorem delete_entc {ir ir' : IR} {b off len : Nat} {px : Bool} {r : Option Nat}
    (h : ir.delete b off len px = .ok (ir', r)) (he : EntC ir) (hm : MInv ir) (hI : IdsBelow ir) : EntC ir' := by
  unfold IR.delete at h
  split at h
  · cases h
  · rename_i blk hb
    split at h
    · cases h
    · split at h
      · cases h
      · rename_i biId hbi
        split at h
        · injection h with h; injection h with h1 h2; subst h1; exact he
        · split at h
          · split at h
            · cases h
            · rename_i ir1 e1 a1 hs1
              split at h
              · cases h
              · rename_i ir2 e2 a2 hs2
                simp only [] at h
                split at h
                · cases h
                · rename_i ir3 d3 hr3
                  split at h
                  · cases h
                  · rename_i ir5 last hc
                    injection h with h; injection h with h1 h2; subst h1
                    have m1 := splitBlock_entc hs1 he hm hI
                    have m2 := splitBlock_entc hs2 m1 (splitBlock_minv hs1 hm hI) (splitBlock_idsBelow hs1 hI)
                    have m3 := removeBlock_entc hr3 (connectEmptyTail_entc ir2 e2 m2)
                    exact cleanup_entc hc (editInterval_entc _ _ _ _ _ _ m3)
          · split at h
            · cases h
            · rename_i ir1 deleted hr1
              have m1 := editInterval_entc ir1 biId (blk.off + off) len [] [b] (removeBlock_entc hr1 he)
              simp only [] at h
              split at h
              · split at h
                · cases h
                · rename_i ir3 d3 hr3
                  injection h with h; injection h with h1 h2; subst h1
                  exact removeBlock_entc hr3 m1
              · injection h with h; injection h with h1 h2; subst h1
                exact m1

/-! ### insert -/

theorem insertSplit_entc {ir ir' : IR} {b off repl endB : Nat} {added : Bool}
    (h : ir.insertSplit b off repl = .ok (ir', endB, added)) (he : EntC ir) (hm : MInv ir) (hI : IdsBelow ir) : EntC ir' := by
  unfold IR.insertSplit at h
  split at h
  · cases h
  · rename_i ir1 e0 a0 hs1
    have m1 := splitBlock_entc hs1 he hm hI
    split at h
    · split at h
      · cases h
      · rename_i i2 e2 a2 hs2
        split at h
        · cases h
        · rename_i i3 d3 hr
          injection h with h; injection h with h1 h2; injection h2 with h2 h3; subst h1; subst h2
          exact removeBlock_entc hr (connectEmptyTail_entc i2 e2
            (splitBlock_entc hs2 m1 (splitBlock_minv hs1 hm hI) (splitBlock_idsBelow hs1 hI)))
    · injection h with h; injection h with h1 h2; injection h2 with h2 h3; subst h1; subst h2
      exact connectEmptyTail_entc ir1 e0 m1

theorem addPatchFunctions_fold_entc (f : Nat) : ∀ (tb : List Block) (x : IR), EntC x → (tb.map (·.id)).Nodup →
    (∀ b ∈ tb, alookup b.id x.fbb = none) →
    EntC (tb.foldl (fun ir b => if b.isCode then ir.addFunctionBlock b.id f else ir) x) := by
  intro tb
  induction tb with
  | nil => intro x h _ _; exact h
  | cons b tb ih =>
    intro x h hnd hnew
    simp only [List.foldl_cons]
    have hnd' := List.nodup_cons.mp (by simpa using hnd : (b.id :: tb.map (·.id)).Nodup)
    apply ih
    · split
      · exact addFunctionBlock_entc x b.id f h (hnew b List.mem_cons_self)
      · exact h
    · exact hnd'.2
    · intro b' hb'
      have hne : b'.id ≠ b.id := fun he => hnd'.1 (he ▸ List.mem_map_of_mem hb')
      split
      · show alookup b'.id (aset b.id f x.fbb) = none
        rw [alookup_aset_other _ _ _ _ hne]
        exact hnew b' (List.mem_cons_of_mem _ hb')
      · exact hnew b' (List.mem_cons_of_mem _ hb')

theorem addPatchFunctions_entc (x : IR) (blk : Block) (tb : List Block) (h : EntC x) (hnd : (tb.map (·.id)).Nodup)
    (hnew : ∀ b ∈ tb, alookup b.id x.fbb = none) : EntC (x.addPatchFunctions blk tb) := by
  unfold IR.addPatchFunctions
  split
  · split
    · exact addPatchFunctions_fold_entc _ tb x h hnd hnew
    · exact h
  · exact h

theorem addOtherSection_funcEntries {ir ir' : IR} {p : Patch} {s : PatchSect} {sid bid : Nat} {ns : List Sym}
    (h : ir.addOtherSection p s sid bid = .ok (ir', ns)) : ir'.aux.funcEntries = ir.aux.funcEntries := by
  unfold IR.addOtherSection at h
  simp only [] at h
  split at h
  · cases h
  · split at h
    · cases h
    · injection h with h; injection h with h1 h2; subst h1
      show (IR.orderAppend _ _ _).aux.funcEntries = _
      rw [orderAppend_funcEntries]

theorem addOthers_funcEntries_aux : ∀ (l : List (PatchSect × Nat × Nat)) (p : Patch) (acc : Except Err IR) (ir0 ir' : IR),
    (∀ a, acc = .ok a → a.aux.funcEntries = ir0.aux.funcEntries) →
    l.foldl (fun (acc : Except Err IR) (x : PatchSect × Nat × Nat) =>
      match acc with
      | .error e => .error e
      | .ok i =>
        match i.addOtherSection { p with syms := i.syms.filter (fun y => p.syms.any (·.id == y.id)) } x.1 x.2.1 x.2.2 with
        | .error e => .error e
        | .ok (i', newSyms) =>
          .ok { i' with syms := i'.syms.map (fun y =>
            match newSyms.find? (·.id == y.id) with
            | some ny => ny
            | none => y) }) acc = .ok ir' → ir'.aux.funcEntries = ir0.aux.funcEntries := by
  intro l
  induction l with
  | nil => intro p acc ir0 ir' hacc h; exact hacc _ h
  | cons x xs ih =>
    intro p acc ir0 ir' hacc h
    simp only [List.foldl_cons] at h
    refine ih p _ ir0 ir' ?_ h
    intro a ha
    split at ha
    · cases ha
    · rename_i i
      split at ha
      · cases ha
      · rename_i i2 ns hao
        injection ha with ha; subst ha
        show i2.aux.funcEntries = _
        rw [addOtherSection_funcEntries hao]; exact hacc i rfl

theorem addOthers_funcEntries {ir ir' : IR} {p : Patch} (h : ir.addOthers p = .ok ir') : ir'.aux.funcEntries = ir.aux.funcEntries := by
  unfold IR.addOthers at h
  exact addOthers_funcEntries_aux p.others p (.ok ir) ir ir'
    (fun a ha => by injection ha with ha; subst ha; rfl) h

theorem insert_entc {i : Nat} {ir ir' : IR} {b off repl last : Nat} {p : Patch}
    (h : ir.insert b off repl p = .ok (ir', last)) (hin : In i ir b) (he : EntC ir) (hm : MInv ir) (hI : IdsBelow ir)
    (hnew : ∀ c ∈ p.text.blocks.map (·.id), ir.block? c = none) (hlt : ∀ c ∈ p.text.blocks.map (·.id), c < ir.next)
    (hnd : (p.text.blocks.map (·.id)).Nodup) : EntC ir' := by
  obtain ⟨blk, hb, hi⟩ := hin
  unfold IR.insert at h
  rw [hb] at h
  simp only [] at h
  split at h
  · cases h
  · split at h
    · cases h
    · split at h
      · rename_i biId sect hbi' hsect
        split at h
        · cases h
        · split at h
          · cases h
          · split at h
            · cases h
            · split at h
              · cases h
              · split at h
                · cases h
                · rename_i ir2 endB added hs
                  split at h
                  · cases h
                  · split at h
                    · cases h
                    · rename_i ir12 ho
                      have e2 := insertSplit_entc hs he hm hI
                      have hkey : ∀ c ∈ p.text.blocks.map (·.id), alookup c ir.fbb = none := by
                        intro c hc
                        cases hk : alookup c ir.fbb with
                        | none => rfl
                        | some f => exact absurd (hnew c hc) (hm.2 c (by rw [hk]; simp))
                      generalize hpc : (if blk.isCode then ir.matchPatchReturnEdges b p.cfg p.proxies else (p.cfg, p.proxies))
                        = pcX at ho h
                      -- every stage up to the function tables of the patch's code leaves cache and entry table alone
                      have hmid : ∀ (R : IR × List Edge), R.1.fbb = ir2.fbb → R.1.aux.funcEntries = ir2.aux.funcEntries →
                          (((((((R.1.insertStitch p.text.blocks b endB added).editInterval biId (blk.off + off) repl p.text.data [b]).placePatchBlocks
                            p.text.blocks biId (blk.off + off)).addPatchExprs biId (blk.off + off) p.text.symExprs).orderInsertAfter sect b
                            (p.text.blocks.map (·.id))).addPatchNodes p R.2 pcX.2).addPatchAux p biId (blk.off + off)).fbb = ir2.fbb ∧
                          (((((((R.1.insertStitch p.text.blocks b endB added).editInterval biId (blk.off + off) repl p.text.data [b]).placePatchBlocks
                            p.text.blocks biId (blk.off + off)).addPatchExprs biId (blk.off + off) p.text.symExprs).orderInsertAfter sect b
                            (p.text.blocks.map (·.id))).addPatchNodes p R.2 pcX.2).addPatchAux p biId (blk.off + off)).aux.funcEntries
                            = ir2.aux.funcEntries := by
                        intro R h1 h2
                        have hxf : ∀ (y : IR), (y.addPatchExprs biId (blk.off + off) p.text.symExprs).fbb = y.fbb := by
                          intro y; unfold IR.addPatchExprs; split <;> rfl
                        have hxe : ∀ (y : IR), (y.addPatchExprs biId (blk.off + off) p.text.symExprs).aux.funcEntries = y.aux.funcEntries := by
                          intro y; unfold IR.addPatchExprs; split <;> rfl
                        have hef : ∀ (y : IR), (y.editInterval biId (blk.off + off) repl p.text.data [b]).fbb = y.fbb := by
                          intro y; unfold IR.editInterval; split <;> rfl
                        have hee : ∀ (y : IR), (y.editInterval biId (blk.off + off) repl p.text.data [b]).aux.funcEntries = y.aux.funcEntries := by
                          intro y; unfold IR.editInterval; split <;> rfl
                        constructor
                        · show (IR.addPatchExprs _ _ _ _).fbb = _
                          rw [hxf, placePatchBlocks_fbb, hef, insertStitch_fbb, h1]
                        · show (IR.addPatchExprs _ _ _ _).aux.funcEntries = _
                          rw [hxe, placePatchBlocks_funcEntries, hee, insertStitch_funcEntries, h2]
                      obtain ⟨hAf, hAe⟩ := hmid (ir2.addReturnEdgesForPatchCalls pcX.1)
                        (addReturnEdgesForPatchCalls_fbb _ _) (addReturnEdgesForPatchCalls_funcEntries _ _)
                      generalize hA : ((((((((ir2.addReturnEdgesForPatchCalls pcX.1).1.insertStitch p.text.blocks b endB added).editInterval biId
                            (blk.off + off) repl p.text.data [b]).placePatchBlocks
                            p.text.blocks biId (blk.off + off)).addPatchExprs biId (blk.off + off) p.text.symExprs).orderInsertAfter sect b
                            (p.text.blocks.map (·.id))).addPatchNodes p (ir2.addReturnEdgesForPatchCalls pcX.1).2 pcX.2).addPatchAux
                            p biId (blk.off + off)) = A at ho h hAf hAe
                      have eA : EntC A := e2.of_same hAf hAe
                      have hnewA : ∀ tbk ∈ p.text.blocks, alookup tbk.id A.fbb = none := by
                        intro tbk htb
                        have hc : tbk.id ∈ p.text.blocks.map (·.id) := List.mem_map_of_mem htb
                        cases hk : alookup tbk.id A.fbb with
                        | none => rfl
                        | some f =>
                          exfalso
                          have h1 : alookup tbk.id ir2.fbb ≠ none := by rw [← hAf, hk]; simp
                          rcases insertSplit_keys hs _ h1 with h2 | h2
                          · exact h2 (hkey _ hc)
                          · have := hlt _ hc; omega
                      have eF := addPatchFunctions_entc A blk p.text.blocks eA hnd hnewA
                      have eO : EntC ir12 := eF.of_same (addOthers_fsame ho).1 (addOthers_funcEntries ho)
                      exact cleanup_entc h (eO.of_same rfl rfl)
      · cases h

/-! ### the loops -/

theorem adoptPatchBlocks_entc (p : Patch) (f : Nat) : ∀ (tb : List Block) (x : IR), EntC x →
    EntC (tb.foldl (fun ir b =>
      match ir.block? b.id with
      | some blk =>
        if b.isCode && blk.bi.isSome && (alookup b.id ir.fbb).isNone then ir.addFunctionBlock b.id f else ir
      | none => ir) x) := by
  intro tb
  induction tb with
  | nil => intro x h; exact h
  | cons b tb ih =>
    intro x h
    simp only [List.foldl_cons]
    apply ih
    split
    · split
      · rename_i hc
        simp only [Bool.and_eq_true, Option.isNone_iff_eq_none] at hc
        exact addFunctionBlock_entc x b.id f h hc.2
      · exact h
    · exact h

theorem loopInsert_entc {i : Nat} {ir ir' : IR} {func : Option Nat} {ab : Block} {a ao repl last : Nat} {p : Patch}
    (h : ir.loopInsert func ab a ao repl p = .ok (ir', last)) (hin : In i ir a) (he : EntC ir) (hm : MInv ir) (hI : IdsBelow ir)
    (hnew : ∀ c ∈ p.text.blocks.map (·.id), ir.block? c = none) (hlt : ∀ c ∈ p.text.blocks.map (·.id), c < ir.next)
    (hnd : (p.text.blocks.map (·.id)).Nodup) : EntC ir' := by
  unfold IR.loopInsert at h
  split at h
  · cases h
  · rename_i ir1 l1 hins
    have m1 := insert_entc hins hin he hm hI hnew hlt hnd
    split at h
    · split at h
      · injection h with h; injection h with h1 h2; subst h1
        exact adoptPatchBlocks_entc p _ p.text.blocks ir1 m1
      · injection h with h; injection h with h1 h2; subst h1; exact m1
    · injection h with h; injection h with h1 h2; subst h1; exact m1

theorem applyMods_entc (origOff i : Nat) (func : Option Nat) : ∀ (ms : List Mod) (ir ir' : IR) (actual : Option Nat)
    (total : Int),
    IR.applyMods origOff func ir actual total ms = .ok ir' →
    (∀ a, actual = some a → In i ir a) → IdsBelow ir → NewBlocks origOff func ir actual total ms → MInv ir → EntC ir → EntC ir' := by
  intro ms
  induction ms with
  | nil =>
    intro ir ir' actual total h _ _ _ _ he
    unfold IR.applyMods at h
    injection h with h; subst h
    exact he
  | cons m ms ih =>
    intro ir ir' actual total h hact hI hnew hm he
    cases actual with
    | none => unfold IR.applyMods at h; cases h
    | some a =>
      obtain ⟨ab, hab, habi⟩ := hact a rfl
      have hin : In i ir a := ⟨ab, hab, habi⟩
      unfold IR.applyMods at h
      rw [hab] at h
      simp only [] at h
      unfold NewBlocks at hnew
      rw [hab] at hnew
      simp only [] at hnew
      split at h
      · cases h
      · cases m with
        | ins o repl p =>
          simp only [Mod.off] at h
          split at h
          · cases h
          · rename_i ir1 last hloop
            obtain ⟨hfresh, hnd, hnext⟩ := hnew
            obtain ⟨ir0, hins, hlb, hli, hln⟩ := loopInsert_ok hloop
            have hst : ∀ c ∈ p.text.blocks.map (·.id), Stays i ir c :=
              fun c hc blk hblk => by rw [(hfresh c hc).1] at hblk; cases hblk
            obtain ⟨hI0, hin0⟩ := insert_facts hins hin hI hst
            have hI1 : IdsBelow ir1 := hI0.mono (ids_of_blocks hlb) (by rw [hln]; exact Nat.le_refl _)
            have hin1 : In i ir1 last := (Keeps.of_blocks hlb).in hin0
            have m1 := loopInsert_minv hloop hin hm hI (fun c hc => (hfresh c hc).1) (fun c hc => (hfresh c hc).2) hnd
            have e1 := loopInsert_entc hloop hin he hm hI (fun c hc => (hfresh c hc).1) (fun c hc => (hfresh c hc).2) hnd
            exact ih ir1 ir' (some last) _ h (fun a' ha' => by injection ha' with ha'; subst ha'; exact hin1)
              hI1 (hnext ir1 last hloop) m1 e1
        | del o len px =>
          simp only [Mod.off] at h
          split at h
          · cases h
          · rename_i ir1 r hdel
            obtain ⟨hI1, hin1⟩ := delete_facts hdel hin hI
            exact ih ir1 ir' r _ h hin1 hI1 (hnew ir1 r hdel) (delete_minv hdel hm hI) (delete_entc hdel he hm hI)

/-- **entries stay blocks of their function through `apply()`'s whole loop over the blocks** -/
theorem applyAll_entc : ∀ (rs : List BlockMods) (ir ir' : IR),
    ir.applyAll rs = .ok ir' → IdsBelow ir → (∀ r ∈ rs, ReqOk ir r) → (rs.map (ivOf ir)).Nodup → NewBlocksAll ir rs →
    MInv ir → EntC ir → MInv ir' ∧ EntC ir' := by
  intro rs
  induction rs with
  | nil =>
    intro ir ir' h _ _ _ _ hm he
    unfold IR.applyAll at h
    injection h with h; subst h; exact ⟨hm, he⟩
  | cons r rest ih =>
    intro ir ir' h hI hok hnd hnew hm he
    obtain ⟨blk, i, bytes, hb, hbi, hsz, hby, hfit, hd⟩ := hok r List.mem_cons_self
    unfold IR.applyAll at h
    rw [hb] at h
    simp only [] at h
    unfold NewBlocksAll at hnew
    rw [hb] at hnew
    simp only [] at hnew
    split at h
    · cases h
    · rename_i ir1 hmod
      obtain ⟨hn1, hn2⟩ := hnew
      obtain ⟨hI1, hok1, hnd1⟩ := applyAll_step hb hmod hI hok hnd hn1
      have hact : ∀ a, some r.block = some a → In i ir a :=
        fun a ha => by injection ha with ha; subst ha; exact ⟨blk, hb, Or.inl hbi⟩
      have m1 := applyMods_minv blk.off i r.func r.mods ir ir1 (some r.block) 0 hmod hact hI hn1 hm
      have e1 := applyMods_entc blk.off i r.func r.mods ir ir1 (some r.block) 0 hmod hact hI hn1 hm he
      exact ih ir1 ir' h hI1 hok1 hnd1 (hn2 ir1 hmod) m1 e1

/-! ### entry promotion -/

/-- entries after `remove_function_block_aux` were entries before -/
theorem removeFunctionBlock_isEntry (x : IR) (b c g : Nat) (h : (x.removeFunctionBlock b).isEntry c g) : x.isEntry c g := by
  unfold IR.removeFunctionBlock at h
  split at h
  · exact h
  · rename_i f hf
    simp only [] at h
    split at h
    · unfold IR.isEntry at h ⊢
      simp only [] at h
      rw [dropMember_lookup] at h
      exact h.1
    · unfold IR.isEntry at h ⊢
      simp only [] at h
      by_cases hg : g = f
      · subst hg; rw [alookup_adel_same] at h; simp at h
      · rw [alookup_adel_other _ _ _ hg, dropMember_lookup] at h
        exact h.1

/-- **deleting an entry block promotes the next block only if it is in the same function**: every
entry after `_update_functions_aux_data` was an entry before, except the next block - and that one
only when the removed block was an entry of its function, the next block is code and the cache
puts both in the same function -/
theorem removeFunctions_isEntry (x : IR) (blk : Block) (n : Option Nat) (nc : Bool) (c g : Nat)
    (h : (x.removeFunctions blk n nc).isEntry c g) :
    x.isEntry c g ∨ (c = n.getD 0 ∧ nc = true ∧ x.isEntry blk.id g ∧ alookup blk.id x.fbb = some g ∧
      x.sameFunction blk.id (n.getD 0) = true) := by
  unfold IR.removeFunctions at h
  split at h
  · exact Or.inl h
  · split at h
    · exact Or.inl h
    · rename_i f hf
      simp only [] at h
      have h1 := removeFunctionBlock_isEntry _ _ _ _ h
      split at h1
      · rename_i hpromote
        unfold IR.isEntry at h1
        simp only [] at h1
        unfold setAdd at h1
        by_cases hg : g = f
        · subst hg
          rw [alookup_aset_same] at h1
          simp only [Option.getD_some] at h1
          rcases (mem_addUnique _ _ _).mp h1 with h2 | h2
          · exact Or.inl h2
          · right
            simp only [Bool.and_eq_true] at hpromote
            refine ⟨h2, hpromote.1.2, ?_, hf, hpromote.2⟩
            unfold IR.isEntry
            simpa using hpromote.1.1
        · rw [alookup_aset_other _ _ _ _ hg] at h1
          exact Or.inl h1
      · exact Or.inl h1

/-- the same for everything `remove_block` does before it unlinks the block: with
`retarget_to_proxy` nothing is promoted at all -/
theorem removeStages_isEntry (x : IR) (blk : Block) (t c : Bool) (px p n : Option Nat) (k g : Nat)
    (h : (x.removeStages blk t c px p n).isEntry k g) :
    x.isEntry k g ∨ (t = false ∧ k = n.getD 0 ∧ x.isCodeBlockId n = true ∧ x.isEntry blk.id g ∧
      alookup blk.id x.fbb = some g ∧ x.sameFunction blk.id (n.getD 0) = true) := by
  unfold IR.removeStages at h
  unfold IR.isEntry at h
  simp only [] at h
  have htail : ∀ y : IR, (((y.removeOutEdges blk).removeAuxEntries blk).removeCfi blk.id (x.requiredCfi blk) p n
      (x.isCodeBlockId p) (x.isCodeBlockId n)).aux.funcEntries = y.aux.funcEntries := by
    intro y
    show (y.removeOutEdges blk).aux.funcEntries = _
    exact removeOutEdges_funcEntries _ _
  rw [htail] at h
  split at h
  · rw [removeEntrypoints_funcEntries] at h
    have h1 : ((x.removeSyms blk.id (removeTarget px n p)).removeInEdges blk px n (x.isCodeBlockId n) |>.removeFunctions blk
        (if t then none else n) (if t then false else x.isCodeBlockId n)).isEntry k g := h
    rcases removeFunctions_isEntry _ blk _ _ k g h1 with h2 | ⟨h2, h3, h4, h5, h6⟩
    · left
      unfold IR.isEntry at h2 ⊢
      rw [removeInEdges_funcEntries] at h2
      exact h2
    · right
      cases t with
      | true => simp at h3
      | false =>
        simp only [Bool.false_eq_true, if_false] at h2 h3 h6
        refine ⟨rfl, h2, h3, ?_, ?_, ?_⟩
        · unfold IR.isEntry at h4 ⊢
          rw [removeInEdges_funcEntries] at h4
          exact h4
        · rw [removeInEdges_fbb] at h5; exact h5
        · unfold IR.sameFunction at h6 ⊢
          rw [removeInEdges_fbb] at h6
          exact h6
  · exact Or.inl h

end GtirbVerif.IR
