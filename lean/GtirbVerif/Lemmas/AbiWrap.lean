import GtirbVerif.Model.Abi.Prologue

/-! Transparency of nested save/restore wrappers on the abstract machine. -/
namespace GtirbVerif.Abi

/-- `g` is a transparent transformer: it terminates without reading a foreign
slot, restores `sp`, leaves every cell at or above its entry `sp` alone,
restores the registers in `R` (and the flags when `F`), and every cell it
writes lies entirely below `entry sp - k`. -/
def Good (W : Int) (g : M → Option M) (R : List String) (F : Bool) (k : Int) : Prop :=
  ∀ σ, ∃ σ', g σ = some σ' ∧ σ'.sp = σ.sp ∧ (∀ x, σ.sp ≤ x → σ'.mem x = σ.mem x) ∧
    (∀ r ∈ R, σ'.reg r = σ.reg r) ∧ (F = true → σ'.flags = σ.flags) ∧
    (∃ new, σ'.wr = new ++ σ.wr ∧ ∀ a ∈ new, a + W ≤ σ.sp - k)

/-- prologue; inner code; epilogue -/
def wrap (W : Int) (pre post : List Instr) (g : M → Option M) : M → Option M :=
  fun σ => (run W pre σ).bind (fun σ1 => (g σ1).bind (run W post))

theorem run_append (W : Int) (a b : List Instr) (σ : M) :
    run W (a ++ b) σ = (run W a σ).bind (run W b) := by
  induction a generalizing σ with
  | nil => rfl
  | cons i is ih =>
    simp only [List.cons_append, run]
    cases step W i σ with
    | none => rfl
    | some σ' => exact ih σ'

theorem wrap_append (W : Int) (p1 p2 e2 e1 : List Instr) (g : M → Option M) :
    wrap W (p1 ++ p2) (e2 ++ e1) g = wrap W p1 e1 (wrap W p2 e2 g) := by
  funext σ
  simp only [wrap, run_append]
  cases run W p1 σ with
  | none => rfl
  | some σ1 =>
    simp only [Option.bind_some]
    cases run W p2 σ1 with
    | none => rfl
    | some σ2 =>
      simp only [Option.bind_some]
      cases g σ2 with
      | none => rfl
      | some σ3 =>
        simp only [Option.bind_some, run_append]

theorem wrap_nil (W : Int) (g : M → Option M) : wrap W [] [] g = g := by
  funext σ
  simp only [wrap, run, Option.bind_some]
  cases g σ <;> rfl

theorem Good.mono {W : Int} {g : M → Option M} {R R' : List String} {F : Bool} {k k' : Int}
    (h : Good W g R F k) (hR : ∀ r ∈ R', r ∈ R) (hk : k' ≤ k) : Good W g R' F k' := by
  intro σ
  obtain ⟨σ', h1, h2, h3, h4, h5, new, h6, h7⟩ := h σ
  exact ⟨σ', h1, h2, h3, fun r hr => h4 r (hR r hr), h5, new, h6, fun a ha => by
    have := h7 a ha; omega⟩

/-- `push r … pop r` -/
theorem good_push {W : Int} (hW : 0 < W) {g : M → Option M} {R : List String} {F : Bool} {k : Int}
    (hk : 0 ≤ k) (h : Good W g R F k) (r : String) :
    Good W (wrap W [.push r] [.pop r] g) (r :: R) F 0 := by
  intro σ
  obtain ⟨σ', h1, h2, h3, h4, h5, new, h6, h7⟩ :=
    h ({ σ with sp := σ.sp - W }.write W (σ.sp - W) (σ.reg r))
  simp only [M.write] at h1 h2 h3 h4 h5 h6 h7
  have hmem : σ'.mem (σ.sp - W) = some (σ.reg r) := by
    rw [h3 (σ.sp - W) (by simp)]; simp
  refine ⟨{ σ' with reg := setReg σ'.reg r (σ.reg r), sp := σ'.sp + W }, ?_, ?_, ?_, ?_, ?_, ?_⟩
  · simp only [wrap, run, step, M.write, Option.bind_some, h1, h2, hmem]
  · simp only [h2]; omega
  · intro x hx
    rw [h3 x (by omega)]
    have h1' : x ≠ σ.sp - W := by omega
    have h2' : ¬ (σ.sp - W - W < x ∧ x < σ.sp - W + W) := by omega
    rw [if_neg h1', if_neg h2']
  · intro r' hr'
    simp only [setReg]
    split
    · rename_i he; rw [he]
    · rename_i hne
      rcases List.mem_cons.mp hr' with rfl | hr'
      · exact absurd rfl hne
      · exact h4 r' hr'
  · intro hF; exact h5 hF
  · refine ⟨new ++ [σ.sp - W], by simp [h6], ?_⟩
    intro a ha
    rcases List.mem_append.mp ha with ha | ha
    · have := h7 a ha; omega
    · simp only [List.mem_singleton] at ha; omega

/-- `pushf … popf` -/
theorem good_pushf {W : Int} (hW : 0 < W) {g : M → Option M} {R : List String} {F : Bool} {k : Int}
    (hk : 0 ≤ k) (h : Good W g R F k) :
    Good W (wrap W [.pushf] [.popf] g) R true 0 := by
  intro σ
  obtain ⟨σ', h1, h2, h3, h4, h5, new, h6, h7⟩ :=
    h ({ σ with sp := σ.sp - W }.write W (σ.sp - W) σ.flags)
  simp only [M.write] at h1 h2 h3 h4 h5 h6 h7
  have hmem : σ'.mem (σ.sp - W) = some σ.flags := by
    rw [h3 (σ.sp - W) (by simp)]; simp
  refine ⟨{ σ' with flags := σ.flags, sp := σ'.sp + W }, ?_, ?_, ?_, ?_, ?_, ?_⟩
  · simp only [wrap, run, step, M.write, Option.bind_some, h1, h2, hmem]
  · simp only [h2]; omega
  · intro x hx
    rw [h3 x (by omega)]
    have h1' : x ≠ σ.sp - W := by omega
    have h2' : ¬ (σ.sp - W - W < x ∧ x < σ.sp - W + W) := by omega
    rw [if_neg h1', if_neg h2']
  · intro r' hr'; exact h4 r' hr'
  · intro _; rfl
  · refine ⟨new ++ [σ.sp - W], by simp [h6], ?_⟩
    intro a ha
    rcases List.mem_append.mp ha with ha | ha
    · have := h7 a ha; omega
    · simp only [List.mem_singleton] at ha; omega

/-- `lea -d(%sp),%sp … lea +d(%sp),%sp`: everything inside stays `d` further down -/
theorem good_lea {W : Int} {g : M → Option M} {R : List String} {F : Bool} {k : Int} (d : Int)
    (hd : 0 ≤ d) (h : Good W g R F k) :
    Good W (wrap W [.lea (-d)] [.lea d] g) R F (k + d) := by
  intro σ
  obtain ⟨σ', h1, h2, h3, h4, h5, new, h6, h7⟩ := h { σ with sp := σ.sp + -d }
  simp only at h1 h2 h3 h4 h5 h6 h7
  refine ⟨{ σ' with sp := σ'.sp + d }, ?_, ?_, ?_, h4, h5, new, h6, ?_⟩
  · simp only [wrap, run, step, Option.bind_some, h1]
  · simp only [h2]; omega
  · intro x hx; exact h3 x (by omega)
  · intro a ha; have := h7 a ha; omega

/-- registers saved by a run of pushes, restored by the pops in reverse order -/
theorem good_pushes {W : Int} (hW : 0 < W) {g : M → Option M} {R : List String} {F : Bool} {k : Int}
    (hk : 0 ≤ k) (h : Good W g R F k) :
    ∀ regs : List String, regs ≠ [] →
      Good W (wrap W (regs.map Instr.push) (regs.reverse.map Instr.pop) g) (regs ++ R) F 0
  | [], hne => absurd rfl hne
  | [r], _ => by simpa using good_push hW hk h r
  | r :: r2 :: rs, _ => by
    have ih := good_pushes hW hk h (r2 :: rs) (by simp)
    have := good_push hW (Int.le_refl 0) ih r
    have e : wrap W ((r :: r2 :: rs).map Instr.push) ((r :: r2 :: rs).reverse.map Instr.pop) g =
        wrap W [.push r] [.pop r]
          (wrap W ((r2 :: rs).map Instr.push) ((r2 :: rs).reverse.map Instr.pop) g) := by
      rw [← wrap_append]
      simp
    rw [e]
    exact this

end GtirbVerif.Abi

namespace GtirbVerif.Abi

/-- the x86 `align_stack` snippet pair -/
theorem good_align {W : Int} (hW : W = 4 ∨ W = 8) {g : M → Option M} {R : List String} {F : Bool}
    {k : Int} (hk : 0 ≤ k) (h : Good W g R F k) (ax : String) :
    Good W (wrap W (alignPre ax) (alignPost ax) g) (ax :: R) false 0 := by
  have hWpos : 0 < W := by rcases hW with h | h <;> omega
  intro σ
  -- abbreviations
  generalize hs1 : σ.sp - W = sp1
  generalize hA : (sp1 + -0x80) - (sp1 + -0x80) % 0x10 = A
  have hA1 : A ≤ sp1 - 128 := by omega
  have hA2 : sp1 - 128 - 16 < A := by omega
  -- state at the inner code's entry
  let σ6 : M :=
    (({ reg := setReg σ.reg ax sp1, flags := andFlags A, sp := A - W,
        mem := fun x => if x = sp1 then some (σ.reg ax)
                        else if sp1 - W < x ∧ x < sp1 + W then none else σ.mem x,
        wr := sp1 :: σ.wr } : M).write W (A - W) sp1)
  have hpre : run W (alignPre ax) σ = some ({ σ6 with sp := A - W - W }.write W (A - W - W) sp1) := by
    simp only [alignPre, run, step, M.write, setReg, hs1, hA, ↓reduceIte, σ6]
  obtain ⟨σ', h1, h2, h3, h4, h5, new, h6, h7⟩ :=
    h ({ σ6 with sp := A - W - W }.write W (A - W - W) sp1)
  simp only [M.write, σ6] at h1 h2 h3 h4 h5 h6 h7
  have hm1 : σ'.mem (A - W - W) = some sp1 := by
    rw [h3 (A - W - W) (by omega)]; simp
  have hm2 : σ'.mem sp1 = some (σ.reg ax) := by
    rw [h3 sp1 (by omega)]
    rw [if_neg (by omega), if_neg (by omega), if_neg (by omega), if_neg (by omega)]
    simp
  refine ⟨{ σ' with reg := setReg (setReg σ'.reg ax sp1) ax (σ.reg ax), sp := sp1 + W }, ?_, ?_, ?_,
    ?_, ?_, ?_⟩
  · simp only [wrap, hpre, Option.bind_some, M.write, σ6, h1, alignPost, run, step, h2, hm1, setReg,
      ↓reduceIte]
    have e : A - W - W + W = A - W := by omega
    simp only [hm2]
  · show sp1 + W = σ.sp; omega
  · intro x hx
    show σ'.mem x = σ.mem x
    rw [h3 x (by omega)]
    rw [if_neg (by omega), if_neg (by omega), if_neg (by omega), if_neg (by omega),
      if_neg (by omega), if_neg (by omega)]
  · intro r hr
    show setReg (setReg σ'.reg ax sp1) ax (σ.reg ax) r = σ.reg r
    simp only [setReg]
    by_cases hrax : r = ax
    · simp [hrax]
    · simp only [hrax, ↓reduceIte]
      rcases List.mem_cons.mp hr with rfl | hr
      · exact absurd rfl hrax
      · rw [h4 r hr]; simp [setReg, hrax]
  · intro hF; cases hF
  · refine ⟨new ++ [A - W - W, A - W, sp1], by simp [h6], ?_⟩
    intro a ha
    rcases List.mem_append.mp ha with ha | ha
    · have := h7 a ha; omega
    · simp only [List.mem_cons, List.not_mem_nil, or_false] at ha
      rcases ha with rfl | rfl | rfl <;> omega

/-- at the inner code's entry the stack pointer is a multiple of 16 minus two cells -/
theorem align_entry_sp {W : Int} (ax : String) (σ σ1 : M) (h : run W (alignPre ax) σ = some σ1) :
    σ1.sp = ((σ.sp - W - 0x80) - (σ.sp - W - 0x80) % 0x10) - W - W := by
  simp only [alignPre, run, step, M.write, Option.some.injEq] at h
  subst h
  simp only []
  omega

end GtirbVerif.Abi

namespace GtirbVerif.Abi

/-! ### ARM64 -/

/-- `stp r1, r2, [sp, #-16]! … ldp r1, r2, [sp], #16` -/
theorem good_stp {g : M → Option M} {R : List String} {F : Bool} {k : Int}
    (hk : 0 ≤ k) (h : Good 8 g R F k) (r1 r2 : String) :
    Good 8 (wrap 8 [.stp r1 r2] [.ldp r1 r2] g) (r1 :: r2 :: R) F 0 := by
  intro σ
  obtain ⟨σ', h1, h2, h3, h4, h5, new, h6, h7⟩ :=
    h (({ σ with sp := σ.sp - 16 }.write 8 (σ.sp - 16) (σ.reg r1)).write 8 (σ.sp - 8) (σ.reg r2))
  simp only [M.write] at h1 h2 h3 h4 h5 h6 h7
  have hm1 : σ'.mem (σ.sp - 16) = some (σ.reg r1) := by
    rw [h3 (σ.sp - 16) (by omega)]
    rw [if_neg (by omega), if_neg (by omega)]; simp
  have hm2 : σ'.mem (σ.sp - 16 + 8) = some (σ.reg r2) := by
    rw [h3 (σ.sp - 16 + 8) (by omega)]
    rw [if_pos (by omega)]
  refine ⟨{ σ' with reg := setReg (setReg σ'.reg r1 (σ.reg r1)) r2 (σ.reg r2), sp := σ'.sp + 16 },
    ?_, ?_, ?_, ?_, ?_, ?_⟩
  · simp only [wrap, run, step, M.write, Option.bind_some, h1, h2, hm1, hm2]
  · simp only [h2]; omega
  · intro x hx
    rw [h3 x (by omega)]
    rw [if_neg (by omega), if_neg (by omega), if_neg (by omega), if_neg (by omega)]
  · intro r hr
    simp only [setReg]
    by_cases e2 : r = r2
    · simp [e2]
    · simp only [e2, ↓reduceIte]
      by_cases e1 : r = r1
      · simp [e1]
      · simp only [e1, ↓reduceIte]
        simp only [List.mem_cons] at hr
        rcases hr with hr | hr | hr
        · exact absurd hr e1
        · exact absurd hr e2
        · exact h4 r hr
  · intro hF; exact h5 hF
  · refine ⟨new ++ [σ.sp - 8, σ.sp - 16], by simp [h6], ?_⟩
    intro a ha
    rcases List.mem_append.mp ha with ha | ha
    · have := h7 a ha; omega
    · simp only [List.mem_cons, List.not_mem_nil, or_false] at ha
      rcases ha with rfl | rfl <;> omega

/-- `str r, [sp, #-16]! … ldr r, [sp], #16` -/
theorem good_strPre {g : M → Option M} {R : List String} {F : Bool} {k : Int}
    (hk : 0 ≤ k) (h : Good 8 g R F k) (r : String) :
    Good 8 (wrap 8 [.strPre r] [.ldrPost r] g) (r :: R) F 0 := by
  intro σ
  obtain ⟨σ', h1, h2, h3, h4, h5, new, h6, h7⟩ :=
    h ({ σ with sp := σ.sp - 16 }.write 8 (σ.sp - 16) (σ.reg r))
  simp only [M.write] at h1 h2 h3 h4 h5 h6 h7
  have hm1 : σ'.mem (σ.sp - 16) = some (σ.reg r) := by
    rw [h3 (σ.sp - 16) (by omega)]; simp
  refine ⟨{ σ' with reg := setReg σ'.reg r (σ.reg r), sp := σ'.sp + 16 }, ?_, ?_, ?_, ?_, ?_, ?_⟩
  · simp only [wrap, run, step, M.write, Option.bind_some, h1, h2, hm1]
  · simp only [h2]; omega
  · intro x hx
    rw [h3 x (by omega)]
    rw [if_neg (by omega), if_neg (by omega)]
  · intro r' hr'
    simp only [setReg]
    by_cases e : r' = r
    · simp [e]
    · simp only [e, ↓reduceIte]
      rcases List.mem_cons.mp hr' with hr' | hr'
      · exact absurd hr' e
      · exact h4 r' hr'
  · intro hF; exact h5 hF
  · refine ⟨new ++ [σ.sp - 16], by simp [h6], ?_⟩
    intro a ha
    rcases List.mem_append.mp ha with ha | ha
    · have := h7 a ha; omega
    · simp only [List.mem_singleton] at ha; omega

/-- `mrs r, nzcv; str r, [sp,#-16]! … ldr r, [sp], #16; msr nzcv, r`: the flags
are restored, at the price of register `r` -/
theorem good_flags_arm {g : M → Option M} {R : List String} {F : Bool} {k : Int}
    (hk : 0 ≤ k) (h : Good 8 g R F k) (r : String) :
    Good 8 (wrap 8 [.mrs r, .strPre r] [.ldrPost r, .msr r] g) (R.filter (· != r)) true 0 := by
  intro σ
  obtain ⟨σ', h1, h2, h3, h4, h5, new, h6, h7⟩ :=
    h ({ σ with reg := setReg σ.reg r σ.flags, sp := σ.sp - 16 }.write 8 (σ.sp - 16) σ.flags)
  simp only [M.write] at h1 h2 h3 h4 h5 h6 h7
  have hm1 : σ'.mem (σ.sp - 16) = some σ.flags := by
    rw [h3 (σ.sp - 16) (by omega)]; simp
  refine ⟨{ σ' with reg := setReg σ'.reg r σ.flags, sp := σ'.sp + 16, flags := σ.flags }, ?_, ?_, ?_,
    ?_, ?_, ?_⟩
  · simp only [wrap, run, step, M.write, Option.bind_some, setReg, ↓reduceIte, h1, h2, hm1]
  · simp only [h2]; omega
  · intro x hx
    rw [h3 x (by omega)]
    rw [if_neg (by omega), if_neg (by omega)]
  · intro r' hr'
    simp only [List.mem_filter, bne_iff_ne, ne_eq] at hr'
    simp only [setReg, hr'.2, ↓reduceIte]
    rw [h4 r' hr'.1]; simp [setReg, hr'.2]
  · intro _; rfl
  · refine ⟨new ++ [σ.sp - 16], by simp [h6], ?_⟩
    intro a ha
    rcases List.mem_append.mp ha with ha | ha
    · have := h7 a ha; omega
    · simp only [List.mem_singleton] at ha; omega

/-! ### MIPS32: a frame of `sw`/`lw` slots above the lowered stack pointer -/

/-- like `Good`, but the transformer may also use the cells at `sp + t`, `t ∈ T` -/
def GoodT (W : Int) (g : M → Option M) (R : List String) (F : Bool) (T : List Int) : Prop :=
  ∀ σ, ∃ σ', g σ = some σ' ∧ σ'.sp = σ.sp ∧
    (∀ x, σ.sp ≤ x → (∀ t ∈ T, ¬ (σ.sp + t - W < x ∧ x < σ.sp + t + W)) → σ'.mem x = σ.mem x) ∧
    (∀ r ∈ R, σ'.reg r = σ.reg r) ∧ (F = true → σ'.flags = σ.flags) ∧
    (∃ new, σ'.wr = new ++ σ.wr ∧ ∀ a ∈ new, a + W ≤ σ.sp ∨ ∃ t ∈ T, a = σ.sp + t)

theorem goodT_of_good {W : Int} {g : M → Option M} {R : List String} {F : Bool} {k : Int}
    (hk : 0 ≤ k) (h : Good W g R F k) : GoodT W g R F [] := by
  intro σ
  obtain ⟨σ', h1, h2, h3, h4, h5, new, h6, h7⟩ := h σ
  exact ⟨σ', h1, h2, fun x hx _ => h3 x hx, h4, h5, new, h6, fun a ha => Or.inl (by
    have := h7 a ha; omega)⟩

/-- `sw r, off($sp) … lw r, off($sp)` around code that does not touch that slot -/
theorem goodT_sw {W : Int} (hW : 0 < W) {g : M → Option M} {R : List String} {F : Bool}
    {T : List Int} (h : GoodT W g R F T) (r : String) (off : Int) (hoff : 0 ≤ off)
    (hfar : ∀ t ∈ T, off + W ≤ t ∨ t + W ≤ off) :
    GoodT W (wrap W [.sw r off] [.lw r off] g) (r :: R) F (off :: T) := by
  intro σ
  obtain ⟨σ', h1, h2, h3, h4, h5, new, h6, h7⟩ := h (σ.write W (σ.sp + off) (σ.reg r))
  simp only [M.write] at h1 h2 h3 h4 h5 h6 h7
  have hm : σ'.mem (σ.sp + off) = some (σ.reg r) := by
    rw [h3 (σ.sp + off) (by omega) (by
      intro t ht; have := hfar t ht; omega)]
    simp
  refine ⟨{ σ' with reg := setReg σ'.reg r (σ.reg r) }, ?_, h2, ?_, ?_, h5, ?_⟩
  · simp only [wrap, run, step, M.write, Option.bind_some, h1, h2, hm]
  · intro x hx hT
    rw [h3 x hx (fun t ht => hT t (List.mem_cons_of_mem _ ht))]
    have := hT off List.mem_cons_self
    rw [if_neg (by omega), if_neg (by omega)]
  · intro r' hr'
    simp only [setReg]
    by_cases e : r' = r
    · simp [e]
    · simp only [e, ↓reduceIte]
      rcases List.mem_cons.mp hr' with hr' | hr'
      · exact absurd hr' e
      · exact h4 r' hr'
  · refine ⟨new ++ [σ.sp + off], by simp [h6], ?_⟩
    intro a ha
    rcases List.mem_append.mp ha with ha | ha
    · rcases h7 a ha with h | ⟨t, ht, rfl⟩
      · exact Or.inl h
      · exact Or.inr ⟨t, List.mem_cons_of_mem _ ht, rfl⟩
    · simp only [List.mem_singleton] at ha
      exact Or.inr ⟨off, List.mem_cons_self, ha⟩

/-- `addiu $sp,$sp,-n … addiu $sp,$sp,n` closes the frame -/
theorem good_addiu {W : Int} {g : M → Option M} {R : List String} {F : Bool} {T : List Int}
    (h : GoodT W g R F T) (n : Int) (hT : ∀ t ∈ T, 0 ≤ t ∧ t + W ≤ n) (hn : 0 ≤ n) :
    Good W (wrap W [.addiuSp (-n)] [.addiuSp n] g) R F 0 := by
  intro σ
  obtain ⟨σ', h1, h2, h3, h4, h5, new, h6, h7⟩ := h { σ with sp := σ.sp + -n }
  simp only at h1 h2 h3 h4 h5 h6 h7
  refine ⟨{ σ' with sp := σ'.sp + n }, ?_, ?_, ?_, h4, h5, new, h6, ?_⟩
  · simp only [wrap, run, step, Option.bind_some, h1]
  · simp only [h2]; omega
  · intro x hx
    exact h3 x (by omega) (by intro t ht; have := hT t ht; omega)
  · intro a ha
    rcases h7 a ha with h | ⟨t, ht, rfl⟩
    · omega
    · have := hT t ht; omega

end GtirbVerif.Abi
