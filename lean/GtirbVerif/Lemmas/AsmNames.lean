import GtirbVerif.Lemmas.AsmChunks
/-!
One name, one symbol: in every state the assembler reaches, the names of the labels and of the
undefined symbols it created are pairwise different, and none of them is a name of the target
module.
-/
namespace GtirbVerif.Asm

def allNames (st : AState) : List String := namesOf st.locals ++ namesOf st.undefs

def NamesOk (t : Target) (st : AState) : Prop :=
  (allNames st).Nodup ∧ ∀ n ∈ allNames st, t.moduleSyms.any (·.1 == n) = false

theorem NamesOk.empty (t : Target) : NamesOk t {} := by
  refine ⟨by simp [allNames, namesOf], by simp [allNames, namesOf]⟩

theorem any_false_notin {l : List (String × Nat)} {n : String} (h : l.any (·.1 == n) = false) : n ∉ namesOf l := by
  intro hm
  simp only [namesOf, List.mem_map] at hm
  obtain ⟨x, hx, rfl⟩ := hm
  rw [List.any_eq_false] at h
  exact h x hx (by simp)

theorem find_none_notin {l : List (String × Nat)} {n : String} (h : l.find? (·.1 == n) = none) : n ∉ namesOf l := by
  apply any_false_notin
  rw [List.any_eq_false]
  rw [List.find?_eq_none] at h
  exact h

/-- a new label: the name is new everywhere -/
theorem NamesOk.addLocal {t : Target} {st : AState} (h : NamesOk t st) {n : String} {id : Nat}
    (hl : st.locals.any (·.1 == n) = false) (hu : st.undefs.any (·.1 == n) = false) (hm : t.moduleSyms.any (·.1 == n) = false) :
    NamesOk t { st with locals := st.locals ++ [(n, id)] } := by
  obtain ⟨h1, h2⟩ := h
  have nl := any_false_notin hl
  have nu := any_false_notin hu
  refine ⟨?_, ?_⟩
  · simp only [allNames, namesOf, List.map_append, List.map_cons, List.map_nil] at h1 ⊢
    rw [List.append_assoc]
    rw [List.nodup_append] at h1 ⊢
    refine ⟨h1.1, ?_, ?_⟩
    · simp only [List.singleton_append, List.nodup_cons]
      exact ⟨by simpa [namesOf] using nu, h1.2.1⟩
    · intro a ha b hb
      simp only [List.singleton_append, List.mem_cons] at hb
      rcases hb with rfl | hb
      · intro he; apply nl; rw [← he]; simpa [namesOf] using ha
      · exact h1.2.2 a ha b hb
  · intro x hx
    simp only [allNames, namesOf, List.map_append, List.map_cons, List.map_nil, List.mem_append, List.mem_singleton] at hx
    rcases hx with (hx | rfl) | hx
    · exact h2 x (by simp [allNames, namesOf, hx])
    · exact hm
    · exact h2 x (by simp [allNames, namesOf, hx])

/-- a new undefined symbol: the name is new everywhere -/
theorem NamesOk.addUndef {t : Target} {st st' : AState} (h : NamesOk t st) {n : String} {id : Nat}
    (hl : st.locals.any (·.1 == n) = false) (hu : st.undefs.any (·.1 == n) = false) (hm : t.moduleSyms.any (·.1 == n) = false)
    (hl' : st'.locals = st.locals) (hu' : st'.undefs = st.undefs ++ [(n, id)]) : NamesOk t st' := by
  obtain ⟨h1, h2⟩ := h
  have nl := any_false_notin hl
  have nu := any_false_notin hu
  refine ⟨?_, ?_⟩
  · simp only [allNames, hl', hu', namesOf, List.map_append, List.map_cons, List.map_nil] at h1 ⊢
    rw [← List.append_assoc, List.nodup_append]
    refine ⟨h1, by simp, ?_⟩
    intro a ha b hb
    simp only [List.mem_singleton] at hb
    rw [hb]
    intro he
    simp only [List.mem_append] at ha
    rcases ha with ha | ha
    · apply nl; rw [← he]; simpa [namesOf] using ha
    · apply nu; rw [← he]; simpa [namesOf] using ha
  · intro x hx
    simp only [allNames, hl', hu', namesOf, List.map_append, List.map_cons, List.map_nil, List.mem_append, List.mem_singleton] at hx
    rcases hx with hx | hx | rfl
    · exact h2 x (by simp [allNames, namesOf, hx])
    · exact h2 x (by simp [allNames, namesOf, hx])
    · exact hm

theorem NamesOk.congr {t : Target} {st st' : AState} (h : NamesOk t st) (hl : st'.locals = st.locals) (hu : st'.undefs = st.undefs) :
    NamesOk t st' := by
  unfold NamesOk allNames at *; rw [hl, hu]; exact h

theorem precreate_names {t : Target} {evs : List Event} {st st' : AState} (h : NamesOk t st) (hr : precreate t st evs = .ok st') :
    NamesOk t st' := by
  induction evs generalizing st with
  | nil => simp [precreate] at hr; rw [← hr]; exact h
  | cons e es ih =>
    cases e <;> simp only [precreate] at hr
    case label n =>
      split at hr
      · cases hr
      · rename_i hc
        have hc' : (st.locals.any (·.1 == n) || st.undefs.any (·.1 == n) || t.moduleSyms.any (·.1 == n)) = false := by
          cases hx : (st.locals.any (·.1 == n) || st.undefs.any (·.1 == n) || t.moduleSyms.any (·.1 == n))
          · rfl
          · exact absurd hx hc
        simp only [Bool.or_eq_false_iff] at hc'
        exact ih (h.addLocal hc'.1.1 hc'.1.2 hc'.2) hr
    all_goals exact ih h hr

theorem resolveRef_names {t : Target} {st st' : AState} {n : String} (h : NamesOk t st) (hr : resolveRef t st n = .ok st') :
    NamesOk t st' := by
  unfold resolveRef at hr
  split at hr
  · injection hr with hr; rw [← hr]; exact h
  · rename_i hc
    have hc' : (st.locals.any (·.1 == n) || st.undefs.any (·.1 == n) || t.moduleSyms.any (·.1 == n)) = false := by
      cases hx : (st.locals.any (·.1 == n) || st.undefs.any (·.1 == n) || t.moduleSyms.any (·.1 == n))
      · rfl
      · exact absurd hx hc
    simp only [Bool.or_eq_false_iff] at hc'
    split at hr
    · cases hr
    · injection hr with hr; rw [← hr]
      exact h.addUndef hc'.1.1 hc'.1.2 hc'.2 rfl rfl

theorem resolveFix_names {t : Target} {st st' : AState} {f : Fixup} (h : NamesOk t st) (hr : resolveFix t st f = .ok st') :
    NamesOk t st' := by
  unfold resolveFix at hr
  split at hr
  · cases hr
  · rename_i st1 h1
    split at hr
    · injection hr with hr; rw [← hr]; exact resolveRef_names h h1
    · exact resolveRef_names (resolveRef_names h h1) hr

theorem resolveFixups_names {t : Target} {fx : List Fixup} {st st' : AState} (h : NamesOk t st)
    (hr : resolveFixups t st fx = .ok st') : NamesOk t st' := by
  induction fx generalizing st with
  | nil => simp [resolveFixups] at hr; rw [← hr]; exact h
  | cons f fs ih =>
    simp only [resolveFixups] at hr
    split at hr
    · cases hr
    · rename_i st1 h1
      exact ih (resolveFix_names h h1) hr

theorem find_none_any {l : List (String × Bool)} {n : String} (h : l.find? (·.1 == n) = none) : l.any (·.1 == n) = false := by
  rw [List.any_eq_false]; rw [List.find?_eq_none] at h; exact h

theorem find_none_any' {l : List (String × Nat)} {n : String} (h : l.find? (·.1 == n) = none) : l.any (·.1 == n) = false := by
  rw [List.any_eq_false]; rw [List.find?_eq_none] at h; exact h

theorem resolveTarget_names {t : Target} {st st' : AState} {n : String} {nd : Node} (h : NamesOk t st)
    (hr : resolveTarget t st n = .ok (st', nd)) : NamesOk t st' := by
  unfold resolveTarget at hr
  split at hr
  · injection hr with hr; injection hr with h1 h2; rw [← h1]; exact h
  · rename_i hl
    split at hr
    · injection hr with hr; injection hr with h1 h2; rw [← h1]; exact h
    · rename_i hu
      split at hr
      · split at hr
        · injection hr with hr; injection hr with h1 h2; rw [← h1]; exact h
        · cases hr
      · rename_i hm
        split at hr
        · cases hr
        · injection hr with hr; injection hr with h1 h2; rw [← h1]
          exact h.addUndef (find_none_any' hl) (find_none_any' hu) (find_none_any hm) rfl rfl

theorem insnTarget_names {t : Target} {st st' : AState} {ind : Bool} {fx : List Fixup} {nd : Node} {d : Bool} (h : NamesOk t st)
    (hr : insnTarget t st ind fx = .ok (st', nd, d)) : NamesOk t st' := by
  unfold insnTarget at hr
  split at hr
  · injection hr with hr; injection hr with h1 h2; rw [← h1]; exact h.congr rfl rfl
  · split at hr
    · rename_i f
      split at hr
      · cases hr
      · cases hx : resolveTarget t st f.sym with
        | error e => rw [hx] at hr; cases hr
        | ok r =>
          obtain ⟨a, n⟩ := r
          rw [hx] at hr
          simp only [Except.map] at hr
          injection hr with hr; injection hr with h1 h2
          rw [← h1]; exact resolveTarget_names h hx
    · cases hr

theorem stepInsn_names {t : Target} {st st' : AState} {s : ASect} {size : Nat} {kind : IKind} {ind : Bool} {fx : List Fixup}
    (h : NamesOk t st) (hr : stepInsn t st s size kind ind fx = .ok st') : NamesOk t st' := by
  unfold stepInsn at hr
  split at hr
  · cases hr
  · rename_i st0 h0
    have n0 : NamesOk t (markCode st0 (insnSect s size fx).curBlock.id) := (resolveFixups_names h h0).congr rfl rfl
    split at hr
    · injection hr with hr; rw [← hr]; exact n0.congr rfl rfl
    · injection hr with hr; rw [← hr]; exact n0.congr rfl rfl
    · simp only [] at hr
      split at hr
      · cases hr
      · rename_i st2 tgt direct ht
        injection hr with hr; rw [← hr]
        exact (insnTarget_names n0 ht).congr rfl rfl

theorem step_names {t : Target} {st st' : AState} {ev : Event} (h : NamesOk t st) (hr : step t st ev = .ok st') : NamesOk t st' := by
  unfold step at hr
  split at hr
  · injection hr with hr; rw [← hr]
    unfold stepSection
    split <;> exact h.congr rfl rfl
  · split at hr
    · cases hr
    · rename_i s hs
      unfold stepIn at hr
      split at hr
      · injection hr with hr; rw [← hr]; exact h
      · unfold stepLabel at hr
        split at hr
        · cases hr
        · injection hr with hr; rw [← hr]; exact h.congr rfl rfl
      · exact stepInsn_names h hr
      · unfold stepValue at hr
        split at hr
        · cases hr
        · rename_i st0 h0
          injection hr with hr; rw [← hr]; exact (resolveFix_names h h0).congr rfl rfl
      · injection hr with hr; rw [← hr]; exact h.congr rfl rfl
      · injection hr with hr; rw [← hr]; exact h.congr rfl rfl
      · injection hr with hr; rw [← hr]
        unfold stepStr
        split <;> exact h.congr rfl rfl
      · unfold stepLeb at hr
        split at hr
        · cases hr
        · rename_i st0 h0
          injection hr with hr; rw [← hr]; exact (resolveFix_names h h0).congr rfl rfl
      · injection hr with hr; rw [← hr]
        unfold stepAlign
        split <;> exact h.congr rfl rfl
      · injection hr with hr; rw [← hr]; exact h.congr rfl rfl

theorem run_names {t : Target} {evs : List Event} {st st' : AState} (h : NamesOk t st) (hr : run t st evs = .ok st') : NamesOk t st' := by
  induction evs generalizing st with
  | nil => simp [run] at hr; rw [← hr]; exact h
  | cons e es ih =>
    simp only [run] at hr
    split at hr
    · cases hr
    · rename_i st1 h1
      exact ih (step_names h h1) hr

theorem assembleChunks_names {t : Target} {chunks : List (List Event)} {st st' : AState} (h : NamesOk t st)
    (hr : assembleChunks t st chunks = .ok st') : NamesOk t st' := by
  induction chunks generalizing st with
  | nil => simp [assembleChunks] at hr; rw [← hr]; exact h
  | cons c cs ih =>
    simp only [assembleChunks] at hr
    split at hr
    · cases hr
    · rename_i st1 h1
      split at hr
      · cases hr
      · rename_i st2 h2
        exact ih (run_names (precreate_names h h1) h2) hr

end GtirbVerif.Asm
