import GtirbVerif.Lemmas.Leb

/-! Round trip of the fixed-width integer codec (`int.to_bytes` / `int.from_bytes`). -/
namespace GtirbVerif.Dwarf

theorem orderBytes_orderBytes (bo : ByteOrder) (l : List Nat) :
    orderBytes bo (orderBytes bo l) = l := by
  cases bo <;> simp [orderBytes]

theorem orderBytes_length (bo : ByteOrder) (l : List Nat) :
    (orderBytes bo l).length = l.length := by
  cases bo <;> simp [orderBytes]

theorem orderBytes_lt (bo : ByteOrder) (l : List Nat) (h : ∀ b ∈ l, b < 256) :
    ∀ b ∈ orderBytes bo l, b < 256 := by
  cases bo <;> simp_all [orderBytes]

theorem pow256 (n : Nat) : 256 ^ n = 2 ^ (8 * n) := by
  rw [Nat.pow_mul]

theorem two_pow_split (n : Nat) (h : n ≠ 0) : 2 ^ (8 * n) = 2 * 2 ^ (8 * n - 1) := by
  have : 8 * n = (8 * n - 1) + 1 := by omega
  rw [this, Nat.pow_succ]; simp only [Nat.add_sub_cancel]; omega

theorem intEnc_length {n s bo v l} (h : intEnc n s bo v = some l) : l.length = n := by
  unfold intEnc at h
  split at h
  · cases h; rw [orderBytes_length, leBytes_length]
  · cases h

theorem intEnc_lt {n s bo v l} (h : intEnc n s bo v = some l) : ∀ b ∈ l, b < 256 := by
  unfold intEnc at h
  split at h
  · cases h; exact orderBytes_lt _ _ (leBytes_lt _ _)
  · cases h

/-- unsigned round trip -/
theorem intDec_intEnc_unsigned (n : Nat) (bo : ByteOrder) (v : Int) (l rest : List Nat)
    (h : intEnc n false bo v = some l) :
    intDec n false bo (l ++ rest) = (v, n, rest) := by
  have hl := intEnc_length h
  unfold intEnc at h
  split at h
  · rename_i hd
    cases h
    simp only [inIntDomain, Bool.false_eq_true, ↓reduceIte, decide_eq_true_eq] at hd
    unfold intDec
    simp only [Bool.false_eq_true, false_and, ↓reduceIte]
    rw [List.take_left' hl, List.drop_left' hl, orderBytes_orderBytes, leVal_leBytes, pow256]
    have hc : ((2 : Int) ^ (8 * n)) = ((2 ^ (8 * n) : Nat) : Int) := by simp
    rw [hc] at hd ⊢
    generalize 2 ^ (8 * n) = P at *
    have : v % (P : Int) = v := Int.emod_eq_of_lt hd.1 hd.2
    rw [this]
    have hv : ((v.toNat : Nat) : Int) = v := Int.toNat_of_nonneg hd.1
    have : v.toNat % P = v.toNat := Nat.mod_eq_of_lt (by omega)
    rw [this, hv]
  · cases h

/-- signed round trip (width must be non-zero) -/
theorem intDec_intEnc_signed (n : Nat) (hn : n ≠ 0) (bo : ByteOrder) (v : Int) (l rest : List Nat)
    (h : intEnc n true bo v = some l) :
    intDec n true bo (l ++ rest) = (v, n, rest) := by
  have hl := intEnc_length h
  unfold intEnc at h
  split at h
  · rename_i hd
    cases h
    simp only [inIntDomain, ↓reduceIte, decide_eq_true_eq] at hd
    unfold intDec
    simp only [true_and]
    rw [List.take_left' hl, List.drop_left' hl, orderBytes_orderBytes, leVal_leBytes, pow256,
      orderBytes_length, leBytes_length]
    have hc : ((2 : Int) ^ (8 * n)) = ((2 ^ (8 * n) : Nat) : Int) := by simp
    have hc' : ((2 : Int) ^ (8 * n - 1)) = ((2 ^ (8 * n - 1) : Nat) : Int) := by simp
    rw [hc'] at hd
    rw [hc]
    have hsplit := two_pow_split n hn
    generalize 2 ^ (8 * n) = P at *
    generalize 2 ^ (8 * n - 1) = H at *
    subst hsplit
    by_cases hneg : v < 0
    · have h1 : v % ((2 * H : Nat) : Int) = v + (2 * H : Nat) := by
        rw [← Int.add_emod_right]
        exact Int.emod_eq_of_lt (by omega) (by omega)
      rw [h1]
      have h2 : ((v + ((2 * H : Nat) : Int)).toNat : Int) = v + (2 * H : Nat) :=
        Int.toNat_of_nonneg (by omega)
      have h3 : (v + ((2 * H : Nat) : Int)).toNat % (2 * H) = (v + ((2 * H : Nat) : Int)).toNat :=
        Nat.mod_eq_of_lt (by omega)
      rw [h3]
      have h4 : H ≤ (v + ((2 * H : Nat) : Int)).toNat := by omega
      simp only [hn, ne_eq, not_false_eq_true, h4, and_self, ↓reduceIte, h2]
      congr 1
      omega
    · have h1 : v % ((2 * H : Nat) : Int) = v := Int.emod_eq_of_lt (by omega) (by omega)
      rw [h1]
      have h2 : ((v.toNat : Nat) : Int) = v := Int.toNat_of_nonneg (by omega)
      have h3 : v.toNat % (2 * H) = v.toNat := Nat.mod_eq_of_lt (by omega)
      rw [h3]
      have h4 : ¬ H ≤ v.toNat := by omega
      simp only [hn, ne_eq, not_false_eq_true, h4, and_false, ↓reduceIte, h2]
  · cases h

end GtirbVerif.Dwarf
