import GtirbVerif.Spec.AdtSpec

/-! Refinement of the reference-cache forest to "assign `Symbol.referent` directly". -/
namespace GtirbVerif.Adt

/-- node `n` reaches root `r`, whose referent block is `b` -/
inductive Res (par : Nat → PRef) : Nat → Nat → Nat → Prop
  | root {n b} : par n = .block b → Res par n n b
  | step {n p r b} : par n = .node p → Res par p r b → Res par n r b

theorem Res.det {par : Nat → PRef} {n r b r' b' : Nat} (h : Res par n r b) (h' : Res par n r' b') :
    r = r' ∧ b = b' := by
  induction h generalizing r' b' with
  | root hp =>
    cases h' with
    | root hp' => rw [hp] at hp'; cases hp'; exact ⟨rfl, rfl⟩
    | step hp' _ => rw [hp] at hp'; cases hp'
  | step hp _ ih =>
    cases h' with
    | root hp' => rw [hp] at hp'; cases hp'
    | step hp' h2 => rw [hp] at hp'; cases hp'; exact ih h2

theorem Res.root_parent {par : Nat → PRef} {n r b : Nat} (h : Res par n r b) : par r = .block b := by
  induction h with
  | root hp => exact hp
  | step _ _ ih => exact ih

theorem Res.not_dead {par : Nat → PRef} {n r b : Nat} (h : Res par n r b) : par n ≠ .dead := by
  cases h with
  | root hp => rw [hp]; simp
  | step hp _ => rw [hp]; simp

/-- if `par'` agrees with `par` on every node that resolves, resolution is preserved -/
theorem Res.mono {par par' : Nat → PRef} {n r b : Nat} (h : Res par n r b)
    (hsame : ∀ m r' b', Res par m r' b' → par' m = par m) : Res par' n r b := by
  induction h with
  | root hp => exact .root ((hsame _ _ _ (.root hp)).trans hp)
  | step hp h2 ih => exact .step ((hsame _ _ _ (.step hp h2)).trans hp) ih

/-- what the symbol stands for: `(referent, at_end)` -/
def Stands (c : RC) (s : Nat) (blk : Option Nat) (ae : Bool) : Prop :=
  match c.referents s with
  | none => blk = c.direct s ∧ ae = c.atEnd s
  | some n => ∃ r b x y, Res c.parent n r b ∧ c.refs b = some (x, y) ∧ blk = some b ∧ ae = (r == y)

/-- the concrete forest stands for the abstract assignment -/
def Abs (c : RC) (sp : RSpec) : Prop := ∀ s, Stands c s (sp.ref s) (sp.atEnd s)

structure Inv (c : RC) : Prop where
  /-- every node that carries a symbol resolves to a root -/
  resolves : ∀ s n, c.referents s = some n → ∃ r b, Res c.parent n r b
  /-- roots are exactly the registered tree pairs -/
  rootsReg : ∀ n b, c.parent n = .block b → ∃ x y, c.refs b = some (x, y) ∧ (n = x ∨ n = y)
  regRoots : ∀ b x y, c.refs b = some (x, y) → c.parent x = .block b ∧ c.parent y = .block b ∧ x ≠ y
  /-- a symbol is never both direct and indirect -/
  indirect : ∀ s n, c.referents s = some n → c.direct s = none
  /-- nodes not allocated yet are unused -/
  fresh : ∀ n, c.next ≤ n → c.parent n = .dead ∧ (∀ m, c.parent m ≠ .node n) ∧
    (∀ s, c.referents s ≠ some n) ∧ (∀ b x y, c.refs b = some (x, y) → x ≠ n ∧ y ≠ n)
  /-- symbols outside the universe carry nothing -/
  symBound : ∀ s, c.nSyms ≤ s → c.referents s = none ∧ c.direct s = none

theorem inv_init (n : Nat) : Inv { nSyms := n } := by
  refine ⟨?_, ?_, ?_, ?_, ?_, ?_⟩ <;> simp

theorem abs_init (n : Nat) : Abs { nSyms := n } {} := by
  intro s; simp [Stands]

/-! ### set_referent -/

theorem setReferent_ok {c : RC} {sp : RSpec} (hi : Inv c) (ha : Abs c sp) (s : Nat)
    (hs : s < c.nSyms) (r : Option Nat) (ae : Bool) :
    Inv (c.setReferent s r ae) ∧ Abs (c.setReferent s r ae) (sp.setReferent s r ae) := by
  constructor
  · refine ⟨?_, hi.rootsReg, hi.regRoots, ?_, ?_, ?_⟩
    · intro s' n h
      simp only [RC.setReferent, fset] at h
      split at h
      · cases h
      · exact hi.resolves s' n h
    · intro s' n h
      simp only [RC.setReferent, fset] at h ⊢
      split at h
      · cases h
      · rename_i hne; simp only [hne, ↓reduceIte]; exact hi.indirect s' n h
    · intro n hn
      obtain ⟨h1, h2, h3, h4⟩ := hi.fresh n hn
      refine ⟨h1, h2, ?_, h4⟩
      intro s'
      simp only [RC.setReferent, fset]
      split
      · simp
      · exact h3 s'
    · intro s' hs'
      have hs'' : c.nSyms ≤ s' := hs'
      have hne : s' ≠ s := by omega
      simp only [RC.setReferent, fset, hne, ↓reduceIte]
      exact hi.symBound s' hs'
  · intro s'
    by_cases h : s' = s
    · subst h
      simp [Stands, RC.setReferent, RSpec.setReferent, fset]
    · have := ha s'
      simp only [Stands, RC.setReferent, RSpec.setReferent, fset, h, ↓reduceIte] at this ⊢
      exact this

end GtirbVerif.Adt

namespace GtirbVerif.Adt

theorem fset_same {β} (f : Nat → β) (k : Nat) (v : β) : fset f k v k = v := by simp [fset]
theorem fset_other {β} (f : Nat → β) (k : Nat) (v : β) (x : Nat) (h : x ≠ k) :
    fset f k v x = f x := by simp [fset, h]

/-- a node that resolves is allocated -/
theorem Inv.res_lt {c : RC} (hi : Inv c) {n r b : Nat} (h : Res c.parent n r b) : n < c.next := by
  by_cases hn : n < c.next
  · exact hn
  · exact absurd (hi.fresh n (by omega)).1 h.not_dead

theorem Inv.reg_lt {c : RC} (hi : Inv c) {b x y : Nat} (h : c.refs b = some (x, y)) :
    x < c.next ∧ y < c.next := by
  constructor
  · by_cases hn : x < c.next
    · exact hn
    · exact absurd rfl ((hi.fresh x (by omega)).2.2.2 b x y h).1
  · by_cases hn : y < c.next
    · exact hn
    · exact absurd rfl ((hi.fresh y (by omega)).2.2.2 b x y h).2

/-! ### ensureTrees -/

theorem ensureTrees_ok {c : RC} {sp : RSpec} (hi : Inv c) (ha : Abs c sp) (b : Nat) :
    Inv (c.ensureTrees b) ∧ Abs (c.ensureTrees b) sp ∧
    (∃ x y, (c.ensureTrees b).refs b = some (x, y)) ∧
    (c.ensureTrees b).direct = c.direct ∧ (c.ensureTrees b).atEnd = c.atEnd ∧
    (c.ensureTrees b).referents = c.referents ∧ (c.ensureTrees b).nSyms = c.nSyms ∧
    (∀ b', c.refs b' ≠ none → (c.ensureTrees b).refs b' = c.refs b') := by
  cases hb : c.refs b with
  | some p =>
    have hdef : c.ensureTrees b = c := by simp [RC.ensureTrees, hb]
    rw [hdef]
    exact ⟨hi, ha, ⟨p.1, p.2, hb⟩, rfl, rfl, rfl, rfl, fun _ _ => rfl⟩
  | none =>
    have hdef : c.ensureTrees b = c.newTrees b := by simp [RC.ensureTrees, hb]
    rw [hdef]
    have eP : (c.newTrees b).parent = fset (fset c.parent c.next (.block b)) (c.next + 1) (.block b) := rfl
    have eR : (c.newTrees b).refs = fset c.refs b (some (c.next, c.next + 1)) := rfl
    have eN : (c.newTrees b).next = c.next + 2 := rfl
    have eF : (c.newTrees b).referents = c.referents := rfl
    have eD : (c.newTrees b).direct = c.direct := rfl
    have eA : (c.newTrees b).atEnd = c.atEnd := rfl
    have eS : (c.newTrees b).nSyms = c.nSyms := rfl
    generalize c.newTrees b = c' at eP eR eN eF eD eA eS ⊢
    have hpar : ∀ m, m < c.next → c'.parent m = c.parent m := by
      intro m hm
      rw [eP, fset_other _ _ _ _ (by omega), fset_other _ _ _ _ (by omega)]
    have hmono : ∀ {n r b'}, Res c.parent n r b' → Res c'.parent n r b' := by
      intro n r b' h
      exact h.mono (fun m r' b'' hm => hpar m (hi.res_lt hm))
    have hrefs : ∀ b', c.refs b' ≠ none → c'.refs b' = c.refs b' := by
      intro b' hb'
      have : b' ≠ b := fun e => hb' (e ▸ hb)
      rw [eR]; exact fset_other _ _ _ _ this
    have hrb : c'.refs b = some (c.next, c.next + 1) := by rw [eR]; exact fset_same _ _ _
    refine ⟨⟨?_, ?_, ?_, ?_, ?_, ?_⟩, ?_, ⟨_, _, hrb⟩, eD, eA, eF, eS, hrefs⟩
    · intro s n h
      rw [eF] at h
      obtain ⟨r, b', hr⟩ := hi.resolves s n h
      exact ⟨r, b', hmono hr⟩
    · intro n b0 h
      rw [eP] at h
      by_cases h1 : n = c.next + 1
      · subst h1
        rw [fset_same] at h; cases h
        exact ⟨_, _, hrb, Or.inr rfl⟩
      · by_cases h0 : n = c.next
        · subst h0
          rw [fset_other _ _ _ _ (by omega), fset_same] at h; cases h
          exact ⟨_, _, hrb, Or.inl rfl⟩
        · rw [fset_other _ _ _ _ h1, fset_other _ _ _ _ h0] at h
          obtain ⟨x, y, hxy, hor⟩ := hi.rootsReg n b0 h
          exact ⟨x, y, (hrefs b0 (by rw [hxy]; simp)).trans hxy, hor⟩
    · intro b0 x y h
      by_cases hb0 : b0 = b
      · subst hb0
        rw [hrb] at h; cases h
        refine ⟨?_, ?_, by omega⟩
        · rw [eP, fset_other _ _ _ _ (by omega), fset_same]
        · rw [eP, fset_same]
      · rw [eR, fset_other _ _ _ _ hb0] at h
        obtain ⟨hx, hy⟩ := hi.reg_lt h
        obtain ⟨h1, h2, h3⟩ := hi.regRoots b0 x y h
        exact ⟨(hpar x hx).trans h1, (hpar y hy).trans h2, h3⟩
    · intro s n h
      rw [eF] at h; rw [eD]; exact hi.indirect s n h
    · intro n hn
      rw [eN] at hn
      have hn' : c.next ≤ n := by omega
      obtain ⟨h1, h2, h3, h4⟩ := hi.fresh n hn'
      refine ⟨?_, ?_, ?_, ?_⟩
      · rw [eP, fset_other _ _ _ _ (by omega), fset_other _ _ _ _ (by omega)]; exact h1
      · intro m
        rw [eP]
        by_cases hm1 : m = c.next + 1
        · subst hm1; rw [fset_same]; simp
        · by_cases hm0 : m = c.next
          · subst hm0; rw [fset_other _ _ _ _ (by omega), fset_same]; simp
          · rw [fset_other _ _ _ _ hm1, fset_other _ _ _ _ hm0]; exact h2 m
      · rw [eF]; exact h3
      · intro b0 x y h
        by_cases hb0 : b0 = b
        · subst hb0
          rw [hrb] at h; cases h
          constructor <;> omega
        · rw [eR, fset_other _ _ _ _ hb0] at h
          exact h4 b0 x y h
    · intro s hs
      rw [eS] at hs; rw [eF, eD]; exact hi.symBound s hs
    · intro s
      have := ha s
      simp only [Stands, eF, eD, eA] at this ⊢
      cases hr : c.referents s with
      | none => simpa [hr] using this
      | some n =>
        simp only [hr] at this ⊢
        obtain ⟨r, b', x, y, h1, h2, h3, h4⟩ := this
        exact ⟨r, b', x, y, hmono h1, (hrefs b' (by rw [h2]; simp)).trans h2, h3, h4⟩

end GtirbVerif.Adt

namespace GtirbVerif.Adt

/-! ### indirectify -/

theorem indirectify_ok {c : RC} {sp : RSpec} (hi : Inv c) (ha : Abs c sp) (b sr er : Nat)
    (hb : c.refs b = some (sr, er)) :
    Inv (c.indirectify b) ∧ Abs (c.indirectify b) sp ∧
    (∀ s, (c.indirectify b).direct s ≠ some b) ∧
    (c.indirectify b).refs = c.refs ∧ (c.indirectify b).parent = c.parent ∧
    (c.indirectify b).next = c.next ∧ (c.indirectify b).nSyms = c.nSyms := by
  have eF : (c.indirectify b).referents = fun s => if c.direct s = some b then
      some (if c.atEnd s then er else sr) else c.referents s := by
    simp [RC.indirectify, hb]
  have eD : (c.indirectify b).direct = fun s => if c.direct s = some b then none else c.direct s := by
    simp [RC.indirectify, hb]
  have eP : (c.indirectify b).parent = c.parent := by simp [RC.indirectify, hb]
  have eR : (c.indirectify b).refs = c.refs := by simp [RC.indirectify, hb]
  have eN : (c.indirectify b).next = c.next := by simp [RC.indirectify, hb]
  have eA : (c.indirectify b).atEnd = c.atEnd := by simp [RC.indirectify, hb]
  have eS : (c.indirectify b).nSyms = c.nSyms := by simp [RC.indirectify, hb]
  generalize c.indirectify b = c' at eF eD eP eR eN eA eS ⊢
  obtain ⟨hsr, her, hne⟩ := hi.regRoots b sr er hb
  obtain ⟨hsrlt, herlt⟩ := hi.reg_lt hb
  refine ⟨⟨?_, ?_, ?_, ?_, ?_, ?_⟩, ?_, ?_, eR, eP, eN, eS⟩
  · intro s n h
    rw [eP]
    rw [eF] at h
    simp only at h
    split at h
    · cases h
      split
      · exact ⟨er, b, .root her⟩
      · exact ⟨sr, b, .root hsr⟩
    · exact hi.resolves s n h
  · rw [eP, eR]; exact hi.rootsReg
  · rw [eP, eR]; exact hi.regRoots
  · intro s n h
    rw [eF] at h; rw [eD]
    simp only at h ⊢
    split at h
    · rename_i hd; simp [hd]
    · rename_i hd; simp only [hd, ↓reduceIte]; exact hi.indirect s n h
  · intro n hn
    rw [eN] at hn
    obtain ⟨h1, h2, h3, h4⟩ := hi.fresh n hn
    refine ⟨by rw [eP]; exact h1, by rw [eP]; exact h2, ?_, by rw [eR]; exact h4⟩
    intro s
    rw [eF]
    simp only
    split
    · split
      · intro e; cases e; omega
      · intro e; cases e; omega
    · exact h3 s
  · intro s hs
    rw [eS] at hs
    obtain ⟨h1, h2⟩ := hi.symBound s hs
    rw [eF, eD]
    simp [h1, h2]
  · intro s
    have := ha s
    simp only [Stands, eF, eD, eA, eP, eR] at this ⊢
    by_cases hd : c.direct s = some b
    · have hnone : c.referents s = none := by
        cases hr : c.referents s with
        | none => rfl
        | some n => rw [hi.indirect s n hr] at hd; cases hd
      simp only [hnone, hd] at this
      simp only [hd, ↓reduceIte]
      by_cases hae : c.atEnd s = true
      · simp only [hae, ↓reduceIte]
        exact ⟨er, b, sr, er, .root her, hb, this.1, by simp [this.2, hae]⟩
      · simp only [hae]
        refine ⟨sr, b, sr, er, .root hsr, hb, this.1, ?_⟩
        have : (sr == er) = false := by simp [hne]
        simp_all
    · simp only [hd, ↓reduceIte]
      exact this
  · intro s
    rw [eD]
    simp only
    split
    · simp
    · rename_i hd; exact hd

end GtirbVerif.Adt

namespace GtirbVerif.Adt

/-! ### graft: the central re-parenting lemma -/

/-- Re-parenting the two roots `sr`, `er` of block `b` under a root `tgt` of
block `t`: every node that resolved to `sr`/`er` now resolves to `tgt`, every
other node resolves as before. -/
theorem Res_graft {par par' : Nat → PRef} {sr er tgt b t : Nat}
    (hsr : par sr = .block b) (her : par er = .block b)
    (hsr' : par' sr = .node tgt) (her' : par' er = .node tgt) (htgt : par' tgt = .block t)
    (hsame : ∀ m r0 b0, Res par m r0 b0 → m ≠ sr → m ≠ er → par' m = par m)
    {n r b0 : Nat} (h : Res par n r b0) :
    ((r = sr ∨ r = er) → Res par' n tgt t) ∧ (r ≠ sr → r ≠ er → Res par' n r b0) := by
  induction h with
  | @root n b1 hp =>
    constructor
    · rintro (rfl | rfl)
      · exact .step hsr' (.root htgt)
      · exact .step her' (.root htgt)
    · intro h1 h2
      exact .root ((hsame n n b1 (.root hp) h1 h2).trans hp)
  | @step n p r b1 hp h2 ih =>
    have hn1 : n ≠ sr := by rintro rfl; rw [hsr] at hp; cases hp
    have hn2 : n ≠ er := by rintro rfl; rw [her] at hp; cases hp
    have hp' : par' n = .node p := (hsame n r b1 (.step hp h2) hn1 hn2).trans hp
    exact ⟨fun hr => .step hp' (ih.1 hr), fun h1 h2' => .step hp' (ih.2 h1 h2')⟩

/-- the abstract effect of retargeting -/
def retargetSpec (sp : RSpec) (b t : Nat) (ae : Bool) : RSpec :=
  { ref := fun x => if sp.ref x = some b then some t else sp.ref x,
    atEnd := fun x => if sp.ref x = some b then ae else sp.atEnd x }

theorem hang_ok {c2 : RC} {sp : RSpec} (hi : Inv c2) (ha : Abs c2 sp) {b t sr er ts te : Nat}
    (hb : c2.refs b = some (sr, er)) (ht : c2.refs t = some (ts, te)) (htb : t ≠ b)
    (hnd : ∀ s, c2.direct s ≠ some b) (ae : Bool) :
    Inv ((c2.detach b).hang sr er (if ae then te else ts)) ∧
    Abs ((c2.detach b).hang sr er (if ae then te else ts)) (retargetSpec sp b t ae) := by
  generalize htg : (if ae then te else ts) = tgt
  have eP : ((c2.detach b).hang sr er tgt).parent =
      fset (fset c2.parent sr (.node tgt)) er (.node tgt) := rfl
  have eR : ((c2.detach b).hang sr er tgt).refs = fset c2.refs b none := rfl
  have eN : ((c2.detach b).hang sr er tgt).next = c2.next := rfl
  have eF : ((c2.detach b).hang sr er tgt).referents = c2.referents := rfl
  have eD : ((c2.detach b).hang sr er tgt).direct = c2.direct := rfl
  have eA : ((c2.detach b).hang sr er tgt).atEnd = c2.atEnd := rfl
  have eS : ((c2.detach b).hang sr er tgt).nSyms = c2.nSyms := rfl
  generalize (c2.detach b).hang sr er tgt = c' at eP eR eN eF eD eA eS ⊢
  obtain ⟨hsr, her, hne⟩ := hi.regRoots b sr er hb
  obtain ⟨hts, hte, hnet⟩ := hi.regRoots t ts te ht
  obtain ⟨hsrlt, herlt⟩ := hi.reg_lt hb
  obtain ⟨htslt, htelt⟩ := hi.reg_lt ht
  have htgt_par : c2.parent tgt = .block t := by subst htg; split <;> assumption
  have htgt_lt : tgt < c2.next := by subst htg; split <;> assumption
  have htgt_sr : tgt ≠ sr := by
    rintro rfl; rw [hsr] at htgt_par; cases htgt_par; exact htb rfl
  have htgt_er : tgt ≠ er := by
    rintro rfl; rw [her] at htgt_par; cases htgt_par; exact htb rfl
  have hsr' : c'.parent sr = .node tgt := by
    rw [eP]
    by_cases h : sr = er
    · exact absurd h hne
    · rw [fset_other _ _ _ _ h, fset_same]
  have her' : c'.parent er = .node tgt := by rw [eP, fset_same]
  have hsame : ∀ m, m ≠ sr → m ≠ er → c'.parent m = c2.parent m := by
    intro m h1 h2; rw [eP, fset_other _ _ _ _ h2, fset_other _ _ _ _ h1]
  have htgt' : c'.parent tgt = .block t := (hsame tgt htgt_sr htgt_er).trans htgt_par
  have hgraft : ∀ {n r b0}, Res c2.parent n r b0 →
      ((r = sr ∨ r = er) → Res c'.parent n tgt t) ∧ (r ≠ sr → r ≠ er → Res c'.parent n r b0) :=
    fun h => Res_graft hsr her hsr' her' htgt' (fun m _ _ _ h1 h2 => hsame m h1 h2) h
  have hrefs' : ∀ b0, b0 ≠ b → c'.refs b0 = c2.refs b0 := by
    intro b0 h0; rw [eR, fset_other _ _ _ _ h0]
  -- a root other than sr/er belongs to a block other than b
  have hroot_other : ∀ r b0, c2.parent r = .block b0 → r ≠ sr → r ≠ er → b0 ≠ b := by
    rintro r b0 hr h1 h2 rfl
    obtain ⟨x, y, hxy, hor⟩ := hi.rootsReg r b0 hr
    rw [hb] at hxy; cases hxy
    rcases hor with rfl | rfl
    · exact h1 rfl
    · exact h2 rfl
  refine ⟨⟨?_, ?_, ?_, ?_, ?_, ?_⟩, ?_⟩
  · intro s n h
    rw [eF] at h
    obtain ⟨r, b0, hr⟩ := hi.resolves s n h
    by_cases h1 : r = sr ∨ r = er
    · exact ⟨tgt, t, (hgraft hr).1 h1⟩
    · simp only [not_or] at h1
      exact ⟨r, b0, (hgraft hr).2 h1.1 h1.2⟩
  · intro n b0 h
    have hn1 : n ≠ sr := by rintro rfl; rw [hsr'] at h; cases h
    have hn2 : n ≠ er := by rintro rfl; rw [her'] at h; cases h
    rw [hsame n hn1 hn2] at h
    obtain ⟨x, y, hxy, hor⟩ := hi.rootsReg n b0 h
    exact ⟨x, y, (hrefs' b0 (hroot_other n b0 h hn1 hn2)).trans hxy, hor⟩
  · intro b0 x y h
    have hb0 : b0 ≠ b := by
      rintro rfl; rw [eR, fset_same] at h; cases h
    rw [hrefs' b0 hb0] at h
    obtain ⟨h1, h2, h3⟩ := hi.regRoots b0 x y h
    have hx1 : x ≠ sr := by rintro rfl; rw [hsr] at h1; cases h1; exact hb0 rfl
    have hx2 : x ≠ er := by rintro rfl; rw [her] at h1; cases h1; exact hb0 rfl
    have hy1 : y ≠ sr := by rintro rfl; rw [hsr] at h2; cases h2; exact hb0 rfl
    have hy2 : y ≠ er := by rintro rfl; rw [her] at h2; cases h2; exact hb0 rfl
    exact ⟨(hsame x hx1 hx2).trans h1, (hsame y hy1 hy2).trans h2, h3⟩
  · intro s n h
    rw [eF] at h; rw [eD]; exact hi.indirect s n h
  · intro n hn
    rw [eN] at hn
    obtain ⟨h1, h2, h3, h4⟩ := hi.fresh n hn
    refine ⟨?_, ?_, by rw [eF]; exact h3, ?_⟩
    · rw [hsame n (by omega) (by omega)]; exact h1
    · intro m
      by_cases hm1 : m = sr
      · subst hm1; rw [hsr']; intro e; cases e; omega
      · by_cases hm2 : m = er
        · subst hm2; rw [her']; intro e; cases e; omega
        · rw [hsame m hm1 hm2]; exact h2 m
    · intro b0 x y h
      have hb0 : b0 ≠ b := by
        rintro rfl; rw [eR, fset_same] at h; cases h
      rw [hrefs' b0 hb0] at h
      exact h4 b0 x y h
  · intro s hs
    rw [eS] at hs; rw [eF, eD]; exact hi.symBound s hs
  · intro s
    have := ha s
    simp only [Stands, retargetSpec, eF, eD, eA] at this ⊢
    cases hr : c2.referents s with
    | none =>
      simp only [hr] at this ⊢
      have hnb : sp.ref s ≠ some b := by rw [this.1]; exact hnd s
      simp only [hnb, ↓reduceIte]
      exact this
    | some n =>
      simp only [hr] at this ⊢
      obtain ⟨r, b0, x, y, h1, h2, h3, h4⟩ := this
      by_cases hb0 : b0 = b
      · subst hb0
        rw [hb] at h2; cases h2
        have hrr : r = sr ∨ r = er := by
          obtain ⟨x, y, hxy, hor⟩ := hi.rootsReg r b0 h1.root_parent
          rw [hb] at hxy; cases hxy; exact hor
        refine ⟨tgt, t, ts, te, (hgraft h1).1 hrr, (hrefs' t htb).trans ht, by simp [h3], ?_⟩
        simp only [h3, ↓reduceIte]
        subst htg
        cases ae
        · simp [hnet]
        · simp
      · have hr1 : r ≠ sr := by
          rintro rfl; have := h1.root_parent; rw [hsr] at this; cases this; exact hb0 rfl
        have hr2 : r ≠ er := by
          rintro rfl; have := h1.root_parent; rw [her] at this; cases this; exact hb0 rfl
        have hne' : sp.ref s ≠ some b := by rw [h3]; intro e; cases e; exact hb0 rfl
        simp only [hne', ↓reduceIte]
        exact ⟨r, b0, x, y, (hgraft h1).2 hr1 hr2, (hrefs' b0 hb0).trans h2, h3, h4⟩

end GtirbVerif.Adt

namespace GtirbVerif.Adt

theorem selfhang_ok {c : RC} {sp : RSpec} (hi : Inv c) (ha : Abs c sp) {b sr er : Nat}
    (hb : c.refs b = some (sr, er)) (hnd : ∀ s, c.direct s ≠ some b) (ae : Bool) :
    Inv ((c.selfTrees b).hang sr er (if ae then c.next + 1 else c.next)) ∧
    Abs ((c.selfTrees b).hang sr er (if ae then c.next + 1 else c.next)) (retargetSpec sp b b ae) := by
  generalize htg : (if ae then c.next + 1 else c.next) = tgt
  have eP : ((c.selfTrees b).hang sr er tgt).parent =
      fset (fset (fset (fset c.parent c.next (.block b)) (c.next + 1) (.block b)) sr (.node tgt)) er
        (.node tgt) := rfl
  have eR : ((c.selfTrees b).hang sr er tgt).refs = fset c.refs b (some (c.next, c.next + 1)) := rfl
  have eN : ((c.selfTrees b).hang sr er tgt).next = c.next + 2 := rfl
  have eF : ((c.selfTrees b).hang sr er tgt).referents = c.referents := rfl
  have eD : ((c.selfTrees b).hang sr er tgt).direct = c.direct := rfl
  have eA : ((c.selfTrees b).hang sr er tgt).atEnd = c.atEnd := rfl
  have eS : ((c.selfTrees b).hang sr er tgt).nSyms = c.nSyms := rfl
  generalize (c.selfTrees b).hang sr er tgt = c' at eP eR eN eF eD eA eS ⊢
  obtain ⟨hsr, her, hne⟩ := hi.regRoots b sr er hb
  obtain ⟨hsrlt, herlt⟩ := hi.reg_lt hb
  have htgt_ge : c.next ≤ tgt := by subst htg; split <;> omega
  have htgt_cases : tgt = c.next ∨ tgt = c.next + 1 := by subst htg; split <;> simp
  have htgt_sr : tgt ≠ sr := by omega
  have htgt_er : tgt ≠ er := by omega
  have hsr' : c'.parent sr = .node tgt := by
    rw [eP, fset_other _ _ _ _ hne, fset_same]
  have her' : c'.parent er = .node tgt := by rw [eP, fset_same]
  have hsame : ∀ m, m < c.next → m ≠ sr → m ≠ er → c'.parent m = c.parent m := by
    intro m hm h1 h2
    rw [eP, fset_other _ _ _ _ h2, fset_other _ _ _ _ h1, fset_other _ _ _ _ (by omega),
      fset_other _ _ _ _ (by omega)]
  have hnew0 : c'.parent c.next = .block b := by
    rw [eP, fset_other _ _ _ _ (by omega), fset_other _ _ _ _ (by omega),
      fset_other _ _ _ _ (by omega), fset_same]
  have hnew1 : c'.parent (c.next + 1) = .block b := by
    rw [eP, fset_other _ _ _ _ (by omega), fset_other _ _ _ _ (by omega), fset_same]
  have htgt' : c'.parent tgt = .block b := by
    rcases htgt_cases with h | h <;> rw [h] <;> assumption
  have hgraft : ∀ {n r b0}, Res c.parent n r b0 →
      ((r = sr ∨ r = er) → Res c'.parent n tgt b) ∧ (r ≠ sr → r ≠ er → Res c'.parent n r b0) :=
    fun h => Res_graft hsr her hsr' her' htgt'
      (fun m _ _ hm h1 h2 => hsame m (hi.res_lt hm) h1 h2) h
  have hrefs' : ∀ b0, b0 ≠ b → c'.refs b0 = c.refs b0 := by
    intro b0 h0; rw [eR, fset_other _ _ _ _ h0]
  have hrb : c'.refs b = some (c.next, c.next + 1) := by rw [eR, fset_same]
  have hroot_other : ∀ r b0, c.parent r = .block b0 → r ≠ sr → r ≠ er → b0 ≠ b := by
    rintro r b0 hr h1 h2 rfl
    obtain ⟨x, y, hxy, hor⟩ := hi.rootsReg r b0 hr
    rw [hb] at hxy; cases hxy
    rcases hor with rfl | rfl
    · exact h1 rfl
    · exact h2 rfl
  refine ⟨⟨?_, ?_, ?_, ?_, ?_, ?_⟩, ?_⟩
  · intro s n h
    rw [eF] at h
    obtain ⟨r, b0, hr⟩ := hi.resolves s n h
    by_cases h1 : r = sr ∨ r = er
    · exact ⟨tgt, b, (hgraft hr).1 h1⟩
    · simp only [not_or] at h1
      exact ⟨r, b0, (hgraft hr).2 h1.1 h1.2⟩
  · intro n b0 h
    have hn1 : n ≠ sr := by rintro rfl; rw [hsr'] at h; cases h
    have hn2 : n ≠ er := by rintro rfl; rw [her'] at h; cases h
    by_cases h0 : n = c.next
    · subst h0; rw [hnew0] at h; cases h; exact ⟨_, _, hrb, Or.inl rfl⟩
    · by_cases h1 : n = c.next + 1
      · subst h1; rw [hnew1] at h; cases h; exact ⟨_, _, hrb, Or.inr rfl⟩
      · by_cases hlt : n < c.next
        · rw [hsame n hlt hn1 hn2] at h
          obtain ⟨x, y, hxy, hor⟩ := hi.rootsReg n b0 h
          exact ⟨x, y, (hrefs' b0 (hroot_other n b0 h hn1 hn2)).trans hxy, hor⟩
        · exfalso
          rw [eP, fset_other _ _ _ _ hn2, fset_other _ _ _ _ hn1, fset_other _ _ _ _ h1,
            fset_other _ _ _ _ h0, (hi.fresh n (by omega)).1] at h
          cases h
  · intro b0 x y h
    by_cases hb0 : b0 = b
    · subst hb0
      rw [hrb] at h; cases h
      exact ⟨hnew0, hnew1, by omega⟩
    · rw [hrefs' b0 hb0] at h
      obtain ⟨h1, h2, h3⟩ := hi.regRoots b0 x y h
      obtain ⟨hxlt, hylt⟩ := hi.reg_lt h
      have hx1 : x ≠ sr := by rintro rfl; rw [hsr] at h1; cases h1; exact hb0 rfl
      have hx2 : x ≠ er := by rintro rfl; rw [her] at h1; cases h1; exact hb0 rfl
      have hy1 : y ≠ sr := by rintro rfl; rw [hsr] at h2; cases h2; exact hb0 rfl
      have hy2 : y ≠ er := by rintro rfl; rw [her] at h2; cases h2; exact hb0 rfl
      exact ⟨(hsame x hxlt hx1 hx2).trans h1, (hsame y hylt hy1 hy2).trans h2, h3⟩
  · intro s n h
    rw [eF] at h; rw [eD]; exact hi.indirect s n h
  · intro n hn
    rw [eN] at hn
    obtain ⟨h1, h2, h3, h4⟩ := hi.fresh n (by omega)
    refine ⟨?_, ?_, by rw [eF]; exact h3, ?_⟩
    · rw [eP, fset_other _ _ _ _ (by omega), fset_other _ _ _ _ (by omega),
        fset_other _ _ _ _ (by omega), fset_other _ _ _ _ (by omega)]; exact h1
    · intro m
      by_cases hm1 : m = sr
      · subst hm1; rw [hsr']; intro e; cases e; omega
      · by_cases hm2 : m = er
        · subst hm2; rw [her']; intro e; cases e; omega
        · by_cases h0 : m = c.next
          · subst h0; rw [hnew0]; simp
          · by_cases h1' : m = c.next + 1
            · subst h1'; rw [hnew1]; simp
            · rw [eP, fset_other _ _ _ _ hm2, fset_other _ _ _ _ hm1, fset_other _ _ _ _ h1',
                fset_other _ _ _ _ h0]; exact h2 m
    · intro b0 x y h
      by_cases hb0 : b0 = b
      · subst hb0; rw [hrb] at h; cases h; constructor <;> omega
      · rw [hrefs' b0 hb0] at h
        exact h4 b0 x y h
  · intro s hs
    rw [eS] at hs; rw [eF, eD]; exact hi.symBound s hs
  · intro s
    have := ha s
    simp only [Stands, retargetSpec, eF, eD, eA] at this ⊢
    cases hr : c.referents s with
    | none =>
      simp only [hr] at this ⊢
      have hnb : sp.ref s ≠ some b := by rw [this.1]; exact hnd s
      simp only [hnb, ↓reduceIte]
      exact this
    | some n =>
      simp only [hr] at this ⊢
      obtain ⟨r, b0, x, y, h1, h2, h3, h4⟩ := this
      by_cases hb0 : b0 = b
      · subst hb0
        rw [hb] at h2; cases h2
        have hrr : r = sr ∨ r = er := by
          obtain ⟨x, y, hxy, hor⟩ := hi.rootsReg r b0 h1.root_parent
          rw [hb] at hxy; cases hxy; exact hor
        refine ⟨tgt, b0, c.next, c.next + 1, (hgraft h1).1 hrr, hrb, by simp [h3], ?_⟩
        simp only [h3, ↓reduceIte]
        subst htg
        cases ae <;> simp
      · have hr1 : r ≠ sr := by
          rintro rfl; have := h1.root_parent; rw [hsr] at this; cases this; exact hb0 rfl
        have hr2 : r ≠ er := by
          rintro rfl; have := h1.root_parent; rw [her] at this; cases this; exact hb0 rfl
        have hne' : sp.ref s ≠ some b := by rw [h3]; intro e; cases e; exact hb0 rfl
        simp only [hne', ↓reduceIte]
        exact ⟨r, b0, x, y, (hgraft h1).2 hr1 hr2, (hrefs' b0 hb0).trans h2, h3, h4⟩

/-- **retarget_references (with a target) refines assigning every referring
symbol directly** -/
theorem retarget_some_ok {c : RC} {sp : RSpec} (hi : Inv c) (ha : Abs c sp) (b t : Nat) (ae : Bool) :
    Inv (((c.ensureTrees b).indirectify b).graft b t ae) ∧
    Abs (((c.ensureTrees b).indirectify b).graft b t ae) (retargetSpec sp b t ae) := by
  obtain ⟨hi1, ha1, ⟨sr, er, hb1⟩, _, _, _, _, _⟩ := ensureTrees_ok hi ha b
  obtain ⟨hi2, ha2, hnd2, eR2, _, _, _⟩ := indirectify_ok hi1 ha1 b sr er hb1
  have hb2 : ((c.ensureTrees b).indirectify b).refs b = some (sr, er) := by rw [eR2]; exact hb1
  generalize (c.ensureTrees b).indirectify b = c2 at hi2 ha2 hnd2 hb2
  unfold RC.graft
  simp only [hb2]
  by_cases htb : t = b
  · subst htb
    simp only [↓reduceIte]
    exact selfhang_ok hi2 ha2 hb2 hnd2 ae
  · simp only [htb, ↓reduceIte]
    obtain ⟨hi3, ha3, ⟨ts, te, ht3⟩, eD3, _, _, _, hrefs3⟩ := ensureTrees_ok hi2 ha2 t
    have hb3 : (c2.ensureTrees t).refs b = some (sr, er) :=
      (hrefs3 b (by rw [hb2]; simp)).trans hb2
    simp only [ht3]
    exact hang_ok hi3 ha3 hb3 ht3 htb (by rw [eD3]; exact hnd2) ae

end GtirbVerif.Adt

namespace GtirbVerif.Adt

/-! ### flattening (`_make_direct_refs`) -/

theorem Res_reroot {par : Nat → PRef} {m root b : Nat} (hm : Res par m root b) (hne : m ≠ root)
    {n r b0 : Nat} (h : Res par n r b0) : Res (fset par m (.node root)) n r b0 := by
  have hroot' : fset par m (.node root) root = .block b := by
    rw [fset_other _ _ _ _ (Ne.symm hne)]; exact hm.root_parent
  induction h with
  | @root n b1 hp =>
    have : n ≠ m := by
      rintro rfl
      exact hne (Res.det (.root hp) hm).1
    exact .root ((fset_other _ _ _ _ this).trans hp)
  | @step n p r b1 hp h2 ih =>
    by_cases hnm : n = m
    · subst hnm
      obtain ⟨rfl, rfl⟩ := Res.det (.step hp h2) hm
      exact .step (fset_same _ _ _) (.root hroot')
    · exact .step ((fset_other _ _ _ _ hnm).trans hp) ih

/-- frame facts shared by the flattening steps -/
structure Frame (c c' : RC) : Prop where
  refs : c'.refs = c.refs
  next : c'.next = c.next
  nSyms : c'.nSyms = c.nSyms
  refBlocks : c'.refBlocks = c.refBlocks

theorem Frame.rfl' {c : RC} : Frame c c := ⟨rfl, rfl, rfl, rfl⟩
theorem Frame.trans {a b c : RC} (h1 : Frame a b) (h2 : Frame b c) : Frame a c :=
  ⟨h2.refs.trans h1.refs, h2.next.trans h1.next, h2.nSyms.trans h1.nSyms,
    h2.refBlocks.trans h1.refBlocks⟩

theorem reroot_ok {c : RC} {sp : RSpec} (hi : Inv c) (ha : Abs c sp) {m root b : Nat}
    (hm : Res c.parent m root b) (hne : m ≠ root) :
    Inv { c with parent := fset c.parent m (.node root) } ∧
    Abs { c with parent := fset c.parent m (.node root) } sp := by
  have hmlt := hi.res_lt hm
  have hrootlt := hi.res_lt (Res.root hm.root_parent)
  have hmnode : ∀ b0, c.parent m ≠ .block b0 := by
    intro b0 hp
    exact hne (Res.det (.root hp) hm).1
  refine ⟨⟨?_, ?_, ?_, hi.indirect, ?_, hi.symBound⟩, ?_⟩
  · intro s n h
    obtain ⟨r, b0, hr⟩ := hi.resolves s n h
    exact ⟨r, b0, Res_reroot hm hne hr⟩
  · intro n b0 h
    have hn : n ≠ m := by rintro rfl; simp [fset] at h
    simp only [fset_other _ _ _ _ hn] at h
    exact hi.rootsReg n b0 h
  · intro b0 x y h
    obtain ⟨h1, h2, h3⟩ := hi.regRoots b0 x y h
    have hx : x ≠ m := by rintro rfl; exact hmnode b0 h1
    have hy : y ≠ m := by rintro rfl; exact hmnode b0 h2
    exact ⟨(fset_other _ _ _ _ hx).trans h1, (fset_other _ _ _ _ hy).trans h2, h3⟩
  · intro n hn
    obtain ⟨h1, h2, h3, h4⟩ := hi.fresh n hn
    have hnm : n ≠ m := by have : c.next ≤ n := hn; omega
    refine ⟨(fset_other _ _ _ _ hnm).trans h1, ?_, h3, h4⟩
    intro k
    by_cases hk : k = m
    · subst hk; simp only [fset_same]; intro e; cases e
      have : c.next ≤ root := hn; omega
    · simp only [fset_other _ _ _ _ hk]; exact h2 k
  · intro s
    have := ha s
    simp only [Stands] at this ⊢
    cases hr : c.referents s with
    | none => simpa [hr] using this
    | some n =>
      simp only [hr] at this ⊢
      obtain ⟨r, b0, x, y, h1, h2, h3, h4⟩ := this
      exact ⟨r, b0, x, y, Res_reroot hm hne h1, h2, h3, h4⟩

theorem adopt_ok {sp : RSpec} {root b : Nat} : ∀ (kids : List Nat) {c : RC}, Inv c → Abs c sp →
    (∀ k ∈ kids, Res c.parent k root b ∧ k ≠ root) →
    Inv (c.adopt root kids) ∧ Abs (c.adopt root kids) sp ∧ Frame c (c.adopt root kids) ∧
    (c.adopt root kids).referents = c.referents ∧ (c.adopt root kids).direct = c.direct ∧
    (c.adopt root kids).atEnd = c.atEnd ∧
    (∀ n r b0, Res c.parent n r b0 → Res (c.adopt root kids).parent n r b0)
  | [], c, hi, ha, _ => ⟨hi, ha, Frame.rfl', rfl, rfl, rfl, fun _ _ _ h => h⟩
  | k :: ks, c, hi, ha, hk => by
    obtain ⟨hkr, hkne⟩ := hk k List.mem_cons_self
    obtain ⟨hi1, ha1⟩ := reroot_ok hi ha hkr hkne
    have hks : ∀ k' ∈ ks, Res (fset c.parent k (.node root)) k' root b ∧ k' ≠ root := by
      intro k' hk'
      obtain ⟨h1, h2⟩ := hk k' (List.mem_cons_of_mem _ hk')
      exact ⟨Res_reroot hkr hkne h1, h2⟩
    obtain ⟨hi2, ha2, hf2, e1, e2, e3, hres⟩ := adopt_ok ks hi1 ha1 hks
    refine ⟨hi2, ha2, ⟨hf2.refs, hf2.next, hf2.nSyms, hf2.refBlocks⟩, e1, e2, e3, ?_⟩
    intro n r b0 h
    exact hres n r b0 (Res_reroot hkr hkne h)

theorem Res_kill {par : Nat → PRef} {m : Nat} (hnochild : ∀ k, par k ≠ .node m)
    {n r b0 : Nat} (h : Res par n r b0) (hn : n ≠ m) : Res (fset par m .dead) n r b0 := by
  induction h with
  | @root n b1 hp => exact .root ((fset_other _ _ _ _ hn).trans hp)
  | @step n p r b1 hp h2 ih =>
    have hp' : p ≠ m := by rintro rfl; exact hnochild n hp
    exact .step ((fset_other _ _ _ _ hn).trans hp) (ih hp')

theorem children_empty {c : RC} (hi : Inv c) {m : Nat} (h : (c.children m).isEmpty = true) :
    ∀ k, c.parent k ≠ .node m := by
  intro k hk
  have hklt : k < c.next := by
    by_cases hlt : k < c.next
    · exact hlt
    · rw [(hi.fresh k (by omega)).1] at hk; cases hk
  have : k ∈ c.children m := by
    simp only [RC.children, List.mem_filter, List.mem_range, beq_iff_eq]
    exact ⟨hklt, hk⟩
  rw [List.isEmpty_iff.mp h] at this
  cases this

theorem symbols_empty {c : RC} (hi : Inv c) {m : Nat} (h : (c.symbols m).isEmpty = true) :
    ∀ s, c.referents s ≠ some m := by
  intro s hs
  have hslt : s < c.nSyms := by
    by_cases hlt : s < c.nSyms
    · exact hlt
    · rw [(hi.symBound s (by omega)).1] at hs; cases hs
  have : s ∈ c.symbols m := by
    simp only [RC.symbols, List.mem_filter, List.mem_range, beq_iff_eq]
    exact ⟨hslt, hs⟩
  rw [List.isEmpty_iff.mp h] at this
  cases this

theorem retire_ok {c : RC} {sp : RSpec} (hi : Inv c) (ha : Abs c sp) (node root : Nat) :
    Inv (c.retire node root) ∧ Abs (c.retire node root) sp ∧ Frame c (c.retire node root) ∧
    (c.retire node root).referents = c.referents ∧ (c.retire node root).direct = c.direct ∧
    (c.retire node root).atEnd = c.atEnd ∧
    (∀ n r b0, Res c.parent n r b0 → (c.retire node root).parent n ≠ .dead →
      Res (c.retire node root).parent n r b0) ∧
    (∀ n, c.parent n = .dead → (c.retire node root).parent n = .dead) ∧
    (∀ n b0, c.parent n = .block b0 → (c.retire node root).parent n = .block b0) := by
  unfold RC.retire
  split
  · rename_i hcond
    simp only [Bool.and_eq_true, beq_iff_eq, RC.treeEmpty] at hcond
    obtain ⟨hpar, hch, hsy⟩ := hcond
    have hnochild := children_empty hi hch
    have hnosym := symbols_empty hi hsy
    refine ⟨⟨?_, ?_, ?_, hi.indirect, ?_, hi.symBound⟩, ?_, ⟨rfl, rfl, rfl, rfl⟩, rfl, rfl, rfl, ?_, ?_, ?_⟩
    · intro s n h
      obtain ⟨r, b0, hr⟩ := hi.resolves s n h
      have hn : n ≠ node := by rintro rfl; exact hnosym s h
      exact ⟨r, b0, Res_kill hnochild hr hn⟩
    · intro n b0 h
      have hn : n ≠ node := by rintro rfl; simp [fset] at h
      simp only [fset_other _ _ _ _ hn] at h
      exact hi.rootsReg n b0 h
    · intro b0 x y h
      obtain ⟨h1, h2, h3⟩ := hi.regRoots b0 x y h
      have hx : x ≠ node := by rintro rfl; rw [hpar] at h1; cases h1
      have hy : y ≠ node := by rintro rfl; rw [hpar] at h2; cases h2
      exact ⟨(fset_other _ _ _ _ hx).trans h1, (fset_other _ _ _ _ hy).trans h2, h3⟩
    · intro n hn
      obtain ⟨h1, h2, h3, h4⟩ := hi.fresh n hn
      refine ⟨?_, ?_, h3, h4⟩
      · by_cases hnm : n = node
        · subst hnm; exact fset_same _ _ _
        · exact (fset_other _ _ _ _ hnm).trans h1
      · intro k
        by_cases hk : k = node
        · subst hk; simp [fset_same]
        · simp only [fset_other _ _ _ _ hk]; exact h2 k
    · intro s
      have := ha s
      simp only [Stands] at this ⊢
      cases hr : c.referents s with
      | none => simpa [hr] using this
      | some n =>
        simp only [hr] at this ⊢
        obtain ⟨r, b0, x, y, h1, h2, h3, h4⟩ := this
        have hn : n ≠ node := by rintro rfl; exact hnosym s hr
        exact ⟨r, b0, x, y, Res_kill hnochild h1 hn, h2, h3, h4⟩
    · intro n r b0 h hnd
      have hn : n ≠ node := by rintro rfl; simp [fset_same] at hnd
      exact Res_kill hnochild h hn
    · intro n hn
      by_cases hnm : n = node
      · subst hnm; exact fset_same _ _ _
      · exact (fset_other _ _ _ _ hnm).trans hn
    · intro n b0 hn
      have hnm : n ≠ node := by rintro rfl; rw [hpar] at hn; cases hn
      exact (fset_other _ _ _ _ hnm).trans hn
  · exact ⟨hi, ha, Frame.rfl', rfl, rfl, rfl, fun _ _ _ h _ => h, fun _ h => h, fun _ _ h => h⟩

theorem spec_set_same (sp : RSpec) (s : Nat) : sp.setReferent s (sp.ref s) (sp.atEnd s) = sp := by
  cases sp with
  | mk ref atEnd =>
    simp only [RSpec.setReferent, RSpec.mk.injEq]
    constructor <;> funext x <;> simp only [fset] <;> split <;> simp_all

theorem makeSymDirect_ok {c : RC} {sp : RSpec} (hi : Inv c) (ha : Abs c sp) {s referent : Nat}
    {ae : Bool} (hs : s < c.nSyms) (h1 : sp.ref s = some referent) (h2 : sp.atEnd s = ae) :
    Inv (c.makeSymDirect s referent ae) ∧ Abs (c.makeSymDirect s referent ae) sp := by
  have := setReferent_ok hi ha s hs (some referent) ae
  rw [← h1, ← h2, spec_set_same, h1, h2] at this
  exact this

end GtirbVerif.Adt

namespace GtirbVerif.Adt

theorem adopt_parent_other {root : Nat} : ∀ (kids : List Nat) (c : RC) (n : Nat), n ∉ kids →
    (c.adopt root kids).parent n = c.parent n
  | [], _, _, _ => rfl
  | k :: ks, c, n, hn => by
    simp only [List.mem_cons, not_or] at hn
    simp only [RC.adopt]
    rw [adopt_parent_other ks _ n hn.2]
    exact fset_other _ _ _ _ hn.1

/-- what is known about the symbols yielded so far -/
structure YOK (c : RC) (sp : RSpec) (referent : Nat) (ys : List Nat) : Prop where
  nodup : ys.Nodup
  refer : ∀ y ∈ ys, sp.ref y = some referent
  direct : ∀ y ∈ ys, c.referents y = none

theorem drainSyms_ok {sp : RSpec} {referent node : Nat} {ae : Bool} :
    ∀ (ss : List Nat) (c : RC) (acc : List Nat) (k : Nat), Inv c → Abs c sp →
    ss.Nodup → (∀ s ∈ ss, s < c.nSyms ∧ c.referents s = some node ∧ sp.ref s = some referent ∧
      sp.atEnd s = ae) →
    YOK c sp referent acc →
    Inv (RC.drainSyms referent ae c ss acc k).c ∧ Abs (RC.drainSyms referent ae c ss acc k).c sp ∧
    Frame c (RC.drainSyms referent ae c ss acc k).c ∧
    (RC.drainSyms referent ae c ss acc k).c.parent = c.parent ∧
    YOK (RC.drainSyms referent ae c ss acc k).c sp referent (RC.drainSyms referent ae c ss acc k).yielded ∧
    (∀ y ∈ acc, y ∈ (RC.drainSyms referent ae c ss acc k).yielded) ∧
    (∀ s b', (RC.drainSyms referent ae c ss acc k).c.direct s = some b' →
      c.direct s = some b' ∨ (b' = referent ∧ s ∈ (RC.drainSyms referent ae c ss acc k).yielded)) ∧
    (∀ s, c.referents s = none → (RC.drainSyms referent ae c ss acc k).c.referents s = none)
  | [], c, acc, k, hi, ha, _, _, hy => by
    simp only [RC.drainSyms]
    exact ⟨hi, ha, Frame.rfl', by first | rfl | trivial, hy, fun _ h => h, fun _ _ h => Or.inl h, fun _ h => h⟩
  | s :: ss, c, acc, k, hi, ha, hnd, hss, hy => by
    obtain ⟨hslt, hsref, hsp, hsae⟩ := hss s List.mem_cons_self
    obtain ⟨hi1, ha1⟩ := makeSymDirect_ok hi ha hslt hsp hsae
    have hsacc : s ∉ acc := by
      intro h; rw [hy.direct s h] at hsref; cases hsref
    have hy1 : YOK (c.makeSymDirect s referent ae) sp referent (acc ++ [s]) := by
      refine ⟨?_, ?_, ?_⟩
      · rw [List.nodup_append]
        refine ⟨hy.nodup, by simp, ?_⟩
        intro a ha' b hb
        simp only [List.mem_singleton] at hb
        subst hb; intro e; exact hsacc (e ▸ ha')
      · intro y hy'
        rcases List.mem_append.mp hy' with h | h
        · exact hy.refer y h
        · simp only [List.mem_singleton] at h; subst h; exact hsp
      · intro y hy'
        simp only [RC.makeSymDirect, fset]
        split
        · rfl
        · rcases List.mem_append.mp hy' with h | h
          · exact hy.direct y h
          · simp only [List.mem_singleton] at h; rename_i hne; exact absurd h hne
    have hdirect1 : ∀ s' b', (c.makeSymDirect s referent ae).direct s' = some b' →
        c.direct s' = some b' ∨ (b' = referent ∧ s' = s) := by
      intro s' b' h
      simp only [RC.makeSymDirect, fset] at h
      split at h
      · rename_i he; cases h; exact Or.inr ⟨rfl, he⟩
      · exact Or.inl h
    have hrefs1 : ∀ s', c.referents s' = none → (c.makeSymDirect s referent ae).referents s' = none := by
      intro s' h
      simp only [RC.makeSymDirect, fset]
      split
      · rfl
      · exact h
    simp only [RC.drainSyms]
    split
    · -- suspended right after this yield
      refine ⟨hi1, ha1, ⟨rfl, rfl, rfl, rfl⟩, rfl, hy1, fun y h => List.mem_append.mpr (Or.inl h), ?_, hrefs1⟩
      intro s' b' h
      rcases hdirect1 s' b' h with h | ⟨h1, h2⟩
      · exact Or.inl h
      · exact Or.inr ⟨h1, by simp [h2]⟩
    · have hss' : ∀ s' ∈ ss, s' < (c.makeSymDirect s referent ae).nSyms ∧
          (c.makeSymDirect s referent ae).referents s' = some node ∧ sp.ref s' = some referent ∧
          sp.atEnd s' = ae := by
        intro s' hs'
        obtain ⟨h1, h2, h3, h4⟩ := hss s' (List.mem_cons_of_mem _ hs')
        have hne : s' ≠ s := by
          rintro rfl; exact (List.nodup_cons.mp hnd).1 hs'
        exact ⟨h1, by simp only [RC.makeSymDirect, fset, hne, ↓reduceIte]; exact h2, h3, h4⟩
      obtain ⟨r1, r2, r3, r4, r5, r6, r7, r8⟩ :=
        drainSyms_ok ss (c.makeSymDirect s referent ae) (acc ++ [s]) (k - 1) hi1 ha1
          (List.nodup_cons.mp hnd).2 hss' hy1
      refine ⟨r1, r2, ⟨r3.refs, r3.next, r3.nSyms, r3.refBlocks⟩, r4, r5,
        fun y h => r6 y (List.mem_append.mpr (Or.inl h)), ?_, fun s' h => r8 s' (hrefs1 s' h)⟩
      intro s' b' h
      rcases r7 s' b' h with h | h
      · rcases hdirect1 s' b' h with h | ⟨h1, h2⟩
        · exact Or.inl h
        · exact Or.inr ⟨h1, r6 s' (by simp [h2])⟩
      · exact Or.inr h

end GtirbVerif.Adt

namespace GtirbVerif.Adt

/-- the conclusion shared by the flattening loops -/
structure GenOK (c : RC) (sp : RSpec) (referent : Nat) (acc : List Nat) (out : GenOut) : Prop where
  inv : Inv out.c
  abs : Abs out.c sp
  frame : Frame c out.c
  yok : YOK out.c sp referent out.yielded
  keep : ∀ y ∈ acc, y ∈ out.yielded
  track : ∀ s b', out.c.direct s = some b' →
    c.direct s = some b' ∨ (b' = referent ∧ s ∈ out.yielded)
  stay : ∀ s, c.referents s = none → out.c.referents s = none
  roots : ∀ n b0, c.parent n = .block b0 → out.c.parent n = .block b0

theorem mem_children {c : RC} {k n : Nat} (h : k ∈ c.children n) : c.parent k = .node n := by
  simp only [RC.children, List.mem_filter, List.mem_range, beq_iff_eq] at h
  exact h.2

theorem mem_symbols {c : RC} {s n : Nat} (h : s ∈ c.symbols n) :
    s < c.nSyms ∧ c.referents s = some n := by
  simp only [RC.symbols, List.mem_filter, List.mem_range, beq_iff_eq] at h
  exact h

theorem symbols_nodup (c : RC) (n : Nat) : (c.symbols n).Nodup := by
  unfold RC.symbols
  exact (List.nodup_range).filter _

theorem makeDirect_ok {sp : RSpec} {referent root x y : Nat} {ae : Bool}
    (hroot : root = if ae then y else x) (hxy : x ≠ y) :
    ∀ (fuel : Nat) (c : RC) (work acc : List Nat) (k : Nat), Inv c → Abs c sp →
    c.refs referent = some (x, y) →
    (∀ w ∈ work, c.parent w ≠ .dead → Res c.parent w root referent) →
    YOK c sp referent acc →
    GenOK c sp referent acc (RC.makeDirect referent root ae fuel c work acc k)
  | 0, c, work, acc, k, hi, ha, _, _, hy => by
    simp only [RC.makeDirect]
    exact ⟨hi, ha, Frame.rfl', hy, fun _ h => h, fun _ _ h => Or.inl h, fun _ h => h, fun _ _ h => h⟩
  | fuel + 1, c, [], acc, k, hi, ha, _, _, hy => by
    simp only [RC.makeDirect]
    exact ⟨hi, ha, Frame.rfl', hy, fun _ h => h, fun _ _ h => Or.inl h, fun _ h => h, fun _ _ h => h⟩
  | fuel + 1, c, node :: work, acc, k, hi, ha, hrefs, hW, hy => by
    simp only [RC.makeDirect]
    split
    · -- dead node: skipped
      exact makeDirect_ok hroot hxy fuel c work acc k hi ha hrefs
        (fun w hw => hW w (List.mem_cons_of_mem _ hw)) hy
    · rename_i hdead
      have hnd : c.parent node ≠ .dead := by simpa using hdead
      have hnode : Res c.parent node root referent := hW node List.mem_cons_self hnd
      have hrootpar : c.parent root = .block referent := hnode.root_parent
      have hkids : ∀ k' ∈ c.children node, Res c.parent k' root referent ∧ k' ≠ root := by
        intro k' hk'
        have hp := mem_children hk'
        refine ⟨.step hp hnode, ?_⟩
        rintro rfl; rw [hrootpar] at hp; cases hp
      -- state after adoption
      obtain ⟨c1, hc1, hi1, ha1, hf1, e1, e2, e3, hres1, hdead1⟩ :
          ∃ c1, c1 = (if node = root then c else c.adopt root (c.children node)) ∧ Inv c1 ∧
            Abs c1 sp ∧ Frame c c1 ∧ c1.referents = c.referents ∧ c1.direct = c.direct ∧
            c1.atEnd = c.atEnd ∧ (∀ n r b0, Res c.parent n r b0 → Res c1.parent n r b0) ∧
            (∀ n, c.parent n = .dead → c1.parent n = .dead) := by
        by_cases hnr : node = root
        · exact ⟨c, by simp [hnr], hi, ha, Frame.rfl', rfl, rfl, rfl, fun _ _ _ h => h, fun _ h => h⟩
        · obtain ⟨a1, a2, a3, a4, a5, a6, a7⟩ := adopt_ok (c.children node) hi ha hkids
          refine ⟨_, by simp [hnr], a1, a2, a3, a4, a5, a6, a7, ?_⟩
          intro n hn
          rw [adopt_parent_other _ _ _ ?_]
          · exact hn
          · intro hmem; rw [mem_children hmem] at hn; cases hn
      rw [← hc1]
      have hrefs1 : c1.refs referent = some (x, y) := by rw [hf1.refs]; exact hrefs
      have hnode1 : Res c1.parent node root referent := hres1 _ _ _ hnode
      -- the symbols of the node all stand for (referent, ae)
      have hsyms : ∀ s ∈ c1.symbols node, s < c1.nSyms ∧ c1.referents s = some node ∧
          sp.ref s = some referent ∧ sp.atEnd s = ae := by
        intro s hs
        obtain ⟨hslt, hsref⟩ := mem_symbols hs
        have hst := ha1 s
        simp only [Stands, hsref] at hst
        obtain ⟨r, b0, x', y', h1, h2, h3, h4⟩ := hst
        obtain ⟨rfl, rfl⟩ := Res.det h1 hnode1
        rw [hrefs1] at h2; cases h2
        refine ⟨hslt, hsref, h3, ?_⟩
        rw [h4, hroot]
        cases ae <;> simp [hxy]
      have hy1 : YOK c1 sp referent acc := ⟨hy.nodup, hy.refer, fun y' h => by rw [e1]; exact hy.direct y' h⟩
      obtain ⟨d1, d2, d3, d4, d5, d6, d7, d8⟩ :=
        drainSyms_ok (c1.symbols node) c1 acc k hi1 ha1 (symbols_nodup c1 node) hsyms hy1
      generalize RC.drainSyms referent ae c1 (c1.symbols node) acc k = out at d1 d2 d3 d4 d5 d6 d7 d8 ⊢
      have htrack : ∀ s b', out.c.direct s = some b' →
          c.direct s = some b' ∨ (b' = referent ∧ s ∈ out.yielded) := by
        intro s b' h; have := d7 s b' h; rwa [e2] at this
      have hstay : ∀ s, c.referents s = none → out.c.referents s = none := by
        intro s h; exact d8 s (by rw [e1]; exact h)
      have hroots : ∀ n b0, c.parent n = .block b0 → out.c.parent n = .block b0 := by
        intro n b0 h
        rw [d4]
        have := hres1 n n b0 (.root h)
        exact this.root_parent
      split
      · exact ⟨d1, d2, hf1.trans d3, d5, d6, htrack, hstay, hroots⟩
      · -- retire the node, continue with the rest of the worklist
        obtain ⟨t1, t2, t3, t4, t5, t6, t7, t8, t9⟩ := retire_ok d1 d2 node root
        generalize out.c.retire node root = c2 at t1 t2 t3 t4 t5 t6 t7 t8 t9 ⊢
        have hrefs2 : c2.refs referent = some (x, y) := by rw [t3.refs, d3.refs]; exact hrefs1
        have hW2 : ∀ w ∈ (c.children node).reverse ++ work, c2.parent w ≠ .dead →
            Res c2.parent w root referent := by
          intro w hw hwd
          have hres_c : Res c.parent w root referent := by
            rcases List.mem_append.mp hw with h | h
            · exact (hkids w (List.mem_reverse.mp h)).1
            · apply hW w (List.mem_cons_of_mem _ h)
              intro hd
              apply hwd
              apply t8
              rw [d4]
              exact hdead1 w hd
          have h1 : Res out.c.parent w root referent := by rw [d4]; exact hres1 _ _ _ hres_c
          exact t7 w root referent h1 hwd
        have hy2 : YOK c2 sp referent out.yielded :=
          ⟨d5.nodup, d5.refer, fun y' h => by rw [t4]; exact d5.direct y' h⟩
        have ih := makeDirect_ok hroot hxy fuel c2 ((c.children node).reverse ++ work) out.yielded
          out.budget t1 t2 hrefs2 hW2 hy2
        refine ⟨ih.inv, ih.abs, (hf1.trans d3).trans (t3.trans ih.frame), ih.yok,
          fun y' h => ih.keep y' (d6 y' h), ?_, ?_, ?_⟩
        · intro s b' h
          rcases ih.track s b' h with h | h
          · rw [t5] at h
            rcases htrack s b' h with h | ⟨h1, h2⟩
            · exact Or.inl h
            · exact Or.inr ⟨h1, ih.keep s h2⟩
          · exact Or.inr h
        · intro s h
          apply ih.stay s
          rw [t4]; exact hstay s h
        · intro n b0 h
          exact ih.roots n b0 (t9 n b0 (hroots n b0 h))

end GtirbVerif.Adt

namespace GtirbVerif.Adt

/-! ### budget accounting of the generator -/

structure BudgetOK (acc : List Nat) (k : Nat) (out : GenOut) : Prop where
  total : out.yielded.length + out.budget = acc.length + k
  susp : out.suspended = true → out.budget = 0
  cont : out.suspended = false → 1 ≤ out.budget

theorem drainSyms_budget {referent : Nat} {ae : Bool} :
    ∀ (ss : List Nat) (c : RC) (acc : List Nat) (k : Nat), 1 ≤ k →
    BudgetOK acc k (RC.drainSyms referent ae c ss acc k)
  | [], c, acc, k, hk => by
    simp only [RC.drainSyms]; exact ⟨rfl, by simp, fun _ => hk⟩
  | s :: ss, c, acc, k, hk => by
    simp only [RC.drainSyms]
    split
    · rename_i h1
      exact ⟨by simp [h1], fun _ => rfl, by simp⟩
    · rename_i h1
      have := drainSyms_budget (referent := referent) (ae := ae) ss
        (c.makeSymDirect s referent ae) (acc ++ [s]) (k - 1) (by omega)
      exact ⟨by rw [this.total]; simp; omega, this.susp, this.cont⟩

theorem makeDirect_budget {referent root : Nat} {ae : Bool} :
    ∀ (fuel : Nat) (c : RC) (work acc : List Nat) (k : Nat), 1 ≤ k →
    BudgetOK acc k (RC.makeDirect referent root ae fuel c work acc k)
  | 0, c, work, acc, k, hk => by
    simp only [RC.makeDirect]; exact ⟨rfl, by simp, fun _ => hk⟩
  | fuel + 1, c, [], acc, k, hk => by
    simp only [RC.makeDirect]; exact ⟨rfl, by simp, fun _ => hk⟩
  | fuel + 1, c, node :: work, acc, k, hk => by
    simp only [RC.makeDirect]
    split
    · exact makeDirect_budget fuel c work acc k hk
    · have hd := drainSyms_budget (referent := referent) (ae := ae)
        ((if node = root then c else c.adopt root (c.children node)).symbols node)
        (if node = root then c else c.adopt root (c.children node)) acc k hk
      generalize RC.drainSyms referent ae (if node = root then c else c.adopt root (c.children node))
        ((if node = root then c else c.adopt root (c.children node)).symbols node) acc k = out at hd ⊢
      split
      · exact hd
      · rename_i hs
        have hs' : out.suspended = false := by simpa using hs
        have ih := makeDirect_budget (referent := referent) (root := root) (ae := ae) fuel
          (out.c.retire node root) ((c.children node).reverse ++ work) out.yielded out.budget
          (hd.cont hs')
        exact ⟨by rw [ih.total, hd.total], ih.susp, ih.cont⟩

/-! ### completing `get_references` -/

theorem Res.last_step {par : Nat → PRef} {n r b : Nat} (h : Res par n r b) :
    n = r ∨ ∃ m, par m = .node r := by
  induction h with
  | root _ => exact Or.inl rfl
  | @step n p r b hp _ ih =>
    rcases ih with rfl | h
    · exact Or.inr ⟨n, hp⟩
    · exact Or.inr h

theorem dropTrees_ok {c : RC} {sp : RSpec} (hi : Inv c) (ha : Abs c sp) {block sr er : Nat}
    (hb : c.refs block = some (sr, er)) (h1 : c.treeEmpty sr = true) (h2 : c.treeEmpty er = true) :
    Inv (c.dropTrees block sr er) ∧ Abs (c.dropTrees block sr er) sp ∧
    (∀ s, sp.ref s = some block → c.referents s = none) := by
  simp only [RC.treeEmpty, Bool.and_eq_true] at h1 h2
  have nc1 := children_empty hi h1.1
  have ns1 := symbols_empty hi h1.2
  have nc2 := children_empty hi h2.1
  have ns2 := symbols_empty hi h2.2
  obtain ⟨hsr, her, hne⟩ := hi.regRoots block sr er hb
  have eP : (c.dropTrees block sr er).parent = fset (fset c.parent sr .dead) er .dead := rfl
  have eR : (c.dropTrees block sr er).refs = fset c.refs block none := rfl
  have eN : (c.dropTrees block sr er).next = c.next := rfl
  have eF : (c.dropTrees block sr er).referents = c.referents := rfl
  have eD : (c.dropTrees block sr er).direct = c.direct := rfl
  have eA : (c.dropTrees block sr er).atEnd = c.atEnd := rfl
  have eS : (c.dropTrees block sr er).nSyms = c.nSyms := rfl
  generalize c.dropTrees block sr er = c' at eP eR eN eF eD eA eS ⊢
  -- nothing resolves to sr / er except the roots themselves, and they carry no symbols
  have hno : ∀ s n r, c.referents s = some n → Res c.parent n r block → False := by
    intro s n r hs hr
    have hrr : r = sr ∨ r = er := by
      obtain ⟨x, y, hxy, hor⟩ := hi.rootsReg r block hr.root_parent
      rw [hb] at hxy; cases hxy; exact hor
    rcases hr.last_step with rfl | ⟨m, hm⟩
    · rcases hrr with rfl | rfl
      · exact ns1 s hs
      · exact ns2 s hs
    · rcases hrr with rfl | rfl
      · exact nc1 m hm
      · exact nc2 m hm
  have hres : ∀ {n r b0}, Res c.parent n r b0 → n ≠ sr → n ≠ er → Res c'.parent n r b0 := by
    intro n r b0 h hn1 hn2
    rw [eP]
    apply Res_kill _ (Res_kill nc1 h hn1) hn2
    intro k
    by_cases hk : k = sr
    · subst hk; simp [fset_same]
    · rw [fset_other _ _ _ _ hk]; exact nc2 k
  have hsame : ∀ m, m ≠ sr → m ≠ er → c'.parent m = c.parent m := by
    intro m h1' h2'; rw [eP, fset_other _ _ _ _ h2', fset_other _ _ _ _ h1']
  have hrefs' : ∀ b0, b0 ≠ block → c'.refs b0 = c.refs b0 := by
    intro b0 h0; rw [eR, fset_other _ _ _ _ h0]
  refine ⟨⟨?_, ?_, ?_, ?_, ?_, ?_⟩, ?_, ?_⟩
  · intro s n h
    rw [eF] at h
    obtain ⟨r, b0, hr⟩ := hi.resolves s n h
    have hn1 : n ≠ sr := by rintro rfl; exact ns1 s h
    have hn2 : n ≠ er := by rintro rfl; exact ns2 s h
    exact ⟨r, b0, hres hr hn1 hn2⟩
  · intro n b0 h
    have hn1 : n ≠ sr := by
      rintro rfl
      rw [eP] at h
      by_cases he : n = er
      · rw [he, fset_same] at h; cases h
      · rw [fset_other _ _ _ _ he, fset_same] at h; cases h
    have hn2 : n ≠ er := by rintro rfl; rw [eP, fset_same] at h; cases h
    rw [hsame n hn1 hn2] at h
    obtain ⟨x, y, hxy, hor⟩ := hi.rootsReg n b0 h
    have hb0 : b0 ≠ block := by
      rintro rfl
      rw [hb] at hxy; cases hxy
      rcases hor with rfl | rfl
      · exact hn1 rfl
      · exact hn2 rfl
    exact ⟨x, y, (hrefs' b0 hb0).trans hxy, hor⟩
  · intro b0 x y h
    have hb0 : b0 ≠ block := by rintro rfl; rw [eR, fset_same] at h; cases h
    rw [hrefs' b0 hb0] at h
    obtain ⟨p1, p2, p3⟩ := hi.regRoots b0 x y h
    have hx1 : x ≠ sr := by rintro rfl; rw [hsr] at p1; cases p1; exact hb0 rfl
    have hx2 : x ≠ er := by rintro rfl; rw [her] at p1; cases p1; exact hb0 rfl
    have hy1 : y ≠ sr := by rintro rfl; rw [hsr] at p2; cases p2; exact hb0 rfl
    have hy2 : y ≠ er := by rintro rfl; rw [her] at p2; cases p2; exact hb0 rfl
    exact ⟨(hsame x hx1 hx2).trans p1, (hsame y hy1 hy2).trans p2, p3⟩
  · intro s n h
    rw [eF] at h; rw [eD]; exact hi.indirect s n h
  · intro n hn
    rw [eN] at hn
    obtain ⟨q1, q2, q3, q4⟩ := hi.fresh n hn
    refine ⟨?_, ?_, by rw [eF]; exact q3, ?_⟩
    · rw [eP]
      by_cases h1' : n = er
      · rw [h1', fset_same]
      · rw [fset_other _ _ _ _ h1']
        by_cases h2' : n = sr
        · rw [h2', fset_same]
        · rw [fset_other _ _ _ _ h2']; exact q1
    · intro m
      rw [eP]
      by_cases h1' : m = er
      · rw [h1', fset_same]; simp
      · rw [fset_other _ _ _ _ h1']
        by_cases h2' : m = sr
        · rw [h2', fset_same]; simp
        · rw [fset_other _ _ _ _ h2']; exact q2 m
    · intro b0 x y h
      have hb0 : b0 ≠ block := by rintro rfl; rw [eR, fset_same] at h; cases h
      rw [hrefs' b0 hb0] at h
      exact q4 b0 x y h
  · intro s hs
    rw [eS] at hs; rw [eF, eD]; exact hi.symBound s hs
  · intro s
    have := ha s
    simp only [Stands, eF, eD, eA] at this ⊢
    cases hr : c.referents s with
    | none => simpa [hr] using this
    | some n =>
      simp only [hr] at this ⊢
      obtain ⟨r, b0, x, y, p1, p2, p3, p4⟩ := this
      have hb0 : b0 ≠ block := by rintro rfl; exact hno s n r hr p1
      have hn1 : n ≠ sr := by rintro rfl; exact ns1 s hr
      have hn2 : n ≠ er := by rintro rfl; exact ns2 s hr
      exact ⟨r, b0, x, y, hres p1 hn1 hn2, (hrefs' b0 hb0).trans p2, p3, p4⟩
  · intro s hs
    cases hr : c.referents s with
    | none => rfl
    | some n =>
      exfalso
      have := ha s
      simp only [Stands, hr] at this
      obtain ⟨r, b0, x, y, p1, p2, p3, p4⟩ := this
      rw [hs] at p3; cases p3
      exact hno s n r hr p1

end GtirbVerif.Adt

namespace GtirbVerif.Adt

theorem mem_directRefs {c : RC} {s b : Nat} : s ∈ c.directRefs b ↔ s < c.nSyms ∧ c.direct s = some b := by
  simp [RC.directRefs]

theorem directRefs_yok {c : RC} {sp : RSpec} (hi : Inv c) (ha : Abs c sp) (b : Nat) :
    YOK c sp b (c.directRefs b) := by
  have hnone : ∀ s, c.direct s = some b → c.referents s = none := by
    intro s hd
    cases hr : c.referents s with
    | none => rfl
    | some n => rw [hi.indirect s n hr] at hd; cases hd
  refine ⟨(List.nodup_range).filter _, ?_, ?_⟩
  · intro y hy
    obtain ⟨_, hd⟩ := mem_directRefs.mp hy
    have := ha y
    simp only [Stands, hnone y hd] at this
    rw [this.1, hd]
  · intro y hy
    exact hnone y (mem_directRefs.mp hy).2

/-- **get_references, consumed to any prefix and then abandoned** -/
theorem getReferences_ok {c c' : RC} {sp : RSpec} {block k : Nat} {ys : List Nat}
    (hi : Inv c) (ha : Abs c sp) (h : c.getReferences block k = some (c', ys)) :
    Inv c' ∧ Abs c' sp ∧ ys.Nodup ∧ (∀ y ∈ ys, sp.ref y = some block) ∧ ys.length ≤ k ∧
    (ys.length < k → ∀ s, sp.ref s = some block → s ∈ ys) ∧
    (∀ y ∈ ys, c'.referents y = none) ∧ c'.nSyms = c.nSyms ∧
    (∀ s, c.referents s = none → c'.referents s = none) := by
  unfold RC.getReferences at h
  split at h
  · rename_i hk; cases h; subst hk
    exact ⟨hi, ha, by simp, by simp, by simp, by simp, by simp, rfl, fun _ h => h⟩
  · rename_i hk0
    have hyds := directRefs_yok hi ha block
    simp only [] at h
    split at h
    · rename_i hle
      cases h
      refine ⟨hi, ha, hyds.nodup.sublist (List.take_sublist _ _),
        fun y hy => hyds.refer y (List.mem_of_mem_take hy), by simp only [List.length_take]; omega, ?_,
        fun y hy => hyds.direct y (List.mem_of_mem_take hy), rfl, fun _ h => h⟩
      intro hlt; simp only [List.length_take] at hlt; omega
    · rename_i hgt
      have hk1 : 1 ≤ k - (c.directRefs block).length := by omega
      -- completeness of the direct part
      have hdirect_mem : ∀ s, c.direct s = some block → s ∈ c.directRefs block := by
        intro s hd
        refine mem_directRefs.mpr ⟨?_, hd⟩
        by_cases hlt : s < c.nSyms
        · exact hlt
        · rw [(hi.symBound s (by omega)).2] at hd; cases hd
      cases hb : c.refs block with
      | none =>
        simp only [hb] at h; cases h
        refine ⟨hi, ha, hyds.nodup, hyds.refer, by omega, ?_, hyds.direct, rfl, fun _ h => h⟩
        intro _ s hs
        have := ha s
        simp only [Stands] at this
        cases hr : c.referents s with
        | none =>
          simp only [hr] at this
          exact hdirect_mem s (by rw [← this.1]; exact hs)
        | some n =>
          simp only [hr] at this
          obtain ⟨r, b0, x, y, _, p2, p3, _⟩ := this
          rw [hs] at p3; cases p3; rw [hb] at p2; cases p2
      | some p =>
        obtain ⟨sr, er⟩ := p
        simp only [hb] at h
        obtain ⟨hsr, her, hne⟩ := hi.regRoots block sr er hb
        have g1 := makeDirect_ok (sp := sp) (referent := block) (root := sr) (x := sr) (y := er)
          (ae := false) (by simp) hne (c.next + 1) c [sr] (c.directRefs block)
          (k - (c.directRefs block).length) hi ha hb
          (by intro w hw _; simp only [List.mem_singleton] at hw; subst hw; exact .root hsr) hyds
        have b1 := makeDirect_budget (referent := block) (root := sr) (ae := false) (c.next + 1) c [sr]
          (c.directRefs block) (k - (c.directRefs block).length) hk1
        generalize RC.makeDirect block sr false (c.next + 1) c [sr] (c.directRefs block)
          (k - (c.directRefs block).length) = o1 at g1 b1 h
        split at h
        · rename_i hs1
          cases h
          refine ⟨g1.inv, g1.abs, g1.yok.nodup, g1.yok.refer, ?_, ?_, g1.yok.direct,
            g1.frame.nSyms, g1.stay⟩
          · have := b1.total; have := b1.susp hs1; omega
          · intro hlt; have := b1.total; have := b1.susp hs1; omega
        · rename_i hs1
          have hs1' : o1.suspended = false := by simpa using hs1
          have hb1 : o1.c.refs block = some (sr, er) := by rw [g1.frame.refs]; exact hb
          have g2 := makeDirect_ok (sp := sp) (referent := block) (root := er) (x := sr) (y := er)
            (ae := true) (by simp) hne (c.next + 1) o1.c [er] o1.yielded o1.budget g1.inv g1.abs hb1
            (by intro w hw _; simp only [List.mem_singleton] at hw; subst hw
                exact .root (g1.roots _ _ her)) g1.yok
          have b2 := makeDirect_budget (referent := block) (root := er) (ae := true) (c.next + 1) o1.c
            [er] o1.yielded o1.budget (b1.cont hs1')
          generalize RC.makeDirect block er true (c.next + 1) o1.c [er] o1.yielded o1.budget = o2
            at g2 b2 h
          split at h
          · rename_i hs2
            cases h
            refine ⟨g2.inv, g2.abs, g2.yok.nodup, g2.yok.refer, ?_, ?_, g2.yok.direct,
              g2.frame.nSyms.trans g1.frame.nSyms, fun s hs => g2.stay s (g1.stay s hs)⟩
            · have := b1.total; have := b2.total; have := b2.susp hs2; omega
            · intro hlt; have := b1.total; have := b2.total; have := b2.susp hs2; omega
          · split at h
            · rename_i hs2 hempty
              cases h
              simp only [Bool.and_eq_true] at hempty
              have hb2 : o2.c.refs block = some (sr, er) := by rw [g2.frame.refs]; exact hb1
              obtain ⟨d1, d2, d3⟩ := dropTrees_ok g2.inv g2.abs hb2 hempty.1 hempty.2
              refine ⟨d1, d2, g2.yok.nodup, g2.yok.refer, ?_, ?_, g2.yok.direct,
                g2.frame.nSyms.trans g1.frame.nSyms, fun s hs => g2.stay s (g1.stay s hs)⟩
              · have := b1.total; have := b2.total; omega
              · intro _ s hs
                have hnone := d3 s hs
                have := g2.abs s
                simp only [Stands, hnone] at this
                have hd2 : o2.c.direct s = some block := by rw [← this.1]; exact hs
                rcases g2.track s block hd2 with hd1 | ⟨_, hm⟩
                · rcases g1.track s block hd1 with hd0 | ⟨_, hm⟩
                  · exact g2.keep s (g1.keep s (hdirect_mem s hd0))
                  · exact g2.keep s hm
                · exact hm
            · cases h

end GtirbVerif.Adt

namespace GtirbVerif.Adt

/-! ### retarget_references, complete -/

theorem abs_bound {c : RC} {sp : RSpec} (hi : Inv c) (ha : Abs c sp) {s b : Nat}
    (h : sp.ref s = some b) : s < c.nSyms := by
  by_cases hlt : s < c.nSyms
  · exact hlt
  · obtain ⟨h1, h2⟩ := hi.symBound s (by omega)
    have := ha s
    simp only [Stands, h1, h2] at this
    rw [this.1] at h; cases h

theorem spec_all_iff {c : RC} {sp : RSpec} (hi : Inv c) (ha : Abs c sp) (b : Nat) :
    (List.range c.nSyms).all (fun x => sp.ref x != some b) = true ↔ ∀ s, sp.ref s ≠ some b := by
  simp only [List.all_eq_true, List.mem_range, bne_iff_ne, ne_eq]
  constructor
  · intro h s hs
    exact h s (abs_bound hi ha hs) hs
  · intro h s _; exact h s

theorem retargetSpec_noop {sp : RSpec} {b t : Nat} {ae : Bool} (h : ∀ s, sp.ref s ≠ some b) :
    retargetSpec sp b t ae = sp := by
  cases sp with
  | mk ref atEnd =>
    simp only [retargetSpec, RSpec.mk.injEq]
    constructor <;> funext x <;> simp [h x]

/-- **retarget_references refines assigning directly** (including the refusal
`assert to_block` exactly when something refers to the block) -/
theorem retarget_refines {c : RC} {sp : RSpec} (hi : Inv c) (ha : Abs c sp) (b : Nat)
    (to : Option Nat) (ae : Bool) :
    (∀ c', c.retarget b to ae = .ok c' →
      ∃ sp', sp.retarget c.nSyms b to ae = .ok sp' ∧ Inv c' ∧ Abs c' sp' ∧ c'.nSyms = c.nSyms) ∧
    (c.retarget b to ae = .error .assertion → sp.retarget c.nSyms b to ae = .error .assertion) := by
  unfold RC.retarget
  split
  · rename_i hearly
    simp only [Bool.and_eq_true, List.isEmpty_iff, Option.isNone_iff_eq_none] at hearly
    have hnone : ∀ s, sp.ref s ≠ some b := by
      intro s hs
      have := ha s
      simp only [Stands] at this
      cases hr : c.referents s with
      | none =>
        simp only [hr] at this
        have hd : c.direct s = some b := by rw [← this.1]; exact hs
        have : s ∈ c.directRefs b := mem_directRefs.mpr ⟨abs_bound hi ha hs, hd⟩
        rw [hearly.1] at this; cases this
      | some n =>
        simp only [hr] at this
        obtain ⟨r, b0, x, y, _, p2, p3, _⟩ := this
        rw [hs] at p3; cases p3; rw [hearly.2] at p2; cases p2
    constructor
    · intro c' h; cases h
      exact ⟨sp, by simp [RSpec.retarget, (spec_all_iff hi ha b).mpr hnone], hi, ha, rfl⟩
    · intro h; cases h
  · cases to with
    | none =>
      simp only []
      cases hg : c.getReferences b 1 with
      | none => exact ⟨fun c' h => by simp at h, fun h => by simp at h⟩
      | some p =>
        obtain ⟨c1, ys⟩ := p
        obtain ⟨g1, g2, _, g4, _, g6, _, g8, _⟩ := getReferences_ok hi ha hg
        simp only []
        by_cases hys : ys.isEmpty = true
        · simp only [hys, ↓reduceIte]
          have hnone : ∀ s, sp.ref s ≠ some b := by
            intro s hs
            have := g6 (by rw [List.isEmpty_iff.mp hys]; simp) s hs
            rw [List.isEmpty_iff.mp hys] at this; cases this
          constructor
          · intro c' h; cases h
            exact ⟨sp, by simp [RSpec.retarget, (spec_all_iff hi ha b).mpr hnone], g1, g2, g8⟩
          · intro h; cases h
        · simp only [hys]
          constructor
          · intro c' h; cases h
          · intro _
            have : ∃ y, y ∈ ys := by
              cases ys with
              | nil => simp at hys
              | cons y _ => exact ⟨y, by simp⟩
            obtain ⟨y, hy⟩ := this
            have hall : (List.range c.nSyms).all (fun x => sp.ref x != some b) = false := by
              cases hh : (List.range c.nSyms).all (fun x => sp.ref x != some b) with
              | false => rfl
              | true => exact absurd (g4 y hy) ((spec_all_iff hi ha b).mp hh y)
            simp [RSpec.retarget, hall]
    | some t =>
      simp only []
      obtain ⟨r1, r2⟩ := retarget_some_ok hi ha b t ae
      have hns : (((c.ensureTrees b).indirectify b).graft b t ae).nSyms = c.nSyms := by
        obtain ⟨_, _, ⟨sr, er, hb1⟩, _, _, _, e1, _⟩ := ensureTrees_ok hi ha b
        obtain ⟨_, _, _, eR2, _, _, e2⟩ := indirectify_ok (ensureTrees_ok hi ha b).1
          (ensureTrees_ok hi ha b).2.1 b sr er hb1
        have hb2 : ((c.ensureTrees b).indirectify b).refs b = some (sr, er) := by rw [eR2]; exact hb1
        unfold RC.graft
        simp only [hb2]
        split
        · exact e2.trans e1
        · have e3 := (ensureTrees_ok (indirectify_ok (ensureTrees_ok hi ha b).1
            (ensureTrees_ok hi ha b).2.1 b sr er hb1).1 (indirectify_ok (ensureTrees_ok hi ha b).1
            (ensureTrees_ok hi ha b).2.1 b sr er hb1).2.1 t).2.2.2.2.2.2.1
          split
          · exact e3.trans (e2.trans e1)
          · exact e3.trans (e2.trans e1)
      constructor
      · intro c' h; cases h
        by_cases hall : (List.range c.nSyms).all (fun x => sp.ref x != some b) = true
        · refine ⟨sp, by simp [RSpec.retarget, hall], r1, ?_, hns⟩
          rw [← retargetSpec_noop (t := t) (ae := ae) ((spec_all_iff hi ha b).mp hall)]
          exact r2
        · refine ⟨retargetSpec sp b t ae, by simp [RSpec.retarget, hall, retargetSpec], r1, r2, hns⟩
      · intro h; cases h

end GtirbVerif.Adt

namespace GtirbVerif.Adt

/-! ### get_referent: path shortening -/

theorem Res_bypass {par : Nat → PRef} {ref p g : Nat} (h1 : par ref = .node p) (h2 : par p = .node g)
    {n r b0 : Nat} (h : Res par n r b0) : Res (fset par ref (.node g)) n r b0 := by
  induction h with
  | @root n b1 hp =>
    have : n ≠ ref := by rintro rfl; rw [h1] at hp; cases hp
    exact .root ((fset_other _ _ _ _ this).trans hp)
  | @step n q r b1 hq hres ih =>
    by_cases hn : n = ref
    · subst hn
      rw [h1] at hq; cases hq
      -- ih : Res par' p r b1; its first step goes to g
      have hp' : fset par n (.node g) p = .node g := by
        by_cases hpn : p = n
        · rw [hpn, fset_same]
        · rw [fset_other _ _ _ _ hpn]; exact h2
      cases ih with
      | root hb => rw [hp'] at hb; cases hb
      | step hs hrest =>
        rw [hp'] at hs; cases hs
        exact .step (fset_same _ _ _) hrest
    · exact .step ((fset_other _ _ _ _ hn).trans hq) ih

/-- re-parenting a non-root node to an allocated node, when resolution is
preserved, keeps the invariant and the abstraction -/
theorem reparent_ok {c : RC} {sp : RSpec} (hi : Inv c) (ha : Abs c sp) {m a q : Nat}
    (hm : c.parent m = .node q) (ha' : a < c.next)
    (hres : ∀ n r b0, Res c.parent n r b0 → Res (fset c.parent m (.node a)) n r b0) :
    Inv { c with parent := fset c.parent m (.node a) } ∧
    Abs { c with parent := fset c.parent m (.node a) } sp := by
  have hmlt : m < c.next := by
    by_cases hlt : m < c.next
    · exact hlt
    · rw [(hi.fresh m (by omega)).1] at hm; cases hm
  refine ⟨⟨?_, ?_, ?_, hi.indirect, ?_, hi.symBound⟩, ?_⟩
  · intro s n h
    obtain ⟨r, b0, hr⟩ := hi.resolves s n h
    exact ⟨r, b0, hres _ _ _ hr⟩
  · intro n b0 h
    have hn : n ≠ m := by rintro rfl; simp [fset] at h
    simp only [fset_other _ _ _ _ hn] at h
    exact hi.rootsReg n b0 h
  · intro b0 x y h
    obtain ⟨h1, h2, h3⟩ := hi.regRoots b0 x y h
    have hx : x ≠ m := by rintro rfl; rw [hm] at h1; cases h1
    have hy : y ≠ m := by rintro rfl; rw [hm] at h2; cases h2
    exact ⟨(fset_other _ _ _ _ hx).trans h1, (fset_other _ _ _ _ hy).trans h2, h3⟩
  · intro n hn
    obtain ⟨h1, h2, h3, h4⟩ := hi.fresh n hn
    have hnm : n ≠ m := by have : c.next ≤ n := hn; omega
    refine ⟨(fset_other _ _ _ _ hnm).trans h1, ?_, h3, h4⟩
    intro k
    by_cases hk : k = m
    · subst hk; simp only [fset_same]; intro e; cases e
      have : c.next ≤ a := hn; omega
    · simp only [fset_other _ _ _ _ hk]; exact h2 k
  · intro s
    have := ha s
    simp only [Stands] at this ⊢
    cases hr : c.referents s with
    | none => simpa [hr] using this
    | some n =>
      simp only [hr] at this ⊢
      obtain ⟨r, b0, x, y, h1, h2, h3, h4⟩ := this
      exact ⟨r, b0, x, y, hres _ _ _ h1, h2, h3, h4⟩

theorem climb_ok {c : RC} {sp : RSpec} {r b : Nat} :
    ∀ (fuel ref : Nat) (par : Nat → PRef), Inv (c.withParent par) →
    Abs (c.withParent par) sp → Res par ref r b →
    ∀ root b' par', RC.climb c fuel ref par = some (root, b', par') →
      root = r ∧ b' = b ∧ Inv (c.withParent par') ∧ Abs (c.withParent par') sp
  | 0, _, _, _, _, _, _, _, _, h => by simp [RC.climb] at h
  | fuel + 1, ref, par, hi, ha, hres, root, b', par', h => by
    simp only [RC.climb] at h
    cases hp : par ref with
    | block b1 =>
      simp only [hp] at h
      cases h
      obtain ⟨rfl, rfl⟩ := Res.det (.root hp) hres
      exact ⟨rfl, rfl, hi, ha⟩
    | dead => simp [hp] at h
    | node p =>
      simp only [hp] at h
      have hresp : Res par p r b := by
        cases hres with
        | root hb => rw [hp] at hb; cases hb
        | step hs hrest => rw [hp] at hs; cases hs; exact hrest
      split at h
      · -- the node is empty: it is dropped
        rename_i hempty
        have hcond : ((c.withParent par).parent ref == .node p &&
            (c.withParent par).treeEmpty ref) = true := by
          simp only [Bool.and_eq_true, beq_iff_eq]
          exact ⟨hp, hempty⟩
        have hret : (c.withParent par).retire ref p = c.withParent (fset par ref .dead) := by
          simp only [RC.retire, hcond, ↓reduceIte]; rfl
        obtain ⟨t1, t2, _, _, _, _, t7, _, _⟩ := retire_ok hi ha ref p
        rw [hret] at t1 t2 t7
        have hpref : p ≠ ref := by
          rintro rfl
          simp only [RC.treeEmpty, Bool.and_eq_true] at hempty
          exact children_empty hi hempty.1 p hp
        have hpd : fset par ref .dead p ≠ .dead := by
          rw [fset_other _ _ _ _ hpref]; exact hresp.not_dead
        exact climb_ok (c := c) fuel p _ t1 t2 (t7 p r b hresp hpd) root b' par' h
      · cases hpp : par p with
        | node g =>
          simp only [hpp] at h
          have hglt : g < c.next := by
            have hg : Res par g r b := by
              cases hresp with
              | root hb => rw [hpp] at hb; cases hb
              | step hs hrest => rw [hpp] at hs; cases hs; exact hrest
            exact hi.res_lt hg
          obtain ⟨t1, t2⟩ := reparent_ok hi ha (m := ref) (a := g) hp hglt
            (fun n r0 b0 hn => Res_bypass hp hpp hn)
          exact climb_ok (c := c) fuel p _ t1 t2 (Res_bypass hp hpp hresp) root b' par' h
        | block b1 =>
          simp only [hpp] at h
          exact climb_ok (c := c) fuel p par hi ha hresp root b' par' h
        | dead =>
          simp only [hpp] at h
          exact climb_ok (c := c) fuel p par hi ha hresp root b' par' h

theorem spec_set_set (sp : RSpec) (s : Nat) (r1 r2 : Option Nat) (a1 a2 : Bool) :
    (sp.setReferent s r1 a1).setReferent s r2 a2 = sp.setReferent s r2 a2 := by
  simp only [RSpec.setReferent, RSpec.mk.injEq]
  constructor <;> funext x <;> simp only [fset] <;> split <;> rfl

/-- **get_referent returns what assigning directly would have stored**, leaves
the symbol direct, and keeps the invariant and the abstraction -/
theorem getReferent_ok {c c' : RC} {sp : RSpec} {s : Nat} {res : Option Nat}
    (hi : Inv c) (ha : Abs c sp) (hs : s < c.nSyms) (h : c.getReferent s = .ok (res, c')) :
    res = sp.ref s ∧ Inv c' ∧ Abs c' sp ∧ c'.referents s = none ∧ c'.nSyms = c.nSyms := by
  unfold RC.getReferent at h
  cases hr : c.referents s with
  | none =>
    simp only [hr] at h; cases h
    have := ha s
    simp only [Stands, hr] at this
    exact ⟨this.1.symm, hi, ha, hr, rfl⟩
  | some n =>
    simp only [hr] at h
    have hst := ha s
    simp only [Stands, hr] at hst
    obtain ⟨r, b, x, y, p1, p2, p3, p4⟩ := hst
    obtain ⟨hi1, ha1⟩ := setReferent_ok hi ha s hs none (c.atEnd s)
    have e1 : (c.setReferent s none (c.atEnd s)).parent = c.parent := rfl
    have e2 : (c.setReferent s none (c.atEnd s)).refs = c.refs := rfl
    have e3 : (c.setReferent s none (c.atEnd s)).nSyms = c.nSyms := rfl
    generalize c.setReferent s none (c.atEnd s) = c1 at hi1 ha1 e1 e2 e3 h
    rw [e1] at h
    cases hc : RC.climb c1 (c.next + 1) n c.parent with
    | none => simp [hc] at h
    | some q =>
      obtain ⟨root, b', par'⟩ := q
      simp only [hc] at h
      have hwp : c1.withParent c.parent = c1 := by rw [← e1]; rfl
      obtain ⟨rfl, rfl, t1, t2⟩ := climb_ok (c := c1) (c.next + 1) n c.parent
        (by rw [hwp]; exact hi1) (by rw [hwp]; exact ha1) p1 root b' par' hc
      rw [e2, p2] at h
      simp only [Except.ok.injEq, Prod.mk.injEq] at h
      obtain ⟨rfl, rfl⟩ := h
      have hs' : s < (c1.withParent par').nSyms := by
        show s < c1.nSyms; rw [e3]; exact hs
      obtain ⟨u1, u2⟩ := setReferent_ok t1 t2 s hs' (some b') (root == y)
      rw [spec_set_set, ← p3, ← p4, spec_set_same, p3, p4] at u2
      refine ⟨p3.symm, u1, u2, by simp [RC.setReferent, fset], ?_⟩
      show c1.nSyms = c.nSyms; exact e3

end GtirbVerif.Adt

namespace GtirbVerif.Adt

/-! ### apply -/

theorem drainBlocks_ok {sp : RSpec} : ∀ (bs : List Nat) (c c' : RC), Inv c → Abs c sp →
    RC.drainBlocks bs c = some c' → Inv c' ∧ Abs c' sp ∧ c'.nSyms = c.nSyms
  | [], c, c', hi, ha, h => by simp only [RC.drainBlocks, Option.some.injEq] at h; subst h; exact ⟨hi, ha, rfl⟩
  | b :: bs, c, c', hi, ha, h => by
    simp only [RC.drainBlocks] at h
    cases hg : c.getReferences b (c.nSyms + 1) with
    | none => simp [hg] at h
    | some p =>
      obtain ⟨c1, ys⟩ := p
      simp only [hg] at h
      obtain ⟨g1, g2, _, _, _, _, _, g8, _⟩ := getReferences_ok hi ha hg
      obtain ⟨r1, r2, r3⟩ := drainBlocks_ok bs c1 c' g1 g2 h
      exact ⟨r1, r2, r3.trans g8⟩

/-- **apply() makes every reference direct without changing what any symbol
stands for** -/
theorem apply_ok {c c' : RC} {sp : RSpec} (hi : Inv c) (ha : Abs c sp) (h : c.apply = some c') :
    Inv c' ∧ Abs c' sp ∧ (∀ s, c'.referents s = none) ∧
    (∀ s, c'.direct s = sp.ref s ∧ c'.atEnd s = sp.atEnd s) ∧ c'.nSyms = c.nSyms := by
  unfold RC.apply at h
  cases hd : RC.drainBlocks c.refBlocks c with
  | none => simp [hd] at h
  | some c1 =>
    simp only [hd] at h
    obtain ⟨i1, a1, n1⟩ := drainBlocks_ok _ c c1 hi ha hd
    split at h
    · rename_i hall
      cases h
      have hnone : ∀ s, c1.referents s = none := by
        intro s
        by_cases hlt : s < c1.nSyms
        · simp only [RC.allDirect, List.all_eq_true, List.mem_range, Option.isNone_iff_eq_none] at hall
          exact hall s hlt
        · exact (i1.symBound s (by omega)).1
      have hst : ∀ s, c1.direct s = sp.ref s ∧ c1.atEnd s = sp.atEnd s := by
        intro s
        have := a1 s
        simp only [Stands, hnone s] at this
        exact ⟨this.1.symm, this.2.symm⟩
      refine ⟨⟨?_, ?_, ?_, ?_, ?_, ?_⟩, ?_, hnone, hst, n1⟩
      · intro s n hs; rw [show c1.clearAll.referents = c1.referents from rfl, hnone s] at hs; cases hs
      · intro n b hp; simp [RC.clearAll] at hp
      · intro b x y hr; simp [RC.clearAll] at hr
      · intro s n hs; rw [show c1.clearAll.referents = c1.referents from rfl, hnone s] at hs; cases hs
      · intro n _
        refine ⟨rfl, by simp [RC.clearAll], ?_, by simp [RC.clearAll]⟩
        intro s; rw [show c1.clearAll.referents = c1.referents from rfl, hnone s]; simp
      · exact i1.symBound
      · intro s
        have := a1 s
        simp only [Stands, hnone s] at this
        simp only [Stands, show c1.clearAll.referents = c1.referents from rfl, hnone s]
        exact this
    · cases h

end GtirbVerif.Adt
