import GtirbVerif.Lemmas.AsmTiling
/-!
`Assembler.finalize` keeps every section tiled and leaves an empty block at most at the end.
-/
namespace GtirbVerif.Asm

/-! ### the grouping by offset -/

theorem flatten_groupByOff (l : List ABlock) : (groupByOff l).flatten = l := by
  induction l with
  | nil => simp [groupByOff]
  | cons b bs ih =>
    simp only [groupByOff]
    split
    · rename_i c cs gs hg
      rw [hg] at ih
      split
      · simp only [List.flatten_cons] at ih ⊢
        simp [← ih]
      · simp only [List.flatten_cons] at ih ⊢
        simp [← ih]
    · rename_i hn
      simp only [List.flatten_cons, List.singleton_append]
      rw [ih]

def mains (gs : List (List ABlock)) : List ABlock := gs.filterMap List.getLast?

/-- every group is non-empty and holds one offset -/
def GroupsOk (gs : List (List ABlock)) : Prop := ∀ g ∈ gs, g ≠ [] ∧ ∀ a ∈ g, ∀ b ∈ g, a.off = b.off

theorem groupByOff_ok (l : List ABlock) : GroupsOk (groupByOff l) := by
  induction l with
  | nil => intro g hg; simp [groupByOff] at hg
  | cons b bs ih =>
    simp only [groupByOff]
    split
    · rename_i c cs gs hg
      rw [hg] at ih
      have hc := ih (c :: cs) (by simp)
      split
      · rename_i heq
        have heq : c.off = b.off := by simpa using heq
        intro g hgm
        simp only [List.mem_cons] at hgm
        rcases hgm with rfl | hgm
        · refine ⟨by simp, ?_⟩
          intro x hx y hy
          have hx' : x.off = b.off := by
            simp only [List.mem_cons] at hx
            rcases hx with rfl | hx
            · rfl
            · rw [← heq]; exact hc.2 x (by simpa using hx) c (by simp)
          have hy' : y.off = b.off := by
            simp only [List.mem_cons] at hy
            rcases hy with rfl | hy
            · rfl
            · rw [← heq]; exact hc.2 y (by simpa using hy) c (by simp)
          rw [hx', hy']
        · exact ih g (by simp [hgm])
      · intro g hgm
        simp only [List.mem_cons] at hgm
        rcases hgm with rfl | hgm
        · refine ⟨by simp, ?_⟩
          intro x hx y hy
          simp at hx hy; rw [hx, hy]
        · exact ih g (by simpa using hgm)
    · intro g hgm
      simp only [List.mem_cons] at hgm
      rcases hgm with rfl | hgm
      · refine ⟨by simp, ?_⟩
        intro x hx y hy
        simp at hx hy; rw [hx, hy]
      · exact ih g hgm

/-- adjacent elements have different offsets -/
def OffsDiffer : List ABlock → Prop
  | a :: b :: rest => a.off ≠ b.off ∧ OffsDiffer (b :: rest)
  | _ => True

theorem getLast?_cons_cons (a b : ABlock) (l : List ABlock) : (a :: b :: l).getLast? = (b :: l).getLast? := by
  simp [List.getLast?_cons_cons]

theorem mains_offsDiffer (l : List ABlock) : OffsDiffer (mains (groupByOff l)) := by
  induction l with
  | nil => simp [groupByOff, mains, OffsDiffer]
  | cons b bs ih =>
    have hok := groupByOff_ok bs
    simp only [groupByOff]
    split
    · rename_i c cs gs hg
      rw [hg] at ih hok
      split
      · simp only [mains, List.filterMap_cons, getLast?_cons_cons] at ih ⊢
        exact ih
      · rename_i hne
        have hne : ¬ c.off = b.off := by simpa using hne
        simp only [mains, List.filterMap_cons] at ih ⊢
        have hl : (c :: cs).getLast? = some ((c :: cs).getLast (by simp)) := List.getLast?_eq_some_getLast (by simp)
        rw [hl] at ih ⊢
        simp only [List.getLast?_singleton]
        refine ⟨?_, ih⟩
        have := (hok (c :: cs) (by simp)).2 ((c :: cs).getLast (by simp)) (List.getLast_mem _) c (by simp)
        rw [this]; exact fun h => hne h.symm
    · rename_i hn
      have : groupByOff bs = [] := by
        cases hgb : groupByOff bs with
        | nil => rfl
        | cons g gs =>
          cases g with
          | nil => exact absurd rfl (hok [] (by rw [hgb]; simp)).1
          | cons c cs => exact absurd hgb (hn c cs gs)
      rw [this]
      simp [mains, OffsDiffer]

/-- dropping the zero-sized non-final members of every group keeps the tiling -/
theorem tiles_group {g : List ABlock} {p e : Nat} {rest : List ABlock} (hne : g ≠ [])
    (hz : ∀ x ∈ g.dropLast, x.size = 0) (h : tiles p (g ++ rest) = some e) :
    tiles p (g.getLast hne :: rest) = some e := by
  induction g generalizing p with
  | nil => exact absurd rfl hne
  | cons a as ih =>
    cases as with
    | nil => simpa using h
    | cons b bs =>
      simp only [List.cons_append, tiles] at h
      split at h
      · rename_i ha
        have hza : a.size = 0 := hz a (by simp [List.dropLast])
        rw [hza, Nat.add_zero] at h
        have := ih (p := p) (by simp) (fun x hx => hz x (by simp [List.dropLast] at hx ⊢; exact Or.inr hx)) (by simpa [tiles] using h)
        simpa using this
      · cases h

theorem tiles_mains {gs : List (List ABlock)} {p e : Nat} (hok : GroupsOk gs)
    (hz : ∀ g ∈ gs, ∀ x ∈ g.dropLast, x.size = 0) (h : tiles p gs.flatten = some e) :
    tiles p (mains gs) = some e := by
  induction gs generalizing p with
  | nil => simpa [mains] using h
  | cons g gs ih =>
    have hne := (hok g (by simp)).1
    simp only [List.flatten_cons] at h
    have h1 := tiles_group hne (hz g (by simp)) h
    simp only [mains, List.filterMap_cons, List.getLast?_eq_some_getLast hne]
    simp only [tiles] at h1 ⊢
    split at h1
    · rename_i ho
      simp only [ho, if_true]
      exact ih (fun g' hg' => hok g' (by simp [hg'])) (fun g' hg' => hz g' (by simp [hg'])) h1
    · cases h1

/-! ### merging keeps the sections of the state and appends the main blocks -/

theorem mergeExtra_ok {st st' : AState} {ids : List Nat} {main e : ABlock} (h : mergeExtra st ids main e = .ok st') :
    e.size = 0 ∧ st'.sects = st.sects := by
  unfold mergeExtra at h
  split at h
  · cases h
  · rename_i hs
    have hs : e.size = 0 := by simpa using hs
    simp only [] at h
    split at h
    · cases h
    · injection h with h
      refine ⟨hs, ?_⟩
      rw [← h]; rfl

theorem mergeExtras_ok {es : List ABlock} {st st' : AState} {ids : List Nat} {main : ABlock}
    (h : mergeExtras st ids main es = .ok st') : (∀ e ∈ es, e.size = 0) ∧ st'.sects = st.sects := by
  induction es generalizing st with
  | nil => simp [mergeExtras] at h; rw [← h]; simp
  | cons e es ih =>
    simp only [mergeExtras] at h
    split at h
    · cases h
    · rename_i st1 h1
      have a := mergeExtra_ok h1
      have b := ih h
      refine ⟨?_, by rw [b.2, a.2]⟩
      intro x hx
      simp only [List.mem_cons] at hx
      rcases hx with rfl | hx
      · exact a.1
      · exact b.1 x hx

theorem mergeGroup_ok {lastId : Nat} {st st' : AState} {s s' : ASect} {g : List ABlock} (hne : g ≠ [])
    (h : mergeGroup lastId st s g = .ok (st', s')) :
    s'.blocks = s.blocks ++ [g.getLast hne] ∧ s'.dataLen = s.dataLen ∧ s'.name = s.name ∧ s'.exec = s.exec ∧
    (∀ e ∈ g.dropLast, e.size = 0) ∧ st'.sects = st.sects := by
  unfold mergeGroup at h
  rw [List.getLast?_eq_some_getLast hne] at h
  simp only [] at h
  split at h
  · cases h
  · split at h
    · cases h
    · rename_i st1 h1
      injection h with h
      injection h with ha hb
      have := mergeExtras_ok h1
      rw [← hb, ← ha]
      exact ⟨rfl, rfl, rfl, rfl, this.1, this.2⟩

theorem mergeGroups_ok {lastId : Nat} {gs : List (List ABlock)} {st st' : AState} {s s' : ASect} (hok : GroupsOk gs)
    (h : mergeGroups lastId st s gs = .ok (st', s')) :
    s'.blocks = s.blocks ++ mains gs ∧ s'.dataLen = s.dataLen ∧ s'.name = s.name ∧ s'.exec = s.exec ∧
    (∀ g ∈ gs, ∀ e ∈ g.dropLast, e.size = 0) ∧ st'.sects = st.sects := by
  induction gs generalizing st s with
  | nil => simp [mergeGroups] at h; obtain ⟨h1, h2⟩ := h; rw [← h1, ← h2]; simp [mains]
  | cons g gs ih =>
    simp only [mergeGroups] at h
    split at h
    · cases h
    · rename_i st1 s1 h1
      have hne := (hok g (by simp)).1
      have a := mergeGroup_ok hne h1
      have b := ih (fun g' hg' => hok g' (by simp [hg'])) h
      refine ⟨?_, by rw [b.2.1, a.2.1], by rw [b.2.2.1, a.2.2.1], by rw [b.2.2.2.1, a.2.2.2.1], ?_, by rw [b.2.2.2.2.2, a.2.2.2.2.2]⟩
      · rw [b.1, a.1]
        simp [mains, List.getLast?_eq_some_getLast hne]
      · intro g' hg' e he
        simp only [List.mem_cons] at hg'
        rcases hg' with rfl | hg'
        · exact a.2.2.2.2.1 e he
        · exact b.2.2.2.2.1 g' hg' e he

/-- what a section looks like after a phase of finalisation: tiled, empty blocks only last -/
def Final (s : ASect) : Prop :=
  tiles 0 s.blocks = some s.dataLen ∧ OffsDiffer s.blocks

theorem removeEmptyBlocks_ok {st st' : AState} {s s' : ASect} (hs : TiledS s)
    (h : removeEmptyBlocks st s = .ok (st', s')) :
    Final s' ∧ s'.name = s.name ∧ st'.sects = st.sects := by
  unfold removeEmptyBlocks at h
  have a := mergeGroups_ok (groupByOff_ok s.blocks) h
  simp only [List.nil_append] at a
  refine ⟨⟨?_, ?_⟩, a.2.2.1, a.2.2.2.2.2⟩
  · rw [a.1, a.2.1]
    refine tiles_mains (groupByOff_ok s.blocks) a.2.2.2.2.1 ?_
    rw [flatten_groupByOff]; exact hs.2
  · rw [a.1]; exact mains_offsDiffer s.blocks

/-! ### the other two phases -/

theorem convertOne_sects {t : Target} {exec : Bool} {st st' : AState} {i : Nat} {b : ABlock}
    (h : convertOne t exec st i b = .ok st') : st'.sects = st.sects := by
  unfold convertOne at h
  split at h
  · split at h
    · cases h
    · injection h with h; rw [← h]
  · split at h
    · cases h
    · injection h with h; rw [← h]

theorem convertFrom_sects {t : Target} {exec : Bool} {bs : List ABlock} {st st' : AState} {i : Nat}
    (h : convertFrom t exec st i bs = .ok st') : st'.sects = st.sects := by
  induction bs generalizing st i with
  | nil => simp [convertFrom] at h; rw [← h]
  | cons b bs ih =>
    simp only [convertFrom] at h
    split at h
    · cases h
    · rename_i st1 h1
      rw [ih h, convertOne_sects h1]

theorem tiles_dropLast_zero {l : List ABlock} {p e : Nat} (hne : l ≠ []) (hz : (l.getLast hne).size = 0)
    (h : tiles p l = some e) : tiles p l.dropLast = some e := by
  have hl : l = l.dropLast ++ [l.getLast hne] := (List.dropLast_concat_getLast hne).symm
  rw [hl, tiles_append] at h
  cases hq : tiles p l.dropLast with
  | none => simp [hq] at h
  | some q =>
    simp only [hq, Option.bind_some, tiles] at h
    split at h
    · simp [hz] at h; rw [h]
    · cases h

theorem OffsDiffer.dropLast : ∀ {l : List ABlock}, OffsDiffer l → OffsDiffer l.dropLast
  | [], _ => by simp [OffsDiffer]
  | [_], _ => by simp [OffsDiffer]
  | [_, _], _ => by simp [OffsDiffer]
  | a :: b :: c :: rest, h => by
    have ih := OffsDiffer.dropLast (l := b :: c :: rest) h.2
    simp only [List.dropLast] at ih ⊢
    exact ⟨h.1, ih⟩

theorem removeTrailing_ok {st st' : AState} {s s' : ASect} (hs : Final s) (h : removeTrailing st s = .ok (st', s')) :
    Final s' ∧ s'.name = s.name ∧ st'.sects = st.sects := by
  unfold removeTrailing at h
  split at h
  · cases h
  · rename_i last hlast
    have hne : s.blocks ≠ [] := by intro h0; rw [h0] at hlast; cases hlast
    have hl : s.blocks.getLast hne = last := by
      rw [List.getLast?_eq_some_getLast hne] at hlast; injection hlast
    simp only [] at h
    split at h
    · rename_i hc
      split at h
      · cases h
      · injection h with h
        injection h with ha hb
        rw [← ha, ← hb]
        have hz : last.size = 0 := by
          simp only [Bool.and_eq_true, beq_iff_eq] at hc
          exact hc.1.1.1
        exact ⟨⟨tiles_dropLast_zero hne (hl ▸ hz) hs.1, hs.2.dropLast⟩, rfl, rfl⟩
    · split at h
      · rename_i hc
        injection h with h
        injection h with ha hb
        rw [← ha, ← hb]
        have hz : last.size = 0 := by
          simp only [Bool.and_eq_true, beq_iff_eq] at hc
          exact hc.1.1.1
        exact ⟨⟨tiles_dropLast_zero hne (hl ▸ hz) hs.1, hs.2.dropLast⟩, rfl, rfl⟩
      · injection h with h
        injection h with ha hb
        rw [← ha, ← hb]
        exact ⟨hs, rfl, rfl⟩

end GtirbVerif.Asm

namespace GtirbVerif.Asm

def Tiles (s : ASect) : Prop := tiles 0 s.blocks = some s.dataLen

theorem removeEmptyBlocks_ok' {st st' : AState} {s s' : ASect} (hs : Tiles s)
    (h : removeEmptyBlocks st s = .ok (st', s')) :
    Final s' ∧ s'.name = s.name ∧ st'.sects = st.sects := by
  unfold removeEmptyBlocks at h
  have a := mergeGroups_ok (groupByOff_ok s.blocks) h
  simp only [List.nil_append] at a
  refine ⟨⟨?_, ?_⟩, a.2.2.1, a.2.2.2.2.2⟩
  · rw [a.1, a.2.1]
    refine tiles_mains (groupByOff_ok s.blocks) a.2.2.2.2.1 ?_
    rw [flatten_groupByOff]; exact hs
  · rw [a.1]; exact mains_offsDiffer s.blocks

/-- invariant of the finalisation loop: everything tiled, the sections already visited final -/
def FinInv (done : List String) (st : AState) : Prop :=
  ∀ s ∈ st.sects, Tiles s ∧ (s.name ∈ done → Final s)

theorem setSect_names (st : AState) (s : ASect) : (st.setSect s).sects.map (·.name) = st.sects.map (·.name) := by
  unfold AState.setSect
  simp only [List.map_map]
  apply List.map_congr_left
  intro x _
  simp only [Function.comp]
  split
  · rename_i h; exact (beq_iff_eq.mp h).symm
  · rfl

theorem finalizeSect_ok {t : Target} {st st' : AState} {n : String} {done : List String} (hi : FinInv done st)
    (h : finalizeSect t st n = .ok st') :
    FinInv (n :: done) st' ∧ st'.sects.map (·.name) = st.sects.map (·.name) := by
  unfold finalizeSect at h
  split at h
  · rename_i hnone
    injection h with h
    rw [← h]
    refine ⟨?_, rfl⟩
    intro s hs
    refine ⟨(hi s hs).1, ?_⟩
    intro hm
    simp only [List.mem_cons] at hm
    rcases hm with rfl | hm
    · rw [List.find?_eq_none] at hnone
      have := hnone s hs
      simp at this
    · exact (hi s hs).2 hm
  · rename_i s hfind
    have hsm : s ∈ st.sects := List.mem_of_find?_eq_some hfind
    have hsn : s.name = n := by
      have := List.find?_some hfind
      exact beq_iff_eq.mp this
    split at h
    · cases h
    · rename_i st1 s1 h1
      have a := removeEmptyBlocks_ok' (hi s hsm).1 h1
      split at h
      · cases h
      · rename_i st2 h2
        have b : st2.sects = st1.sects := convertFrom_sects h2
        split at h
        · cases h
        · rename_i st3 s3 h3
          have c := removeTrailing_ok a.1 h3
          injection h with h
          rw [← h]
          have hsects : st3.sects = st.sects := by rw [c.2.2, b, a.2.2]
          have hname : s3.name = n := by rw [c.2.1, a.2.1, hsn]
          refine ⟨?_, ?_⟩
          · intro x hx
            unfold AState.setSect at hx
            simp only [List.mem_map] at hx
            obtain ⟨y, hy, rfl⟩ := hx
            rw [hsects] at hy
            split
            · exact ⟨c.1.1, fun _ => c.1⟩
            · rename_i hne
              refine ⟨(hi y hy).1, ?_⟩
              intro hm
              simp only [List.mem_cons] at hm
              rcases hm with hm | hm
              · exfalso; apply hne; rw [hname, hm]; simp
              · exact (hi y hy).2 hm
          · rw [setSect_names, hsects]

theorem finalizeSects_ok {t : Target} {ns : List String} {st st' : AState} {done : List String} (hi : FinInv done st)
    (h : finalizeSects t st ns = .ok st') :
    FinInv (ns.reverse ++ done) st' ∧ st'.sects.map (·.name) = st.sects.map (·.name) := by
  induction ns generalizing st done with
  | nil => simp [finalizeSects] at h; rw [← h]; exact ⟨by simpa using hi, rfl⟩
  | cons n ns ih =>
    simp only [finalizeSects] at h
    split at h
    · cases h
    · rename_i st1 h1
      have a := finalizeSect_ok hi h1
      have b := ih a.1 h
      refine ⟨?_, by rw [b.2, a.2]⟩
      simpa using b.1

/-- **finalisation**: from a tiled state, every section of the result is tiled with an empty block at most last -/
theorem finalize_final {t : Target} {st st' : AState} (hi : Inv st) (h : finalize t st = .ok st') :
    ∀ s ∈ st'.sects, Final s := by
  unfold finalize at h
  simp only [] at h
  have h0 : FinInv [] ({ st with keys := (st.locals.map (·.2)).eraseDups } : AState) := by
    intro s hs
    exact ⟨(hi s hs).2, fun hm => by cases hm⟩
  have a := finalizeSects_ok h0 h
  intro s hs
  refine (a.1 s hs).2 ?_
  have : s.name ∈ st'.sects.map (·.name) := List.mem_map_of_mem hs
  rw [a.2] at this
  simpa using this

/-- a tiled list whose neighbours differ in offset has no empty block except possibly the last -/
theorem nonlast_nonempty : ∀ {l : List ABlock} {p e : Nat}, tiles p l = some e → OffsDiffer l → ∀ b ∈ l.dropLast, b.size ≠ 0
  | [], _, _, _, _ => by simp
  | [_], _, _, _, _ => by simp
  | a :: b :: rest, p, e, ht, hd => by
    intro x hx
    simp only [List.dropLast, List.mem_cons] at hx
    simp only [tiles] at ht
    split at ht
    · rename_i ha
      split at ht
      · rename_i hb
        rcases hx with rfl | hx
        · intro hz
          apply hd.1
          rw [hb, ha, hz]; simp
        · have ht' : tiles (p + x.size + 0) (b :: rest) = tiles (p + x.size + 0) (b :: rest) := rfl
          refine nonlast_nonempty (l := b :: rest) (p := p + a.size) (e := e) ?_ hd.2 x (by simpa [List.dropLast] using hx)
          simp only [tiles, hb, if_true]
          exact ht
      · cases ht
    · cases ht

end GtirbVerif.Asm
