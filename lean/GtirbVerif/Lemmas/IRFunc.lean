import GtirbVerif.Lemmas.IRCore

/-!
# The function tables and their cache stay in step (model side of C06)

`ModifyCache.functions_by_block` (`ir.fbb`) mirrors `functionBlocks`.  `Mirror ir` says: the
cache maps `b` to `f` exactly when `b` is listed under `f`.  It is preserved by
`add_function_block_aux` (for a block not yet in a function) and `remove_function_block_aux`,
the only two writers; a function that lost its last block leaves all three tables.
-/
namespace GtirbVerif.IR

/-! ### association lists -/

theorem alookup_aset_same {β} (k : Nat) (v : β) (l : List (Nat × β)) : alookup k (aset k v l) = some v := by
  induction l with
  | nil => simp [aset, alookup]
  | cons x xs ih =>
    obtain ⟨k', v'⟩ := x
    unfold aset
    by_cases h : k' = k
    · simp [h, alookup]
    · simp [h, alookup, ih]

theorem alookup_aset_other {β} (k j : Nat) (v : β) (l : List (Nat × β)) (h : j ≠ k) :
    alookup j (aset k v l) = alookup j l := by
  induction l with
  | nil => simp [aset, alookup]; intro hh; exact absurd hh.symm h
  | cons x xs ih =>
    obtain ⟨k', v'⟩ := x
    unfold aset
    by_cases hk : k' = k
    · subst hk
      have : ¬ k' = j := fun hh => h hh.symm
      simp [alookup, this]
    · by_cases hj : k' = j
      · subst hj; simp [alookup, h]
      · simp [hk, alookup, hj, ih]

theorem alookup_adel_same {β} (k : Nat) (l : List (Nat × β)) : alookup k (adel k l) = none := by
  induction l with
  | nil => rfl
  | cons x xs ih =>
    obtain ⟨k', v'⟩ := x
    unfold adel at *
    by_cases h : k' = k
    · simp [List.filter_cons, h, ih]
    · simp [List.filter_cons, h, alookup, ih]

theorem alookup_adel_other {β} (k j : Nat) (l : List (Nat × β)) (h : j ≠ k) :
    alookup j (adel k l) = alookup j l := by
  induction l with
  | nil => rfl
  | cons x xs ih =>
    obtain ⟨k', v'⟩ := x
    unfold adel at *
    by_cases hk : k' = k
    · subst hk
      have : ¬ k' = j := fun hh => h hh.symm
      simp [List.filter_cons, alookup, this, ih]
    · by_cases hj : k' = j
      · subst hj; simp [List.filter_cons, alookup, h]
      · simp [List.filter_cons, hk, alookup, hj, ih]

theorem mem_addUnique (l : List Nat) (x y : Nat) : y ∈ addUnique l x ↔ y ∈ l ∨ y = x := by
  unfold addUnique
  split
  · rename_i h
    constructor
    · exact Or.inl
    · rintro (h' | rfl); exact h'; exact h
  · simp

/-! ### the mirror invariant -/

def IR.inFunc (ir : IR) (b f : Nat) : Prop := b ∈ (alookup f ir.aux.funcBlocks).getD []

/-- the cache says `f` exactly when the table lists the block under `f` -/
def Mirror (ir : IR) : Prop := ∀ b f, alookup b ir.fbb = some f ↔ ir.inFunc b f

/-- **`add_function_block_aux`** puts a block that is in no function yet into `f`, in the table
and in the cache -/
theorem addFunctionBlock_mirror (ir : IR) (b f : Nat) (h : Mirror ir) (hnew : alookup b ir.fbb = none) :
    Mirror (ir.addFunctionBlock b f) := by
  intro c g
  unfold IR.addFunctionBlock IR.inFunc setAdd
  simp only []
  by_cases hc : c = b
  · subst hc
    rw [alookup_aset_same]
    by_cases hg : g = f
    · subst hg
      rw [alookup_aset_same]
      simp [mem_addUnique]
    · rw [alookup_aset_other _ _ _ _ hg]
      constructor
      · intro hh; injection hh with hh; exact absurd hh.symm hg
      · intro hh
        have := (h c g).mpr hh
        rw [hnew] at this; cases this
  · rw [alookup_aset_other _ _ _ _ hc]
    by_cases hg : g = f
    · subst hg
      rw [alookup_aset_same]
      simp only [Option.getD_some, mem_addUnique]
      rw [h c g]
      unfold IR.inFunc
      constructor
      · exact Or.inl
      · rintro (hh | hh); exact hh; exact absurd hh hc
    · rw [alookup_aset_other _ _ _ _ hg]
      exact h c g

/-- a block split off inherits the function of the block it came from -/
theorem inheritFunction_mirror (ir : IR) (b nb : Nat) (h : Mirror ir) (hnew : alookup nb ir.fbb = none) :
    Mirror (ir.inheritFunction b nb) ∧
    alookup nb (ir.inheritFunction b nb).fbb = alookup b ir.fbb := by
  unfold IR.inheritFunction
  split
  · rename_i f hf
    refine ⟨addFunctionBlock_mirror ir nb f h hnew, ?_⟩
    unfold IR.addFunctionBlock
    simp only []
    rw [alookup_aset_same, hf]
  · rename_i hf
    exact ⟨h, by rw [hnew, hf]⟩

/-! ### remove_function_block_aux -/

theorem dropMember_lookup (b f g : Nat) (t : List (Nat × List Nat)) (c : Nat) :
    c ∈ (alookup g (dropMember b f t).1).getD [] ↔
      c ∈ (alookup g t).getD [] ∧ (g = f → c ≠ b) := by
  unfold dropMember
  cases hl : alookup f t with
  | none =>
    simp only []
    constructor
    · intro h; refine ⟨h, ?_⟩; intro hg; subst hg; rw [hl] at h; simp at h
    · exact fun h => h.1
  | some bs =>
    simp only []
    split
    · rename_i he
      simp only []
      constructor
      · intro h; refine ⟨h, ?_⟩; intro hg; subst hg; rw [hl] at h
        simp only [Option.getD_some] at h
        have : bs = [] := by simpa using he
        rw [this] at h; cases h
      · exact fun h => h.1
    · simp only []
      by_cases hg : g = f
      · subst hg
        rw [alookup_aset_same, hl]
        simp only [Option.getD_some, List.mem_filter, bne_iff_ne, ne_eq]
        constructor
        · rintro ⟨h1, h2⟩; exact ⟨h1, fun _ => h2⟩
        · rintro ⟨h1, h2⟩; exact ⟨h1, by simpa using h2⟩
      · rw [alookup_aset_other _ _ _ _ hg]
        constructor
        · intro h; exact ⟨h, fun hh => absurd hh hg⟩
        · exact fun h => h.1

theorem dropMember_flag (b f : Nat) (t : List (Nat × List Nat)) (h : (dropMember b f t).2 = false) :
    ∀ c, c ∈ (alookup f t).getD [] → c = b := by
  unfold dropMember at h
  cases hl : alookup f t with
  | none => intro c hc; simp at hc
  | some bs =>
    rw [hl] at h
    simp only [] at h
    split at h
    · rename_i he
      have : bs = [] := by simpa using he
      intro c hc; simp [this] at hc
    · simp only [Bool.not_eq_false', List.isEmpty_iff] at h
      intro c hc
      simp only [Option.getD_some] at hc
      apply Classical.byContradiction
      intro hne
      have : c ∈ bs.filter (· != b) := by simp [List.mem_filter, hc, hne]
      rw [h] at this; cases this

/-- **`remove_function_block_aux`** keeps cache and table in step -/
theorem removeFunctionBlock_mirror (ir : IR) (b : Nat) (h : Mirror ir) : Mirror (ir.removeFunctionBlock b) := by
  unfold IR.removeFunctionBlock
  cases hb : alookup b ir.fbb with
  | none => exact h
  | some f =>
    simp only []
    have hbf : ir.inFunc b f := (h b f).mp hb
    split
    · -- some block of the function is left
      intro c g
      unfold IR.inFunc
      simp only []
      rw [dropMember_lookup]
      by_cases hc : c = b
      · subst hc
        rw [alookup_adel_same]
        constructor
        · intro hh; cases hh
        · rintro ⟨h1, h2⟩
          have := (h c g).mpr h1
          rw [hb] at this; injection this with this
          exact absurd rfl (h2 this.symm)
      · rw [alookup_adel_other _ _ _ hc, h c g]
        unfold IR.inFunc
        constructor
        · intro hh; exact ⟨hh, fun _ => hc⟩
        · exact fun hh => hh.1
    · -- the function lost its last block
      rename_i hleft
      have hfb : (dropMember b f ir.aux.funcBlocks).2 = false := by
        cases h2 : (dropMember b f ir.aux.funcBlocks).2 with
        | false => rfl
        | true => simp [h2] at hleft
      intro c g
      unfold IR.inFunc
      simp only []
      by_cases hg : g = f
      · subst hg
        rw [alookup_adel_same]
        simp only [Option.getD_none, List.not_mem_nil, iff_false]
        by_cases hc : c = b
        · subst hc; rw [alookup_adel_same]; intro hh; cases hh
        · rw [alookup_adel_other _ _ _ hc]
          intro hh
          have := (h c g).mp hh
          exact hc (dropMember_flag b g _ hfb c this)
      · rw [alookup_adel_other _ _ _ hg, dropMember_lookup]
        by_cases hc : c = b
        · subst hc
          rw [alookup_adel_same]
          constructor
          · intro hh; cases hh
          · rintro ⟨h1, _⟩
            have := (h c g).mpr h1
            rw [hb] at this; injection this with this
            exact absurd this.symm hg
        · rw [alookup_adel_other _ _ _ hc, h c g]
          unfold IR.inFunc
          constructor
          · intro hh; exact ⟨hh, fun hh2 => absurd hh2 hg⟩
          · exact fun hh => hh.1

/-- afterwards the block is in no function -/
theorem removeFunctionBlock_gone (ir : IR) (b : Nat) (h : Mirror ir) :
    alookup b (ir.removeFunctionBlock b).fbb = none ∧ ∀ f, ¬ (ir.removeFunctionBlock b).inFunc b f := by
  have hm := removeFunctionBlock_mirror ir b h
  have h1 : alookup b (ir.removeFunctionBlock b).fbb = none := by
    unfold IR.removeFunctionBlock
    cases hb : alookup b ir.fbb with
    | none => simp only []; exact hb
    | some f =>
      simp only []
      split <;> exact alookup_adel_same _ _
  refine ⟨h1, fun f hf => ?_⟩
  have := (hm b f).mpr hf
  rw [h1] at this; cases this

/-- a function that lost all its blocks disappears from all three tables -/
theorem removeFunctionBlock_last (ir : IR) (b f : Nat) (hb : alookup b ir.fbb = some f)
    (hlast : ∀ c, c ∈ (alookup f ir.aux.funcBlocks).getD [] → c = b)
    (hent : ∀ c, c ∈ (alookup f ir.aux.funcEntries).getD [] → c = b) :
    alookup f (ir.removeFunctionBlock b).aux.funcBlocks = none ∧
    alookup f (ir.removeFunctionBlock b).aux.funcEntries = none ∧
    alookup f (ir.removeFunctionBlock b).aux.funcNames = none := by
  unfold IR.removeFunctionBlock
  rw [hb]
  simp only []
  have key : ∀ t : List (Nat × List Nat), (∀ c, c ∈ (alookup f t).getD [] → c = b) → (dropMember b f t).2 = false := by
    intro t ht
    unfold dropMember
    cases hl : alookup f t with
    | none => rfl
    | some bs =>
      simp only []
      split
      · rfl
      · simp only [Bool.not_eq_false', List.isEmpty_iff]
        rw [List.eq_nil_iff_forall_not_mem]
        intro c hc
        simp only [List.mem_filter, bne_iff_ne, ne_eq] at hc
        exact hc.2 (ht c (by rw [hl]; exact hc.1))
  rw [key _ hlast, key _ hent]
  simp only [Bool.or_self, Bool.false_eq_true, if_false]
  exact ⟨alookup_adel_same _ _, alookup_adel_same _ _, alookup_adel_same _ _⟩

end GtirbVerif.IR
