import GtirbVerif.Lemmas.AbiWrap

/-! The generated prologue/epilogue of each ABI family is a nest of transparent wrappers. -/
namespace GtirbVerif.Abi

theorem flatRev_append (a b : List (List Instr)) : flatRev (a ++ b) = flatRev b ++ flatRev a := by
  simp [flatRev]

theorem flatRev_singletons {α} (f : α → Instr) (l : List α) :
    flatRev (l.map (fun r => [f r])) = l.reverse.map f := by
  induction l with
  | nil => rfl
  | cons x xs ih =>
    simp only [List.map_cons, List.reverse_cons, List.map_append, List.map_nil]
    rw [show (([f x] : List Instr) :: xs.map (fun r => [f r])) = [[f x]] ++ xs.map (fun r => [f r]) from rfl,
      flatRev_append, ih]
    simp [flatRev]

/-- the inner code: anything that leaves `sp` where it found it and does not
touch cells at or above its entry `sp` (its own writes, below `sp`, are not
logged) -/
abbrev BodyOK (W : Int) (body : M → Option M) : Prop := Good W body [] false 0

/-! ### x86 (x86-64 and IA32) -/

theorem x86_good {W : Nat} (hW : (W : Int) = 4 ∨ (W : Int) = 8) (ax : String) (rz : Nat)
    (c : Constraints) (a : Alloc) (leaf : Bool) {body : M → Option M} (hb : BodyOK W body) :
    Good W (wrap W (x86Gen W ax rz c a leaf).1 (x86Gen W ax rz c a leaf).2.1 body)
      a.clobbered c.clobbersFlags
      (if (!a.clobbered.isEmpty || c.clobbersFlags || c.alignStack) && rz != 0 && leaf then (rz : Int) else 0) := by
  have hWpos : (0 : Int) < W := by rcases hW with h | h <;> omega
  simp only [x86Gen]
  generalize hskip : ((!a.clobbered.isEmpty || c.clobbersFlags || c.alignStack) && rz != 0 && leaf) = skip
  -- regroup as a nest
  simp only [flatRev_append, ← List.append_assoc]
  have hP : ∀ (p1 p2 p3 p4 : List Instr), p1 ++ p2 ++ p3 ++ p4 = p1 ++ (p2 ++ (p3 ++ p4)) := by
    intros; simp
  rw [hP]
  -- innermost: alignment
  have g4 : Good W (wrap W (if c.alignStack = true then alignPre ax else [])
      (flatRev (if c.alignStack = true then [alignPost ax] else [])) body) [] false 0 := by
    by_cases hal : c.alignStack = true
    · simp only [hal, ↓reduceIte]
      have : flatRev [alignPost ax] = alignPost ax := by simp [flatRev]
      rw [this]
      exact (good_align hW (Int.le_refl 0) hb ax).mono (by simp) (Int.le_refl 0)
    · have hal' : c.alignStack = false := by simpa using hal
      simp only [hal', Bool.false_eq_true, ↓reduceIte]
      have : flatRev ([] : List (List Instr)) = [] := rfl
      rw [this, wrap_nil]
      exact hb
  -- registers
  have g3 : Good W (wrap W (a.clobbered.map Instr.push ++ (if c.alignStack = true then alignPre ax else []))
      (flatRev (if c.alignStack = true then [alignPost ax] else []) ++
        flatRev (a.clobbered.map (fun r => [Instr.pop r]))) body) a.clobbered false 0 := by
    rw [wrap_append, flatRev_singletons]
    by_cases hne : a.clobbered = []
    · simp only [hne, List.map_nil, List.reverse_nil]
      rw [wrap_nil]; exact g4
    · have := good_pushes hWpos (Int.le_refl 0) g4 a.clobbered hne
      simpa using this
  -- flags
  have g2 : Good W (wrap W ((if c.clobbersFlags = true then [Instr.pushf] else []) ++
      (a.clobbered.map Instr.push ++ (if c.alignStack = true then alignPre ax else [])))
      ((flatRev (if c.alignStack = true then [alignPost ax] else []) ++
        flatRev (a.clobbered.map (fun r => [Instr.pop r]))) ++
        flatRev (if c.clobbersFlags = true then [[Instr.popf]] else [])) body)
      a.clobbered c.clobbersFlags 0 := by
    rw [wrap_append]
    by_cases hf : c.clobbersFlags = true
    · simp only [hf, ↓reduceIte]
      have : flatRev [[Instr.popf]] = [Instr.popf] := by simp [flatRev]
      rw [this]
      exact good_pushf hWpos (Int.le_refl 0) g3
    · have hf' : c.clobbersFlags = false := by simpa using hf
      simp only [hf', Bool.false_eq_true, ↓reduceIte]
      have : flatRev ([] : List (List Instr)) = [] := rfl
      rw [this, wrap_nil]
      exact g3
  -- red zone
  rw [wrap_append]
  by_cases hs : skip = true
  · simp only [hs, ↓reduceIte]
    have : flatRev [[Instr.lea (rz : Int)]] = [Instr.lea (rz : Int)] := by simp [flatRev]
    rw [this]
    have := good_lea (rz : Int) (by omega) g2
    simpa using this
  · have hs' : skip = false := by simpa using hs
    simp only [hs', Bool.false_eq_true, ↓reduceIte]
    have : flatRev ([] : List (List Instr)) = [] := rfl
    rw [this, wrap_nil]
    exact g2

end GtirbVerif.Abi

namespace GtirbVerif.Abi

/-- sp after a run of pushes -/
theorem run_pushes_sp (W : Int) : ∀ (regs : List String) (σ : M),
    ∃ σ1, run W (regs.map Instr.push) σ = some σ1 ∧ σ1.sp = σ.sp - regs.length * W
  | [], σ => ⟨σ, rfl, by simp⟩
  | r :: rs, σ => by
    obtain ⟨σ1, h1, h2⟩ := run_pushes_sp W rs ({ σ with sp := σ.sp - W }.write W (σ.sp - W) (σ.reg r))
    refine ⟨σ1, by simp only [List.map_cons, run, step]; exact h1, ?_⟩
    rw [h2]; simp only [M.write, List.length_cons]
    push_cast
    rw [Int.add_mul]; omega

/-- **the reported stack adjustment is the real displacement; with
`align_stack` the inner code starts with a 16-byte aligned stack on x86-64
(4-byte on IA32, whose convention asks for 4)** -/
theorem x86_entry {W : Nat} (ax : String) (rz : Nat) (c : Constraints) (a : Alloc) (leaf : Bool)
    (σ : M) :
    ∃ σ1, run W (x86Gen W ax rz c a leaf).1 σ = some σ1 ∧
      (∀ d, (x86Gen W ax rz c a leaf).2.2 = some d → σ1.sp = σ.sp - d) ∧
      (c.alignStack = true → (W : Int) = 8 → σ1.sp % 16 = 0) ∧
      (c.alignStack = true → (W : Int) = 4 → σ1.sp % 4 = 0) := by
  simp only [x86Gen]
  generalize ((!a.clobbered.isEmpty || c.clobbersFlags || c.alignStack) && rz != 0 && leaf) = skip
  -- the three simple segments
  have seg1 : ∃ σa, run W (if skip = true then [Instr.lea (-(rz : Int))] else []) σ = some σa ∧
      σa.sp = σ.sp - (if skip = true then (rz : Int) else 0) := by
    by_cases hs : skip = true
    · simp only [hs, ↓reduceIte, run, step]; exact ⟨_, rfl, by simp; omega⟩
    · have hs' : skip = false := by simpa using hs
      simp only [hs', Bool.false_eq_true, ↓reduceIte, run]; exact ⟨_, rfl, by simp⟩
  obtain ⟨σa, ha1, ha2⟩ := seg1
  have seg2 : ∃ σb, run W (if c.clobbersFlags = true then [Instr.pushf] else []) σa = some σb ∧
      σb.sp = σa.sp - (if c.clobbersFlags = true then (W : Int) else 0) := by
    by_cases hf : c.clobbersFlags = true
    · simp only [hf, ↓reduceIte, run, step, M.write]; exact ⟨_, rfl, rfl⟩
    · have hf' : c.clobbersFlags = false := by simpa using hf
      simp only [hf', Bool.false_eq_true, ↓reduceIte, run]; exact ⟨_, rfl, by simp⟩
  obtain ⟨σb, hb1, hb2⟩ := seg2
  obtain ⟨σc, hc1, hc2⟩ := run_pushes_sp W a.clobbered σb
  by_cases hal : c.alignStack = true
  · simp only [hal, ↓reduceIte]
    cases hd : run W (alignPre ax) σc with
    | none => simp [alignPre, run, step] at hd
    | some σd =>
      have hsp := align_entry_sp ax σc σd hd
      refine ⟨σd, ?_, ?_, ?_, ?_⟩
      · simp only [run_append, ha1, hb1, hc1, hd, Option.bind_some]
      · intro d h; simp at h
      · intro _ h8; rw [hsp, h8]; omega
      · intro _ h4; rw [hsp, h4]; omega
  · have hal' : c.alignStack = false := by simpa using hal
    simp only [hal', Bool.false_eq_true, ↓reduceIte, List.append_nil]
    refine ⟨σc, ?_, ?_, ?_, ?_⟩
    · simp only [run_append, ha1, hb1, hc1, Option.bind_some]
    · intro d h
      simp only [Option.some.injEq] at h
      rw [hc2, hb2, ha2, ← h]
      push_cast
      split <;> split <;> omega
    · intro h; simp at h
    · intro h; simp at h

/-! ### ARM64 -/

def pairRegs : List (String × Option String) → List String
  | [] => []
  | (r1, some r2) :: rest => r1 :: r2 :: pairRegs rest
  | (r1, none) :: rest => r1 :: pairRegs rest

theorem pairRegs_pairs : ∀ l : List String, pairRegs (pairs l) = l
  | [] => rfl
  | [_] => rfl
  | r1 :: r2 :: rest => by simp [pairs, pairRegs, pairRegs_pairs rest]

theorem good_pairs {g : M → Option M} {R : List String} {F : Bool} :
    ∀ (ps : List (String × Option String)) {k : Int}, 0 ≤ k → Good 8 g R F k →
      Good 8 (wrap 8 (pairPre ps) (pairPost ps) g) (pairRegs ps ++ R) F 0
  | [], k, hk, h => by
    simp only [pairPre, pairPost, pairRegs, List.nil_append]
    rw [wrap_nil]; exact h.mono (fun _ h => h) hk
  | (r1, some r2) :: rest, k, hk, h => by
    have ih := good_pairs rest hk h
    have := good_stp (Int.le_refl 0) ih r1 r2
    simp only [pairPre, pairPost, pairRegs]
    rw [show Instr.stp r1 r2 :: pairPre rest = [Instr.stp r1 r2] ++ pairPre rest from rfl, wrap_append]
    simpa using this
  | (r1, none) :: rest, k, hk, h => by
    have ih := good_pairs rest hk h
    have := good_strPre (Int.le_refl 0) ih r1
    simp only [pairPre, pairPost, pairRegs]
    rw [show Instr.strPre r1 :: pairPre rest = [Instr.strPre r1] ++ pairPre rest from rfl, wrap_append]
    simpa using this

/-- **ARM64**: every register of the allocation and the flags (when declared)
are restored; nothing at or above the entry `sp` is written -/
theorem arm64_good (c : Constraints) (a : Alloc) {pre post : List Instr} {adj : Option Nat}
    (hgen : arm64Gen c a = .ok (pre, post, adj)) {body : M → Option M} (hb : BodyOK 8 body) :
    Good 8 (wrap 8 pre post body) a.clobbered c.clobbersFlags 0 := by
  unfold arm64Gen at hgen
  cases hfr : arm64FlagsReg c a with
  | error e => simp [hfr] at hgen
  | ok p =>
    obtain ⟨fr, clob⟩ := p
    simp only [hfr, Except.ok.injEq, arm64Emit, Prod.mk.injEq] at hgen
    obtain ⟨rfl, rfl, _⟩ := hgen
    have hsub : ∀ x ∈ a.clobbered, x ∈ clob := by
      unfold arm64FlagsReg at hfr
      split at hfr
      · cases hs : a.scratch with
        | cons r _ => simp only [hs, Except.ok.injEq, Prod.mk.injEq] at hfr; rw [← hfr.2]; exact fun _ h => h
        | nil =>
          cases hav : a.available with
          | cons r _ =>
            simp only [hs, hav, Except.ok.injEq, Prod.mk.injEq] at hfr
            rw [← hfr.2]; exact fun x h => List.mem_append.mpr (Or.inl h)
          | nil => simp [hs, hav] at hfr
      · simp only [Except.ok.injEq, Prod.mk.injEq] at hfr
        rw [← hfr.2]; exact fun _ h => h
    have hflag : c.clobbersFlags = true → ∃ r, fr = some r := by
      intro hf
      unfold arm64FlagsReg at hfr
      simp only [hf, ↓reduceIte] at hfr
      cases hs : a.scratch with
      | cons r _ => simp only [hs, Except.ok.injEq, Prod.mk.injEq] at hfr; exact ⟨r, hfr.1.symm⟩
      | nil =>
        cases hav : a.available with
        | cons r _ => simp only [hs, hav, Except.ok.injEq, Prod.mk.injEq] at hfr; exact ⟨r, hfr.1.symm⟩
        | nil => simp [hs, hav] at hfr
    rw [wrap_append]
    cases fr with
    | some r =>
      simp only []
      have g1 := good_flags_arm (Int.le_refl 0) hb r
      have g2 := good_pairs (pairs clob) (Int.le_refl 0) g1
      rw [pairRegs_pairs] at g2
      intro σ
      obtain ⟨σ', q1, q2, q3, q4, q5, q6⟩ := g2 σ
      exact ⟨σ', q1, q2, q3, fun x hx => q4 x (List.mem_append.mpr (Or.inl (hsub x hx))),
        fun _ => q5 rfl, q6⟩
    | none =>
      have hf : c.clobbersFlags = false := by
        cases hc : c.clobbersFlags with
        | false => rfl
        | true => obtain ⟨r, hr⟩ := hflag hc; cases hr
      simp only []
      rw [wrap_nil, hf]
      have g2 := good_pairs (pairs clob) (Int.le_refl 0) hb
      rw [pairRegs_pairs] at g2
      exact g2.mono (fun x hx => List.mem_append.mpr (Or.inl (hsub x hx))) (Int.le_refl 0)

end GtirbVerif.Abi

namespace GtirbVerif.Abi

/-! ### MIPS32 -/

def slotOffsets : Nat → List String → List Int
  | _, [] => []
  | i, _ :: rs => ((4 * i : Nat) : Int) :: slotOffsets (i + 1) rs

theorem slotOffsets_bounds : ∀ (i : Nat) (regs : List String) (t : Int), t ∈ slotOffsets i regs →
    ((4 * i : Nat) : Int) ≤ t ∧ t + 4 ≤ ((4 * (i + regs.length) : Nat) : Int)
  | _, [], t, h => by simp [slotOffsets] at h
  | i, r :: rs, t, h => by
    simp only [slotOffsets, List.mem_cons] at h
    rcases h with rfl | h
    · simp only [List.length_cons]; omega
    · have := slotOffsets_bounds (i + 1) rs t h
      simp only [List.length_cons]; omega

theorem good_slots {g : M → Option M} {R : List String} {F : Bool} (hg : GoodT 4 g R F []) :
    ∀ (regs : List String) (i : Nat),
      GoodT 4 (wrap 4 (swList i regs) (lwListRev i regs) g) (regs ++ R) F (slotOffsets i regs)
  | [], i => by
    simp only [swList, lwListRev, slotOffsets, List.nil_append]
    rw [wrap_nil]; exact hg
  | r :: rs, i => by
    have ih := good_slots hg rs (i + 1)
    have := goodT_sw (by omega : (0 : Int) < 4) ih r ((4 * i : Nat) : Int) (by omega) (by
      intro t ht
      have := slotOffsets_bounds (i + 1) rs t ht
      omega)
    simp only [swList, lwListRev, slotOffsets]
    rw [show Instr.sw r ((4 * i : Nat) : Int) :: swList (i + 1) rs =
      [Instr.sw r ((4 * i : Nat) : Int)] ++ swList (i + 1) rs from rfl, wrap_append]
    simpa using this

/-- **MIPS32**: every register of the allocation is restored; nothing at or
above the entry `$sp` is written -/
theorem mips32_good (c : Constraints) (a : Alloc) {pre post : List Instr} {adj : Option Nat}
    (hgen : mips32Gen c a = .ok (pre, post, adj)) {body : M → Option M} (hb : BodyOK 4 body) :
    Good 4 (wrap 4 pre post body) a.clobbered false 0 := by
  unfold mips32Gen at hgen
  split at hgen
  · cases hgen
  · simp only [Except.ok.injEq, Prod.mk.injEq] at hgen
    obtain ⟨rfl, rfl, _⟩ := hgen
    have gs := good_slots (goodT_of_good (Int.le_refl 0) hb) a.clobbered 0
    by_cases hn : a.clobbered.length * 4 = 0
    · have hnil : a.clobbered = [] := by
        cases h : a.clobbered with
        | nil => rfl
        | cons _ _ => simp [h] at hn
      simp only [hnil, List.length_nil, Nat.zero_mul, bne_self_eq_false, Bool.false_eq_true,
        ↓reduceIte, swList, lwListRev, List.append_nil]
      rw [wrap_nil]; exact hb
    · have hn' : (a.clobbered.length * 4 != 0) = true := by simpa using hn
      simp only [hn', ↓reduceIte]
      rw [wrap_append]
      have := good_addiu gs ((a.clobbered.length * 4 : Nat) : Int) (by
        intro t ht
        have := slotOffsets_bounds 0 a.clobbered t ht
        omega) (by omega)
      exact this.mono (fun x hx => List.mem_append.mpr (Or.inl hx)) (Int.le_refl 0)

/-! ### entry states for ARM64 and MIPS32 -/

theorem run_pairPre_sp : ∀ (ps : List (String × Option String)) (σ : M),
    ∃ σ1, run 8 (pairPre ps) σ = some σ1 ∧ σ1.sp = σ.sp - 16 * ps.length
  | [], σ => ⟨σ, rfl, by simp⟩
  | (r1, some r2) :: rest, σ => by
    obtain ⟨σ1, h1, h2⟩ := run_pairPre_sp rest
      (({ σ with sp := σ.sp - 16 }.write 8 (σ.sp - 16) (σ.reg r1)).write 8 (σ.sp - 8) (σ.reg r2))
    refine ⟨σ1, by simp only [pairPre, run, step]; exact h1, ?_⟩
    rw [h2]; simp only [M.write, List.length_cons]; push_cast; omega
  | (r1, none) :: rest, σ => by
    obtain ⟨σ1, h1, h2⟩ := run_pairPre_sp rest
      ({ σ with sp := σ.sp - 16 }.write 8 (σ.sp - 16) (σ.reg r1))
    refine ⟨σ1, by simp only [pairPre, run, step]; exact h1, ?_⟩
    rw [h2]; simp only [M.write, List.length_cons]; push_cast; omega

/-- ARM64: the reported adjustment is the displacement, and a 16-byte aligned
`sp` stays 16-byte aligned -/
theorem arm64_entry (c : Constraints) (a : Alloc) {pre post : List Instr} {adj : Option Nat}
    (hgen : arm64Gen c a = .ok (pre, post, adj)) (σ : M) :
    ∃ σ1 d, run 8 pre σ = some σ1 ∧ adj = some d ∧ σ1.sp = σ.sp - d ∧
      (σ.sp % 16 = 0 → σ1.sp % 16 = 0) := by
  unfold arm64Gen at hgen
  cases hfr : arm64FlagsReg c a with
  | error e => simp [hfr] at hgen
  | ok p =>
    obtain ⟨fr, clob⟩ := p
    simp only [hfr, Except.ok.injEq, arm64Emit, Prod.mk.injEq] at hgen
    obtain ⟨rfl, _, rfl⟩ := hgen
    obtain ⟨σ1, h1, h2⟩ := run_pairPre_sp (pairs clob) σ
    have hflag : c.clobbersFlags = true ↔ ∃ r, fr = some r := by
      unfold arm64FlagsReg at hfr
      constructor
      · intro hf
        simp only [hf, ↓reduceIte] at hfr
        cases hs : a.scratch with
        | cons r _ => simp only [hs, Except.ok.injEq, Prod.mk.injEq] at hfr; exact ⟨r, hfr.1.symm⟩
        | nil =>
          cases hav : a.available with
          | cons r _ => simp only [hs, hav, Except.ok.injEq, Prod.mk.injEq] at hfr; exact ⟨r, hfr.1.symm⟩
          | nil => simp [hs, hav] at hfr
      · rintro ⟨r, rfl⟩
        cases hc : c.clobbersFlags with
        | true => rfl
        | false => simp [hc] at hfr
    cases fr with
    | some r =>
      have hf := hflag.mpr ⟨r, rfl⟩
      have hrun2 : ∃ σ2, run 8 [Instr.mrs r, Instr.strPre r] σ1 = some σ2 ∧ σ2.sp = σ1.sp - 16 := by
        simp only [run, step, M.write]; exact ⟨_, rfl, rfl⟩
      obtain ⟨σ2, r1, r2⟩ := hrun2
      refine ⟨σ2, _, ?_, rfl, ?_, ?_⟩
      · simp only [run_append, h1, Option.bind_some]; exact r1
      · rw [r2, h2, hf]; simp only [↓reduceIte]; push_cast; omega
      · intro h16; rw [r2, h2]; omega
    | none =>
      have hf : c.clobbersFlags = false := by
        cases hc : c.clobbersFlags with
        | false => rfl
        | true => obtain ⟨r, hr⟩ := hflag.mp hc; cases hr
      refine ⟨σ1, _, ?_, rfl, ?_, ?_⟩
      · simp only [List.append_nil, h1]
      · rw [h2, hf]; simp; omega
      · intro h16; rw [h2]; omega

theorem run_swList_sp : ∀ (regs : List String) (i : Nat) (σ : M),
    ∃ σ1, run 4 (swList i regs) σ = some σ1 ∧ σ1.sp = σ.sp
  | [], _, σ => ⟨σ, rfl, rfl⟩
  | r :: rs, i, σ => by
    obtain ⟨σ1, h1, h2⟩ := run_swList_sp rs (i + 1) (σ.write 4 (σ.sp + ((4 * i : Nat) : Int)) (σ.reg r))
    exact ⟨σ1, by simp only [swList, run, step]; exact h1, by rw [h2]; rfl⟩

theorem mips32_entry (c : Constraints) (a : Alloc) {pre post : List Instr} {adj : Option Nat}
    (hgen : mips32Gen c a = .ok (pre, post, adj)) (σ : M) :
    ∃ σ1 d, run 4 pre σ = some σ1 ∧ adj = some d ∧ σ1.sp = σ.sp - d := by
  unfold mips32Gen at hgen
  split at hgen
  · cases hgen
  · simp only [Except.ok.injEq, Prod.mk.injEq] at hgen
    obtain ⟨rfl, _, rfl⟩ := hgen
    by_cases hn : a.clobbered.length * 4 = 0
    · have hn' : (a.clobbered.length * 4 != 0) = false := by simpa using hn
      simp only [hn', Bool.false_eq_true, ↓reduceIte, List.nil_append]
      obtain ⟨σ1, h1, h2⟩ := run_swList_sp a.clobbered 0 σ
      exact ⟨σ1, _, h1, rfl, by rw [h2, hn]; simp⟩
    · have hn' : (a.clobbered.length * 4 != 0) = true := by simpa using hn
      simp only [hn', ↓reduceIte]
      obtain ⟨σ1, h1, h2⟩ := run_swList_sp a.clobbered 0
        { σ with sp := σ.sp + -((a.clobbered.length * 4 : Nat) : Int) }
      refine ⟨σ1, _, ?_, rfl, ?_⟩
      · simp only [run_append, run, step, Option.bind_some]; exact h1
      · rw [h2]; simp only []; omega

end GtirbVerif.Abi
