import GtirbVerif.Lemmas.IRCore

/-!
# Edge sets after split / join (model side of C03)

The CFG is a list used as a set (`cfgAdd` / `cfgDiscard`).  The lemmas characterise the edge
set after the bulk edge updates of `split_block` and `join_blocks` by membership.
-/
namespace GtirbVerif.IR
open GtirbVerif.Adt (CfgNode Label Edge)

theorem mem_cfgAdd (cfg : List Edge) (e e' : Edge) : e' ∈ cfgAdd cfg e ↔ e' ∈ cfg ∨ e' = e := by
  unfold cfgAdd
  split
  · rename_i h
    constructor
    · intro h'; exact Or.inl h'
    · rintro (h' | h')
      · exact h'
      · rw [h']; exact h
  · simp

theorem mem_cfgDiscard (cfg : List Edge) (e e' : Edge) : e' ∈ cfgDiscard cfg e ↔ e' ∈ cfg ∧ e' ≠ e := by
  unfold cfgDiscard
  simp [List.mem_filter]

/-- moving a list of edges one by one: `update_edge` in a loop over a snapshot -/
def moveEdges (f : Edge → Edge) (cfg : List Edge) (l : List Edge) : List Edge :=
  l.foldl (fun c e => cfgAdd (cfgDiscard c e) (f e)) cfg

theorem foldl_updateEdge_cfg (f : Edge → Edge) (l : List Edge) (ir : IR) :
    (l.foldl (fun ir e => ir.updateEdge e (f e)) ir).cfg = moveEdges f ir.cfg l := by
  unfold moveEdges
  induction l generalizing ir with
  | nil => rfl
  | cons e l ih => simp only [List.foldl_cons]; rw [ih]; rfl

/-- if no moved edge is itself due to be moved, the result is: everything that was not moved,
plus the images -/
theorem mem_moveEdges (f : Edge → Edge) (l : List Edge) (hf : ∀ e ∈ l, f e ∉ l) (cfg : List Edge) (e' : Edge) :
    e' ∈ moveEdges f cfg l ↔ (e' ∈ cfg ∧ e' ∉ l) ∨ ∃ e ∈ l, e' = f e := by
  unfold moveEdges
  induction l generalizing cfg with
  | nil => simp
  | cons e l ih =>
    simp only [List.foldl_cons]
    have hf' : ∀ x ∈ l, f x ∉ l := fun x hx h => hf x (List.mem_cons_of_mem _ hx) (List.mem_cons_of_mem _ h)
    rw [ih hf']
    simp only [mem_cfgAdd, mem_cfgDiscard, List.mem_cons]
    constructor
    · rintro (⟨(⟨h1, h2⟩ | h1), h3⟩ | ⟨x, hx, rfl⟩)
      · exact Or.inl ⟨h1, by rintro (h | h); exact h2 h; exact h3 h⟩
      · exact Or.inr ⟨e, Or.inl rfl, h1⟩
      · exact Or.inr ⟨x, Or.inr hx, rfl⟩
    · rintro (⟨h1, h2⟩ | ⟨x, (rfl | hx), rfl⟩)
      · exact Or.inl ⟨Or.inl ⟨h1, fun h => h2 (Or.inl h)⟩, fun h => h2 (Or.inr h)⟩
      · have : f x ∉ l := fun h => hf x (List.mem_cons_self) (List.mem_cons_of_mem _ h)
        exact Or.inl ⟨Or.inr rfl, this⟩
      · exact Or.inr ⟨x, hx, rfl⟩

/-! ### split_block in the middle of a block -/

/-- **After a split in the middle** every former out-edge of the block leaves from the tail,
nothing else changed — so the head's only successor is the connecting fallthrough added next. -/
theorem splitEdgesMid_cfg (ir : IR) (b nb : Nat) (hne : nb ≠ b) (e' : Edge) :
    e' ∈ (ir.splitEdgesMid b nb).cfg ↔
      (e' ∈ ir.cfg ∧ e'.src ≠ .block b) ∨ ∃ e ∈ ir.cfg, e.src = .block b ∧ e' = updSrc e (.block nb) := by
  unfold IR.splitEdgesMid
  rw [foldl_updateEdge_cfg (fun e => updSrc e (.block nb))]
  have hf : ∀ e ∈ ir.outEdges b, updSrc e (.block nb) ∉ ir.outEdges b := by
    intro e _ h
    unfold IR.outEdges at h
    simp only [List.mem_filter, updSrc, beq_iff_eq] at h
    have := h.2
    injection this with this
    exact hne this
  rw [mem_moveEdges _ _ hf]
  unfold IR.outEdges
  simp only [List.mem_filter, beq_iff_eq]
  constructor
  · rintro (⟨h1, h2⟩ | ⟨e, ⟨he1, he2⟩, rfl⟩)
    · exact Or.inl ⟨h1, fun h => h2 ⟨h1, h⟩⟩
    · exact Or.inr ⟨e, he1, he2, rfl⟩
  · rintro (⟨h1, h2⟩ | ⟨e, he1, he2, rfl⟩)
    · exact Or.inl ⟨h1, fun h => h2 h.2⟩
    · exact Or.inr ⟨e, ⟨he1, he2⟩, rfl⟩

/-- the head keeps no out-edge (before the connecting fallthrough is added) -/
theorem splitEdgesMid_head_has_no_successor (ir : IR) (b nb : Nat) (hne : nb ≠ b) :
    (ir.splitEdgesMid b nb).outEdges b = [] := by
  rw [List.eq_nil_iff_forall_not_mem]
  intro e' he
  unfold IR.outEdges at he
  simp only [List.mem_filter, beq_iff_eq] at he
  rcases (splitEdgesMid_cfg ir b nb hne e').mp he.1 with ⟨_, h⟩ | ⟨e, _, _, rfl⟩
  · exact h he.2
  · have := he.2
    simp only [updSrc] at this
    injection this with this
    exact hne this

/-! ### the empty tail behind a terminator -/

/-- `_connect_empty_tail` adds at most the one fallthrough edge from the empty tail to the code
block that follows it, and only when the tail has no successor yet -/
theorem connectEmptyTail_cfg (ir : IR) (t : Nat) (e' : Edge) (h : e' ∈ (ir.connectEmptyTail t).cfg) :
    e' ∈ ir.cfg ∨ (∃ n, e' = { src := .block t, dst := .block n, label := fallLabel } ∧
      (ir.outEdges t).isEmpty ∧ ir.isCodeBlockId (some n)) := by
  unfold IR.connectEmptyTail at h
  split at h
  · exact Or.inl h
  · split at h
    · rename_i hc
      split at h
      · rename_i n _
        split at h
        · rename_i hn
          unfold IR.addFall at h
          rcases (mem_cfgAdd _ _ _).mp h with h | h
          · exact Or.inl h
          · refine Or.inr ⟨n, h, ?_, hn⟩
            simp only [Bool.and_eq_true] at hc
            exact hc.2
        · exact Or.inl h
      · exact Or.inl h
    · exact Or.inl h

/-! ### join_blocks: a dead empty block's fallthrough is not inherited -/

theorem foldl_shrinks {α} (f : IR → α → IR) (hf : ∀ ir a, ∀ e ∈ (f ir a).cfg, e ∈ ir.cfg) (l : List α) (ir : IR) :
    ∀ e ∈ (l.foldl f ir).cfg, e ∈ ir.cfg := by
  induction l generalizing ir with
  | nil => intro e h; exact h
  | cons a l ih =>
    intro e h
    simp only [List.foldl_cons] at h
    exact hf ir a e (ih (f ir a) e h)

theorem removeFunctionBlock_cfg (ir : IR) (b : Nat) : (ir.removeFunctionBlock b).cfg = ir.cfg := by
  unfold IR.removeFunctionBlock
  split
  · rfl
  · have : ∀ (c : Prop) [Decidable c] (a b : IR), a.cfg = ir.cfg → b.cfg = ir.cfg → (if c then a else b).cfg = ir.cfg := by
      intro c _ a b ha hb; split <;> assumption
    exact this _ _ _ rfl rfl

/-- **No fallthrough after a jump or return through joining**: when block1 has bytes, block2 is
empty and block1 does not fall through into it, joining them gives block1 no new edge at all. -/
theorem joinCode_dead_tail (ir : IR) (b1 : Block) (id2 : Nat) (h1 : b1.size ≠ 0)
    (hflow : (ir.inEdges id2).any (fun e => Edge.isFall e && e.src == .block b1.id) = false) :
    ∀ e ∈ (ir.joinCode b1 id2 0).cfg, e ∈ ir.cfg := by
  unfold IR.joinCode
  rw [removeFunctionBlock_cfg]
  have hz : (b1.size == 0) = false := by simp [h1]
  have hc : (b1.size != 0 && (0 : Nat) == 0 && !(ir.inEdges id2).any (fun e => Edge.isFall e && e.src == .block b1.id)) = true := by
    simp [h1, hflow]
  simp only [hz, hc, Bool.false_eq_true, if_false, if_true]
  intro e he
  have s3 := foldl_shrinks (fun (ir : IR) (e : Edge) => { ir with cfg := cfgDiscard ir.cfg e })
    (fun ir a e h => ((mem_cfgDiscard _ _ _).mp h).1) _ _ e he
  have s2 := foldl_shrinks (fun (ir : IR) (e : Edge) => { ir with cfg := cfgDiscard ir.cfg e })
    (fun ir a e h => ((mem_cfgDiscard _ _ _).mp h).1) _ _ e s3
  exact foldl_shrinks (fun (ir : IR) (e : Edge) =>
      if Edge.isFall e && e.src == .block b1.id then { ir with cfg := cfgDiscard ir.cfg e } else ir)
    (fun ir a e h => by
      split at h
      · exact ((mem_cfgDiscard _ _ _).mp h).1
      · exact h) _ _ e s2

end GtirbVerif.IR
